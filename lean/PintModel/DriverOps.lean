/-
  JSON codecs and the operation dispatcher of the line-protocol driver.
-/
import Lean.Data.Json
import PintModel.Model.UC
import PintModel.Model.Registry
import PintModel.Model.Load
import PintModel.Model.Quantity
import PintModel.Model.Pi
import PintModel.Model.EvalTree
import PintModel.Gen.EvalTables
import PintModel.Model.Format
import PintModel.Gen.FormatTables
import PintModel.Model.Context
import PintModel.Model.GroupSys
import PintModel.Model.Rewrite
import PintModel.Model.Wraps
import PintModel.Model.Measure
import PintModel.Model.Serial
import PintModel.Model.Numpy
import PintModel.Gen.DefaultRegistry

open Lean

namespace Pint

structure DriverState where
  reg : Registry
  ctx : Ctx.State := {}
  baseReg : Option Registry := none      -- the registry without context redefinitions
  gs : Option GS.State := none
  deriving Inhabited

/-! ### codecs -/

def parseInt? (s : String) : Option Int :=
  match s.toList with
  | '-' :: cs => (String.ofList cs).toNat?.map fun n => -(n : Int)
  | '+' :: cs => (String.ofList cs).toNat?.map fun n => (n : Int)
  | _ => s.toNat?.map fun n => (n : Int)

def parseRat? (s : String) : Option Rat :=
  match s.splitOn "/" with
  | [n] => (parseInt? n).map fun i => (i : Rat)
  | [n, d] => match parseInt? n, d.toNat? with
    | some i, some k => if k = 0 then none else some (mkRat i k)
    | _, _ => none
  | _ => none

def ratStr (r : Rat) : String := s!"{r.num}/{r.den}"

def ratJ (r : Rat) : Json := Json.str (ratStr r)

def jRat? (j : Json) : Option Rat :=
  match j with
  | .str s => parseRat? s
  | .num n => if n.exponent = 0 then some (n.mantissa : Rat) else none
  | _ => none

def jStr? (j : Json) : Option String := match j with | .str s => some s | _ => none
def jBool? (j : Json) : Option Bool := match j with | .bool b => some b | _ => none
def jArr? (j : Json) : Option (Array Json) := match j with | .arr a => some a | _ => none

def jUC? (j : Json) : Option UC := do
  let a ← jArr? j
  a.toList.mapM fun p => do
    let q ← jArr? p
    let k ← jStr? (← q[0]?)
    let v ← jRat? (← q[1]?)
    pure (k, v)

/-- sort by key (output canonicalisation; dict order is compared only where it matters) -/
def sortUC (u : UC) : UC := (u.toArray.qsort (fun a b => a.1 < b.1)).toList

def ucJ (u : UC) (sorted := true) : Json :=
  Json.arr ((if sorted then sortUC u else u).map (fun p => Json.arr #[Json.str p.1, ratJ p.2])).toArray

def field (j : Json) (k : String) : Option Json := (j.getObjVal? k).toOption
def fStr (j : Json) (k : String) : Option String := field j k >>= jStr?
def fRat (j : Json) (k : String) : Option Rat := field j k >>= jRat?
def fUC (j : Json) (k : String) : Option UC := field j k >>= jUC?
def fBool (j : Json) (k : String) : Option Bool := field j k >>= jBool?
def fStrList (j : Json) (k : String) : Option (List String) := do
  let a ← field j k >>= jArr?
  a.toList.mapM jStr?

def okJ (v : Json) : Json := Json.mkObj [("ok", v)]
def errJ (e : Err) : Json := Json.mkObj [("err", Json.str e.toString)]
def badJ (m : String) : Json := Json.mkObj [("bad", Json.str m)]

def exceptJ {α : Type} (f : α → Json) : Except Err α → Json
  | .ok v => okJ (f v)
  | .error e => errJ e

def optJ {α : Type} (f : α → Json) (e : Err) : Option α → Json
  | some v => okJ (f v)
  | none => errJ e

def jConv? (j : Json) : Option Conv := do
  let k ← fStr j "kind"
  match k with
  | "scale" => pure (.scale (← fRat j "scale"))
  | "offset" =>
    let o ← fRat j "offset"
    if o == 0 then pure (.scale (← fRat j "scale")) else pure (.offset (← fRat j "scale") o)
  | "log" => pure (.log (← fRat j "scale") (← fRat j "logbase") (← fRat j "logfactor"))
  | "irrational" => pure .irrational
  | _ => none

def jUnitDef? (j : Json) : Option UnitDef := do
  pure { name := ← fStr j "name", symbol := fStr j "symbol", aliases := (fStrList j "aliases").getD [],
         conv := ← (field j "conv" >>= jConv?), ref := ← fUC j "ref", isBase := (fBool j "is_base").getD false }

def jDefinition? (j : Json) : Option Definition := do
  let k ← fStr j "kind"
  match k with
  | "prefix" => pure (.pfx { name := ← fStr j "name", value := ← fRat j "value", symbol := fStr j "symbol",
                             aliases := (fStrList j "aliases").getD [] })
  | "unit" => pure (.unit (← jUnitDef? j))
  | "dim" => match fUC j "ref" with
      | some r => pure (.ddim (← fStr j "name") r)
      | none => pure (.dim (← fStr j "name"))
  | "alias" => pure (.alias (← fStr j "name") ((fStrList j "aliases").getD []))
  | "group" =>
      let us ← (field j "units" >>= jArr?)
      let defs ← us.toList.mapM jUnitDef?
      pure (.group { name := ← fStr j "name", using_ := (fStrList j "using").getD [], units := defs })
  | _ => none

def tripletsJ (l : List (String × String × String)) : Json :=
  Json.arr (l.map fun t => Json.arr #[Json.str t.1, Json.str t.2.1, Json.str t.2.2]).toArray

/-! ### UnitsContainer operations (C04) -/

def stepUC (j : Json) : Json :=
  match fStr j "f", fUC j "a" with
  | some f, some a =>
    let b := (fUC j "b").getD []
    let r := (fRat j "r").getD 0
    let k := (fStr j "k").getD ""
    let k2 := (fStr j "k2").getD ""
    match f with
    | "mul" => okJ (ucJ (a.mul b) false)
    | "div" => okJ (ucJ (a.div b) false)
    | "pow" => okJ (ucJ (a.pow r) false)
    | "inv" => okJ (ucJ a.inv false)
    | "add" => optJ (ucJ · false) .key (a.add k r)
    | "remove" => optJ (ucJ · false) .key (a.remove ((fStrList j "ks").getD []))
    | "rename" => optJ (ucJ · false) .key (a.rename k k2)
    | "eq" => okJ (Json.bool (a.beq b))
    | "canon" => okJ (Json.bool a.canonB)
    | _ => badJ s!"uc: unknown f {f}"
  | _, _ => badJ "uc: missing f/a"


/-! ### quantity arithmetic (C03, C05, C06) -/

def jQty? (j : Json) : Option Qty := do
  pure ⟨← fRat j "m", ← fUC j "u"⟩

def jOperand? (j : Json) : Option Operand :=
  match fRat j "num" with
  | some x => some (.num x)
  | none => (jQty? j).map .q

def qtyJ (q : Qty) : Json := Json.mkObj [("m", ratJ q.mag), ("u", ucJ q.units)]

/-- constructing a Quantity from a unit string registers every prefixed unit it mentions -/
def registerKeys (R : Registry) (u : UC) : Registry :=
  u.foldl (fun R p => match R.getName p.1 with | .ok (_, R') => R' | .error _ => R) R

def stepQty (R0 : Registry) (j : Json) : Json :=
  let mode : Mode := { autoconvert := (fBool j "auto").getD false }
  match fStr j "f", field j "a" >>= jQty? with
  | some f, some a =>
    let b? := field j "b" >>= jOperand?
    let R := registerKeys R0 a.units
    let R := match b? with | some (.q b) => registerKeys R b.units | _ => R
    let x := (fRat j "x").getD 0
    let cmp (op : CmpOp) : Json := match b? with
      | some b => exceptJ Json.bool (R.compare mode op a b)
      | none => badJ "q: b"
    match f with
    | "add" => (match b? with | some b => exceptJ qtyJ (R.addSub mode .add a b) | none => badJ "q: b")
    | "sub" => (match b? with | some b => exceptJ qtyJ (R.addSub mode .sub a b) | none => badJ "q: b")
    | "mul" => (match b? with | some b => exceptJ qtyJ (R.mulDiv mode .mul a b) | none => badJ "q: b")
    | "div" => (match b? with | some b => exceptJ qtyJ (R.mulDiv mode .div a b) | none => badJ "q: b")
    | "floordiv" => (match b? with | some b => exceptJ qtyJ (R.floordiv mode a b) | none => badJ "q: b")
    | "mod" => (match b? with | some b => exceptJ qtyJ (R.mod mode a b) | none => badJ "q: b")
    | "divmod" => (match b? with
        | some b => exceptJ (fun p => Json.arr #[qtyJ p.1, qtyJ p.2]) (R.divmod mode a b)
        | none => badJ "q: b")
    | "rtruediv" => exceptJ qtyJ (R.rtruediv mode x a)
    | "rfloordiv" => exceptJ qtyJ (R.rfloordiv mode x a)
    | "rmod" => exceptJ qtyJ (R.rmod mode x a)
    | "rsub" => -- number - quantity = -(quantity - number)
        exceptJ qtyJ (match R.addSub mode .sub a (.num x) with | .ok r => .ok (Registry.neg r) | .error e => .error e)
    | "pow" => exceptJ qtyJ (R.pow mode a x)
    | "neg" => okJ (qtyJ (Registry.neg a))
    | "abs" => okJ (qtyJ (Registry.abs a))
    | "eq" => (match b? with | some b => exceptJ Json.bool (R.qeq mode a b) | none => badJ "q: b")
    | "lt" => cmp .lt
    | "le" => cmp .le
    | "gt" => cmp .gt
    | "ge" => cmp .ge
    | "hash" => exceptJ (fun p => Json.arr #[ratJ p.1, ucJ p.2]) (R.hashKey mode a)
    | "bool" => exceptJ Json.bool (R.qbool a)
    | "to_root" => exceptJ qtyJ (R.toRoot mode a)
    | "to" => (match fUC j "dst" with
        | some d => exceptJ ratJ (R.convertTo mode a d)
        | none => badJ "q: dst")
    | "dimensionless" => exceptJ Json.bool (R.dimensionless mode a)
    | _ => badJ s!"q: unknown f {f}"
  | _, _ => badJ "q: missing f/a"


/-! ### column echelon form / pi theorem (C04) -/

def jMat? (j : Json) : Option Pi.Mat := do
  let a ← jArr? j
  a.toList.mapM fun r => do
    let ra ← jArr? r
    ra.toList.mapM jRat?

def matJ (m : Pi.Mat) : Json := Json.arr (m.map fun r => Json.arr (r.map ratJ).toArray).toArray

def stepPi (j : Json) : Json :=
  match fStr j "f", field j "matrix" >>= jMat? with
  | some "cef", some m =>
    let (e, i, s) := Pi.columnEchelonForm m
    okJ (Json.arr #[matJ e, matJ i, Json.arr (s.map (fun (n : Nat) => Json.num (JsonNumber.fromNat n))).toArray])
  | some "pi", some m => okJ (matJ (Pi.piRows m))
  | _, _ => badJ "pi: f/matrix"


/-! ### expression trees (C07) -/

def jToken? (j : Json) : Option Eval.Token := do
  let a ← jArr? j
  let k ← jStr? (← a[0]?)
  let t ← jStr? (← a[1]?)
  let kind := match k with
    | "op" => Eval.TokKind.op | "number" => .number | "name" => .name | "end" => .endmarker | "string" => .string | _ => .other
  pure ⟨kind, t⟩

def stepTree (j : Json) : Json :=
  match (field j "tokens" >>= jArr?) with
  | some a =>
    match a.toList.mapM jToken? with
    | some toks =>
      (match Eval.buildEvalTree Gen.opPriority toks with
        | .ok t => okJ (Json.str t.toStr)
        | .error e => Json.mkObj [("err", Json.str e.toString)])
    | none => badJ "tree: tokens"
  | none => badJ "tree: tokens"


/-! ### formatting (C09) -/

def stepFormat (R0 : Registry) (j : Json) : Json :=
  match fStr j "f" with
  | some "unit" =>
    match fUC j "u", fStr j "spec" with
    | some u, some spec =>
      let R := registerKeys R0 u
      match Fmt.getStyle Gen.formatOrder Gen.styles spec with
      | none => Json.mkObj [("err", Json.str "NoStyle")]
      | some st =>
        match Fmt.formatUnit R st u spec with
        | some s => okJ (Json.str s)
        | none => errJ .inexact
    | _, _ => badJ "format unit: u/spec"
  | some "split" =>
    match fStr j "spec", fStr j "default" with
    | some spec, some dflt =>
      let sep := fBool j "separate"
      let (m, u) := Fmt.splitFormat Gen.formatFlags spec dflt sep
      okJ (Json.arr #[Json.str m, Json.str u])
    | _, _ => badJ "format split: spec/default"
  | some "join_mu" =>
    match fStr j "joint", fStr j "m", fStr j "u" with
    | some jn, some m, some u => okJ (Json.str (Fmt.joinMu jn m u))
    | _, _, _ => badJ "join_mu"
  | _ => badJ "format: f"


/-! ### contexts (C11, C12) -/

def jKw? (j : Json) : Option (List (String × Rat)) := do
  let a ← jArr? j
  a.toList.mapM fun p => do
    let q ← jArr? p
    pure (← jStr? (← q[0]?), ← jRat? (← q[1]?))

def jRule? (j : Json) : Option Ctx.Rule := do
  let ps ← (field j "params" >>= jArr?)
  let params ← ps.toList.mapM fun p => do
    let q ← jArr? p
    let e ← jRat? (← q[1]?)
    pure (← jStr? (← q[0]?), e.num)
  pure { src := ← fUC j "src", dst := ← fUC j "dst", num := (fRat j "num").getD 1, units := (fUC j "units").getD [],
         params := params, vexp := ((fRat j "vexp").getD 1).num, fid := ((fRat j "fid").getD 0).num.toNat }

def jContext? (j : Json) : Option Ctx.Context := do
  let rs ← (field j "rules" >>= jArr?)
  let rules ← rs.toList.mapM jRule?
  let rd := ((field j "redefs" >>= jArr?).getD #[]).toList
  let redefs ← rd.mapM jUnitDef?
  pure { name := ← fStr j "name", aliases := (fStrList j "aliases").getD [],
         defaults := (field j "defaults" >>= jKw?).getD [], rules := rules, redefs := redefs }

def activeJ (st : Ctx.State) : Json :=
  Json.arr (st.active.map fun c => Json.arr #[Json.str c.name,
    Json.arr ((c.defaults.toArray.qsort (fun a b => a.1 < b.1)).map fun p => Json.arr #[Json.str p.1, ratJ p.2])]).toArray

def stepCtx (st : DriverState) (j : Json) : DriverState × Json :=
  let base := st.baseReg.getD st.reg
  let mode : Mode := { autoconvert := (fBool j "auto").getD false }
  match fStr j "f" with
  | some "add" =>
    match field j "ctx" >>= jContext? with
    | some c =>
      let entries := (c.name :: c.aliases).map fun n => (n, c)
      let ctxs := entries.foldl (fun acc e => (acc.filter (·.1 != e.1)) ++ [e]) st.ctx.contexts
      ({ st with ctx := { st.ctx with contexts := ctxs }, baseReg := some base }, okJ Json.null)
    | none => (st, badJ "ctx add: ctx")
  | some "enable" =>
    match fStrList j "names" with
    | some names =>
      let kw := (field j "kw" >>= jKw?).getD []
      match Ctx.enable st.ctx names kw with
      | .error _ => (st, errJ .key)
      | .ok ctx' =>
        match Ctx.effective base ctx'.active with
        | .error e => (st, errJ e)          -- failed activation: nothing changes
        | .ok R' => ({ st with ctx := ctx', reg := R', baseReg := some base }, okJ (activeJ ctx'))
    | none => (st, badJ "ctx enable: names")
  | some "disable" =>
    let n := (fRat j "n").map (·.num.toNat)
    let ctx' := Ctx.disable st.ctx n
    match Ctx.effective base ctx'.active with
    | .error e => (st, errJ e)
    | .ok R' => ({ st with ctx := ctx', reg := R', baseReg := some base }, okJ (activeJ ctx'))
  | some "active" => (st, okJ (activeJ st.ctx))
  | some "convert" =>
    match fRat j "x", fUC j "src", fUC j "dst" with
    | some x, some s, some d =>
      let R := registerKeys (registerKeys st.reg s) d
      if st.ctx.active.isEmpty || s.beq d then (st, exceptJ (fun r => Json.arr #[ratJ r]) (R.convert x s d mode.autoconvert))
      else
        match R.getDimensionality s, R.getDimensionality d with
        | .ok sd, .ok dd =>
          let paths := Ctx.allShortest (Ctx.edges st.ctx) sd dd
          if paths.isEmpty then (st, exceptJ (fun r => Json.arr #[ratJ r]) (R.convert x s d mode.autoconvert))
          else
            let results := paths.map fun p => Ctx.convertAlong R mode st.ctx x s d p
            (st, Json.mkObj [("any", Json.arr (results.map (exceptJ ratJ)).toArray)])
        | .error e, _ => (st, errJ e)
        | _, .error e => (st, errJ e)
    | _, _, _ => (st, badJ "ctx convert")
  | some "path" =>
    match fUC j "src", fUC j "dst" with
    | some s, some d =>
      (st, okJ (Json.arr ((Ctx.allShortest (Ctx.edges st.ctx) s d).map (fun p => Json.arr (p.map (ucJ ·)).toArray)).toArray))
    | _, _ => (st, badJ "ctx path")
  | some "clear" => ({ st with ctx := {}, reg := base, baseReg := none }, okJ Json.null)
  | _ => (st, badJ "ctx: f")


/-! ### groups and systems (C14) -/

def strsJ (l : List String) : Json := Json.arr ((l.toArray.qsort (· < ·)).map Json.str)

def defaultGS : Except Err GS.State := GS.fromDefs Gen.defaultRegistry Gen.defaultDefs

def jSystemDefn? (j : Json) : Option SystemDefn := do
  let rs ← (field j "rules" >>= jArr?)
  let rules ← rs.toList.mapM fun r => do
    let a ← jArr? r
    pure (← jStr? (← a[0]?), (a[1]? >>= jStr?))
  pure { name := ← fStr j "name", using_ := (fStrList j "using").getD [], rules := rules }

/-- canonical names with the same dimensionality as `u` (`dimensional_equivalents`) -/
def equivalentsOf (R : Registry) (u : UC) : Except Err (List String) :=
  match R.getDimensionality u with
  | .error e => .error e
  | .ok d =>
    let names := GS.dedup (R.units.map fun p => p.2.name)
    .ok (names.filter fun n => !(R.prefixed.contains n) && (match R.getDimensionality [(n, 1)] with
      | .ok d' => d'.beq d
      | .error _ => false))

def stepGS (st : DriverState) (j : Json) : DriverState × Json :=
  let R := st.reg
  let gs? : Except Err GS.State := match st.gs with | some g => .ok g | none => defaultGS
  match gs? with
  | .error e => (st, errJ e)
  | .ok gs =>
  let st := { st with gs := some gs }
  match fStr j "f" with
  | some "members" =>
    match fStr j "g" with
    | some g => (st, if (GS.findGroup gs g).isSome then okJ (strsJ (GS.groupMembers gs g)) else errJ .value)
    | none => (st, badJ "gs members: g")
  | some "sys_members" =>
    match fStr j "s" with
    | some s => (st, match GS.findSystem gs s with | some sy => okJ (strsJ (GS.systemMembers gs sy)) | none => errJ .value)
    | none => (st, badJ "gs sys_members: s")
  | some "base" =>
    match fUC j "u" with
    | some u => (st, exceptJ (fun p => Json.arr #[ratJ p.1, ucJ p.2]) (GS.getBaseUnits (registerKeys R u) gs u (fStr j "system")))
    | none => (st, badJ "gs base: u")
  | some "compat" =>
    match fUC j "u" with
    | some u =>
      if u.isEmpty then (st, okJ (strsJ [])) else
      (match equivalentsOf (registerKeys R u) u with
        | .error e => (st, errJ e)
        | .ok eq => (st, exceptJ strsJ (GS.compatibleUnits gs eq (fStr j "in"))))
    | none => (st, badJ "gs compat: u")
  | some "default_system" =>
    let s := fStr j "s"
    (match s with
      | some n => if (GS.findSystem gs n).isSome then ({ st with gs := some { gs with defaultSystem := some n } }, okJ Json.null) else (st, errJ .value)
      | none => ({ st with gs := some { gs with defaultSystem := none } }, okJ Json.null))
  | some "add_group" =>
    match fStr j "name" with
    | some n =>
      (match GS.addGroup gs n ((fStrList j "units").getD []) ((fStrList j "using").getD []) with
        | .ok gs' => ({ st with gs := some gs' }, okJ Json.null)
        | .error e => (st, errJ e))
    | none => (st, badJ "gs add_group: name")
  | some "add_units" =>
    match fStr j "g", fStrList j "units" with
    | some g, some us =>
      ({ st with gs := some { gs with groups := gs.groups.map fun x => if x.name == g then { x with units := GS.dedup (x.units ++ us) } else x } }, okJ Json.null)
    | _, _ => (st, badJ "gs add_units")
  | some "add_system" =>
    match field j "sys" >>= jSystemDefn? with
    | some sd => (match GS.addSystem R gs sd with
        | .ok gs' => ({ st with gs := some gs' }, okJ Json.null)
        | .error e => (st, errJ e))
    | none => (st, badJ "gs add_system")
  | some "attr" =>
    (match fStr j "s", fStr j "item" with
      | some s_, some it => (st, exceptJ Json.str (GS.systemAttr R s_ it))
      | _, _ => (st, badJ "gs attr: s/item"))
  | some "systems" => (st, okJ (strsJ (gs.systems.map (·.name))))
  | some "groups" => (st, okJ (strsJ (gs.groups.map (·.name))))
  | _ => (st, badJ "gs: f")


/-! ### unit-rewriting helpers (C15) -/

def stepRw (st : DriverState) (j : Json) : DriverState × Json :=
  let R0 := st.reg
  let mode : Mode := { autoconvert := (fBool j "auto").getD false }
  match fStr j "f" with
  | some "si_table" => (st, okJ (Json.arr ((Rw.siTable R0).map fun p => Json.arr #[ratJ (p.1 : Rat), Json.str p.2]).toArray))
  | some "ratio" =>
    (match fStr j "a", fStr j "b" with
      | some a, some b => (st, exceptJ (fun r => match r with | some x => ratJ x | none => Json.null) (Rw.dimRatio (registerKeys R0 [(a, 1), (b, 1)]) a b))
      | _, _ => (st, badJ "rw ratio: a/b"))
  | some "power" =>
    (match fRat j "m", fRat j "p" with
      | some m, some p => (st, okJ (ratJ ((Rw.compactPower m p.num : Int) : Rat)))
      | _, _ => (st, badJ "rw power: m/p"))
  | some f =>
    (match field j "a" >>= jQty? with
      | none => (st, badJ "rw: a")
      | some a =>
        let R := registerKeys R0 a.units
        match f with
        | "root" => (st, exceptJ qtyJ (R.toRoot mode a))
        | "reduced" => (st, exceptJ qtyJ (Rw.toReduced R mode a))
        | "reduced_units" => (st, okJ (ucJ (Rw.reducedUnits (Rw.ratioFn R) a.units)))
        | "infer" => (st, exceptJ (ucJ ·) (Rw.inferBaseUnit R a.units))
        | "compact" =>
          let unit := fUC j "unit"
          let R := match unit with | some u => registerKeys R u | none => R
          (st, exceptJ qtyJ (Rw.toCompact R mode a unit))
        | "mul_reduced" | "div_reduced" =>
          (match field j "b" >>= jQty? with
            | none => (st, badJ "rw: b")
            | some b =>
              let R := registerKeys R b.units
              match R.mulDiv mode (if f == "mul_reduced" then .mul else .div) a (.q b) with
              | .error e => (st, errJ e)
              | .ok r => (st, exceptJ qtyJ (Rw.toReduced R mode r)))
        | "base" =>
          let gs? : Except Err GS.State := match st.gs with | some g => .ok g | none => defaultGS
          (match gs? with
            | .error e => (st, errJ e)
            | .ok gs => ({ st with gs := some gs }, exceptJ qtyJ (Rw.toBase R gs mode a)))
        | _ => (st, badJ s!"rw: unknown f {f}"))
  | none => (st, badJ "rw: f")


/-! ### wraps / check decorators (C17) -/

def jVal? (j : Json) : Option Wraps.Val :=
  match fRat j "num" with
  | some x => some (.num x)
  | none => do pure (.q (← fRat j "m") (← fUC j "u"))

def valJ : Wraps.Val → Json
  | .q m u => Json.mkObj [("m", ratJ m), ("u", ucJ u)]
  | .num x => Json.mkObj [("num", ratJ x)]

def jSpec? (j : Json) : Option Wraps.Spec :=
  match j with
  | Json.null => some .none
  | _ => match fUC j "unit" with
    | some u => some (.unit u)
    | none => (fUC j "ref").map .ref

def jKwVal? (j : Json) : Option (List (String × Wraps.Val)) := do
  let a ← jArr? j
  a.toList.mapM fun e => do
    let p ← jArr? e
    pure (← jStr? (← p[0]?), ← jVal? (← p[1]?))

def jSig? (j : Json) : Option Wraps.Sig := do
  let a ← jArr? j
  a.toList.mapM fun e => do
    pure { name := ← fStr e "name", default := (field e "default" >>= jVal?) }

def stepWraps (st : DriverState) (j : Json) : DriverState × Json :=
  let R0 := st.reg
  let conv : Rat → UC → UC → Except Err Rat := fun x src dst =>
    (registerKeys (registerKeys R0 src) dst).convertNM false x src dst
  let dimOf : Wraps.Val → Except Err UC := fun v => match v with
    | .q _ u => (registerKeys R0 u).getDimensionality u
    | .num _ => .ok []
  match fStr j "f", field j "sig" >>= jSig?, (field j "args" >>= jArr?) >>= (fun a => a.toList.mapM jVal?), field j "kw" >>= jKwVal? with
  | some "call", some sig, some args, some kw =>
    let specs? := (field j "specs" >>= jArr?) >>= (fun a => a.toList.mapM jSpec?)
    let ret? : Option Wraps.Ret := match field j "ret" with
      | some r => (match field r "tuple" >>= jArr? with
          | some a => (a.toList.mapM jSpec?).map .tuple
          | none => (field r "single" >>= jSpec?).map .single)
      | none => none
    let results? := (field j "results" >>= jArr?) >>= (fun a => a.toList.mapM jRat?)
    (match specs?, ret?, results? with
      | some specs, some ret, some results =>
        (st, exceptJ (fun (r : List Wraps.Val × List (String × Wraps.Val) × List Wraps.Val) =>
          Json.mkObj [("recv", Json.arr (r.1.map valJ).toArray),
                      ("kw", Json.arr (((r.2.1.toArray.qsort (fun a b => a.1 < b.1)).map fun e => Json.arr #[Json.str e.1, valJ e.2]))),
                      ("ret", Json.arr (r.2.2.map valJ).toArray)])
          (Wraps.wrapperCall conv specs ret ((fBool j "strict").getD true) sig args kw results))
      | _, _, _ => (st, badJ "wraps call: specs/ret/results"))
  | some "check", some sig, some args, some kw =>
    let dims? : Option (List (Option UC)) := (field j "dims" >>= jArr?) >>= (fun a => a.toList.mapM fun d =>
      match d with | Json.null => some none | _ => (jUC? d).map some)
    (match dims? with
      | some dims => (st, exceptJ (fun _ => Json.null) (Wraps.checkCall dimOf dims sig args kw))
      | none => (st, badJ "wraps check: dims"))
  | _, _, _, _ => (st, badJ "wraps: f/sig/args/kw")


/-! ### measurements (C19) -/

def jMArg? (j : Json) : Option Meas.Arg :=
  match fRat j "num" with
  | some x => some (.num x)
  | none =>
    match fRat j "n", fRat j "s" with
    | some n, some s => some (.ufl n s)
    | _, _ => do pure (.q (← fRat j "m") (← fUC j "u"))

def measJ (m : Meas.M) : Json := Json.mkObj [("n", ratJ m.nominal), ("s", ratJ m.std), ("u", ucJ m.units)]

def tokKindStr : Eval.TokKind → String
  | .op => "op" | .number => "number" | .name => "name" | .endmarker => "end" | .string => "string" | .other => "other"

def stepMeas (st : DriverState) (j : Json) : DriverState × Json :=
  let R0 := st.reg
  let toUnits : Rat → UC → UC → Except Err Rat := fun x src dst =>
    (registerKeys (registerKeys R0 src) dst).convert x src dst false
  match fStr j "f" with
  | some "mk" =>
    (match field j "value" >>= jMArg? with
      | some v => (st, exceptJ measJ (Meas.mk toUnits v (field j "error" >>= jMArg?) (fUC j "units")))
      | none => (st, badJ "meas mk: value"))
  | some "plus_minus" =>
    (match field j "q" >>= jQty?, field j "error" >>= jMArg? with
      | some q, some e => (st, exceptJ measJ (Meas.plusMinus toUnits q e ((fBool j "relative").getD false)))
      | _, _ => (st, badJ "meas plus_minus: q/error"))
  | some "convert" =>
    (match fRat j "n", fRat j "s", fUC j "u", fUC j "dst" with
      | some n, some s, some u, some dst =>
        (match toUnits 0 u dst, toUnits 1 u dst with
          | .ok b, .ok ab => (st, okJ (measJ (Meas.convertAffine ⟨n, s, u⟩ (ab - b) b dst)))
          | .error e, _ => (st, errJ e)
          | _, .error e => (st, errJ e))
      | _, _, _, _ => (st, badJ "meas convert"))
  | some "rel" =>
    (match fRat j "n", fRat j "s" with
      | some n, some s => (st, exceptJ ratJ (Meas.rel ⟨n, s, []⟩))
      | _, _ => (st, badJ "meas rel"))
  | some "tokens" =>
    (match (field j "tokens" >>= jArr?) >>= (fun a => a.toList.mapM jToken?) with
      | some toks =>
        (st, exceptJ (fun (l : List Eval.Token) => Json.arr (l.map fun t => Json.arr #[Json.str (tokKindStr t.kind), Json.str t.text]).toArray)
          (Meas.uncTokens toks.length toks))
      | none => (st, badJ "meas tokens"))
  | some "paren_std" =>
    (match fStr j "nominal", fStr j "std" with
      | some a, some b => (st, okJ (Json.str (Meas.parenStd a b)))
      | _, _ => (st, badJ "meas paren_std"))
  | _ => (st, badJ "meas: f")


/-! ### serialisation (C18) -/

def stepSer (st : DriverState) (j : Json) : DriverState × Json :=
  let R0 := st.reg
  match fStr j "f" with
  | some "tuple" =>
    (match field j "a" >>= jQty? with
      | some q => (st, okJ (qtyJ (Ser.fromTuple (Ser.toTuple q))))
      | none => (st, badJ "ser tuple: a"))
  | some "unpickle" =>
    (match field j "a" >>= jQty? with
      | some q =>
        (match Ser.unpickleQ R0 (Ser.reduceQ q) with
          | .error e => (st, errJ e)
          | .ok (R', q') =>
            let added := (q.units.keys.filter fun k => R'.units.contains k)
            (st, okJ (Json.mkObj [("q", qtyJ q'), ("registered", strsJ added)])))
      | none => (st, badJ "ser unpickle: a"))
  | some "cross" =>
    (match fStr j "op" with
      | some _ => (st, exceptJ (fun _ => Json.null) (Ser.crossOp .add 0 1))
      | none => (st, badJ "ser cross: op"))
  | _ => (st, badJ "ser: f")


/-! ### NumPy unit bookkeeping (C16) -/

def jUOp? (s : String) (size : Option Rat) : Option Np.UOp :=
  match s with
  | "sum" => some .sum | "mul" => some .mul | "delta" => some .delta | "delta,div" => some .deltaDiv
  | "div" => some .div | "invdiv" => some .invdiv | "variance" => some .variance | "square" => some .square
  | "sqrt" => some .sqrt | "cbrt" => some .cbrt | "reciprocal" => some .reciprocal
  | "size" => size.map .size
  | _ => none

def stepNp (st : DriverState) (j : Json) : DriverState × Json :=
  let R0 := st.reg
  match fStr j "f" with
  | some "unit" =>
    (match fStr j "uop", fUC j "first", field j "args" >>= jArr? with
      | some o, some first, some a =>
        let args : List (Option UC) := a.toList.map fun x => match x with | Json.null => none | _ => jUC? x
        (match jUOp? o (fRat j "size") with
          | some op =>
            let R := args.foldl (fun R a => match a with | some u => registerKeys R u | none => R) (registerKeys R0 first)
            (st, exceptJ (ucJ ·) (Np.outputUnit R {} op first args))
          | none => (st, badJ "np unit: uop"))
      | _, _, _ => (st, badJ "np unit: uop/first/args"))
  | some "meaning" =>
    (match fStr j "input", fStr j "output" with
      | some i, some o => (st, okJ (Json.str (Np.meaning i o)))
      | _, _ => (st, badJ "np meaning"))
  | _ => (st, badJ "np: f")

/-! ### registry queries (C01, C02, C08) -/

def stepReg (st : DriverState) (op : String) (j : Json) : DriverState × Json :=
  let R := st.reg
  match op with
  | "dim" =>
    match fUC j "u" with
    | some u => (st, exceptJ (ucJ ·) (R.getDimensionality u))
    | none => (st, badJ "dim: u")
  | "root" =>
    match fUC j "u" with
    | some u => (st, exceptJ (fun p => Json.arr #[ratJ p.1, ucJ p.2]) (R.getRootUnits u))
    | none => (st, badJ "root: u")
  | "factor" =>
    match fUC j "src", fUC j "dst" with
    | some s, some d => (st, exceptJ ratJ (R.convFactor s d))
    | _, _ => (st, badJ "factor: src/dst")
  | "convert" =>
    match fRat j "x", fUC j "src", fUC j "dst" with
    | some x, some s, some d =>
      if (fBool j "spelled").getD false then
        -- canonicalise the spellings first, as `parse_units` does
        let asDelta := (fBool j "as_delta").getD false
        match R.parseUnitsContainer s asDelta (fBool j "cs") with
        | .error e => (st, errJ e)
        | .ok (s', R1) =>
          match R1.parseUnitsContainer d asDelta (fBool j "cs") with
          | .error e => (st, errJ e)
          | .ok (d', R2) => (st, exceptJ ratJ (R2.convert x s' d' ((fBool j "auto").getD false)))
      else (st, exceptJ ratJ (R.convert x s d ((fBool j "auto").getD false)))
    | _, _, _ => (st, badJ "convert: x/src/dst")
  | "parse_units" =>
    match fUC j "u" with
    | some u =>
      match R.parseUnitsContainer u ((fBool j "as_delta").getD true) (fBool j "cs") with
      | .ok (r, R') => (if (fBool j "keep").getD false then { st with reg := R' } else st, okJ (ucJ r false))
      | .error e => (st, errJ e)
    | none => (st, badJ "parse_units: u")
  | "parse_unit_name" =>
    match fStr j "s" with
    | some s => (st, okJ (tripletsJ (R.parseUnitName s (fBool j "cs"))))
    | none => (st, badJ "parse_unit_name: s")
  | "resolve" =>
    match fStr j "s" with
    | some s => (st, exceptJ (fun p => Json.str p.1) (R.resolve s (fBool j "cs")))
    | none => (st, badJ "resolve: s")
  | "get_name" =>
    match fStr j "s" with
    | some s =>
      match R.getName s (fBool j "cs") with
      | .ok (n, R') => ({ st with reg := R' }, okJ (Json.str n))
      | .error e => (st, errJ e)
    | none => (st, badJ "get_name: s")
  | "get_symbol" =>
    match fStr j "s" with
    | some s => (st, exceptJ Json.str (R.getSymbol s (fBool j "cs")))
    | none => (st, badJ "get_symbol: s")
  | "unit_info" =>
    match fStr j "s" with
    | some s =>
      match R.units.find? s with
      | some d => (st, okJ (Json.mkObj [("name", Json.str d.name), ("symbol", Json.str d.sym),
                  ("mult", Json.bool d.isMult), ("base", Json.bool d.isBase)]))
      | none => (st, errJ .key)
    | none => (st, badJ "unit_info: s")
  | "unit_def" =>
    match fStr j "s" with
    | some s =>
      match R.units.find? s with
      | some d =>
        let convJ : Json := match d.conv with
          | .scale sc => Json.mkObj [("kind", "scale"), ("scale", ratJ sc)]
          | .offset sc o => Json.mkObj [("kind", "offset"), ("scale", ratJ sc), ("offset", ratJ o)]
          | .log sc b f => Json.mkObj [("kind", "log"), ("scale", ratJ sc), ("logbase", ratJ b), ("logfactor", ratJ f)]
          | .irrational => Json.mkObj [("kind", "irrational")]
        (st, okJ (Json.mkObj [("name", Json.str d.name), ("symbol", Json.str d.sym),
          ("aliases", Json.arr (d.aliases.map Json.str).toArray), ("conv", convJ), ("ref", ucJ d.ref),
          ("is_base", Json.bool d.isBase)]))
      | none => (st, errJ .key)
    | none => (st, badJ "unit_def: s")
  | "prefix_def" =>
    match fStr j "s" with
    | some s =>
      match R.prefixes.find? s with
      | some p => (st, okJ (Json.mkObj [("name", Json.str p.name), ("symbol", Json.str p.sym), ("value", ratJ p.value),
          ("aliases", Json.arr (p.aliases.map Json.str).toArray)]))
      | none => (st, errJ .key)
    | none => (st, badJ "prefix_def: s")
  | "dim_def" =>
    match fStr j "s" with
    | some s =>
      match R.dims.find? s with
      | some d => (st, okJ (match d.ref with | some r => ucJ r | none => Json.null))
      | none => (st, errJ .key)
    | none => (st, badJ "dim_def: s")
  | "tables" =>
    (st, okJ (Json.mkObj [("units", Json.arr (R.units.keys.map Json.str).toArray),
      ("prefixes", Json.arr (R.prefixes.keys.map Json.str).toArray),
      ("dims", Json.arr (R.dims.keys.map Json.str).toArray),
      ("base_units", Json.arr (R.baseUnits.map Json.str).toArray)]))
  | "reset" => ({ reg := Gen.defaultRegistry }, okJ Json.null)
  | "define" =>
    match field j "def" >>= jUnitDef? with
    | some d => ({ st with reg := R.addUnit d, baseReg := st.baseReg.map (·.addUnit d) }, okJ Json.null)
    | none => (st, badJ "define: def")
  | "load" =>
    match field j "defs" >>= jArr? with
    | some a =>
      match a.toList.mapM jDefinition? with
      | some ds =>
        match Registry.load ds Gen.lowerTable with
        | some R' => ({ st with reg := { R' with caseSensitive := (fBool j "case_sensitive").getD true } },
                      okJ (Json.num R'.units.length))
        | none => (st, errJ .key)
      | none => (st, badJ "load: cannot decode definitions")
    | none => (st, badJ "load: defs")
  | "config" =>
    ({ st with reg := { R with caseSensitive := (fBool j "case_sensitive").getD R.caseSensitive } }, okJ Json.null)
  | _ => (st, badJ s!"unknown op {op}")

def step (st : DriverState) (j : Json) : DriverState × Json :=
  match fStr j "op" with
  | none => (st, badJ "no op")
  | some "uc" => (st, stepUC j)
  | some "q" => (st, stepQty st.reg j)
  | some "pi" => (st, stepPi j)
  | some "tree" => (st, stepTree j)
  | some "format" => (st, stepFormat st.reg j)
  | some "ctx" => stepCtx st j
  | some "gs" => stepGS st j
  | some "rw" => stepRw st j
  | some "wraps" => stepWraps st j
  | some "meas" => stepMeas st j
  | some "ser" => stepSer st j
  | some "np" => stepNp st j
  | some op => stepReg st op j

end Pint
