/-
  C13 — the memo architecture pint implements, read from the source, follows a covering policy.

  `Gen/CachePolicy.lean` (regenerated from `pint/facets/{plain,context,system}/registry.py` on every run) says which memo
  tables a definition, a change of the context stack and a change of the default system empty, and which tables are kept
  per context stack.  `dependsOn` is the hand-written specification of what each table's answers depend on.  The theorems:
  the source's policy covers every dependency, and therefore (`run_transparent`) every history of queries interleaved with
  definitions, context switches and default-system changes is answered as if there were no table at all.
-/
import PintModel.Props.C13
import PintModel.Gen.CachePolicy
import PintModel.Proofs.CachePolicyLemmas

namespace Pint.Props.C13Policy
open Pint.CachePolicy

/-- specification (hand-written): the components of the declarative state the answers held in each memo table depend on.
    Parsed names and dimensionalities do not depend on the context stack *because* a context can only redefine an existing
    unit with the same dimensionality — the guard in `_redefine`, read from the source (`redefineKeepsDim`). -/
def dependsOn : Comp → Table → Bool
  | .defs, .dimEquiv => false
  | .defs, _ => true
  | .ctx, .rootUnits => true
  | .ctx, .convFactor => true
  | .ctx, .baseUnits => true
  | .ctx, .dimensionality => !Pint.Gen.CachePolicy.redefineKeepsDim
  | .sys, .baseUnits => true
  | _, _ => false

/-- the translator recognised every construct it looked for -/
theorem C13_policy_recognised : Pint.Gen.CachePolicy.problems = [] := by decide

/-- **the policy of the source covers every dependency** (a table whose answers depend on a component is emptied by a
    change of that component or kept per value of it) -/
theorem C13_source_policy_covers : Covers Pint.Gen.CachePolicy.policy dependsOn :=
  covers_of_coversB (by decide)

/-- **any history**: queries of any table interleaved with definitions, context switches and default-system changes, run
    through the memo tables under the source's policy, are answered like the memo-free specification -/
theorem C13_source_policy_transparent {κ ν : Type} [DecidableEq κ] (spec : Table → St → κ → ν)
    (hl : Local spec dependsOn) (s : St) (ops : List (Op κ)) :
    run Pint.Gen.CachePolicy.policy spec s (fun _ => []) ops = runSpec spec s ops :=
  run_transparent C13_source_policy_covers hl s _ (inv_empty _ _ _ _) ops

/-- the same from any reachable table contents (e.g. the tables `_build_cache` pre-fills) -/
theorem C13_source_policy_transparent_from {κ ν : Type} [DecidableEq κ] (spec : Table → St → κ → ν)
    (hl : Local spec dependsOn) (s : St) (m : Memos κ ν) (hi : Inv Pint.Gen.CachePolicy.policy spec dependsOn s m)
    (ops : List (Op κ)) : run Pint.Gen.CachePolicy.policy spec s m ops = runSpec spec s ops :=
  run_transparent C13_source_policy_covers hl s m hi ops

/-- a specification that uses exactly its dependencies: the hypotheses are satisfiable, non-trivially -/
def demoSpec (t : Table) (s : St) (k : Nat) : List Nat := k :: (allComps.filter (dependsOn · t)).map s

theorem C13_demo_local : Local demoSpec dependsOn := by
  intro t s s' h k
  unfold demoSpec
  congr 1
  apply List.map_congr_left
  intro c hc
  exact h c (List.mem_filter.mp hc).2

/-- a concrete history through the source's policy (base units asked, system switched, asked again, context entered,
    unit defined, asked again): a test of the executable model, labelled as a test -/
example : run Pint.Gen.CachePolicy.policy demoSpec (fun _ => 0) (fun _ => [])
      [.query .baseUnits 7, .change .sys 1, .query .baseUnits 7, .change .ctx 5, .query .rootUnits 7, .query .baseUnits 7,
       .change .defs 1, .query .rootUnits 7, .change .ctx 0, .query .rootUnits 7, .query .baseUnits 7]
    = runSpec demoSpec (fun _ => 0)
      [.query .baseUnits 7, .change .sys 1, .query .baseUnits 7, .change .ctx 5, .query .rootUnits 7, .query .baseUnits 7,
       .change .defs 1, .query .rootUnits 7, .change .ctx 0, .query .rootUnits 7, .query .baseUnits 7] := by decide

/-- **necessity**: a policy that leaves one dependency unanswered serves a stale answer on a three-step history (the shape
    of the findings F8a, F8b, F33 and of the seeded changes that drop a table from `_clear_memos_of`) -/
theorem C13_uncovered_counterexample :
    ∃ (p : Policy) (dep : Comp → Table → Bool) (spec : Table → St → Nat → Nat) (ops : List (Op Nat)),
      Local spec dep ∧ ¬ Covers p dep ∧ run p spec (fun _ => 0) (fun _ => []) ops ≠ runSpec spec (fun _ => 0) ops := by
  refine ⟨⟨fun _ _ => false, fun _ _ => false⟩, fun c t => decide (c = .defs ∧ t = .rootUnits), fun t s _ => if t = .rootUnits then s .defs else 0,
    [.query .rootUnits 0, .change .defs 1, .query .rootUnits 0], ?_, ?_, by decide⟩
  · intro t s s' h k
    cases t <;> first | exact h .defs (by decide) | rfl | simp
  · intro h
    have := h .defs .rootUnits (by decide)
    simp at this

end Pint.Props.C13Policy
