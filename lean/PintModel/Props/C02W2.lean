/-
  C02 — witness chunk 2: the bundled registry satisfies the exactness hypothesis `WFintOn` on the
  reference-closed set `Gen.exactChunk2` (one kernel evaluation; the six chunks build in parallel).
-/
import PintModel.Props.C02

namespace Pint.Props.C02
open Pint

set_option maxRecDepth 100000 in
theorem C02_wfint_chunk2 : Gen.defaultRegistry.WFintOn (fun k => k ∈ Gen.exactChunk2) :=
  wfintOn_of_B (by decide +kernel)

end Pint.Props.C02
