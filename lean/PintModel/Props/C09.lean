/-
  C09 — every textual format denotes the unit exactly; plain-text formats round-trip.

  Model: `Fmt.prepare` (`prepare_compount_unit`), `Fmt.formatter`, `Fmt.formatUnit`,
  `Fmt.getStyle` (dispatch), `Fmt.splitFormat`, style tables `Gen.styles` regenerated from
  the formatter sources on every run.
-/
import PintModel.Model.Format
import PintModel.Gen.FormatTables
import PintModel.Gen.DefaultRegistry

namespace Pint.Props.C09
open Pint Pint.Fmt

/-! ### nothing is lost or duplicated: numerator ∪ denominator is a permutation of the unit's items -/

theorem insertBy_perm {α : Type} (le : α → α → Bool) (x : α) (l : List α) :
    (insertBy le x l).Perm (x :: l) := by
  induction l with
  | nil => exact List.Perm.refl _
  | cons y ys ih =>
    unfold insertBy
    split
    · exact List.Perm.refl _
    · exact (List.Perm.cons y ih).trans (List.Perm.swap x y ys)

theorem sortBy_perm {α : Type} (le : α → α → Bool) (l : List α) : (sortBy le l).Perm l := by
  induction l with
  | nil => exact List.Perm.refl _
  | cons x xs ih =>
    show (insertBy le x (sortBy le xs)).Perm (x :: xs)
    exact (insertBy_perm le x _).trans (List.Perm.cons x ih)

theorem map_filter_items (u : UC) (q : String × Rat → Bool) :
    ((u.map fun (k, v) => ((k, v, k) : String × Rat × String)).filter (fun t => q (t.1, t.2.1))).map (fun t => (t.1, t.2.1))
      = u.filter q := by
  induction u with
  | nil => rfl
  | cons p t ih =>
    obtain ⟨k, v⟩ := p
    simp only [List.map_cons, List.filter_cons]
    by_cases hq : q (k, v) = true
    · simp only [hq, if_true, List.map_cons]
      rw [ih]
    · simp only [hq]
      exact ih

/-- every (display name, exponent) pair of a non-empty unit appears exactly once, in the
    numerator iff its exponent is not negative (long names: display name = unit name) -/
theorem C09_prepare_faithful (R : Registry) (u : UC) (hne : u ≠ []) :
    let r := prepare R u false true
    (r.1 ++ r.2).Perm ((u.filter (fun p => !(p.2 < 0))) ++ (u.filter (fun p => p.2 < 0))) ∧
    (∀ p ∈ r.1, ¬ p.2 < 0) ∧ (∀ p ∈ r.2, p.2 < 0) := by
  intro r
  have hemp : UC.isEmpty u = false := by
    cases u with
    | nil => exact absurd rfl hne
    | cons _ _ => rfl
  -- unfold the definition once, in a convenient shape
  have hr : r = ((sortBy (fun (a b : String × Rat × String) => decide (a.2.2 ≤ b.2.2))
                  ((u.map fun (k, v) => (k, v, k)).partition (fun t => t.2.1 < 0)).2).map (fun t => (t.1, t.2.1)),
                 (sortBy (fun (a b : String × Rat × String) => decide (a.2.2 ≤ b.2.2))
                  ((u.map fun (k, v) => (k, v, k)).partition (fun t => t.2.1 < 0)).1).map (fun t => (t.1, t.2.1))) := by
    show prepare R u false true = _
    unfold prepare
    simp [hemp]
  have hmapfilter := fun q => map_filter_items u q
  rw [hr]
  simp only [List.partition_eq_filter_filter]
  refine ⟨?_, ?_, ?_⟩
  · apply List.Perm.append
    · have := (sortBy_perm (fun (a b : String × Rat × String) => decide (a.2.2 ≤ b.2.2))
        ((u.map fun (k, v) => ((k, v, k) : String × Rat × String)).filter (fun t => !(decide (t.2.1 < 0))))).map (fun t => (t.1, t.2.1))
      refine this.trans ?_
      rw [← hmapfilter (fun p => !(decide (p.2 < 0)))]
    · have := (sortBy_perm (fun (a b : String × Rat × String) => decide (a.2.2 ≤ b.2.2))
        ((u.map fun (k, v) => ((k, v, k) : String × Rat × String)).filter (fun t => decide (t.2.1 < 0)))).map (fun t => (t.1, t.2.1))
      refine this.trans ?_
      rw [← hmapfilter (fun p => decide (p.2 < 0))]
  · intro p hp
    simp only [List.mem_map] at hp
    obtain ⟨t, ht, rfl⟩ := hp
    have := (sortBy_perm _ _).mem_iff.mp ht
    simp only [List.mem_filter] at this
    have h2 := this.2
    simp only [Function.comp, Bool.not_eq_true', decide_eq_false_iff_not] at h2
    exact h2
  · intro p hp
    simp only [List.mem_map] at hp
    obtain ⟨t, ht, rfl⟩ := hp
    have := (sortBy_perm _ _).mem_iff.mp ht
    simp only [List.mem_filter, decide_eq_true_eq] at this
    exact this.2

/-- integer exponents are always rendered exactly -/
theorem C09_expText_int (n : Int) : expText (n : Rat) = some (toString n) := by
  unfold expText
  simp

/-- the empty unit renders as "dimensionless" in long formats and as the empty string with `~` -/
theorem C09_dimensionless (R : Registry) :
    prepare R [] false true = ([("dimensionless", 1)], []) ∧ prepare R [] true true = ([], []) := by
  constructor <;> rfl

/-- `join_mu`: "3" and "1 / m" become "3 / m", never "3 1 / m" -/
theorem C09_join_mu_empty (j m : String) : joinMu j m "" = m := by
  unfold joinMu; simp

/-- the whole unit text is joined to the magnitude: only a leading "1" of a "1 / …" rendering is dropped
    ("3 / m"), nothing else of the unit text is ever cut — in particular "1/s" (compact, pretty, HTML) stays -/
theorem C09_join_mu_whole (j m u : String) (hne : u ≠ "") (h : ("1 / ".toList.isPrefixOf u.toList) = false) :
    joinMu j m u = subst j [m, u] := by
  unfold joinMu
  have : (u == "") = false := by simpa using hne
  simp only [this, h, Bool.false_eq_true, if_false]

theorem C09_join_mu_ratio (j m u : String) (hne : u ≠ "") (h : ("1 / ".toList.isPrefixOf u.toList) = true) :
    joinMu j m u = subst j [m, String.ofList (u.toList.drop 2)] := by
  unfold joinMu
  have : (u == "") = false := by simpa using hne
  simp only [this, h, Bool.false_eq_true, if_false, if_true]

example : joinMu "{} {}" "3" "1/s" = "3 1/s" ∧ joinMu "{} {}" "3" "1 / second" = "3 / second"
    ∧ joinMu "{} {}" "3" "meter" = "3 meter" := by decide +kernel

/-! ### the regenerated style tables: every dispatch key of a plain-text / markup formatter has a
    style, styles render as ratios, and the standard renderings come out as documented -/

theorem C09_styles_present :
    (["D", "C", "P", "H", "L"].all fun k => (Gen.styles.find? (·.key == k)).isSome) = true ∧
    (Gen.styles.all (·.asRatio)) = true := by decide

/-- dispatch: longest keys first where it matters ("Lx" before "L"), default "D" -/
theorem C09_dispatch :
    (getStyle Gen.formatOrder Gen.styles "").map (·.key) = some "D" ∧
    (getStyle Gen.formatOrder Gen.styles "~P").map (·.key) = some "P" ∧
    (getStyle Gen.formatOrder Gen.styles ".3f~C").map (·.key) = some "C" ∧
    (getStyle Gen.formatOrder Gen.styles "L").map (·.key) = some "L" ∧
    (getStyle Gen.formatOrder Gen.styles "Lx") = none ∧
    (getStyle Gen.formatOrder Gen.styles "H").map (·.key) = some "H" := by decide +kernel

private def acc : UC := [("meter", 1), ("second", -2)]
private def visc : UC := [("kilogram", 1), ("meter", -1), ("second", -1)]

set_option maxRecDepth 100000 in
/-- reference renderings with the regenerated styles (plain-text formats are Python-parsable) -/
theorem C09_reference_renderings :
    (do let st ← getStyle Gen.formatOrder Gen.styles "D"; formatUnit Gen.defaultRegistry st acc "D") = some "meter / second ** 2" ∧
    (do let st ← getStyle Gen.formatOrder Gen.styles "C"; formatUnit Gen.defaultRegistry st acc "C") = some "meter/second**2" ∧
    (do let st ← getStyle Gen.formatOrder Gen.styles "P"; formatUnit Gen.defaultRegistry st acc "P") = some "meter/second²" ∧
    (do let st ← getStyle Gen.formatOrder Gen.styles "~P"; formatUnit Gen.defaultRegistry st acc "~P") = some "m/s²" ∧
    (do let st ← getStyle Gen.formatOrder Gen.styles "H"; formatUnit Gen.defaultRegistry st visc "H") = some "kilogram/(meter second)" ∧
    (do let st ← getStyle Gen.formatOrder Gen.styles "L"; formatUnit Gen.defaultRegistry st acc "L")
        = some "\\frac{\\mathrm{meter}}{\\mathrm{second}^{2}}" ∧
    (do let st ← getStyle Gen.formatOrder Gen.styles "D"; formatUnit Gen.defaultRegistry st visc "D")
        = some "kilogram / meter / second" := by
  decide +kernel

end Pint.Props.C09
