/-
  C14 — systems and groups select base units and members exactly as declared.

  Model: `Model/GroupSys.lean`.
-/
import PintModel.Model.GroupSys
import PintModel.Proofs.RuleInversion
import PintModel.Gen.SystemRules
import PintModel.Gen.DefaultRegistry

namespace Pint.Props.C14
open Pint Pint.GS

theorem mem_dedup {l : List String} {x : String} : x ∈ dedup l ↔ x ∈ l := by
  unfold dedup
  have key : ∀ (l acc : List String), x ∈ l.foldl (fun acc y => if acc.contains y then acc else acc ++ [y]) acc ↔ x ∈ acc ∨ x ∈ l := by
    intro l
    induction l with
    | nil => intro acc; simp
    | cons y t ih =>
      intro acc
      simp only [List.foldl_cons]
      rw [ih]
      by_cases hc : acc.contains y = true
      · simp only [hc, if_true, List.mem_cons]
        have hy : y ∈ acc := by simpa using hc
        constructor
        · rintro (h | h)
          · exact Or.inl h
          · exact Or.inr (Or.inr h)
        · rintro (h | h | h)
          · exact Or.inl h
          · exact Or.inl (h ▸ hy)
          · exact Or.inr h
      · simp only [hc, Bool.false_eq_true, if_false, List.mem_append, List.mem_cons, List.not_mem_nil, or_false]
        constructor
        · rintro ((h | h) | h)
          · exact Or.inl h
          · exact Or.inr (Or.inl h)
          · exact Or.inr (Or.inr h)
        · rintro (h | h | h)
          · exact Or.inl (Or.inl h)
          · exact Or.inl (Or.inr h)
          · exact Or.inr h
  simpa using key l []

/-- a group's members are its own units plus the members of every group it uses (one unfolding
    of the closure) -/
theorem C14_members_unfold (st : State) (fuel : Nat) (g : String) (grp : Group) (h : findGroup st g = some grp) (x : String) :
    x ∈ members st (fuel + 1) g ↔ x ∈ grp.units ∨ ∃ u ∈ grp.used, x ∈ members st fuel u := by
  simp only [members, h, mem_dedup, List.mem_append, List.mem_flatMap]

/-- own units are always members -/
theorem C14_own_units_members (st : State) (g : String) (grp : Group) (h : findGroup st g = some grp)
    (x : String) (hx : x ∈ grp.units) : x ∈ groupMembers st g := by
  unfold groupMembers
  exact (C14_members_unfold st _ g grp h x).mpr (Or.inl hx)

/-- a system's members are those of its groups -/
theorem C14_system_members (st : State) (s : System) (x : String) :
    x ∈ systemMembers st s ↔ ∃ g ∈ s.used, x ∈ groupMembers st g := by
  simp only [systemMembers, mem_dedup, List.mem_flatMap]

/-- compatible-unit queries restricted to a system return exactly the same-dimension units among
    its members -/
theorem C14_compat_system (st : State) (eqs : List String) (n : String) (s : System)
    (h : findSystem st n = some s) (x : String) :
    ∀ r, compatibleUnits st eqs (some n) = .ok r → (x ∈ r ↔ x ∈ eqs ∧ x ∈ systemMembers st s) := by
  intro r hr
  unfold compatibleUnits at hr
  simp only [h, Except.ok.injEq] at hr
  subst hr
  simp [List.mem_filter]

theorem C14_compat_group (st : State) (eqs : List String) (n : String) (g : Group)
    (hs : findSystem st n = none) (h : findGroup st n = some g) (x : String) :
    ∀ r, compatibleUnits st eqs (some n) = .ok r → (x ∈ r ↔ x ∈ eqs ∧ x ∈ groupMembers st n) := by
  intro r hr
  unfold compatibleUnits at hr
  simp only [hs, h, Except.ok.injEq] at hr
  subst hr
  simp [List.mem_filter]

/-- with no system, base units are root units -/
theorem C14_no_system (R : Registry) (st : State) (u : UC) (h : st.defaultSystem = none) :
    getBaseUnits R st u none = R.getRootUnits u := by
  unfold getBaseUnits
  simp only [h]
  cases R.getRootUnits u with
  | error e => rfl
  | ok p => rfl

/-- changing the default system takes effect immediately: the answer is that of the explicit system -/
theorem C14_default_system_immediate (R : Registry) (st : State) (u : UC) (s : String) :
    getBaseUnits R { st with defaultSystem := some s } u none = getBaseUnits R st u (some s) := by
  unfold getBaseUnits
  simp only [findSystem]

/-- the cycle check of `add_groups`: a group that (transitively) uses `name` cannot be used by it -/
theorem C14_cycle_rejected (st : State) (name : String) (units : List String) (u : String) (rest : List String)
    (hnew : findGroup st name = none) :
    let g : Group := { name := name, units := dedup units }
    let st1 : State := { st with groups := (st.groups.map fun x => if x.name == "root" then { x with used := dedup (x.used ++ [name]) } else x) ++ [g] }
    (findGroup st1 u).isSome → usesGroup st1 (st1.groups.length + 1) u name = true →
    addGroup st name units (u :: rest) = .error .value := by
  intro g st1 hu hc
  unfold addGroup
  simp only [hnew, Option.isSome_none, Bool.false_eq_true, if_false]
  show addGroup.go name _ (u :: rest) = _
  unfold addGroup.go
  cases hf : findGroup st1 u with
  | none => rw [hf] at hu; cases hu
  | some grp =>
    have hf' : findGroup { groups := (st.groups.map fun x => if x.name == "root" then { x with used := dedup (x.used ++ [name]) } else x) ++ [{ name := name, units := dedup units }], systems := st.systems, defaultSystem := st.defaultSystem } u = some grp := hf
    have hc' : usesGroup { groups := (st.groups.map fun x => if x.name == "root" then { x with used := dedup (x.used ++ [name]) } else x) ++ [{ name := name, units := dedup units }], systems := st.systems, defaultSystem := st.defaultSystem }
        (((st.groups.map fun x => if x.name == "root" then { x with used := dedup (x.used ++ [name]) } else x) ++ [{ name := name, units := dedup units }] : List Group).length + 1) u name = true := hc
    simp only [hf', hc', Bool.or_true, if_true]

/-- (F11 repair) a group cannot use itself -/
theorem C14_self_loop_rejected (st : State) (name : String) (units : List String) (rest : List String)
    (hnew : findGroup st name = none) :
    addGroup st name units (name :: rest) = .error .value ∨ addGroup st name units (name :: rest) = .error .key := by
  unfold addGroup
  simp only [hnew, Option.isSome_none, Bool.false_eq_true, if_false]
  show addGroup.go name _ (name :: rest) = _ ∨ addGroup.go name _ (name :: rest) = _
  unfold addGroup.go
  split
  · right; rfl
  · left; simp

/-! ### attribute access through a system -/

/-- `ureg.sys.<system>.<item>` is the system's variant of the name whenever the registry resolves `<system>_<item>` … -/
theorem C14_system_attr_variant (R R' : Registry) (sys item n : String)
    (h : R.getName (sys ++ "_" ++ item) = .ok (n, R')) : GS.systemAttr R sys item = .ok n := by
  unfold GS.systemAttr; rw [h]

/-- … and the plain unit otherwise -/
theorem C14_system_attr_plain (R : Registry) (sys item : String) (e : Err)
    (h : R.getName (sys ++ "_" ++ item) = .error e) :
    GS.systemAttr R sys item = (match R.getName item with | .ok (n, _) => .ok n | .error e => .error e) := by
  unfold GS.systemAttr; rw [h]; rfl

example : (GS.systemAttr Gen.defaultRegistry "imperial" "pint").toOption = some "imperial_pint"
    ∧ (GS.systemAttr Gen.defaultRegistry "imperial" "floz").toOption = some "imperial_fluid_ounce"
    ∧ (GS.systemAttr Gen.defaultRegistry "US" "meter").toOption = some "meter" := by decide +kernel


/-! ### system rules: what is written for a replaced root unit expands back to that unit -/

/-- long form `new : old`: the expression `systemRule` writes for `old` (the new unit to the power 1/a and the other
    root units of its expansion to the powers -e/a) has, root unit by root unit, exactly the exponents of `old`.
    (The code of the pinned commit wrote -1/e: finding F37, repaired; with that formula this statement is false for
    `g_0 : meter`.) -/
theorem C14_rule_inversion_sound {R : Registry} {new old o : String} {repl : UC}
    (h : GS.systemRule R (new, some old) = .ok (o, repl)) :
    ∃ exp, R.getRootUnitsOnly [(new, 1)] = .ok exp ∧ o = old ∧
      ((exp.map (·.1)).Nodup → exp.get old ≠ 0 → new ∉ exp.map (·.1) →
        ∀ k, GS.expoIn repl new exp k = if k = old then 1 else 0) := by
  obtain ⟨exp, he, ho, hr, _⟩ := GS.systemRule_long h
  exact ⟨exp, he, ho, fun hn ha hnew k => by rw [hr]; exact GS.invertLong_sound exp new old hn ha hnew k⟩

/-- short form `new`: the new unit is a power of one root unit, which is written as the inverse power of the new unit -/
theorem C14_rule_short_sound {R : Registry} {new o : String} {repl : UC}
    (h : GS.systemRule R (new, none) = .ok (o, repl)) (hne : new ≠ o) :
    ∃ value, R.getRootUnitsOnly [(new, 1)] = .ok [(o, value)] ∧
      ∀ k, GS.expoIn repl new [(o, value)] k = if k = o then 1 else 0 := by
  obtain ⟨value, he, hv, hr⟩ := GS.systemRule_short h
  exact ⟨value, he, fun k => by rw [hr]; exact GS.invertShort_sound new o value hv hne k⟩

/-- the formulas of the model are the formulas of the source: `Gen/SystemRules.lean` is translated from
    `System.from_definition` on every run (the three exponent expressions and the filter of the comprehension) -/
theorem C14_rule_formulas_from_source (exp : UC) (new old : String) :
    Gen.SystemRules.problems = [] ∧ Gen.SystemRules.longFilter = "KEY != old_unit" ∧
    GS.invertLong exp new old =
      ((exp.filter (fun p => p.1 != old)).map fun p => (p.1, Gen.SystemRules.longOther p.2 (exp.get old)))
        ++ [(new, Gen.SystemRules.longNew (exp.get old))] ∧
    (∀ value : Rat, Gen.SystemRules.shortNew value = 1 / value) := by
  refine ⟨by decide, by decide, ?_, fun _ => rfl⟩
  simp only [GS.invertLong, Gen.SystemRules.longOther, Gen.SystemRules.longNew]

/-- non-vacuity on the bundled registry: `g_0 : meter` gives meter = g_0 * second ** 2 -/
example : (GS.systemRule Gen.defaultRegistry ("standard_gravity", some "meter")).toOption
    = some ("meter", [("second", 2), ("standard_gravity", 1)]) := by decide +kernel

end Pint.Props.C14
