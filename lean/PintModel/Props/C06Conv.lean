/-
  C06 — the converter classes as they are written: `Gen/Converters.lean` is translated from the source on
  every run (functional and in-place branch of `to_reference` / `from_reference` of `ScaleConverter`,
  `OffsetConverter`, `LogarithmicConverter`; both arms of `if HAS_NUMPY`).  Proved here, for every magnitude,
  every parameter value and EVERY interpretation of `log` / `exp`:

  * each functional branch is the defining map of the property (linear, affine, logarithmic);
  * each in-place branch computes the same value as the functional branch;
  * `to_reference` and `from_reference` are mutually inverse (under exactly the guards the maps need:
    a non-zero scale, a non-zero log factor and base logarithm, and `log ∘ exp = id` / `exp ∘ log = id`
    where they are used);
  * the hand-written converter of the registry model (`Registry.toReference` / `fromReference`) is the
    translated code.
-/
import PintModel.Gen.Converters
import PintModel.Model.Registry
import PintModel.Props.C06

namespace Pint.Props.C06Conv
open Pint Pint.Conv Pint.Gen.Converters

variable (env : Env) (v : Rat)

/-! ### the functional branches are the defining maps -/

theorem C06_scale_to_map : scale_to_func.eval env v = some (v * env.par "scale") := rfl
theorem C06_scale_from_map : scale_from_func.eval env v = some (v / env.par "scale") := rfl
theorem C06_offset_to_map : offset_to_func.eval env v = some (v * env.par "scale" + env.par "offset") := rfl
theorem C06_offset_from_map : offset_from_func.eval env v = some ((v - env.par "offset") / env.par "scale") := rfl
theorem C06_log_to_map :
    log_to_func.eval env v = some (env.par "scale" * env.expf (env.logf (env.par "logbase") * (v / env.par "logfactor"))) := rfl
theorem C06_log_from_map :
    log_from_func.eval env v = some (env.par "logfactor" * env.logf (v / env.par "scale") / env.logf (env.par "logbase")) := rfl

/-! ### the in-place branches compute what the functional branches compute -/

theorem C06_scale_to_inplace : run env scale_to_inplace v = scale_to_func.eval env v := rfl
theorem C06_scale_from_inplace : run env scale_from_inplace v = scale_from_func.eval env v := rfl
theorem C06_offset_to_inplace : run env offset_to_inplace v = offset_to_func.eval env v := rfl
theorem C06_offset_from_inplace : run env offset_from_inplace v = offset_from_func.eval env v := rfl
theorem C06_scale_to_inplace_nonumpy : run env scale_to_inplace_nonumpy v = scale_to_func.eval env v := rfl
theorem C06_scale_from_inplace_nonumpy : run env scale_from_inplace_nonumpy v = scale_from_func.eval env v := rfl
theorem C06_offset_to_inplace_nonumpy : run env offset_to_inplace_nonumpy v = offset_to_func.eval env v := rfl
theorem C06_offset_from_inplace_nonumpy : run env offset_from_inplace_nonumpy v = offset_from_func.eval env v := rfl

theorem C06_log_to_inplace : run env log_to_inplace v = log_to_func.eval env v := by
  simp only [log_to_inplace, log_to_func, run, S.step, E.eval, bind, Option.bind, pure]
  congr 1
  grind
theorem C06_log_to_inplace_nonumpy : run env log_to_inplace_nonumpy v = log_to_func.eval env v := by
  simp only [log_to_inplace_nonumpy, log_to_func, run, S.step, E.eval, bind, Option.bind, pure]
  congr 1
  grind
theorem C06_log_from_inplace : run env log_from_inplace v = log_from_func.eval env v := by
  simp only [log_from_inplace, log_from_func, run, S.step, E.eval, bind, Option.bind, pure]
  congr 1
  grind
theorem C06_log_from_inplace_nonumpy : run env log_from_inplace_nonumpy v = log_from_func.eval env v := by
  simp only [log_from_inplace_nonumpy, log_from_func, run, S.step, E.eval, bind, Option.bind, pure]
  congr 1
  grind

/-! ### `to_reference` and `from_reference` are mutually inverse -/

/-- composition of two translated bodies -/
def andThen (f g : E) : Option Rat := (f.eval env v).bind (g.eval env)

theorem C06_scale_inverse (h : env.par "scale" ≠ 0) :
    andThen env v scale_to_func scale_from_func = some v ∧ andThen env v scale_from_func scale_to_func = some v := by
  simp only [andThen, scale_to_func, scale_from_func, E.eval, bind, Option.bind, pure, Option.some.injEq]
  constructor <;> grind

theorem C06_offset_inverse (h : env.par "scale" ≠ 0) :
    andThen env v offset_to_func offset_from_func = some v ∧ andThen env v offset_from_func offset_to_func = some v := by
  simp only [andThen, offset_to_func, offset_from_func, E.eval, bind, Option.bind, pure, Option.some.injEq]
  constructor <;> grind

/-- log unit → reference → log unit: needs a non-zero scale, log factor and base logarithm, and
    `log (exp x) = x` at the one point where it is used -/
theorem C06_log_inverse_from_to (hs : env.par "scale" ≠ 0) (hf : env.par "logfactor" ≠ 0)
    (hb : env.logf (env.par "logbase") ≠ 0)
    (hle : env.logf (env.expf (env.logf (env.par "logbase") * (v / env.par "logfactor")))
            = env.logf (env.par "logbase") * (v / env.par "logfactor")) :
    andThen env v log_to_func log_from_func = some v := by
  simp only [andThen, log_to_func, log_from_func, E.eval, bind, Option.bind, pure, Option.some.injEq]
  have h1 : env.par "scale" * env.expf (env.logf (env.par "logbase") * (v / env.par "logfactor")) / env.par "scale"
      = env.expf (env.logf (env.par "logbase") * (v / env.par "logfactor")) := by grind
  rw [h1, hle]
  grind

/-- reference → log unit → reference: needs `exp (log y) = y` at `y = v / scale` -/
theorem C06_log_inverse_to_from (hs : env.par "scale" ≠ 0) (hf : env.par "logfactor" ≠ 0)
    (hb : env.logf (env.par "logbase") ≠ 0)
    (hel : env.expf (env.logf (v / env.par "scale")) = v / env.par "scale") :
    andThen env v log_from_func log_to_func = some v := by
  simp only [andThen, log_to_func, log_from_func, E.eval, bind, Option.bind, pure, Option.some.injEq]
  have h1 : env.logf (env.par "logbase") *
      (env.par "logfactor" * env.logf (v / env.par "scale") / env.logf (env.par "logbase") / env.par "logfactor")
      = env.logf (v / env.par "scale") := by grind
  rw [h1, hel]
  grind

/-! ### the converter of the registry model is the translated code -/

def envOf (scale offset : Rat) : Env :=
  { par := fun n => if n = "scale" then scale else if n = "offset" then offset else 0, logf := id, expf := id }

theorem C06_model_to_scale (s x : Rat) :
    (Registry.toReference (.scale s) x).toOption = scale_to_func.eval (envOf s 0) x := rfl
theorem C06_model_to_offset (s o x : Rat) :
    (Registry.toReference (.offset s o) x).toOption = offset_to_func.eval (envOf s o) x := rfl
theorem C06_model_from_scale (s x : Rat) (h : s ≠ 0) :
    (Registry.fromReference (.scale s) x).toOption = scale_from_func.eval (envOf s 0) x := by
  simp [Registry.fromReference, h, scale_from_func, E.eval, envOf, Except.toOption]
theorem C06_model_from_offset (s o x : Rat) (h : s ≠ 0) :
    (Registry.fromReference (.offset s o) x).toOption = offset_from_func.eval (envOf s o) x := by
  simp [Registry.fromReference, h, offset_from_func, E.eval, envOf, Except.toOption]

/-- every class and method was found and translated, nothing fell back to `bad` -/
theorem C06_translated_all :
    translated = [("ScaleConverter", "to_reference"), ("ScaleConverter", "from_reference"),
      ("OffsetConverter", "to_reference"), ("OffsetConverter", "from_reference"),
      ("LogarithmicConverter", "from_reference"), ("LogarithmicConverter", "to_reference")] := by decide

/-! non-vacuity: the hypotheses of the inverse laws are satisfiable (identity interpretation of log / exp) -/
example : andThen (envOf 3 0) 5 scale_to_func scale_from_func = some 5 := by decide +kernel
example : andThen (envOf (5/9) (45967/180)) 32 offset_to_func offset_from_func = some 32 := by decide +kernel


def envLog : Env :=
  { par := fun n => if n = "scale" then 1/1000 else if n = "logbase" then 10 else if n = "logfactor" then 10 else 0,
    logf := id, expf := id }
example : andThen envLog 30 log_to_func log_from_func = some 30 :=
  C06_log_inverse_from_to envLog 30 (by decide +kernel) (by decide +kernel) (by decide +kernel) rfl
example : andThen envLog 7 log_from_func log_to_func = some 7 :=
  C06_log_inverse_to_from envLog 7 (by decide +kernel) (by decide +kernel) (by decide +kernel) rfl

end Pint.Props.C06Conv
