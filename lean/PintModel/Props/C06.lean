/-
  C06 — offset and logarithmic units convert by their defining maps and refuse ambiguity.

  Model: `Conv.offset` with `toReference` / `fromReference` (`OffsetConverter`), `deltaOf`
  (automatic `delta_` units), `validateAndExtract`, `convertNM` (`_convert` of the
  non-multiplicative registry), `okForMuldiv`, `addSub`, `mulDiv`, `pow` of `Model/Quantity`.
  Logarithmic converters are outside the exact model (floating point): compared numerically.
-/
import PintModel.Model.Quantity

namespace Pint.Props.C06
open Pint Pint.Registry

/-- the affine maps of an offset unit are mutually inverse -/
theorem C06_offset_inverse (s o x : Rat) (hs : s ≠ 0) :
    (match toReference (.offset s o) x with
      | .ok y => fromReference (.offset s o) y
      | .error e => .error e) = .ok x ∧
    (match fromReference (.offset s o) x with
      | .ok y => toReference (.offset s o) y
      | .error e => .error e) = .ok x := by
  constructor
  · simp only [toReference, fromReference, hs, if_false]
    congr 1
    rw [Rat.add_sub_cancel, Rat.div_def, Rat.mul_assoc, Rat.mul_inv_cancel _ hs, Rat.mul_one]
  · simp only [toReference, fromReference, hs, if_false]
    congr 1
    rw [Rat.div_def, Rat.mul_assoc, Rat.inv_mul_cancel _ hs, Rat.mul_one, Rat.sub_add_cancel]

/-- delta units convert by scale only: the generated `delta_` unit has the same scale, no
    offset, and the same reference -/
theorem C06_delta_scale_only (d dd : UnitDef) (h : deltaOf d = some dd) :
    ∃ s o, d.conv = .offset s o ∧ o ≠ 0 ∧ dd.conv = .scale s ∧ dd.ref = d.ref ∧
      dd.name = "delta_" ++ d.name ∧ dd.isMult = true := by
  unfold deltaOf at h
  cases hc : d.conv with
  | offset s o =>
    simp only [hc] at h
    by_cases ho : (o == 0) = true
    · simp [ho] at h
    · simp only [ho, Bool.false_eq_true, if_false, Option.some.injEq] at h
      subst h
      refine ⟨s, o, rfl, ?_, rfl, rfl, rfl, rfl⟩
      intro e; apply ho; simp [e]
  | scale s => simp [hc] at h
  | log a b c => simp [hc] at h
  | irrational => simp [hc] at h

/-! ### refusals of `_validate_and_extract` (surfacing as DimensionalityError in `_convert`) -/

theorem C06_refuse_two_offset (R : Registry) (auto : Bool) (u : UC) (p q : String × Rat) (l : List (String × Rat))
    (h : R.nonMultItems u = .ok (p :: q :: l)) :
    R.validateAndExtract auto u = .error .value := by
  unfold validateAndExtract; rw [h]

theorem C06_refuse_higher_order (R : Registry) (auto : Bool) (u : UC) (k : String) (e : Rat)
    (h : R.nonMultItems u = .ok [(k, e)]) (he : e ≠ 1) :
    R.validateAndExtract auto u = .error .value := by
  unfold validateAndExtract; rw [h]; simp [he]

theorem C06_refuse_multiplicative_context (R : Registry) (u : UC) (k : String)
    (h : R.nonMultItems u = .ok [(k, 1)]) (hl : u.length > 1) :
    R.validateAndExtract false u = .error .value := by
  unfold validateAndExtract; rw [h]; simp [hl]

theorem C06_accept_single (R : Registry) (auto : Bool) (u : UC) (k : String)
    (h : R.nonMultItems u = .ok [(k, 1)]) (hl : u.length ≤ 1 ∨ auto = true) :
    R.validateAndExtract auto u = .ok (some k) := by
  unfold validateAndExtract; rw [h]
  rcases hl with hl | hl
  · have : ¬ u.length > 1 := by omega
    simp [this]
  · simp [hl]

/-- an ambiguous source or destination makes the conversion a `DimensionalityError` -/
theorem C06_convert_refuses (R : Registry) (auto : Bool) (x : Rat) (src dst : UC)
    (h : R.validateAndExtract auto src = .error .value ∨
         (∃ so, R.validateAndExtract auto src = .ok so ∧ R.validateAndExtract auto dst = .error .value)) :
    R.convertNM auto x src dst = .error .dimensionality := by
  unfold convertNM
  rcases h with h | ⟨so, h1, h2⟩
  · rw [h]
  · rw [h1, h2]

/-! ### arithmetic with offset units -/

/-- products and quotients with an offset unit are refused unless `autoconvert` is on -/
theorem C06_muldiv_refused (m : Mode) (u : UC) (h : m.autoconvert = false) :
    okForMuldiv m u 1 = false ∨ u.length ≠ 1 ∧ okForMuldiv m u 1 = false ∨ u = [] := by
  cases u with
  | nil => right; right; rfl
  | cons p t =>
    left
    unfold okForMuldiv
    cases t with
    | nil => simp [h]
    | cons q t' => simp

theorem C06_mul_offset_refused (R : Registry) (m : Mode) (op : MulOp) (a : Qty) (b : Operand)
    (h : m.autoconvert = false) (hn : (R.nonMultUnits a.units).length = 1) :
    R.mulDiv m op a b = .error .offsetCalc := by
  have hne : a.units ≠ [] := by
    intro e; rw [e] at hn; simp [nonMultUnits, UC.keys] at hn
  have hok : okForMuldiv m a.units 1 = false := by
    rcases C06_muldiv_refused m a.units h with h1 | ⟨_, h1⟩ | h1
    · exact h1
    · exact h1
    · exact absurd h1 hne
  unfold mulDiv
  cases b with
  | num x => simp [hn, hok]
  | q b => simp [hn, hok]

/-- more than one offset unit: refused in every mode -/
theorem C06_mul_two_offsets_refused (R : Registry) (m : Mode) (op : MulOp) (a : Qty) (b : Operand)
    (hn : (R.nonMultUnits a.units).length > 1) :
    R.mulDiv m op a b = .error .offsetCalc := by
  have hok : okForMuldiv m a.units (R.nonMultUnits a.units).length = false := by
    unfold okForMuldiv; simp [hn]
  unfold mulDiv
  cases b with
  | num x => simp [hok]
  | q b => simp [hok]

/-- powers of an offset quantity (exponent ≠ 0, 1) are refused unless `autoconvert` is on -/
theorem C06_pow_refused (R : Registry) (m : Mode) (a : Qty) (e : Rat)
    (h : m.autoconvert = false) (hm : R.isMultQ a = false) (h0 : e ≠ 0) (h1 : e ≠ 1) :
    R.pow m a e = .error .offsetCalc := by
  unfold Registry.pow; simp [h0, h1, hm, h]

/-- offset + offset is ambiguous: `OffsetUnitCalculusError` -/
theorem C06_offset_plus_offset (R : Registry) (m : Mode) (a b : Qty) (s0 o0 : String) (da db : UC)
    (ha : R.getDimensionality a.units = .ok da) (hb : R.getDimensionality b.units = .ok db)
    (he : da.beq db = true)
    (hs : R.nonMultUnits a.units = [s0]) (ho : R.nonMultUnits b.units = [o0])
    (hd1 : R.hasCompatibleDelta b.units s0 = false) (hd2 : R.hasCompatibleDelta a.units o0 = false) :
    R.addSub m .add a (.q b) = .error .offsetCalc := by
  unfold addSub
  simp [ha, hb, he, hs, ho, hd1, hd2]

/-- offset − offset is a delta: the result carries the `delta_` unit of the left operand -/
theorem C06_offset_minus_offset (R : Registry) (m : Mode) (a b c : Qty) (s0 : String) (da db : UC)
    (ha : R.getDimensionality a.units = .ok da) (hb : R.getDimensionality b.units = .ok db)
    (he : da.beq db = true)
    (hs : R.nonMultUnits a.units = [s0]) (h1 : a.units.get s0 = 1)
    (hd1 : R.hasCompatibleDelta b.units s0 = false)
    (hc : R.addSub m .sub a (.q b) = .ok c) :
    a.units.rename s0 ("delta_" ++ s0) = some c.units := by
  unfold addSub at hc
  simp only [ha, hb, he, hs, Bool.not_true, Bool.false_eq_true, if_false, List.isEmpty_cons,
    Bool.false_and, h1, hd1, beq_self_eq_true, Bool.not_false, Bool.and_self, if_true] at hc
  split at hc
  · next v u hv hu => cases hc; exact hu
  · cases hc
  · cases hc

/-! ### floor division, modulo and divmod follow the rule of true division (F58) -/

/-- without autoconvert an operand on an offset scale is refused by `//`, `%` and `divmod` (operands of one dimensionality;
    operands of different dimensionality meet the DimensionalityError first, next theorem) -/
theorem C06_floordiv_refuses_offset (R : Registry) (m : Mode) (a : Qty) (b : Operand)
    (h : R.operandsMult a b = false) (hd : R.dimsDiffer a b = false) (hm : m.autoconvert = false) :
    R.floordiv m a b = .error .offsetCalc ∧ R.mod m a b = .error .offsetCalc ∧
      R.divmod m a b = .error .offsetCalc := by
  have ho : R.offsetFree m a b = .error .offsetCalc := by
    unfold Registry.offsetFree
    rw [if_neg (by rw [h]; decide), if_neg (by rw [hd]; decide), hm, if_pos (by decide)]
  simp only [Registry.floordiv, Registry.mod, Registry.divmod, ho, and_self]

/-- operands of different dimensionality with one on an offset scale: DimensionalityError, in both registry modes (F82) -/
theorem C06_floordiv_refuses_other_dimension (R : Registry) (m : Mode) (a : Qty) (b : Operand)
    (h : R.operandsMult a b = false) (hd : R.dimsDiffer a b = true) :
    R.floordiv m a b = .error .dimensionality ∧ R.mod m a b = .error .dimensionality ∧
      R.divmod m a b = .error .dimensionality := by
  have ho : R.offsetFree m a b = .error .dimensionality := by
    unfold Registry.offsetFree
    rw [if_neg (by rw [h]; decide), if_pos hd]
  simp only [Registry.floordiv, Registry.mod, Registry.divmod, ho, and_self]

/-- with multiplicative operands the three operators are unchanged by the guard -/
theorem C06_offsetFree_mult (R : Registry) (m : Mode) (a : Qty) (b : Operand)
    (h : R.operandsMult a b = true) :
    R.offsetFree m a b = .ok (a, b) := by
  unfold Registry.offsetFree
  rw [if_pos h]

/-- in autoconvert mode both operands are taken to root units first: the result does not depend on the
    scale the temperatures are written in -/
theorem C06_floordiv_autoconvert (R : Registry) (m : Mode) (a b a' b' : Qty)
    (h : R.operandsMult a (.q b) = false) (hd : R.dimsDiffer a (.q b) = false) (hm : m.autoconvert = true)
    (ha : R.toRoot m a = .ok a') (hb : R.toRoot m b = .ok b') :
    R.offsetFree m a (.q b) = .ok (a', .q b') := by
  unfold Registry.offsetFree
  rw [if_neg (by rw [h]; decide), if_neg (by rw [hd]; decide), hm, if_neg (by decide), ha]
  simp only [hb]

end Pint.Props.C06
