/-
  C15 — unit-rewriting helpers preserve the physical quantity.

  Model: `PintModel/Model/Rewrite.lean` (destination containers of `to_root_units`,
  `to_base_units`, `to_reduced_units`, `to_compact`; `_get_dimensionality_ratio`;
  `infer_base_unit`; exact `⌊log₁₀|m|⌋`), conversion: `Registry.convertTo` (C02).

  Every helper is `quantity.to(destination)`.  `C15_to_value` is the statement for an arbitrary
  destination, the `_shape` theorems say that each helper's result is either the input itself or
  such a conversion, and the `C15_*_value` corollaries put them together.  Hypotheses (`Good`,
  `GoodU`) are those of C02/C03: integer exponents, registered multiplicative units, root
  expansion and dimensionality defined; `C02_default_wfint` discharges `WFintOn` for the bundled
  registry.
-/
import PintModel.Model.Rewrite
import PintModel.Proofs.QtyLemmas
import PintModel.Proofs.RewriteLemmas
import PintModel.Gen.DefaultRegistry

namespace Pint.Props.C15
open Pint Pint.UC Pint.Registry Pint.Rw

/-! ### value and dimension preservation -/

/-- a conversion `q.to(dst)` that returns a number keeps the dimensionality and the physical value
    (magnitude × root factor) -/
theorem C15_to_value {R : Registry} {S : String → Prop} (hW : R.WFintOn S) (m : Mode)
    {q : Qty} {dst uq ud dq dd : UC} {fq fd x' : Rat}
    (hq : Good R S q fq uq dq) (hd : GoodU R S dst fd ud dd)
    (h : R.convertTo m q dst = .ok x') :
    dq.beq dd = true ∧ x' * fd = q.mag * fq :=
  Rw.to_value hW m hq hd h

/-- `to_root_units`, `to_base_units`, `to_reduced_units`, `to_compact` return the input itself or
    `q.to(units of the result)` -/
theorem C15_root_shape {R : Registry} (m : Mode) {q q' : Qty} (h : R.toRoot m q = .ok q') :
    R.convertTo m q q'.units = .ok q'.mag := Rw.toRoot_shape m h

theorem C15_base_shape {R : Registry} (gs : GS.State) (m : Mode) {q q' : Qty} (h : Rw.toBase R gs m q = .ok q') :
    R.convertTo m q q'.units = .ok q'.mag := Rw.toBase_shape gs m h

theorem C15_reduced_shape {R : Registry} (m : Mode) {q q' : Qty} (h : Rw.toReduced R m q = .ok q') :
    q' = q ∨ R.convertTo m q q'.units = .ok q'.mag := Rw.toReduced_shape m h

theorem C15_compact_shape {R : Registry} (m : Mode) {q q' : Qty} (unit : Option UC)
    (h : Rw.toCompact R m q unit = .ok q') :
    q' = q ∨ (Rw.regKeys R q'.units).convertTo m q q'.units = .ok q'.mag := Rw.toCompact_shape m unit h

/-- hence: each helper preserves dimensionality and physical value -/
theorem C15_root_value {R : Registry} {S : String → Prop} (hW : R.WFintOn S) (m : Mode)
    {q q' : Qty} {uq ud dq dd : UC} {fq fd : Rat}
    (hq : Good R S q fq uq dq) (hd : Good R S q' fd ud dd) (h : R.toRoot m q = .ok q') :
    dq.beq dd = true ∧ q'.mag * fd = q.mag * fq :=
  C15_to_value hW m hq hd (C15_root_shape m h)

theorem C15_base_value {R : Registry} {S : String → Prop} (hW : R.WFintOn S) (gs : GS.State) (m : Mode)
    {q q' : Qty} {uq ud dq dd : UC} {fq fd : Rat}
    (hq : Good R S q fq uq dq) (hd : Good R S q' fd ud dd) (h : Rw.toBase R gs m q = .ok q') :
    dq.beq dd = true ∧ q'.mag * fd = q.mag * fq :=
  C15_to_value hW m hq hd (C15_base_shape gs m h)

theorem C15_reduced_value {R : Registry} {S : String → Prop} (hW : R.WFintOn S) (m : Mode)
    {q q' : Qty} {uq ud dq dd : UC} {fq fd : Rat}
    (hq : Good R S q fq uq dq) (hd : Good R S q' fd ud dd) (h : Rw.toReduced R m q = .ok q') :
    dq.beq dd = true ∧ q'.mag * fd = q.mag * fq :=
  Rw.reduced_value hW m hq hd h

/-- `to_compact` registers the prefixed unit it introduces, so the hypotheses are stated for the
    registry after that registration (both for the input and for the result) -/
theorem C15_compact_value {R : Registry} {S : String → Prop} (m : Mode) (unit : Option UC)
    {q q' : Qty} {uq ud dq dd : UC} {fq fd : Rat}
    (hW : (Rw.regKeys R q'.units).WFintOn S)
    (hq : Good (Rw.regKeys R q'.units) S q fq uq dq) (hd : Good (Rw.regKeys R q'.units) S q' fd ud dd)
    (h : Rw.toCompact R m q unit = .ok q') :
    dq.beq dd = true ∧ q'.mag * fd = q.mag * fq :=
  Rw.compact_value m unit hW hq hd h

/-! ### the in-place twin -/

/-- `ito(dst)` leaves in the object exactly the magnitude and units that `to(dst)` returns -/
theorem C15_inplace (R : Registry) (m : Mode) (q : Qty) (dst : UC) :
    Rw.ito R m q dst = Rw.to R m q dst := Rw.ito_eq_to R m q dst

/-! ### `to_reduced_units` leaves no two units it could merge -/

/-- for any ratio oracle: two distinct units of the result have no (non-zero) ratio, in either
    order; and the result mentions only units of the input -/
theorem C15_reduced_post (ratio : String → String → Option Rat) (u : UC) (hn : u.keys.Nodup) :
    ∀ a ∈ (Rw.reducedUnits ratio u).keys, ∀ b ∈ (Rw.reducedUnits ratio u).keys, a ≠ b →
      ratio a b = none ∨ ratio a b = some 0 :=
  Rw.reduced_post ratio u hn

theorem C15_reduced_keys (ratio : String → String → Option Rat) (u : UC) :
    ∀ a ∈ (Rw.reducedUnits ratio u).keys, a ∈ u.keys := Rw.reduced_keys ratio u

/-! ### `to_compact` : exact logarithm, range, prefix table, passthrough -/

theorem C15_floorLog10 {q : Rat} (h : 0 < q) :
    Rw.pow10 (Rw.floorLog10 q) ≤ q ∧ q < Rw.pow10 (Rw.floorLog10 q + 1) := Rw.floorLog10_spec h

/-- a first-power leading unit: the selected power k is a multiple of 3 with 10^k ≤ |m| < 10^(k+3),
    i.e. |m| / 10^k lies in [1, 1000) -/
theorem C15_compact_range {mag : Rat} (h : mag ≠ 0) :
    Rw.pow10 (Rw.compactPower mag 1) ≤ Rw.absR mag ∧ Rw.absR mag < Rw.pow10 (Rw.compactPower mag 1 + 3)
    ∧ Rw.compactPower mag 1 % 3 = 0 := Rw.compact_range h

/-- when the table has the selected power, `bisect_left` picks exactly that prefix -/
theorem C15_pick_exact (table : List (Int × String)) (hs : (table.map (·.1)).Pairwise (· < ·))
    {k : Int} {n : String} (h : (k, n) ∈ table) : Rw.pickPrefix table k = n := Rw.pick_exact table hs h

/-- the table is sorted and every entry is the empty prefix or a registered prefix whose scale is
    exactly that power of ten (only decimal prefixes are ever applied) -/
theorem C15_table_sorted (R : Registry) : ((Rw.siTable R).map (·.1)).Pairwise (· < ·) := Rw.siTable_sorted R

theorem C15_table_decimal (R : Registry) : ∀ e ∈ Rw.siTable R,
    e = (0, "") ∨ ∃ kv ∈ R.prefixes, kv.2.name = e.2 ∧ kv.2.value = Rw.pow10 e.1 := Rw.siTable_decimal R

/-- the destination differs from the prefix-free container by renaming one unit with a prefix of the table -/
theorem C15_compact_rename {R : Registry} (m : Mode) {q : Qty} (unit : Option UC) {base dst : UC}
    (h : Rw.compactTarget R m q unit = .ok (some (base, dst))) :
    ∃ ustr pfx, base.rename ustr (pfx ++ ustr) = some dst ∧
      (pfx = "" ∨ ∃ e, (e, pfx) ∈ Rw.siTable R) := Rw.compactTarget_rename m unit h

/-- zero and unit-free quantities are returned unchanged -/
theorem C15_compact_passthrough {R : Registry} (m : Mode) (q r : Qty) (unit : Option UC)
    (hr : R.toRoot m q = .ok r) (h : r.units = [] ∨ q.mag = 0) :
    Rw.toCompact R m q unit = .ok q := Rw.compact_passthrough m q r unit hr h

/-! ### non-vacuity on the bundled registry -/

example : (Rw.toCompact Gen.defaultRegistry {} ⟨12345, [("meter", 1)]⟩).toOption = some ⟨12345 / 1000, [("kilometer", 1)]⟩ := by
  decide +kernel

example : (Rw.toCompact Gen.defaultRegistry {} ⟨1 / 50000, [("second", -1)]⟩).toOption = some ⟨20, [("megasecond", -1)]⟩ := by
  decide +kernel

example : (Rw.toReduced Gen.defaultRegistry {} ⟨3, [("foot", 1), ("inch", 1), ("second", -1)]⟩).toOption
    = some ⟨36, [("inch", 2), ("second", -1)]⟩ := by decide +kernel

example : Rw.compactPower 999 1 = 0 ∧ Rw.compactPower 1000 1 = 3 ∧ Rw.compactPower (1 / 1000) 1 = -3
    ∧ Rw.compactPower (999 / 1000000) 1 = -6 ∧ Rw.compactPower 5000000 2 = 3 := by decide +kernel

end Pint.Props.C15
