/-
  C08 — unit names resolve deterministically: exact names first, then prefix+unit+plural.

  Model: `Registry.resolve` / `getName` (`get_name`), `yieldTriplets` / `parseUnitName`
  (`_yield_unit_triplets`, `parse_unit_name`), `prefixedDef`, `parseUnitsLoop`
  (`_parse_units_as_container`).
-/
import PintModel.Model.Registry
import PintModel.Gen.DefaultRegistry
import PintModel.Proofs.ParseNameLemmas

namespace Pint.Props.C08
open Pint Pint.Registry

/-- a defined name, alias or symbol denotes that unit (exact names first) -/
theorem C08_exact_first (R : Registry) {s : String} {d : UnitDef} (cs : Option Bool)
    (hs : s ≠ "dimensionless") (h : R.units.find? s = some d) :
    R.resolve s cs = .ok (d.name, R.units.find? d.name) := by
  unfold resolve; simp [hs, h]

/-- the stateful `get_name` and the pure reading agree on the name; an exact spelling registers nothing -/
theorem C08_getName_exact (R : Registry) {s : String} {d : UnitDef} (cs : Option Bool)
    (hs : s ≠ "dimensionless") (h : R.units.find? s = some d) :
    R.getName s cs = .ok (d.name, R) := by
  unfold getName; simp [hs, h]

/-- strings with no reading raise `UndefinedUnitError` -/
theorem C08_undefined (R : Registry) {s : String} (cs : Option Bool)
    (hs : s ≠ "dimensionless") (h : R.units.find? s = none) (hp : R.parseUnitName s cs = []) :
    R.resolve s cs = .error .undefined ∧ R.getName s cs = .error .undefined := by
  unfold resolve getName; simp [hs, h, hp]

/-- `get_name` and the pure reading always return the same name or the same error -/
theorem C08_getName_resolve (R : Registry) (s : String) (cs : Option Bool) :
    (R.getName s cs).toOption.map (·.1) = (R.resolve s cs).toOption.map (·.1) ∧
    (∀ e, R.getName s cs = .error e ↔ R.resolve s cs = .error e) := by
  unfold getName resolve
  by_cases hs : s = "dimensionless"
  · simp [hs, Except.toOption]
  · simp only [hs, if_false]
    cases hf : R.units.find? s with
    | some d => simp [Except.toOption]
    | none =>
      simp only
      cases hp : R.parseUnitName s cs with
      | nil => simp [Except.toOption]
      | cons t ts =>
        obtain ⟨p, u, x⟩ := t
        simp only
        by_cases hpe : (p != "") = true
        · simp only [hpe, if_true]
          cases hd : R.prefixedDef p u cs with
          | error e => simp [Except.toOption]
          | ok d => simp [Except.toOption]
        · simp only [hpe]
          simp [Except.toOption]

/-- what `get_name` registers for a prefixed unit: the prefix factor once, referring to the unit once -/
theorem C08_prefix_once (R : Registry) {p u : String} {cs : Option Bool} {d : UnitDef}
    (h : R.prefixedDef p u cs = .ok d) :
    ∃ pd ud, R.prefixes.find? p = some pd ∧ R.units.find? u = some ud ∧ ud.isMult = true ∧
      d.name = p ++ u ∧ d.conv = .scale pd.value ∧ d.ref = [(u, 1)] ∧ d.isBase = false := by
  unfold prefixedDef at h
  cases hu : R.units.find? u with
  | none => simp [hu] at h
  | some ud =>
    cases hp : R.prefixes.find? p with
    | none => simp [hu, hp] at h
    | some pd =>
      simp only [hu, hp] at h
      by_cases hm : ud.isMult = true
      · simp only [hm, Bool.not_true, Bool.false_eq_true, if_false] at h
        cases hsym : R.getSymbol (p ++ u) cs with
        | error e => simp [hsym] at h
        | ok sym =>
          simp only [hsym] at h
          cases h
          exact ⟨pd, ud, rfl, rfl, hm, rfl, rfl, rfl, rfl⟩
      · simp [hm] at h

/-- offset (non-multiplicative) units cannot be prefixed -/
theorem C08_offset_not_prefixable (R : Registry) {p u : String} {cs : Option Bool} {ud : UnitDef} {pd : PrefixDef}
    (hu : R.units.find? u = some ud) (hp : R.prefixes.find? p = some pd) (hm : ud.isMult = false) :
    R.prefixedDef p u cs = .error .offsetCalc := by
  unfold prefixedDef; simp [hu, hp, hm]

/-! ### delta substitution in compound unit expressions -/

/-- one step of `_parse_units_as_container`: in a compound expression (or with an exponent
    other than 1) a non-multiplicative unit is read as its `delta_` counterpart, unless
    `as_delta` is off -/
theorem C08_delta_step (R R' : Registry) (asDelta many : Bool) (cs : Option Bool)
    (name : String) (value : Rat) (t ret : UC) (cname : String) (d : UnitDef)
    (hg : R.getName name cs = .ok (cname, R')) (hne : cname ≠ "")
    (hd : R'.units.find? cname = some d) :
    let key := if asDelta && (many || value ≠ 1) && !d.isMult then "delta_" ++ cname else cname
    (∀ ret', ret.add key value = some ret' →
        parseUnitsLoop asDelta many cs ((name, value) :: t) R ret = parseUnitsLoop asDelta many cs t R' ret') ∧
    (ret.add key value = none →
        parseUnitsLoop asDelta many cs ((name, value) :: t) R ret = .error .key) := by
  intro key
  have hkey : key = (if asDelta && (many || value ≠ 1) then
        (if !d.isMult then "delta_" ++ cname else cname) else cname) := by
    show (if asDelta && (many || value ≠ 1) && !d.isMult then "delta_" ++ cname else cname) = _
    by_cases h1 : (asDelta && (many || decide (value ≠ 1))) = true <;>
      by_cases h2 : d.isMult = true <;> simp [h1, h2]
  constructor
  · intro ret' hr
    rw [hkey] at hr
    simp only [parseUnitsLoop, hg, hne, if_false, hd, hr]
  · intro hr
    rw [hkey] at hr
    simp only [parseUnitsLoop, hg, hne, if_false, hd, hr]

/-! ### non-vacuity on the bundled registry -/

set_option maxRecDepth 100000 in
example : (Gen.defaultRegistry.resolve "km").toOption.map (·.1) = some "kilometer" := by decide +kernel
set_option maxRecDepth 100000 in
example : (Gen.defaultRegistry.resolve "inches").toOption.map (·.1) = some "inch" := by decide +kernel
set_option maxRecDepth 100000 in
example : (Gen.defaultRegistry.resolve "millikilometer").toOption.map (·.1) = none := by decide +kernel
set_option maxRecDepth 100000 in
example : (match Gen.defaultRegistry.resolve "millidegree_Celsius" with
    | .error .offsetCalc => true
    | _ => false) = true := by decide +kernel

/-! ### the candidate readings (`parse_unit_name`) -/

open Pint.Proofs.ParseName in
/-- **soundness of a reading**: a candidate (prefix, unit, suffix) re-spells the input as a registered prefix
    spelling ++ a registered unit spelling ++ a registered suffix, with the single-letter-stem guard and the
    "units registered on the fly are not stems" guard (the registry has no unit spelled "") -/
theorem C08_reading_sound {R : Registry} {s p u x : String} (hempty : R.units.find? "" = none)
    (h : (p, u, x) ∈ R.yieldTriplets s true) :
    ∃ (pk : String) (pd : PrefixDef) (uk : String) (ud : UnitDef) (sk : String),
      (pk, pd) ∈ R.prefixes ∧ pd.name = p ∧
      R.units.find? uk = some ud ∧ (uk, ud) ∈ R.units ∧ ud.name = u ∧
      (sk, x) ∈ R.suffixes ∧
      s = pk ++ uk ++ sk ∧
      s.toList = pk.toList ++ uk.toList ++ sk.toList ∧
      (sk ≠ "" → uk.length ≠ 1) ∧
      (pk ≠ "" → R.prefixed.contains uk = false) :=
  yieldTriplets_sound_concat hempty h

open Pint.Proofs.ParseName in
/-- **completeness**: every such decomposition of the input is among the candidate readings -/
theorem C08_reading_complete {R : Registry} {s pk uk sk x : String} {pd : PrefixDef} {ud : UnitDef}
    (hp : (pk, pd) ∈ R.prefixes) (hs : (sk, x) ∈ R.suffixes) (hu : R.units.find? uk = some ud)
    (hcat : s = pk ++ uk ++ sk) (hg1 : sk ≠ "" → uk.length ≠ 1)
    (hg2 : pk ≠ "" → R.prefixed.contains uk = false) :
    (pd.name, ud.name, x) ∈ R.yieldTriplets s true :=
  yieldTriplets_complete hp hs hu hcat hg1 hg2

open Pint.Proofs.ParseName in
/-- de-duplication only removes a plain reading ("", n, "") in favour of a prefixed reading of the same name -/
theorem C08_dedup {n : String} {c : List (String × String × String)} (h : ("", n, "") ∈ c) :
    ("", n, "") ∉ dedupCandidates c ↔ ∃ p u x, (p, u, x) ∈ c ∧ p ≠ "" ∧ p ++ u = n :=
  dedupCandidates_plain_removed_iff h

open Pint.Proofs.ParseName in
theorem C08_dedup_keeps {p u x : String} {c : List (String × String × String)}
    (hne : p ≠ "" ∨ x ≠ "") (h : (p, u, x) ∈ c) : (p, u, x) ∈ dedupCandidates c :=
  dedupCandidates_keeps_of_ne hne h

open Pint.Proofs.ParseName in
/-- `get_name` uses the first reading: deterministic, and it is one of the candidate readings -/
theorem C08_getName_first {R : Registry} {s p u x : String} {cs : Option Bool}
    {rest : List (String × String × String)}
    (hf : R.units.find? s = none) (hs : s ≠ "dimensionless")
    (hp : R.parseUnitName s cs = (p, u, x) :: rest) :
    R.getName s cs =
      if p = "" then .ok (u, R)
      else match R.prefixedDef p u cs with
        | .error e => .error e
        | .ok d => .ok (p ++ u, { R with units := R.units.insert (p ++ u) d,
                                          prefixed := if R.prefixed.contains (p ++ u) then R.prefixed
                                                      else R.prefixed ++ [p ++ u] }) :=
  getName_first hf hs hp

/-- the bundled registry has no unit spelled "" (hypothesis of `C08_reading_sound`) -/
theorem C08_default_no_empty_unit : Gen.defaultRegistry.units.find? "" = none := by decide +kernel

end Pint.Props.C08
