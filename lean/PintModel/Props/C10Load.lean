/-
  C10 — order independence for the model's real loader (`Registry.loadInto`, `Registry.load`), not
  only for the abstraction "fold of `Dict.insert`" of `Props/C10.lean`.

  The statements: for a list of `unit` and `prefix` lines whose spellings (names, symbols, aliases and
  the spellings of the automatic `delta_` companions of offset units) are pairwise distinct, every
  lookup in the unit table, the prefix table and the dimension table is the same for every permutation
  of the lines, the base-unit lists are permutations of each other, and the tables contain exactly what
  the lines declare.  The hypotheses are needed: see the counterexamples at the end (all decided by
  evaluation of the model, and reproduced on pint by the correspondence check's permuted variants).

  Proofs: `Proofs/LoadLemmas.lean`.
-/
import PintModel.Proofs.LoadLemmas

namespace Pint.Props.C10Load
open Pint Pint.Registry Pint.LoadLemmas

/-- loading never fails on lists of `unit` / `prefix` lines -/
theorem C10_load_succeeds {ds : List Definition} (hu : ∀ d ∈ ds, UnitOrPfx d) (R : Registry) :
    ∃ R', loadInto R ds = some R' := A_loadInto_succeeds hu R

/-- unit-table lookups do not depend on the order of the lines -/
theorem C10_units_order_independent {ds ds' : List Definition} (hp : ds.Perm ds')
    (hu : ∀ d ∈ ds, UnitOrPfx d) (hn : (unitKeyList ds).Nodup) (lower : List (Char × Char)) (k : String) :
    (load ds lower).map (·.units.find? k) = (load ds' lower).map (·.units.find? k) :=
  A_load_units_perm hp hu hn lower k

/-- the same when loading on top of any registry (loading a second file, `define` after `load`) -/
theorem C10_units_order_independent_into {ds ds' : List Definition} (hp : ds.Perm ds')
    (hu : ∀ d ∈ ds, UnitOrPfx d) (hn : (unitKeyList ds).Nodup) (R : Registry) (k : String) :
    (loadInto R ds).map (·.units.find? k) = (loadInto R ds').map (·.units.find? k) :=
  A_units_perm hp hu hn R k

/-- prefix-table lookups do not depend on the order of the lines -/
theorem C10_prefixes_order_independent {ds ds' : List Definition} (hp : ds.Perm ds')
    (hu : ∀ d ∈ ds, UnitOrPfx d) (hn : (prefixKeys ds).Nodup) (R : Registry) (k : String) :
    (loadInto R ds).map (·.prefixes.find? k) = (loadInto R ds').map (·.prefixes.find? k) :=
  B_prefixes_perm hp hu hn R k

/-- the unit table says exactly what the lines declare: a spelling answers with the unit line that
    lists it (or with that line's `delta_` companion), and with nothing else -/
theorem C10_units_exactly_declared {ds : List Definition} (hu : ∀ d ∈ ds, UnitOrPfx d)
    (hn : (unitKeyList ds).Nodup) {lower : List (Char × Char)} {R' : Registry}
    (hl : load ds lower = some R') (k : String) (v : UnitDef) :
    R'.units.find? k = some v ↔
      ∃ u, Definition.unit u ∈ ds ∧ ((k ∈ unitKeys u ∧ v = u) ∨
        (∃ dd, deltaOf u = some dd ∧ k ∈ unitKeys dd ∧ v = dd)) :=
  C_load_units_find_iff hu hn hl k v

/-- spellings no line mentions are left as they were -/
theorem C10_units_untouched {ds : List Definition} (hu : ∀ d ∈ ds, UnitOrPfx d)
    {R R' : Registry} (hl : loadInto R ds = some R') {k : String} (hk : k ∉ unitKeyList ds) :
    R'.units.find? k = R.units.find? k := C_units_find_other hu hl hk

/-- the prefix table says exactly what the lines declare -/
theorem C10_prefixes_exactly_declared {ds : List Definition} (hu : ∀ d ∈ ds, UnitOrPfx d)
    (hn : (prefixKeys ds).Nodup) {R R' : Registry} (hl : loadInto R ds = some R')
    {k : String} (hR : R.prefixes.find? k = none) (v : PrefixDef) :
    R'.prefixes.find? k = some v ↔ Definition.pfx v ∈ ds ∧ k ∈ prefixKeyList v :=
  C_prefixes_find_iff hu hn hl hR v

theorem C10_prefixes_untouched {ds : List Definition} (hu : ∀ d ∈ ds, UnitOrPfx d)
    {R R' : Registry} (hl : loadInto R ds = some R') {k : String} (hk : k ∉ prefixKeys ds) :
    R'.prefixes.find? k = R.prefixes.find? k := C_prefixes_find_other hu hl hk

/-- the base units are the same set in every order -/
theorem C10_base_units_order_independent {ds ds' : List Definition} (hp : ds.Perm ds')
    (hu : ∀ d ∈ ds, UnitOrPfx d) (R : Registry) {R1 R2 : Registry}
    (h1 : loadInto R ds = some R1) (h2 : loadInto R ds' = some R2) :
    R1.baseUnits.Perm R2.baseUnits := D_baseUnits_perm hp hu R h1 h2

/-- the dimension table (base dimensions created on the fly by base units) in every order -/
theorem C10_dims_order_independent {ds ds' : List Definition} (hp : ds.Perm ds')
    (hu : ∀ d ∈ ds, UnitOrPfx d) (R : Registry) (n : String) :
    (loadInto R ds).map (·.dims.find? n) = (loadInto R ds').map (·.dims.find? n) :=
  D_dims_perm hp hu R n

/-- with derived-dimension and base-dimension lines too, as long as no dimension name is given two
    different definitions and no `alias` line occurs -/
theorem C10_dims_order_independent_general {ds ds' : List Definition} (hp : ds.Perm ds')
    (h : ∀ d ∈ ds, NoAlias d) (hf : KeyFunctional (setEvs (allDimEvs ds))) (R : Registry) (n : String) :
    (loadInto R ds).map (·.dims.find? n) = (loadInto R ds').map (·.dims.find? n) :=
  loadInto_dims_perm hp h hf R n

/-! non-vacuity: an offset unit with its companion, a prefix, a base unit -/
example (k : String) :
    (load [.unit Examples.degC, .pfx Examples.kilo, .unit Examples.kel]).map (·.units.find? k) =
    (load [.unit Examples.kel, .unit Examples.degC, .pfx Examples.kilo]).map (·.units.find? k) :=
  C10_units_order_independent Examples.perm_example (by simp [UnitOrPfx]) Examples.nodup_example [] k

/-! why the hypotheses are there (decided by evaluating the model) -/

/-- a written `delta_degC` and the automatic companion of `degC` overwrite each other -/
theorem C10_needs_distinct_companions :
    (load [.unit Examples.degC', .unit Examples.dC]).map (fun R => (R.units.find? "delta_degC").map (·.conv)) = some (some (.scale 2)) ∧
    (load [.unit Examples.dC, .unit Examples.degC']).map (fun R => (R.units.find? "delta_degC").map (·.conv)) = some (some (.scale 1)) :=
  Examples.counterexample_delta_clash

/-- two units sharing a spelling: the later line wins -/
theorem C10_needs_distinct_spellings :
    (load [.unit Examples.meter, .unit Examples.mile]).map (fun R => (R.units.find? "m").map (·.name)) = some (some "mile") ∧
    (load [.unit Examples.mile, .unit Examples.meter]).map (fun R => (R.units.find? "m").map (·.name)) = some (some "meter") :=
  Examples.counterexample_shared_symbol

/-- `alias` lines must follow the unit they extend -/
theorem C10_alias_needs_order :
    (load [.unit Examples.meter, .alias "meter" ["metre"]]).isSome = true ∧
    (load [.alias "meter" ["metre"], .unit Examples.meter]).isSome = false :=
  Examples.counterexample_alias

end Pint.Props.C10Load
