/-
  C14 — the `members` memo of the groups, as the source implements it, is transparent.

  `Gen/GroupPolicy.lean` (regenerated from `pint/facets/group/objects.py` / `pint/facets/system/objects.py` on every run) says
  what `invalidate_members` empties and which mutators call it.  The members of a group depend on its own content and on the
  content of every group below it; the theorems: the source's invalidation covers exactly those dependencies, hence every
  history of `members` reads interleaved with edits is answered as if nothing were memoised.
-/
import PintModel.Props.C14
import PintModel.Model.DepMemo
import PintModel.Gen.GroupPolicy

namespace Pint.Props.C14Memo
open Pint.DepMemo

variable {N ν : Type} [DecidableEq N]

/-- specification: the members of `t` depend on the content of `t` and of every group `t` uses, directly or through others -/
def dependsOn (below : N → N → Bool) (t c : N) : Bool := decide (t = c) || below t c

theorem C14_group_policy_recognised : Pint.Gen.GroupPolicy.problems = [] := by decide

/-- **the invalidation written in the source covers every dependency**, for every "uses" relation -/
theorem C14_group_policy_covers (below : N → N → Bool) :
    Covers (Pint.Gen.GroupPolicy.clearedBy below) (dependsOn below) := by
  intro c t hd
  unfold dependsOn at hd
  unfold Pint.Gen.GroupPolicy.clearedBy Pint.Gen.GroupPolicy.mutatorsInvalidate Pint.Gen.GroupPolicy.membersMemoGuard
    Pint.Gen.GroupPolicy.invalidateSelf Pint.Gen.GroupPolicy.invalidateUsers Pint.Gen.GroupPolicy.usedByMaintained
  simp only [Bool.or_eq_true, decide_eq_true_eq] at hd
  rcases hd with h | h
  · simp [h]
  · simp [h]

/-- **any history of `members` reads and content edits on a group graph** is answered like the memo-free closure.
    `_partial`: the "uses" relation is fixed over the history, i.e. the edits are `add_units` / `remove_units` (and any edit
    that leaves the graph as it is); `add_groups` / `remove_groups` change the relation itself and are compared with the
    closure over the raw fields by the harness (edit sequences), not covered by this theorem. -/
theorem C14_members_memo_transparent_partial (below : N → N → Bool) (spec : N → St N → ν)
    (hl : Local spec (dependsOn below)) (s : St N) (ops : List (Op N)) :
    run (Pint.Gen.GroupPolicy.clearedBy below) spec s (fun _ => none) ops = runSpec spec s ops :=
  run_transparent (C14_group_policy_covers below) hl s _ (by intro t v h; cases h) ops

/-- `System.members` keeps no memo: nothing to invalidate there (read from the source) -/
theorem C14_system_members_not_memoised : Pint.Gen.GroupPolicy.systemHasNoMemo = true := by decide

/-- a three-group chain 2 uses 1 uses 0: the hypotheses are satisfiable and the machine runs (a test, labelled as a test) -/
def demoBelow (t c : Nat) : Bool := decide (c < t)
def demoSpec (t : Nat) (s : St Nat) : List Nat := (List.range (t + 1)).map s

theorem C14_demo_local : Local demoSpec (dependsOn demoBelow) := by
  intro t s s' h
  unfold demoSpec
  apply List.map_congr_left
  intro c hc
  have hc' : c < t + 1 := List.mem_range.mp hc
  apply h
  unfold dependsOn demoBelow
  by_cases hq : t = c
  · simp [hq]
  · have : c < t := by omega
    simp [this]

example : run (Pint.Gen.GroupPolicy.clearedBy demoBelow) demoSpec (fun _ => 0) (fun _ => none)
      [.read 2, .read 1, .edit 0 5, .read 2, .read 1, .edit 2 7, .read 1, .read 2, .edit 1 3, .read 0, .read 2]
    = runSpec demoSpec (fun _ => 0)
      [.read 2, .read 1, .edit 0 5, .read 2, .read 1, .edit 2 7, .read 1, .read 2, .edit 1 3, .read 0, .read 2] := by decide

/-- **necessity** (the shape of F10, F91 and of the seeded changes that skip an invalidation): see `DepMemo.uncovered_counterexample` -/
theorem C14_uncovered_counterexample :
    ∃ (clearedBy dep : Bool → Bool → Bool) (spec : Bool → St Bool → Nat) (ops : List (Op Bool)),
      Local spec dep ∧ ¬ Covers clearedBy dep ∧ run clearedBy spec (fun _ => 0) (fun _ => none) ops ≠ runSpec spec (fun _ => 0) ops :=
  uncovered_counterexample

end Pint.Props.C14Memo
