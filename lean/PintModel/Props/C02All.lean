/-
  C02 — the exactness hypothesis holds for the bundled registry on the union of the six chunks, i.e.
  on every canonical name whose expansion stays in exact rational arithmetic with integer exponents.
-/
import PintModel.Props.C02W0
import PintModel.Props.C02W1
import PintModel.Props.C02W2
import PintModel.Props.C02W3
import PintModel.Props.C02W4
import PintModel.Props.C02W5

namespace Pint.Props.C02
open Pint Pint.UC

/-- well-formedness on two reference-closed sets gives it on their union -/
theorem wfintOn_union {R : Registry} {S T : String → Prop} (hS : R.WFintOn S) (hT : R.WFintOn T) :
    R.WFintOn (fun k => S k ∨ T k) := by
  intro k hk key d hr hb
  rcases hk with h | h
  · obtain ⟨h1, h2, h3⟩ := hS k h key d hr hb
    exact ⟨h1, fun k' hk' => Or.inl (h2 k' hk'), h3⟩
  · obtain ⟨h1, h2, h3⟩ := hT k h key d hr hb
    exact ⟨h1, fun k' hk' => Or.inr (h2 k' hk'), h3⟩

/-- every exact canonical name of the bundled registry -/
def ExactName (k : String) : Prop :=
  k ∈ Gen.exactChunk0 ∨ k ∈ Gen.exactChunk1 ∨ k ∈ Gen.exactChunk2 ∨ k ∈ Gen.exactChunk3 ∨ k ∈ Gen.exactChunk4 ∨ k ∈ Gen.exactChunk5

theorem C02_default_wfint_all : Gen.defaultRegistry.WFintOn ExactName :=
  wfintOn_union C02_wfint_chunk0 (wfintOn_union C02_wfint_chunk1 (wfintOn_union C02_wfint_chunk2
    (wfintOn_union C02_wfint_chunk3 (wfintOn_union C02_wfint_chunk4 C02_wfint_chunk5))))

end Pint.Props.C02
