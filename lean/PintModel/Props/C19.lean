/-
  C19 — measurements carry uncertainty consistently through conversion and arithmetic.

  Model: `PintModel/Model/Measure.lean` : `mk` (= `Measurement.__new__`), accessors, `plusMinus`,
  `convertAffine` (conversion of an uncertain magnitude through x ↦ a·x + b), `uncTokens`
  (= `uncertainty_tokenizer` on Python's token stream), `parenStd` (digit alignment of `n(s)`).
  The unit conversion `toUnits` is a parameter (C02/C06 say what it returns); first-order error
  propagation in arithmetic is the `uncertainties` package (checked numerically by the harness).
-/
import PintModel.Model.Measure
import PintModel.Proofs.MeasureLemmas

namespace Pint.Props.C19
open Pint Pint.Meas Pint.Eval

variable (toUnits : Rat → UC → UC → Except Err Rat)

/-! ### constructor, accessors, negative errors -/

/-- a measurement built from a value and a non-negative absolute error reports them back -/
theorem C19_accessors (n s : Rat) (u : UC) (h : ¬ s < 0) :
    ∃ m, mk toUnits (.num n) (some (.num s)) (some u) = .ok m ∧
      value m = ⟨n, u⟩ ∧ error m = ⟨s, u⟩ ∧ (n ≠ 0 → rel m = .ok (absR (s / n))) := by
  refine ⟨⟨n, s, u⟩, Meas.mk_nums toUnits n s u h, rfl, rfl, ?_⟩
  intro hn; simp [rel, hn]

theorem C19_negative_rejected (n s : Rat) (u : UC) (h : s < 0) :
    mk toUnits (.num n) (some (.num s)) (some u) = .error .value := Meas.mk_nums_neg toUnits n s u h

/-- every constructor form builds the same measurement: quantity pair (error converted to the value's
    units), quantity + number, ufloat + unit, plus_minus absolute / relative / quantity -/
theorem C19_forms_agree (n se s : Rat) (u eu : UC) (hc : toUnits se eu u = .ok s) (x : Rat) :
    mk toUnits (.q n u) (some (.q se eu)) none = mk toUnits (.num n) (some (.num s)) (some u) ∧
    mk toUnits (.q n u) (some (.num s)) none = mk toUnits (.num n) (some (.num s)) (some u) ∧
    mk toUnits (.ufl n s) (some (.q x u)) none = .ok ⟨n, s, u⟩ ∧
    plusMinus toUnits ⟨n, u⟩ (.num s) false = mk toUnits (.num n) (some (.num s)) (some u) ∧
    plusMinus toUnits ⟨n, u⟩ (.q se eu) false = mk toUnits (.num n) (some (.num s)) (some u) :=
  ⟨Meas.mk_qpair toUnits n se s u eu hc, Meas.mk_qnum toUnits n s u, Meas.mk_ufloat toUnits n s x u,
   Meas.pm_abs toUnits n s u, Meas.pm_quantity toUnits n se s u eu hc⟩

theorem C19_relative_form (n r : Rat) (u : UC) :
    plusMinus toUnits ⟨n, u⟩ (.num r) true = mk toUnits (.num n) (some (.num (r * absR n))) (some u) :=
  Meas.pm_rel toUnits n r u

theorem C19_incompatible_error (n se : Rat) (u eu : UC) (e : Err) (hc : toUnits se eu u = .error e) :
    mk toUnits (.q n u) (some (.q se eu)) none = .error e := Meas.mk_qpair_incompatible toUnits n se u eu e hc

theorem C19_relative_quantity_refused (n se : Rat) (u eu : UC) :
    plusMinus toUnits ⟨n, u⟩ (.q se eu) true = .error .value := Meas.pm_quantity_relative toUnits n se u eu

/-! ### conversion -/

/-- the nominal value converts like a plain quantity, the standard deviation is scaled by the slope only -/
theorem C19_convert (m : M) (a b : Rat) (dst : UC) :
    value (convertAffine m a b dst) = ⟨a * m.nominal + b, dst⟩ ∧
    error (convertAffine m a b dst) = ⟨absR a * m.std, dst⟩ ∧
    error (convertAffine m a b dst) = error (convertAffine m a 0 dst) := ⟨rfl, rfl, rfl⟩

/-- so the relative error is unchanged under a multiplicative conversion -/
theorem C19_rel_invariant (m : M) (a : Rat) (dst : UC) (ha : a ≠ 0) (hn : m.nominal ≠ 0) :
    rel (convertAffine m a 0 dst) = rel m := Meas.rel_convert m a dst ha hn

example : (rel (convertAffine ⟨5, 1 / 2, [("foot", 1)]⟩ (381 / 1250) 0 [("meter", 1)])).toOption = some (1 / 10)
    ∧ (rel ⟨5, 1 / 2, [("foot", 1)]⟩).toOption = some (1 / 10) := by
  decide +kernel

/-! ### the uncertainty tokenizer -/

theorem C19_tokens_paren (fuel : Nat) (n s : Token) (rest : List Token)
    (hn : n.kind = .number) (hs : s.kind = .number) (hm : n.text ≠ "-") (he : possibleE rest = .ok none) :
    uncTokens (fuel + 1) (⟨.op, "("⟩ :: n :: ⟨.op, "+"⟩ :: ⟨.op, "/"⟩ :: ⟨.op, "-"⟩ :: s :: ⟨.op, ")"⟩ :: rest) =
      (match uncTokens fuel rest with | .ok r => .ok ([n, pmOp, s] ++ r) | .error e => .error e) :=
  Meas.tok_paren fuel n s rest hn hs hm he

theorem C19_tokens_paren_exponent (fuel : Nat) (n s : Token) (rest : List Token) (e : String) (k : Nat)
    (hn : n.kind = .number) (hs : s.kind = .number) (hm : n.text ≠ "-") (he : possibleE rest = .ok (some (e, k))) :
    uncTokens (fuel + 1) (⟨.op, "("⟩ :: n :: ⟨.op, "+"⟩ :: ⟨.op, "/"⟩ :: ⟨.op, "-"⟩ :: s :: ⟨.op, ")"⟩ :: rest) =
      (match uncTokens fuel (rest.drop k) with | .ok r => .ok ([applyE n e, pmOp, applyE s e] ++ r) | .error e => .error e) :=
  Meas.tok_paren_e fuel n s rest e k hn hs hm he

theorem C19_tokens_paren_minus (fuel : Nat) (n s : Token) (rest : List Token)
    (hn : n.kind = .number) (hs : s.kind = .number) (he : possibleE rest = .ok none) :
    uncTokens (fuel + 1) (⟨.op, "("⟩ :: ⟨.op, "-"⟩ :: n :: ⟨.op, "+"⟩ :: ⟨.op, "/"⟩ :: ⟨.op, "-"⟩ :: s :: ⟨.op, ")"⟩ :: rest) =
      (match uncTokens fuel rest with | .ok r => .ok ([⟨.op, "-"⟩, n, pmOp, s] ++ r) | .error e => .error e) :=
  Meas.tok_paren_minus fuel n s rest hn hs he

theorem C19_tokens_nparen (fuel : Nat) (n s : Token) (rest : List Token)
    (hn : n.kind = .number) (hs : s.kind = .number) (h1 : n.text ≠ "+") (h2 : n.text ≠ "(")
    (he : possibleE rest = .ok none) :
    uncTokens (fuel + 1) (n :: ⟨.op, "("⟩ :: s :: ⟨.op, ")"⟩ :: rest) =
      (match uncTokens fuel rest with | .ok r => .ok ([n, pmOp, ⟨s.kind, parenStd n.text s.text⟩] ++ r) | .error e => .error e) :=
  Meas.tok_nparen fuel n s rest hn hs h1 h2 he

theorem C19_tokens_pm (fuel : Nat) (rest : List Token) :
    uncTokens (fuel + 1) (⟨.op, "+"⟩ :: ⟨.op, "/"⟩ :: ⟨.op, "-"⟩ :: rest) =
      (match uncTokens fuel rest with | .ok r => .ok (pmOp :: r) | .error e => .error e) := Meas.tok_pm fuel rest

theorem C19_tokens_other (fuel : Nat) (t : Token) (rest : List Token)
    (h1 : t.text ≠ "+") (h2 : t.text ≠ "(") (h3 : t.kind ≠ .number) :
    uncTokens (fuel + 1) (t :: rest) =
      (match uncTokens fuel rest with | .ok r => .ok (t :: r) | .error e => .error e) := Meas.tok_other fuel t rest h1 h2 h3

/-- a notation at the end of the input has no exponent (F14) -/
theorem C19_end_of_input (t : Token) (rest : List Token) (h : t.text = "") : possibleE (t :: rest) = .ok none :=
  Meas.possibleE_end t rest h

/-- `n(s)` : the digits in parentheses are an uncertainty in the last digits of the mantissa of n (F28) -/
theorem C19_paren_digits (nominal std : String) (h : std.toList.contains '.' = false) :
    (parenMant nominal std).toList.filter (· != '.') = rjustZero std.toList (decimalsOf nominal + 1) :=
  Meas.parenMant_digits nominal std h

theorem C19_paren_point (nominal std : String) (h : std.toList.contains '.' = false) (hd : decimalsOf nominal ≠ 0) :
    ∃ ip fp, (parenMant nominal std).toList = ip ++ ['.'] ++ fp ∧ fp.length = decimalsOf nominal ∧ ip ≠ [] ∧
      ip ++ fp = rjustZero std.toList (decimalsOf nominal + 1) := Meas.parenMant_point nominal std h hd

/-- ... and they carry the exponent of n (F70): without an exponent the text is the aligned digits, with one the
    same exponent is appended; an uncertainty written with a decimal point is taken as it stands -/
theorem C19_paren_exponent (nominal std : String) (h : std.toList.contains '.' = false) :
    parenStd nominal std =
      (if exponentOf nominal == "" then parenMant nominal std else parenMant nominal std ++ "e" ++ exponentOf nominal) := by
  unfold parenStd
  simp only [h, Bool.false_eq_true, if_false]

theorem C19_paren_explicit (nominal std : String) (h : std.toList.contains '.' = true) : parenStd nominal std = std := by
  unfold parenStd
  simp only [h, if_true]

example : parenStd "2.00" "3" = "0.03" ∧ parenStd "12.3" "45" = "4.5" ∧ parenStd "2" "3" = "3" ∧ parenStd "2.0" "3" = "0.3"
    ∧ parenStd "1.5" "1.2" = "1.2" ∧ parenStd "2.000" "30" = "0.030" ∧ parenStd "1.234e-3" "56" = "0.056e-3"
    ∧ parenStd "1.50E3" "2" = "0.02e3" ∧ parenStd "1e3" "2" = "2e3" := by decide +kernel

/-- whole notations, through the tokenizer -/
example : (uncTokens 20 [⟨.op, "("⟩, ⟨.number, "2.0"⟩, ⟨.op, "+"⟩, ⟨.op, "/"⟩, ⟨.op, "-"⟩, ⟨.number, "0.3"⟩, ⟨.op, ")"⟩,
      ⟨.name, "e3"⟩, ⟨.name, "m"⟩, ⟨.other, ""⟩, ⟨.endmarker, ""⟩]).toOption
    = some [⟨.number, "2.0e3"⟩, pmOp, ⟨.number, "0.3e3"⟩, ⟨.name, "m"⟩, ⟨.other, ""⟩, ⟨.endmarker, ""⟩] := by decide +kernel

example : (uncTokens 20 [⟨.number, "2.00"⟩, ⟨.op, "("⟩, ⟨.number, "3"⟩, ⟨.op, ")"⟩, ⟨.name, "E"⟩, ⟨.op, "+"⟩, ⟨.number, "2"⟩,
      ⟨.other, ""⟩, ⟨.endmarker, ""⟩]).toOption
    = some [⟨.number, "2.00e+2"⟩, pmOp, ⟨.number, "0.03e+2"⟩, ⟨.other, ""⟩, ⟨.endmarker, ""⟩] := by decide +kernel

end Pint.Props.C19
