/-
  C11 — context conversions apply the declared rules along a shortest chain.

  Model: `Model/Context.lean` (`ContextChain` lookup, `enable_contexts` parameter merging,
  `find_shortest_path`, context-aware `_convert`).
-/
import PintModel.Model.Context
import PintModel.Proofs.BfsLemmas

namespace Pint.Props.C11
open Pint Pint.Ctx

/-- the most recently enabled context wins when rules collide: the rule used for an edge is the
    one of the first context (in stack order, most recent first) that has a rule for it -/
theorem C11_precedence (st : State) (c : Context) (src dst : UC) :
    lookupRule { st with active := c :: st.active } src dst =
      (match c.rules.find? (fun r => sameKey (r.src, r.dst) (src, dst)) with
        | some r => some (r, c)
        | none => lookupRule st src dst) := by
  unfold lookupRule
  simp only [List.findSome?_cons]
  cases h : c.rules.find? (fun r => sameKey (r.src, r.dst) (src, dst)) <;> simp [h]

/-- contexts passed in one call: the last argument is the most recent -/
theorem C11_enable_order (st st' : State) (names : List String) (kw : List (String × Rat))
    (h : enable st names kw = .ok st') :
    ∃ inst : List Context, inst.length = names.length ∧ st'.active = inst.reverse ++ st.active ∧
      st'.contexts = st.contexts := by
  unfold enable at h
  simp only at h
  generalize hres : enable.resolve st names = res at h
  cases res with
  | error e => simp at h
  | ok cs =>
    simp only [Except.ok.injEq] at h
    subst h
    refine ⟨_, ?_, rfl, rfl⟩
    simp only [List.length_map]
    -- `resolve` returns one context per name
    have : ∀ (ns : List String) (cs : List Context), enable.resolve st ns = .ok cs → cs.length = ns.length := by
      intro ns
      induction ns with
      | nil => intro cs h; simp [enable.resolve] at h; subst h; rfl
      | cons n ns ih =>
        intro cs h
        simp only [enable.resolve] at h
        split at h
        · cases h
        · next c hc =>
          split at h
          · next cs' hcs => simp only [Except.ok.injEq] at h; subst h; simp [ih _ hcs]
          · cases h
    exact this _ _ hres

/-- parameters: keyword arguments of the call, else the enclosing active context's values, else
    the context's declared defaults (left-biased merges, as coded) -/
theorem C11_params (c : Context) (kw : List (String × Rat)) (hk : kw ≠ []) :
    (fromContext c kw).defaults = mergeKw c.defaults kw ∧ (fromContext c []).defaults = c.defaults := by
  constructor
  · unfold fromContext
    have : kw.isEmpty = false := by cases kw with | nil => exact absurd rfl hk | cons _ _ => rfl
    simp [this]
  · rfl

theorem mergeKw_find_kw (base kw : List (String × Rat)) (k : String) (v : Rat)
    (hkw : kw = [(k, v)]) : (mergeKw base kw).find? (·.1 == k) = some (k, v) := by
  subst hkw
  unfold mergeKw
  simp only [List.foldl_cons, List.foldl_nil]
  by_cases h : base.any (fun q => q.1 == k) = true
  · simp only [h, if_true]
    induction base with
    | nil => simp at h
    | cons q t ih =>
      simp only [List.map_cons, List.find?_cons]
      by_cases hq : (q.1 == k) = true
      · simp [hq]
      · simp only [hq, Bool.false_eq_true, if_false]
        simp only [List.any_cons, hq, Bool.false_or] at h
        exact ih h
  · simp only [h, Bool.false_eq_true, if_false]
    rw [List.find?_append]
    have : base.find? (fun q => q.1 == k) = none := by
      rw [List.find?_eq_none]
      intro x hx hxk
      apply h
      exact List.any_eq_true.mpr ⟨x, hx, hxk⟩
    simp [this]

/-- same-dimension conversions are unchanged by active contexts -/
theorem C11_same_dim (R : Registry) (m : Mode) (st : State) (x : Rat) (src dst sd dd : UC)
    (hs : R.getDimensionality src = .ok sd) (hd : R.getDimensionality dst = .ok dd)
    (he : sd.beq dd = true) (hne : src.beq dst = false) :
    convert R m st x src dst = R.convert x src dst m.autoconvert := by
  unfold convert
  by_cases ha : st.active.isEmpty = true
  · simp [ha]
  · simp only [ha, Bool.false_eq_true, if_false, hne, hs, hd]
    unfold findShortestPath
    simp only [he, if_true]
    unfold convertAlong convertAlong.go
    rfl

/-- unreachable targets still go through the plain conversion (hence DimensionalityError, C01) -/
theorem C11_unreachable (R : Registry) (m : Mode) (st : State) (x : Rat) (src dst sd dd : UC)
    (hs : R.getDimensionality src = .ok sd) (hd : R.getDimensionality dst = .ok dd)
    (hne : src.beq dst = false)
    (hp : findShortestPath (edges st) sd dd = none) :
    convert R m st x src dst = R.convert x src dst m.autoconvert := by
  unfold convert
  by_cases ha : st.active.isEmpty = true
  · simp [ha]
  · simp [ha, hne, hs, hd, hp]

/-- with no context active nothing changes -/
theorem C11_no_context (R : Registry) (m : Mode) (st : State) (x : Rat) (src dst : UC)
    (h : st.active = []) : convert R m st x src dst = R.convert x src dst m.autoconvert := by
  unfold convert; simp [h]

/-! ### the path search (`find_shortest_path` as a breadth-first search over the active graph) -/

/-- a returned path is a walk of the active graph from the source dimension to the destination -/
theorem C11_path_valid {es : List (UC × UC)} (hr : Pint.Ctx.EdgeRefl es) {s t : UC} {p : List UC}
    (h : Pint.Ctx.findShortestPath es s t = some p) :
    Pint.Ctx.isPath es p = true ∧ p.head? = some s ∧ ∃ last, p.getLast? = some last ∧ last.beq t = true :=
  Pint.Ctx.bfs_path hr h

/-- and no walk from source to destination is shorter -/
theorem C11_path_shortest {es : List (UC × UC)} (hr : Pint.Ctx.EdgeRefl es) {s t : UC} (hs : s.beq s = true)
    {p : List UC} (h : Pint.Ctx.findShortestPath es s t = some p) :
    ∀ p' : List UC, Pint.Ctx.isPath es p' = true → p'.head? = some s →
      (∃ last, p'.getLast? = some last ∧ last.beq t = true) → p.length ≤ p'.length :=
  Pint.Ctx.bfs_shortest hr hs h

/-- "no path" means the destination is unreachable: no walk of the active graph leads from the source
    dimension to a node equal to the destination.  Unconditional: the fuel `Pint.Ctx.bfsFuel es` of the
    model is proved to bound the number of iterations of pint's (fuel-free) loop
    (`Pint.Ctx.bfs_fuel_suffices`), although that loop marks nodes visited only when popped and its queue
    may grow exponentially with the number of layers of the graph. -/
theorem C11_path_none {es : List (UC × UC)} (hr : Pint.Ctx.EdgeRefl es) {s t : UC}
    (hs : s.beq s = true) (h : Pint.Ctx.findShortestPath es s t = none) :
    ¬ ∃ p, Pint.Ctx.isPath es p = true ∧ p.head? = some s ∧ (∃ l, p.getLast? = some l ∧ l.beq t = true) :=
  Pint.Ctx.bfs_none_unreachable_full hr hs h

/-- the model's loop never runs out of fuel -/
theorem C11_fuel_suffices {es : List (UC × UC)} (hr : Pint.Ctx.EdgeRefl es) {s t : UC}
    (hs : s.beq s = true) : Pint.Ctx.bfsExhausts es t (Pint.Ctx.bfsFuel es) [(s, [s])] [] = false :=
  Pint.Ctx.bfs_fuel_suffices hr hs

/-- the hypotheses are met by containers without duplicate keys (every container pint builds) -/
theorem C11_edgeRefl {es : List (UC × UC)} (h : ∀ e ∈ es, (e.2.map (·.1)).Nodup) : Pint.Ctx.EdgeRefl es :=
  Pint.Ctx.edgeRefl_of_nodup h

example : Pint.Ctx.findShortestPath [([("[length]", 1)], [("[time]", 1)]), ([("[time]", 1)], [("[mass]", 1)])]
    [("[length]", 1)] [("[mass]", 1)] = some [[("[length]", 1)], [("[time]", 1)], [("[mass]", 1)]] := by decide +kernel

/-- an unreachable destination (edges are directed): the search answers `none` -/
example : Pint.Ctx.findShortestPath [([("[length]", 1)], [("[time]", 1)]), ([("[time]", 1)], [("[mass]", 1)])]
    [("[mass]", 1)] [("[length]", 1)] = none := by decide +kernel

def nd (i : Nat) : UC := [("x", (i : Rat))]

/-- layers `{2j-1, 2j}`, `j = 1..d`, fully connected to the next layer; `0` is the start and `2d+1` the
    target (the queue of the loop doubles at every layer: nodes are marked visited when popped) -/
def layered (d : Nat) : List (UC × UC) :=
  [(nd 0, nd 1), (nd 0, nd 2)] ++
  (List.range (d - 1)).flatMap (fun j =>
    [(nd (2*j+1), nd (2*j+3)), (nd (2*j+1), nd (2*j+4)), (nd (2*j+2), nd (2*j+3)), (nd (2*j+2), nd (2*j+4))]) ++
  [(nd (2*d-1), nd (2*d+1)), (nd (2*d), nd (2*d+1))]

example : Pint.Ctx.findShortestPath (layered 3) (nd 0) (nd 7) = some [nd 0, nd 1, nd 3, nd 5, nd 7] := by
  decide +kernel

end Pint.Props.C11
