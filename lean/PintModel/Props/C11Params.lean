/-
  C11 — parameters of a context: "taken from the call's keyword arguments, else from the enclosing active
  context, else from the context's declared defaults" — for every state, every list of names and every
  keyword list, at the level of `enable` (`enable_contexts`), after the F64 repair (`chainDefaults` = the
  parameters of the most recently enabled context).
-/
import PintModel.Model.Context
import PintModel.Props.C11
import PintModel.Proofs.ParamLemmas

namespace Pint.Props.C11Params
open Pint Pint.Ctx

/-- `d.get(k)` on an association list with unique keys -/
def lookupP (l : List (String × Rat)) (k : String) : Option Rat := (l.find? (·.1 == k)).map (·.2)

/-- `dict(base, **kw)` : a key of `kw` wins, every other key keeps the value of `base` -/
theorem C11_mergeKw_lookup (base kw : List (String × Rat)) (hkw : (kw.map (·.1)).Nodup) (k : String) :
    lookupP (mergeKw base kw) k = (lookupP kw k).orElse (fun _ => lookupP base k) :=
  getKV_mergeKw base kw hkw k

/-- the parameters in force for a context `c` enabled with keywords `kw` while `st` is the state:
    keyword arguments, else the innermost active context's parameters, else its own declared defaults -/
def inForce (st : State) (c : Context) (kw : List (String × Rat)) (k : String) : Option Rat :=
  (lookupP kw k).orElse fun _ => (lookupP (chainDefaults st) k).orElse fun _ => lookupP c.defaults k

/-- FULL STATEMENT: a successful `enable st names kw` pushes, for the registered contexts `cs` the names
    resolve to (in order), instances whose parameters are exactly `inForce`; everything below is untouched.
    `hd`: the parameters of the innermost active context have unique keys (a Python dict; it holds in every
    reachable state, see `C11_defaults_nodup_inv` and `C11_chainDefaults_nodup`) -/
theorem C11_param_inheritance (st st' : State) (names : List String) (kw : List (String × Rat))
    (hkw : (kw.map (·.1)).Nodup) (hd : ((chainDefaults st).map (·.1)).Nodup)
    (h : enable st names kw = .ok st') :
    ∃ cs insts : List Context,
      cs.length = names.length ∧ insts.length = cs.length ∧
      (∀ i (hi : i < names.length) (hc : i < cs.length), ∃ key, st.contexts.find? (·.1 == names[i]) = some (key, cs[i])) ∧
      st'.active = insts.reverse ++ st.active ∧ st'.contexts = st.contexts ∧
      (∀ i (hc : i < cs.length) (hi : i < insts.length),
        insts[i].name = cs[i].name ∧ insts[i].rules = cs[i].rules ∧
        ∀ k, lookupP insts[i].defaults k = inForce st cs[i] kw k) := by
  obtain ⟨cs, hres, rfl⟩ := enable_ok h
  obtain ⟨hlen, hfind⟩ := resolve_ok hres
  refine ⟨cs, cs.map (fun c => fromContext c (enableKw st kw)), hlen, List.length_map _, hfind, rfl, rfl, ?_⟩
  intro i hc hi
  rw [List.getElem_map]
  exact ⟨fromContext_name _ _, fromContext_rules _ _, fun k => getKV_instance st cs[i] kw hkw hd k⟩

/-- unique keys are an invariant of `enable`: if the declared defaults of every registered context and the
    parameters of every active context have unique keys, the same holds after a successful `enable`
    (whatever the keyword list), so the hypothesis `hd` of `C11_param_inheritance` is met by every state
    reached from a registry whose contexts declare each default once -/
theorem C11_defaults_nodup_inv (st st' : State) (names : List String) (kw : List (String × Rat))
    (hreg : ∀ p ∈ st.contexts, (p.2.defaults.map (·.1)).Nodup)
    (hact : ∀ c ∈ st.active, (c.defaults.map (·.1)).Nodup)
    (h : enable st names kw = .ok st') :
    (∀ p ∈ st'.contexts, (p.2.defaults.map (·.1)).Nodup) ∧
    (∀ c ∈ st'.active, (c.defaults.map (·.1)).Nodup) := by
  obtain ⟨cs, hres, rfl⟩ := enable_ok h
  refine ⟨hreg, ?_⟩
  intro c hc
  rcases List.mem_append.mp hc with hc | hc
  · obtain ⟨c0, hc0, rfl⟩ := List.mem_map.mp (List.mem_reverse.mp hc)
    obtain ⟨p, hp, rfl⟩ := resolve_mem hres c0 hc0
    exact keysOf_fromContext_nodup _ _ (hreg p hp)
  · exact hact c hc

/-- `disable` keeps the invariant -/
theorem C11_defaults_nodup_disable (st : State) (n : Option Nat)
    (hact : ∀ c ∈ st.active, (c.defaults.map (·.1)).Nodup) :
    ∀ c ∈ (disable st n).active, (c.defaults.map (·.1)).Nodup := by
  intro c hc
  cases n with
  | none => cases hc
  | some k => exact hact c (List.mem_of_mem_drop hc)

/-- under the invariant the parameters handed on by the chain have unique keys -/
theorem C11_chainDefaults_nodup (st : State) (hact : ∀ c ∈ st.active, (c.defaults.map (·.1)).Nodup) :
    ((chainDefaults st).map (·.1)).Nodup :=
  chainDefaults_nodup st hact

/-- an unknown name fails and (being a pure function) changes nothing -/
theorem C11_enable_unknown (st : State) (names : List String) (kw : List (String × Rat)) (n : String)
    (hn : n ∈ names) (hu : st.contexts.find? (·.1 == n) = none) :
    ∃ m, enable st names kw = .error (.unknown m) := by
  obtain ⟨m, hm⟩ := resolve_unknown st names n hn hu
  exact ⟨m, by rw [enable_eq, hm]⟩

/-! ### three nested contexts: the innermost one's parameters are handed on (the F64 history) -/

def cx (name : String) (n : Rat) : Context := { name := name, defaults := [("n", n)] }
def st0 : State := { contexts := [("x", cx "x" 1), ("y", cx "y" 1), ("z", cx "z" 1)] }

/- enable x with n = 2, then y with n = 4, then z without keywords: z runs with n = 4 (and y with 4, x with 2) -/
example : (do
    let s1 ← enable st0 ["x"] [("n", 2)]
    let s2 ← enable s1 ["y"] [("n", 4)]
    let s3 ← enable s2 ["z"] []
    pure (s3.active.map fun c => (c.name, lookupP c.defaults "n")) : Except EnableErr _).toOption
    = some [("z", some 4), ("y", some 4), ("x", some 2)] := by
  decide +kernel

end Pint.Props.C11Params
