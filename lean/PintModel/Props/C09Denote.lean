/-
  C09 — every textual format denotes the unit exactly (structure level).

  `Fmt.formatterExpr` records the decisions `formatter` takes before style strings are substituted;
  `C09_formatter_is_render` shows that the text `formatter` writes IS the rendering of that structure
  for every style; `C09_denote_exact` shows that the structure stands for exactly the unit that was
  formatted — for every unit, every style class (ratio / product, grouped or sequential denominator)
  and every display-name map that keeps names distinct.
-/
import PintModel.Props.C09
import PintModel.Model.FormatDenote
import PintModel.Proofs.FormatDenoteLemmas
import PintModel.Gen.FormatTables
import PintModel.Gen.DefaultRegistry

namespace Pint.Props.C09Denote
open Pint Pint.Fmt Pint.Fmt.DenoteLemmas

/-- the text written by `formatter` is the rendering of the structure, for every style and input -/
theorem C09_formatter_is_render (st : Style) (num den : List (String × Rat)) :
    formatter st num den = (formatterExpr st.asRatio st.singleDenominator num den).render st :=
  formatter_is_render st num den

/-- formatter level: numerator items with positive exponents, denominator items with negative
    exponents (what `prepare` hands over when as_ratio is set), pairwise distinct names: the written
    structure stands for exactly these items -/
theorem C09_denote_ratio (singleDen : Bool) (num den : List (String × Rat))
    (hk : (UC.keys (num ++ den)).Nodup) (hn : ∀ p ∈ num, 0 < p.2) (hd : ∀ p ∈ den, p.2 < 0) :
    UC.Equiv (formatterExpr true singleDen num den).denote (num ++ den) :=
  denote_ratio singleDen num den hk hn hd

set_option linter.unusedVariables false in  -- `hz` is not needed: zero exponents are written as they are
/-- without as_ratio every item is written with its own exponent -/
theorem C09_denote_product (singleDen : Bool) (num den : List (String × Rat))
    (hk : (UC.keys (num ++ den)).Nodup) (hz : ∀ p ∈ num ++ den, p.2 ≠ 0) :
    UC.Equiv (formatterExpr false singleDen num den).denote (num ++ den) :=
  denote_product singleDen num den hk

/-- registry level, long names: for every canonical non-empty unit, every style class, what
    `prepare` + `formatter` write stands for exactly that unit -/
theorem C09_denote_exact (R : Registry) (u : UC) (hc : u.Canon) (hne : u ≠ [])
    (asRatio singleDen : Bool) :
    UC.Equiv (formatterExpr asRatio singleDen (prepare R u false asRatio).1 (prepare R u false asRatio).2).denote u := by
  have hs : (u.map fun p => dispName R false p.1).Nodup := by
    have : (u.map fun p => dispName R false p.1) = u.keys := by simp [dispName, UC.keys]
    rw [this]; exact hc.1
  have h := denote_exact_gen R u hc.2 hne false asRatio singleDen hs
  rw [shown_long] at h
  exact h

/-- registry level, short names (`~`): the same with every name replaced by its symbol, provided
    the symbols of the unit's names are pairwise distinct (F9 is the recorded case where symbols
    collide with OTHER units' spellings; inside one unit distinct names have distinct symbols for
    the bundled registry) -/
theorem C09_denote_exact_short (R : Registry) (u : UC) (hc : u.Canon) (hne : u ≠ [])
    (asRatio singleDen : Bool)
    (hs : ((u.map fun p => (match R.units.find? p.1 with | some d => d.sym | none => p.1))).Nodup) :
    UC.Equiv (formatterExpr asRatio singleDen (prepare R u true asRatio).1 (prepare R u true asRatio).2).denote
      (u.map fun p => ((match R.units.find? p.1 with | some d => d.sym | none => p.1), p.2)) := by
  have e : ∀ k : String, (match R.units.find? k with | some d => d.sym | none => k) = dispName R true k := by
    intro k
    cases h : R.units.find? k <;> simp [dispName, h]
  have e1 : (fun p : String × Rat => (match R.units.find? p.1 with | some d => d.sym | none => p.1))
      = fun p => dispName R true p.1 := funext fun p => e p.1
  have e2 : (fun p : String × Rat => ((match R.units.find? p.1 with | some d => d.sym | none => p.1), p.2))
      = fun p => (dispName R true p.1, p.2) := funext fun p => by rw [e p.1]
  rw [e1] at hs
  rw [e2]
  exact denote_exact_gen R u hc.2 hne true asRatio singleDen hs

/-- the empty unit: "dimensionless" (long) and the empty text (short) -/
theorem C09_denote_empty (R : Registry) (asRatio singleDen : Bool) :
    (formatterExpr asRatio singleDen (prepare R [] false asRatio).1 (prepare R [] false asRatio).2).denote
        = [("dimensionless", 1)] ∧
    (formatterExpr asRatio singleDen (prepare R [] true asRatio).1 (prepare R [] true asRatio).2) = .empty := by
  have h1 : prepare R [] false asRatio = ([("dimensionless", 1)], []) := rfl
  have h2 : prepare R [] true asRatio = ([], []) := rfl
  rw [h1, h2]
  cases asRatio <;> cases singleDen <;> exact ⟨by decide +kernel, rfl⟩

set_option linter.unusedVariables false in  -- `hk` is not needed (see below)
/-- sequential and grouped denominators stand for the same unit (the names need not even be
    distinct: both readings subtract every written exponent) -/
theorem C09_seq_eq_group (pos neg : List FTerm) (hk : (neg.map (·.name)).Nodup) :
    UC.Equiv (FExpr.ratioSeq pos neg).denote (FExpr.ratioGroup pos neg).denote :=
  seq_eq_group pos neg

/-! ### the hypotheses are met and the statement is not trivial: concrete units in every style -/

def uEx : UC := [("kilogram", 1), ("meter", 2), ("second", -3), ("kelvin", -1)]

theorem uEx_canon : uEx.Canon := by
  unfold UC.Canon UC.NoZero
  decide +kernel

example : uEx.Canon := uEx_canon

/-- the structures chosen for the five generated styles (D, H, P, L, C) -/
example : (Gen.styles.map fun st =>
      formatterExpr st.asRatio st.singleDenominator (prepare Gen.defaultRegistry uEx false true).1
          (prepare Gen.defaultRegistry uEx false true).2) =
    [ .ratioSeq [⟨"kilogram", none⟩, ⟨"meter", some 2⟩] [⟨"kelvin", none⟩, ⟨"second", some 3⟩],
      .ratioGroup [⟨"kilogram", none⟩, ⟨"meter", some 2⟩] [⟨"kelvin", none⟩, ⟨"second", some 3⟩],
      .ratioSeq [⟨"kilogram", none⟩, ⟨"meter", some 2⟩] [⟨"kelvin", none⟩, ⟨"second", some 3⟩],
      .ratioGroup [⟨"kilogram", none⟩, ⟨"meter", some 2⟩] [⟨"kelvin", none⟩, ⟨"second", some 3⟩],
      .ratioSeq [⟨"kilogram", none⟩, ⟨"meter", some 2⟩] [⟨"kelvin", none⟩, ⟨"second", some 3⟩] ] := by
  decide +kernel

set_option maxRecDepth 100000 in
/-- their renderings: the strings the model produces for the five generated styles; they are also
    what pint prints (checked by the correspondence; the LaTeX brackets become braces in
    `formatUnit`) -/
example : ((Gen.styles.map fun st =>
      (formatterExpr st.asRatio st.singleDenominator (prepare Gen.defaultRegistry uEx false true).1
          (prepare Gen.defaultRegistry uEx false true).2).render st)) =
    [ some "kilogram * meter ** 2 / kelvin / second ** 3",
      some "kilogram meter<sup>2</sup>/(kelvin second<sup>3</sup>)",
      some "kilogram·meter²/kelvin/second³",
      some "\\frac[kilogram \\cdot meter^[2]][\\left(kelvin \\cdot second^[3]\\right)]",
      some "kilogram*meter**2/kelvin/second**3" ] := by
  decide +kernel

set_option maxRecDepth 100000 in
/-- the same text comes out of `formatter` itself -/
example : ((Gen.styles.map fun st =>
      formatter st (prepare Gen.defaultRegistry uEx false true).1
          (prepare Gen.defaultRegistry uEx false true).2)) =
    [ some "kilogram * meter ** 2 / kelvin / second ** 3",
      some "kilogram meter<sup>2</sup>/(kelvin second<sup>3</sup>)",
      some "kilogram·meter²/kelvin/second³",
      some "\\frac[kilogram \\cdot meter^[2]][\\left(kelvin \\cdot second^[3]\\right)]",
      some "kilogram*meter**2/kelvin/second**3" ] := by
  decide +kernel

/-- their denotations are the unit (as `dict.__eq__` computes it) -/
example : (Gen.styles.map fun st =>
      UC.beq (formatterExpr st.asRatio st.singleDenominator (prepare Gen.defaultRegistry uEx false true).1
          (prepare Gen.defaultRegistry uEx false true).2).denote uEx) = [true, true, true, true, true] := by
  decide +kernel

/-- the same as an instance of the theorem: every style, long names -/
example : ∀ st ∈ Gen.styles,
    UC.Equiv (formatterExpr st.asRatio st.singleDenominator (prepare Gen.defaultRegistry uEx false st.asRatio).1
        (prepare Gen.defaultRegistry uEx false st.asRatio).2).denote uEx :=
  fun st _ => C09_denote_exact Gen.defaultRegistry uEx uEx_canon (by decide) st.asRatio st.singleDenominator

/-- the product form (as_ratio = False) writes the signed exponents -/
example : formatterExpr false false (prepare Gen.defaultRegistry uEx false false).1
      (prepare Gen.defaultRegistry uEx false false).2 =
    .prod [⟨"kelvin", some (-1)⟩, ⟨"kilogram", none⟩, ⟨"meter", some 2⟩, ⟨"second", some (-3)⟩] := by
  decide +kernel

/-- a structure that does NOT stand for the unit exists (the statement can fail): writing the
    absolute value without dividing -/
example : ¬ UC.Equiv (FExpr.prod [⟨"meter", none⟩, ⟨"second", some 2⟩]).denote [("meter", 1), ("second", -2)] := by
  intro h
  exact absurd (h "second") (by decide +kernel)

end Pint.Props.C09Denote
