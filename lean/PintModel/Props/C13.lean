/-
  C13 — answers do not depend on query history: caches are transparent.

  The model functions (`getDimensionality`, `getRootUnits`, `convFactor`, `parseUnitsContainer`,
  `getBaseUnits`, …) have no memo at all: they *are* the specification `spec decl q`.  What the
  implementation adds is a family of memo tables (`RegistryCache`, overlays, `_base_units_cache`,
  per-object `_dimensionality`).  This file proves the memo discipline those tables must follow;
  the implementation is compared with the memo-free model after every step of generated
  histories (and with a fresh registry brought to the same declarative state).
-/
import PintModel.Model.Registry
import PintModel.Model.GroupSys

namespace Pint.Props.C13

variable {κ ν : Type} [DecidableEq κ]

/-- a memo table -/
structure Memo (κ ν : Type) where
  table : List (κ × ν) := []

def Memo.find (m : Memo κ ν) (k : κ) : Option ν := (m.table.find? (·.1 = k)).map (·.2)

/-- `try: return cache[k] except KeyError: v = f(k); cache[k] = v; return v` -/
def Memo.get (m : Memo κ ν) (f : κ → ν) (k : κ) : ν × Memo κ ν :=
  match m.find k with
  | some v => (v, m)
  | none => (f k, { table := (k, f k) :: m.table })

/-- every memoized answer is the uncached answer -/
def MemoInv (m : Memo κ ν) (f : κ → ν) : Prop := ∀ p ∈ m.table, p.2 = f p.1

theorem inv_empty (f : κ → ν) : MemoInv ({} : Memo κ ν) f := by
  intro p hp; cases hp

theorem find_sound {m : Memo κ ν} {f : κ → ν} (h : MemoInv m f) {k : κ} {v : ν} (hf : m.find k = some v) : v = f k := by
  unfold Memo.find at hf
  cases hx : m.table.find? (·.1 = k) with
  | none => simp [hx] at hf
  | some p =>
    simp only [hx, Option.map_some, Option.some.injEq] at hf
    have hm := List.mem_of_find?_eq_some hx
    have hk := List.find?_some hx
    simp only [decide_eq_true_eq] at hk
    rw [← hf, h p hm, hk]

/-- **transparency of one query**: the answer is the uncached answer and the invariant is kept -/
theorem C13_memo_step (m : Memo κ ν) (f : κ → ν) (h : MemoInv m f) (k : κ) :
    (m.get f k).1 = f k ∧ MemoInv (m.get f k).2 f := by
  unfold Memo.get
  cases hf : m.find k with
  | some v => exact ⟨find_sound h hf, h⟩
  | none =>
    refine ⟨rfl, ?_⟩
    intro p hp
    simp only [List.mem_cons] at hp
    rcases hp with rfl | hp
    · rfl
    · exact h p hp

/-- run a whole history of queries through the memo -/
def runQueries (f : κ → ν) : Memo κ ν → List κ → List ν × Memo κ ν
  | m, [] => ([], m)
  | m, k :: ks =>
    let (v, m') := m.get f k
    let (vs, m'') := runQueries f m' ks
    (v :: vs, m'')

/-- **transparency for every history**: whatever was asked before, every answer equals the
    uncached answer -/
theorem C13_transparent (f : κ → ν) (m : Memo κ ν) (h : MemoInv m f) (ks : List κ) :
    (runQueries f m ks).1 = ks.map f ∧ MemoInv (runQueries f m ks).2 f := by
  induction ks generalizing m with
  | nil => exact ⟨rfl, h⟩
  | cons k ks ih =>
    obtain ⟨h1, h2⟩ := C13_memo_step m f h k
    obtain ⟨i1, i2⟩ := ih (m.get f k).2 h2
    simp only [runQueries, List.map_cons]
    exact ⟨by rw [h1, i1], i2⟩

/-- a change of the declarative state (new definition, other default system, other context
    stack) replaces `f` by `f'`: the table stays valid exactly if it is cleared, or if every kept
    entry is unaffected by the change -/
theorem C13_state_change_cleared (f' : κ → ν) : MemoInv ({} : Memo κ ν) f' := inv_empty f'

theorem C13_state_change_kept (m : Memo κ ν) (f f' : κ → ν) (h : MemoInv m f)
    (hstable : ∀ p ∈ m.table, f' p.1 = f p.1) : MemoInv m f' := by
  intro p hp; rw [h p hp, hstable p hp]

/-- a table keyed without part of the declarative state is *not* transparent: witness (the shape
    of findings F8a / the seeded hash-keyed cache) -/
theorem C13_wrong_key_counterexample :
    ∃ (f g : Nat → Nat) (m : Memo Nat Nat), MemoInv m f ∧ (m.get g 0).1 ≠ g 0 := by
  refine ⟨fun _ => 1, fun _ => 2, { table := [(0, 1)] }, ?_, ?_⟩
  · intro p hp; simp at hp; subst hp; rfl
  · decide

/-- two registries share no table: a step on registry A leaves B's memo and hence B's answers unchanged -/
theorem C13_isolated (fA fB : κ → ν) (mA mB : Memo κ ν) (k : κ) :
    let mA' := (mA.get fA k).2
    (mA', mB).2 = mB := rfl

/-! ### histories that interleave queries with changes of the declarative state -/

/-- an operation of a history: ask for `k`, or replace the declarative state (a definition, a new
    default system, another context stack …) -/
inductive Op (σ κ : Type)
  | query (k : κ)
  | change (s : σ)

/-- the memo-free reference: every query is answered by the specification of the current state -/
def runSpec {σ : Type} (spec : σ → κ → ν) : σ → List (Op σ κ) → List ν
  | _, [] => []
  | s, .query k :: t => spec s k :: runSpec spec s t
  | _, .change s' :: t => runSpec spec s' t

/-- policy 1 (pint's `_build_cache` / `default_system` setter): the table is cleared by every change of state -/
def runClearing {σ : Type} (spec : σ → κ → ν) : σ → Memo κ ν → List (Op σ κ) → List ν
  | _, _, [] => []
  | s, m, .query k :: t => (m.get (spec s) k).1 :: runClearing spec s (m.get (spec s) k).2 t
  | _, _, .change s' :: t => runClearing spec s' {} t

/-- **any history, clearing policy**: every answer is the one the current declarative state implies -/
theorem C13_history_clearing {σ : Type} (spec : σ → κ → ν) (s : σ) (m : Memo κ ν) (h : MemoInv m (spec s))
    (ops : List (Op σ κ)) : runClearing spec s m ops = runSpec spec s ops := by
  induction ops generalizing s m with
  | nil => rfl
  | cons o t ih =>
    cases o with
    | query k =>
      obtain ⟨h1, h2⟩ := C13_memo_step m (spec s) h k
      simp only [runClearing, runSpec]
      rw [h1, ih s _ h2]
    | change s' =>
      simp only [runClearing, runSpec]
      exact ih s' {} (inv_empty _)

/-- policy 2 (pint's per-context-stack overlays, `_caches[active contexts]`): the table is keyed by the
    state component as well and never cleared -/
def runKeyed {σ : Type} [DecidableEq σ] (spec : σ → κ → ν) : σ → Memo (σ × κ) ν → List (Op σ κ) → List ν
  | _, _, [] => []
  | s, m, .query k :: t =>
    (m.get (fun p => spec p.1 p.2) (s, k)).1 :: runKeyed spec s (m.get (fun p => spec p.1 p.2) (s, k)).2 t
  | _, m, .change s' :: t => runKeyed spec s' m t

/-- **any history, keyed policy**: answers computed in one state are never served in another -/
theorem C13_history_keyed {σ : Type} [DecidableEq σ] (spec : σ → κ → ν) (s : σ) (m : Memo (σ × κ) ν)
    (h : MemoInv m (fun p => spec p.1 p.2)) (ops : List (Op σ κ)) :
    runKeyed spec s m ops = runSpec spec s ops := by
  induction ops generalizing s m with
  | nil => rfl
  | cons o t ih =>
    cases o with
    | query k =>
      obtain ⟨h1, h2⟩ := C13_memo_step m (fun p => spec p.1 p.2) h (s, k)
      simp only [runKeyed, runSpec]
      rw [h1, ih s _ h2]
    | change s' =>
      simp only [runKeyed, runSpec]
      exact ih s' m h

/-- the two policies instantiated with the model's own functions: base units (keyed by units and system, cleared
    when the registry, the groups/systems or the default system change) and dimensionality / root units -/
theorem C13_base_units_history (s : Registry × GS.State) (ops : List (Op (Registry × GS.State) (UC × Option String))) :
    runClearing (fun (st : Registry × GS.State) (q : UC × Option String) => GS.getBaseUnits st.1 st.2 q.1 q.2) s {} ops =
    runSpec (fun (st : Registry × GS.State) (q : UC × Option String) => GS.getBaseUnits st.1 st.2 q.1 q.2) s ops :=
  C13_history_clearing _ s {} (inv_empty _) ops

theorem C13_root_units_history (R : Registry) (ops : List (Op Registry UC)) :
    runClearing (fun (R : Registry) (u : UC) => R.getRootUnits u) R {} ops =
    runSpec (fun (R : Registry) (u : UC) => R.getRootUnits u) R ops :=
  C13_history_clearing _ R {} (inv_empty _) ops

end Pint.Props.C13
