/-
  C05 — equality, ordering and hashing agree with physical value.

  Model: `Registry.qeq` (`__eq__`, with the F2 repair), `Registry.compare`, `Registry.hashKey`
  (`__hash__` up to the injective choice of base units), `Registry.qbool`.
-/
import PintModel.Model.Quantity
import PintModel.Proofs.QtyLemmas

namespace Pint.Props.C05
open Pint Pint.Registry

section
variable {R : Registry} {S : String → Prop} (hW : R.WFintOn S) (m : Mode)
variable {a b c : Qty} {fa fb fc : Rat} {ua ub uc da db dc : UC}
include hW

/-- two quantities in multiplicative units compare equal exactly when they have the same
    dimensionality and equal magnitudes in root units -/
theorem C05_eq_spec (ha : Good R S a fa ua da) (hb : Good R S b fb ub db) :
    R.qeq m a (.q b) = .ok (decide (da.beq db = true ∧ a.mag * fa = b.mag * fb)) :=
  eq_phys hW m ha hb

/-- == across dimensions is False, ordering raises DimensionalityError -/
theorem C05_cross_dim (op : CmpOp) (ha : Good R S a fa ua da) (hb : Good R S b fb ub db)
    (hne : da.beq db = false) :
    R.qeq m a (.q b) = .ok false ∧ R.compare m op a (.q b) = .error .dimensionality := by
  refine ⟨?_, compare_dim_error m op ha hb hne⟩
  rw [eq_phys hW m ha hb]; simp [hne]

/-- reflexive -/
theorem C05_eq_refl (ha : Good R S a fa ua da) : R.qeq m a (.q a) = .ok true := by
  rw [eq_phys hW m ha ha]
  have : da.beq da = true := beq_self (R.getDim_canon ha.dim)
  simp [this]

/-- symmetric -/
theorem C05_eq_symm (ha : Good R S a fa ua da) (hb : Good R S b fb ub db)
    (h : R.qeq m a (.q b) = .ok true) : R.qeq m b (.q a) = .ok true := by
  rw [eq_phys hW m ha hb] at h
  rw [eq_phys hW m hb ha]
  simp only [Except.ok.injEq, decide_eq_true_eq] at h ⊢
  exact ⟨(beq_comm db da) ▸ h.1, h.2.symm⟩

/-- transitive -/
theorem C05_eq_trans (ha : Good R S a fa ua da) (hb : Good R S b fb ub db) (hc : Good R S c fc uc dc)
    (h1 : R.qeq m a (.q b) = .ok true) (h2 : R.qeq m b (.q c) = .ok true) :
    R.qeq m a (.q c) = .ok true := by
  rw [eq_phys hW m ha hb] at h1
  rw [eq_phys hW m hb hc] at h2
  rw [eq_phys hW m ha hc]
  simp only [Except.ok.injEq, decide_eq_true_eq] at h1 h2 ⊢
  exact ⟨beq_trans (R.getDim_canon ha.dim) (R.getDim_canon hb.dim) (R.getDim_canon hc.dim) h1.1 h2.1, h1.2.trans h2.2⟩

/-- for comparable quantities in positively scaled units the order is the order of the
    root-unit magnitudes -/
theorem C05_order_spec (op : CmpOp) (ha : Good R S a fa ua da) (hb : Good R S b fb ub db)
    (he : da.beq db = true) (hpos : 0 < fa)
    (hra : RootGood R S ua da) (hrb : RootGood R S ub db) :
    R.compare m op a (.q b) = .ok (op.app (a.mag * fa) (b.mag * fb)) :=
  compare_phys hW m op ha hb he hpos hra hrb

/-- … hence exactly one of <, ==, > holds -/
theorem C05_trichotomy (ha : Good R S a fa ua da) (hb : Good R S b fb ub db)
    (he : da.beq db = true) (hpos : 0 < fa)
    (hra : RootGood R S ua da) (hrb : RootGood R S ub db) :
    ∃ lt eq gt, R.compare m .lt a (.q b) = .ok lt ∧ R.qeq m a (.q b) = .ok eq ∧
      R.compare m .gt a (.q b) = .ok gt ∧
      ((lt = true ∧ eq = false ∧ gt = false) ∨ (lt = false ∧ eq = true ∧ gt = false) ∨
       (lt = false ∧ eq = false ∧ gt = true)) := by
  refine ⟨_, _, _, compare_phys hW m .lt ha hb he hpos hra hrb, eq_phys hW m ha hb,
    compare_phys hW m .gt ha hb he hpos hra hrb, ?_⟩
  simp only [CmpOp.app, he, true_and, decide_eq_true_eq, decide_eq_false_iff_not, gt_iff_lt]
  by_cases h1 : a.mag * fa < b.mag * fb
  · left; refine ⟨h1, ?_, ?_⟩ <;> grind
  · by_cases h2 : a.mag * fa = b.mag * fb
    · right; left; refine ⟨h1, h2, ?_⟩; grind
    · right; right; refine ⟨h1, h2, ?_⟩; grind

/-- equal quantities have equal hashes (same root units: both hash keys coincide) -/
theorem C05_hash (ha : Good R S a fa ua da) (hb : Good R S b fb ub db)
    (hv : a.mag * fa = b.mag * fb) (hu : ua = ub)
    (hra : RootGood R S ua da) (hrb : RootGood R S ub db) :
    R.hashKey m a = R.hashKey m b :=
  hashKey_cov hW m ha hb hv hu hra hrb

end

/-- the repaired zero shortcut (F2): when an operand is in offset units the both-zero branch
    is not taken — the answer is the converted comparison even for two zero magnitudes -/
theorem C05_zero_shortcut_guard (R : Registry) (m : Mode) (a b : Qty) (v : Rat)
    (h : R.isMultQ a = false) (hu : a.units.beq b.units = false)
    (hc : R.convertTo m a b.units = .ok v) :
    R.qeq m a (.q b) = .ok (v == b.mag) := by
  unfold qeq; simp [h, hu, hc]

/-- comparison with a bare number is defined only for dimensionless quantities and for zero -/
theorem C05_bare_number (R : Registry) (m : Mode) (op : CmpOp) (a : Qty) (x : Rat)
    (hd : R.dimensionless m a = .ok false) (hx : x ≠ 0) :
    R.compare m op a (.num x) = .error .value ∧ R.qeq m a (.num x) = .ok false := by
  constructor
  · unfold Registry.compare; simp [hd, hx]
  · unfold qeq; simp [hd, hx]

end Pint.Props.C05
