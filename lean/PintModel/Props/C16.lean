/-
  C16 — NumPy functions on quantity arrays respect units.

  Model: `PintModel/Model/Numpy.lean` (`meaning` of a table registration, `outputUnit` =
  `get_op_output_unit`, `convertBare`), the behaviour tables regenerated from
  `pint/facets/numpy/numpy_func.py` (`Gen/NumpyTables.lean`) and the hand-curated table of the
  mathematically implied behaviour of every NumPy name (`spec/numpy_implied.tsv` →
  `Gen/NumpySpec.lean`).  NumPy's numerics, broadcasting and the `__array_ufunc__` /
  `__array_function__` dispatch are runtime: the harness compares results, re-expresses inputs in
  other compatible units and snapshots the input arrays.
-/
import PintModel.Model.Numpy
import PintModel.Gen.NumpyTables
import PintModel.Gen.NumpySpec
import PintModel.Props.C01

namespace Pint.Props.C16
open Pint Pint.Np Pint.UC

def impliedOf (kind name : String) : Option (String × Bool) :=
  (Gen.numpyImplied.find? (fun e => e.1 == kind && e.2.1 == name)).map (fun e => (e.2.2.1, e.2.2.2))

/-- the four registrations whose bookkeeping is NOT the implied one (findings F30 / F31):
    `floor_divide` divides unconverted magnitudes, `fmod` / `mod` / `remainder` ignore the second operand's unit -/
def knownWrong : List (String × String) :=
  [("ufunc", "fmod"), ("ufunc", "mod"), ("ufunc", "remainder"), ("ufunc", "floor_divide")]

/-- every table-driven registration is specified … -/
theorem C16_coverage : ∀ e ∈ Gen.numpyTable, (impliedOf e.1 e.2.1).isSome = true := by decide +kernel

/-- does a registration have exactly the implied bookkeeping? (names NumPy never dispatches are exempt) -/
def entryOK (e : String × String × String × String) : Bool :=
  match impliedOf e.1 e.2.1 with
  | some (c, true) => c == meaning e.2.2.1 e.2.2.2
  | some (_, false) => true
  | none => false

/-- the registrations whose bookkeeping differs from the implied one are exactly the four recorded ones
    (an entry moved to the wrong collection, or a wrong unit string, changes this list and breaks the proof) -/
theorem C16_table_partial :
    (Gen.numpyTable.filter (fun e => !entryOK e)).map (fun e => (e.1, e.2.1)) = knownWrong := by decide +kernel

/-- hence every other live registration is the implied one -/
theorem C16_table_ok (e : String × String × String × String) (he : e ∈ Gen.numpyTable)
    (hk : knownWrong.contains (e.1, e.2.1) = false) : entryOK e = true := by
  cases h : entryOK e with
  | true => rfl
  | false =>
    have hm : (e.1, e.2.1) ∈ (Gen.numpyTable.filter (fun e => !entryOK e)).map (fun e => (e.1, e.2.1)) := by
      apply List.mem_map.mpr
      exact ⟨e, List.mem_filter.mpr ⟨he, by simp [h]⟩, rfl⟩
    rw [C16_table_partial] at hm
    have : knownWrong.contains (e.1, e.2.1) = true := by
      simpa using hm
    rw [this] at hk; cases hk

/-- the hand-written implementations are exactly the curated list (a new one cannot appear unnoticed) -/
theorem C16_custom : Gen.numpyCustom.map (fun e => (e.1, e.2.1)) =
    [("ufunc", "modf"), ("ufunc", "frexp"), ("ufunc", "power"), ("ufunc", "add"), ("ufunc", "subtract"),
     ("function", "meshgrid"), ("function", "full_like"), ("function", "interp"), ("function", "where"),
     ("function", "concatenate"), ("function", "stack"), ("function", "unwrap"), ("function", "copyto"),
     ("function", "einsum"), ("function", "isin"), ("function", "pad"), ("function", "any"), ("function", "all"),
     ("function", "trapz"), ("function", "trapezoid"), ("function", "correlate")] := by decide +kernel

/-! ### output units by operation kind -/

theorem C16_unit_mul (R : Registry) (m : Mode) (first a b : UC) :
    outputUnit R m .mul first [some a, some b] = .ok (UC.mul (UC.mul [] a) b) := rfl

theorem C16_unit_div (R : Registry) (m : Mode) (first a b : UC) :
    outputUnit R m .div first [some a, some b] = .ok (a.div b) := rfl

theorem C16_unit_div_bare (R : Registry) (m : Mode) (first b : UC) :
    outputUnit R m .div first [none, some b] = .ok (UC.div [] b) := rfl

theorem C16_unit_powers (R : Registry) (m : Mode) (u : UC) (args : List (Option UC)) :
    outputUnit R m .square u args = .ok (u.pow 2) ∧ outputUnit R m .sqrt u args = .ok (u.pow (1 / 2)) ∧
    outputUnit R m .cbrt u args = .ok (u.pow (1 / 3)) ∧ outputUnit R m .reciprocal u args = .ok (u.pow (-1)) :=
  ⟨rfl, rfl, rfl, rfl⟩

/-- re-expressing the inputs in other compatible units leaves the dimensionality of the output unchanged:
    products, quotients and powers -/
theorem C16_cov_mul (R : Registry) {a a' b b' : UC} (hn : a.keys.Nodup) (hn' : a'.keys.Nodup)
    (h1 : C01.Compat R a a') (h2 : C01.Compat R b b') : C01.Compat R (a.mul b) (a'.mul b') :=
  C01.compat_mul R hn hn' h1 h2

theorem C16_cov_div (R : Registry) {a a' b b' : UC} (hn : a.keys.Nodup) (hn' : a'.keys.Nodup)
    (h1 : C01.Compat R a a') (h2 : C01.Compat R b b') : C01.Compat R (a.div b) (a'.div b') :=
  C01.compat_div R hn hn' h1 h2

theorem C16_cov_pow (R : Registry) (r : Rat) {a a' : UC} (h1 : C01.Compat R a a') :
    C01.Compat R (a.pow r) (a'.pow r) := C01.compat_pow R r h1

/-- a bare number where a quantity in units u is expected: accepted only if u is dimensionless or the number is 0 / NaN -/
theorem C16_refuse_bare : convertBare false .other = .error .dimensionality ∧ convertBare false .zeroOrNan = .ok () ∧
    ∀ a, convertBare true a = .ok () := by
  refine ⟨rfl, rfl, ?_⟩
  intro a; cases a <;> rfl

/-! ### the tables say what the brief's examples say -/

example : impliedOf "function" "sum" = some ("sum", true) ∧ impliedOf "ufunc" "multiply" = some ("mul", true) ∧
    impliedOf "function" "var" = some ("variance", true) ∧ impliedOf "ufunc" "sqrt" = some ("sqrt", true) ∧
    impliedOf "ufunc" "sin" = some ("fixed:radian>", true) ∧ impliedOf "ufunc" "isnan" = some ("bare", true) ∧
    impliedOf "function" "argmax" = some ("bare", true) := by decide +kernel

end Pint.Props.C16
