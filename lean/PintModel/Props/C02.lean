/-
  C02 — conversion factors equal the exact ratio implied by the written definitions.

  Model: `Registry.getRootUnits` (`_get_root_units[_recurse]`), `Registry.convFactor`,
  `Registry.convertPlain`.  Exponents are integers (rational exponents on scaled units are
  evaluated by pint in float: compared numerically by the correspondence only).
-/
import PintModel.Proofs.RootLemmas
import PintModel.Proofs.DimHom
import PintModel.Props.C04
import PintModel.Gen.DefaultRegistry

namespace Pint.Props.C02
open Pint Pint.UC Pint.Registry

/-! ### root-unit expansion is a homomorphism into (ℚˣ, base-unit exponents) -/

theorem C02_root_mul (R : Registry) {S : String → Prop} (hW : R.WFintOn S) {a b : UC}
    (ha : IntUC a) (hb : IntUC b) (hKa : KeysIn S a) (hKb : KeysIn S b) (hn : a.keys.Nodup)
    {fa fb : Rat} {ua ub : UC}
    (h1 : R.getRootUnits a = .ok (fa, ua)) (h2 : R.getRootUnits b = .ok (fb, ub)) :
    ∃ f u, R.getRootUnits (a.mul b) = .ok (f, u) ∧ f = fa * fb ∧ ∀ d, u.get d = ua.get d + ub.get d :=
  R.getRootUnits_mul_on hW ha hb hKa hKb hn h1 h2

theorem C02_root_div (R : Registry) {S : String → Prop} (hW : R.WFintOn S) {a b : UC}
    (ha : IntUC a) (hb : IntUC b) (hKa : KeysIn S a) (hKb : KeysIn S b) (hn : a.keys.Nodup)
    {fa fb : Rat} {ua ub : UC}
    (h1 : R.getRootUnits a = .ok (fa, ua)) (h2 : R.getRootUnits b = .ok (fb, ub)) :
    ∃ f u, R.getRootUnits (a.div b) = .ok (f, u) ∧ f = fa / fb ∧ ∀ d, u.get d = ua.get d - ub.get d :=
  R.getRootUnits_div_on hW ha hb hKa hKb hn h1 h2

theorem C02_root_pow (R : Registry) {S : String → Prop} (hW : R.WFintOn S) {a : UC}
    (ha : IntUC a) (hKa : KeysIn S a) (n : Int) {fa : Rat} {ua : UC}
    (h1 : R.getRootUnits a = .ok (fa, ua)) :
    ∃ u, R.getRootUnits (a.pow (n : Rat)) = .ok (fa ^ n, u) ∧ ∀ d, u.get d = (n : Rat) * ua.get d :=
  R.getRootUnits_pow_on hW ha hKa n h1

theorem C02_root_ne_zero (R : Registry) {S : String → Prop} (hW : R.WFintOn S)
    {u : UC} (hI : IntUC u) (hK : KeysIn S u) {f : Rat} {us : UC}
    (h : R.getRootUnits u = .ok (f, us)) : f ≠ 0 :=
  R.getRootUnits_factor_ne_zero_on hW hI hK h

/-! ### the conversion factor is the ratio of the two root factors -/

/-- the hypotheses under which the exact statements hold for a pair of containers -/
structure Exact (R : Registry) (S : String → Prop) (a : UC) (fa : Rat) (ua : UC) : Prop where
  int : IntUC a
  keys : KeysIn S a
  nodup : a.keys.Nodup
  root : R.getRootUnits a = .ok (fa, ua)

theorem C02_factor (R : Registry) {S : String → Prop} (hW : R.WFintOn S) {a b da db ua ub : UC} {fa fb : Rat}
    (ea : Exact R S a fa ua) (eb : Exact R S b fb ub)
    (ha : R.getDimensionality a = .ok da) (hb : R.getDimensionality b = .ok db)
    (he : da.beq db = true) :
    R.convFactor a b = .ok (fa / fb) := by
  obtain ⟨f, u, h1, h2, _⟩ := R.getRootUnits_div_on hW ea.int eb.int ea.keys eb.keys ea.nodup ea.root eb.root
  unfold convFactor; rw [ha, hb]; simp [he, h1, h2]

/-- converting x returns x times the ratio of the expansions through the written definitions -/
theorem C02_convert (R : Registry) {S : String → Prop} (hW : R.WFintOn S) {a b da db ua ub : UC} {fa fb : Rat}
    (ea : Exact R S a fa ua) (eb : Exact R S b fb ub)
    (ha : R.getDimensionality a = .ok da) (hb : R.getDimensionality b = .ok db)
    (he : da.beq db = true) (x : Rat) :
    R.convertPlain x a b = .ok (x * (fa / fb)) := by
  unfold convertPlain; rw [C02_factor R hW ea eb ha hb he]

theorem beq_refl {a : UC} (h : a.keys.Nodup) : a.beq a = true := by
  unfold beq
  simp only [Bool.and_self, List.all_eq_true, beq_iff_eq]
  intro p hp
  exact (lookup_eq_some_iff_mem h p.1 p.2).mpr hp

/-- conversion between equal units is the identity (the `src == dst` shortcut of `convert`) -/
theorem C02_identity (R : Registry) {a : UC} (h : a.keys.Nodup) (x : Rat) (auto : Bool) :
    R.convert x a a auto = .ok x := by
  unfold Registry.convert; simp [beq_refl h]

/-- … and also without the shortcut: the factor of `a → a` is 1 -/
theorem C02_factor_self (R : Registry) {S : String → Prop} (hW : R.WFintOn S) {a da ua : UC} {fa : Rat}
    (ea : Exact R S a fa ua) (ha : R.getDimensionality a = .ok da) :
    R.convFactor a a = .ok 1 := by
  have hne := R.getRootUnits_factor_ne_zero_on hW ea.int ea.keys ea.root
  have := C02_factor R hW ea ea ha ha ((C04.eq_iff (R.getDim_canon ha) (R.getDim_canon ha)).mpr fun _ => rfl)
  rw [this, Rat.div_def, Rat.mul_inv_cancel _ hne]

/-- invertible: factor(a,b) * factor(b,a) = 1 -/
theorem C02_inverse (R : Registry) {S : String → Prop} (hW : R.WFintOn S) {a b da db ua ub : UC} {fa fb f g : Rat}
    (ea : Exact R S a fa ua) (eb : Exact R S b fb ub)
    (ha : R.getDimensionality a = .ok da) (hb : R.getDimensionality b = .ok db)
    (he : da.beq db = true)
    (hf : R.convFactor a b = .ok f) (hg : R.convFactor b a = .ok g) : f * g = 1 := by
  have hna := R.getRootUnits_factor_ne_zero_on hW ea.int ea.keys ea.root
  have hnb := R.getRootUnits_factor_ne_zero_on hW eb.int eb.keys eb.root
  have he' : db.beq da = true :=
    (C04.eq_iff (R.getDim_canon hb) (R.getDim_canon ha)).mpr
      (fun k => ((C04.eq_iff (R.getDim_canon ha) (R.getDim_canon hb)).mp he k).symm)
  rw [C02_factor R hW ea eb ha hb he] at hf
  rw [C02_factor R hW eb ea hb ha he'] at hg
  cases hf; cases hg
  rw [Rat.div_def, Rat.div_def, Rat.mul_assoc, ← Rat.mul_assoc (fb⁻¹), Rat.inv_mul_cancel _ hnb,
    Rat.one_mul, Rat.mul_inv_cancel _ hna]

/-- path independent: factor(a,b) * factor(b,c) = factor(a,c) -/
theorem C02_path (R : Registry) {S : String → Prop} (hW : R.WFintOn S)
    {a b c da db dc ua ub uc : UC} {fa fb fc f g h : Rat}
    (ea : Exact R S a fa ua) (eb : Exact R S b fb ub) (ec : Exact R S c fc uc)
    (ha : R.getDimensionality a = .ok da) (hb : R.getDimensionality b = .ok db)
    (hc : R.getDimensionality c = .ok dc)
    (hab : da.beq db = true) (hbc : db.beq dc = true)
    (hf : R.convFactor a b = .ok f) (hg : R.convFactor b c = .ok g) (hh : R.convFactor a c = .ok h) :
    f * g = h := by
  have hnb := R.getRootUnits_factor_ne_zero_on hW eb.int eb.keys eb.root
  have hac : da.beq dc = true :=
    (C04.eq_iff (R.getDim_canon ha) (R.getDim_canon hc)).mpr (fun k =>
      ((C04.eq_iff (R.getDim_canon ha) (R.getDim_canon hb)).mp hab k).trans
        ((C04.eq_iff (R.getDim_canon hb) (R.getDim_canon hc)).mp hbc k))
  rw [C02_factor R hW ea eb ha hb hab] at hf
  rw [C02_factor R hW eb ec hb hc hbc] at hg
  rw [C02_factor R hW ea ec ha hc hac] at hh
  cases hf; cases hg; cases hh
  rw [Rat.div_def, Rat.div_def, Rat.div_def, Rat.mul_assoc, ← Rat.mul_assoc (fb⁻¹),
    Rat.inv_mul_cancel _ hnb, Rat.one_mul]

/-! ### the hypotheses hold for the bundled registry (decidable witness) -/

def intUCB (u : UC) : Bool := u.all (fun p => p.2.den == 1)

theorem intUC_of_B {u : UC} (h : intUCB u = true) : IntUC u := by
  intro p hp
  unfold intUCB at h
  simp only [List.all_eq_true, beq_iff_eq] at h
  exact h p hp

/-- decidable form of `WFintOn R (· ∈ L)` -/
def wfintOnB (R : Registry) (L : List String) : Bool :=
  L.all fun k =>
    match R.resolve k with
    | .ok (_, some d) =>
      d.isBase || (intUCB d.ref && d.ref.all (fun p => L.contains p.1) &&
        (match d.conv.scaleOf with
          | some s => s != 0
          | none => true))
    | _ => true

theorem wfintOn_of_B {R : Registry} {L : List String} (h : wfintOnB R L = true) :
    R.WFintOn (fun k => k ∈ L) := by
  intro k hk key d hr hb
  unfold wfintOnB at h
  simp only [List.all_eq_true] at h
  have := h k hk
  rw [hr] at this
  simp only [hb, Bool.false_or, Bool.and_eq_true, List.all_eq_true, List.contains_iff_mem] at this
  obtain ⟨⟨h1, h2⟩, h3⟩ := this
  refine ⟨intUC_of_B h1, ?_, ?_⟩
  · intro k' hk'
    unfold UC.keys at hk'
    simp only [List.mem_map] at hk'
    obtain ⟨p, hp, rfl⟩ := hk'
    exact h2 p hp
  · intro s hs
    rw [hs] at h3
    simpa using h3

set_option maxRecDepth 100000 in
/-- the bundled registry satisfies the well-formedness hypothesis on all exact canonical names -/
theorem C02_default_wfint : Gen.defaultRegistry.WFintOn (fun k => k ∈ Gen.exactNames) :=
  wfintOn_of_B (by decide +kernel)

/-! ### non-vacuity: a concrete instance through the theorems -/

theorem ok_of_toOption {ε α : Type} {x : Except ε α} {v : α} (h : x.toOption = some v) : x = .ok v := by
  cases x with
  | ok a => simp [Except.toOption] at h; rw [h]
  | error e => simp [Except.toOption] at h

set_option maxRecDepth 100000 in
/-- 1 mile → foot is exactly 5280, obtained from the general theorem -/
example : Gen.defaultRegistry.convFactor [("mile", 1)] [("foot", 1)] = .ok 5280 := by
  have ea : Exact Gen.defaultRegistry (fun k => k ∈ Gen.exactNames) [("mile", 1)] (mkRat 201168 125) [("meter", 1)] :=
    ⟨by intro p hp; simp at hp; subst hp; rfl, by intro k hk; simp [UC.keys] at hk; subst hk; decide +kernel,
     by decide, ok_of_toOption (by decide +kernel)⟩
  have eb : Exact Gen.defaultRegistry (fun k => k ∈ Gen.exactNames) [("foot", 1)] (mkRat 381 1250) [("meter", 1)] :=
    ⟨by intro p hp; simp at hp; subst hp; rfl, by intro k hk; simp [UC.keys] at hk; subst hk; decide +kernel,
     by decide, ok_of_toOption (by decide +kernel)⟩
  have := C02_factor Gen.defaultRegistry C02_default_wfint ea eb
    (da := [("[length]", 1)]) (db := [("[length]", 1)])
    (ok_of_toOption (by decide +kernel)) (ok_of_toOption (by decide +kernel)) (by decide +kernel)
  rw [this]
  congr 1
  decide +kernel

end Pint.Props.C02
