/-
  C02 — conversion factors equal the exact ratio implied by the written definitions.
-/
import PintModel.Proofs.DimLemmas
import PintModel.Props.C04
import PintModel.Gen.DefaultRegistry

namespace Pint.Props.C02
open Pint Pint.UC Pint.Registry

theorem beq_refl {a : UC} (h : a.keys.Nodup) : a.beq a = true := by
  unfold beq
  simp only [Bool.and_self, List.all_eq_true, beq_iff_eq]
  intro p hp
  exact (lookup_eq_some_iff_mem h p.1 p.2).mpr hp

/-- conversion between equal units is the identity (the `src == dst` shortcut of `convert`) -/
theorem C02_identity (R : Registry) {a : UC} (h : a.keys.Nodup) (x : Rat) (auto : Bool) :
    R.convert x a a auto = .ok x := by
  unfold Registry.convert; simp [beq_refl h]

end Pint.Props.C02
