/-
  C18 — copy, pickle and tuple serialisation preserve objects; registries stay isolated.

  Model: `PintModel/Model/Serial.lean` (`toTuple`/`fromTuple`, container state, `reduceQ`,
  `unpickleQ` through the application registry, `check`), the regenerated tables
  `Gen/ErrorTables.lean` (constructor parameters, stored attributes and `__reduce__` tuples of
  every class of `pint/errors.py`; the `__reduce__` hooks of Quantity / Unit / Measurement).
  The pickle byte stream, `copy.deepcopy` of a registry's object graph and the lazy / application
  registry wrappers are Python runtime: their observable results are compared by the harness.
-/
import PintModel.Model.Serial
import PintModel.Gen.ErrorTables

namespace Pint.Props.C18
open Pint Pint.Ser

/-! ### tuple form and container state -/

theorem C18_tuple (q : Qty) : fromTuple (toTuple q) = q := rfl

theorem C18_tuple_inv (t : Rat × List (String × Rat)) : toTuple (fromTuple t) = t := rfl

/-- the state round trip restores the dictionary and resets the hash memo (so the C04 memo invariant holds) -/
theorem C18_state (o : UCObj) : (setstate (getstate o)).d = o.d ∧ (setstate (getstate o)).Inv := by
  exact ⟨rfl, Or.inl rfl⟩

/-! ### reduce / rebuild through the application registry -/

/-- rebuilding from the `__reduce__` arguments gives the same magnitude and units -/
theorem C18_reduce (app R' : Registry) (q q' : Qty) (h : unpickleQ app (reduceQ q) = .ok (R', q')) : q' = q := by
  unfold unpickleQ reduceQ at h
  split at h
  · cases h
  · cases h; rfl

/-- an undefined name makes the rebuild fail (the object is not silently attached) -/
theorem C18_unpickle_undefined (app : Registry) (m : Rat) (k : String) (rest : UC) (e : Err) (x : Rat)
    (h : app.getName k = .error e) : unpickleQ app (m, (k, x) :: rest) = .error e := by
  simp [unpickleQ, UC.keys, registerNames, h]

/-- registering never removes a unit -/
theorem find_insert_isSome {α : Type} (d : Dict α) (k k' : String) (v : α) (h : (d.find? k).isSome) :
    ((d.insert k' v).find? k).isSome := by
  induction d with
  | nil => simp [Dict.find?] at h
  | cons p t ih =>
    obtain ⟨a, b⟩ := p
    unfold Dict.insert
    by_cases hk' : a = k'
    · simp only [hk', if_true]
      unfold Dict.find? at h ⊢
      by_cases hk : k' = k
      · simp [hk]
      · simp only [hk, if_false]; simpa [hk', hk] using h
    · simp only [hk', if_false]
      unfold Dict.find? at h ⊢
      by_cases hk : a = k
      · simp [hk]
      · simp only [hk, if_false] at h ⊢; exact ih h

theorem find_insert_self {α : Type} (d : Dict α) (k : String) (v : α) : (d.insert k v).find? k = some v := by
  induction d with
  | nil => simp [Dict.insert, Dict.find?]
  | cons p t ih =>
    obtain ⟨a, b⟩ := p
    unfold Dict.insert
    by_cases hk : a = k
    · simp [hk, Dict.find?]
    · simp only [hk, if_false]; unfold Dict.find?; simp only [hk, if_false]; exact ih

theorem getName_keeps (R R' : Registry) (s n k : String) (cs : Option Bool) (h : R.getName s cs = .ok (n, R'))
    (hk : (R.units.find? k).isSome) : (R'.units.find? k).isSome := by
  unfold Registry.getName at h
  split at h
  · cases h; exact hk
  · split at h
    · cases h; exact hk
    · split at h
      · cases h
      · split at h
        · split at h
          · cases h
          · cases h; exact find_insert_isSome _ _ _ _ hk
        · cases h; exact hk

/-- a name that reads as prefix + unit is registered under prefix ++ unit by looking it up -/
theorem getName_registers (R R' : Registry) (s n : String) (cs : Option Bool) (h : R.getName s cs = .ok (n, R'))
    (hs : s ≠ "dimensionless") (hn : R.units.find? s = none)
    {p u x : String} {rest : List (String × String × String)} (hp : R.parseUnitName s cs = (p, u, x) :: rest)
    (hpre : p ≠ "") : n = p ++ u ∧ (R'.units.find? (p ++ u)).isSome := by
  unfold Registry.getName at h
  simp only [hs, if_false, hn, hp] at h
  have : (p != "") = true := by simpa using hpre
  simp only [this, if_true] at h
  split at h
  · cases h
  · cases h; exact ⟨rfl, by simp [find_insert_self]⟩

/-- `_unpickle` only adds to the application registry: every unit known before is known afterwards -/
theorem C18_unpickle_monotone (names : List String) (app R' : Registry) (h : registerNames names app = .ok R') (k : String)
    (hk : (app.units.find? k).isSome) : (R'.units.find? k).isSome := by
  induction names generalizing app with
  | nil => simp [registerNames] at h; cases h; exact hk
  | cons a t ih =>
    unfold registerNames at h
    split at h
    · cases h
    · rename_i n R1 hg
      exact ih R1 h (getName_keeps app R1 a n k none hg hk)

/-- and a prefixed name mentioned by the pickled container is registered there before the object is built -/
theorem C18_unpickle_registers (app R1 R' : Registry) (s n : String) (t : List String)
    (hg : app.getName s = .ok (n, R1)) (h : registerNames t R1 = .ok R')
    (hs : s ≠ "dimensionless") (hn : app.units.find? s = none)
    {p u x : String} {rest : List (String × String × String)} (hp : app.parseUnitName s none = (p, u, x) :: rest)
    (hpre : p ≠ "") : (R'.units.find? (p ++ u)).isSome :=
  C18_unpickle_monotone t R1 R' h (p ++ u) (getName_registers app R1 s n none hg hs hn hp hpre).2

/-! ### the `__reduce__` tables regenerated from the source -/

/-- every exception class hands back, in constructor order, exactly the attributes that store its
    constructor parameters, and rebuilds through its own class -/
def reduceFaithful (c : Gen.ErrClass) : Bool :=
  c.hasReduce && c.reduceCls == "self.__class__" &&
  c.reduce == c.params.map (fun p => match c.stores.find? (·.2 == p) with | some (a, _) => a | none => "?" ++ p)

theorem C18_errors : ∀ c ∈ Gen.errorClasses, c.params ≠ [] → reduceFaithful c = true := by decide +kernel

/-- the classes of `pint/errors.py` that take constructor arguments are all covered -/
theorem C18_errors_nonempty : (Gen.errorClasses.filter (fun c => c.params ≠ [])).length ≥ 8 := by decide +kernel

/-- Quantity, Unit and Measurement rebuild through the application-registry helpers with (class, state…) -/
theorem C18_hooks : Gen.reduceHooks =
    [("PlainQuantity", "_unpickle_quantity", ["PlainQuantity", "self.magnitude", "self._units"]),
     ("PlainUnit", "_unpickle_unit", ["PlainUnit", "self._units"]),
     ("Measurement", "_unpickle_measurement", ["Measurement", "self.magnitude", "self._units"])] := by decide +kernel

/-! ### registries stay isolated -/

/-- `_check` : same registry → True, an object without a registry → False, another registry → ValueError -/
theorem C18_check (r : Nat) : check r (some r) = .ok true ∧ check r none = .ok false ∧
    ∀ r', r' ≠ r → check r (some r') = .error .value := by
  refine ⟨by simp [check], rfl, ?_⟩
  intro r' h; simp [check, h]

/-- arithmetic and ordering between objects of different registries raise ValueError -/
theorem C18_isolated (op : Op) (ra rb : Nat) (h : ra ≠ rb) : crossOp op ra rb = .error .value := by
  have : rb ≠ ra := fun e => h e.symm
  simp [crossOp, check, this]

theorem C18_same_registry (op : Op) (r : Nat) : crossOp op r r = .ok () := by simp [crossOp, check]

end Pint.Props.C18
