/-
  C04 — units form a commutative group under *, /, ** with a canonical representation.
  Property theorems about the model `Pint.UC` (pint/util.py `UnitsContainer`).
-/
import PintModel.Proofs.UCLemmas
import PintModel.Proofs.PiLemmas

namespace Pint.Props.C04
open Pint Pint.UC

/-! ### "no zero-exponent entry survives any operation" (invariant `Canon`) -/

theorem canon_mul {a : UC} (h : a.Canon) (b : UC) : (a.mul b).Canon := by
  rw [mul_eq_merge]; exact canon_merge 1 h b

theorem canon_div {a : UC} (h : a.Canon) (b : UC) : (a.div b).Canon := by
  rw [div_eq_merge]; exact canon_merge (-1) h b

theorem canon_pow {a : UC} (h : a.Canon) (r : Rat) : (a.pow r).Canon :=
  ⟨List.Nodup.sublist (keys_pow_sublist a r) h.1, noZero_pow a r⟩

theorem canon_inv {a : UC} (h : a.Canon) : a.inv.Canon := canon_pow h (-1)

theorem canon_add {a u : UC} (h : a.Canon) {k : String} {v : Rat} (he : a.add k v = some u) : u.Canon := by
  unfold add at he
  simp only at he
  split at he
  · split at he
    · simp only [Option.some.injEq] at he; subst he
      exact ⟨nodup_keys_del h.1 k, noZero_del h.2 k⟩
    · simp at he
  · next hne =>
    simp only [Option.some.injEq] at he; subst he
    exact ⟨nodup_keys_set h.1 k _, noZero_set h.2 k hne⟩

theorem canon_remove {a u : UC} (h : a.Canon) {ks : List String} (he : a.remove ks = some u) : u.Canon := by
  induction ks generalizing a with
  | nil => simp [remove] at he; subst he; exact h
  | cons k ks ih =>
    simp only [remove] at he
    split at he
    · exact ih ⟨nodup_keys_del h.1 k, noZero_del h.2 k⟩ he
    · simp at he

theorem canon_rename {a u : UC} (h : a.Canon) {o n : String} (he : a.rename o n = some u) : u.Canon := by
  unfold rename at he
  split at he
  · simp at he
  · next v hv =>
    simp only [Option.some.injEq] at he; subst he
    have hmem : (o, v) ∈ a := (lookup_eq_some_iff_mem h.1 o v).mp hv
    exact ⟨nodup_keys_set (nodup_keys_del h.1 o) n v, noZero_set (noZero_del h.2 o) n (h.2 _ hmem)⟩

/-- the pre-repair `__pow__` (finding F1) did not keep the invariant: `{'m': 1} ** 0 = {'m': 0}` -/
theorem powOld_counterexample : ¬ (UC.powOld [("m", 1)] 0).Canon := by
  intro h
  have := h.2 ("m", 0) (by decide +kernel)
  exact this rfl

/-! ### exponents add, subtract and scale -/

theorem exp_mul (a : UC) {b : UC} (hb : b.keys.Nodup) (k : String) :
    (a.mul b).get k = a.get k + b.get k := by
  rw [mul_eq_merge, get_merge 1 a hb, Rat.one_mul]

theorem exp_div (a : UC) {b : UC} (hb : b.keys.Nodup) (k : String) :
    (a.div b).get k = a.get k - b.get k := by
  rw [div_eq_merge, get_merge (-1) a hb, Rat.neg_mul, Rat.one_mul, Rat.sub_eq_add_neg]

theorem exp_pow {a : UC} (h : a.keys.Nodup) (r : Rat) (k : String) :
    (a.pow r).get k = a.get k * r := get_pow h r k

/-! ### group laws, up to "every unit has the same exponent" -/

theorem mul_comm {a b : UC} (ha : a.Canon) (hb : b.Canon) : Equiv (a.mul b) (b.mul a) := by
  intro k; rw [exp_mul a hb.1, exp_mul b ha.1, Rat.add_comm]

theorem mul_assoc {a b c : UC} (hb : b.Canon) (hc : c.Canon) :
    Equiv ((a.mul b).mul c) (a.mul (b.mul c)) := by
  intro k
  rw [exp_mul _ hc.1, exp_mul _ hb.1, exp_mul _ (canon_mul hb c).1, exp_mul _ hc.1, Rat.add_assoc]

theorem mul_one (a : UC) : a.mul [] = a := rfl

theorem div_self {a : UC} (h : a.Canon) : Equiv (a.div a) [] := by
  intro k; rw [exp_div a h.1]; simp [Rat.sub_self]

theorem mul_div_cancel {a b : UC} (hb : b.Canon) : Equiv ((a.mul b).div b) a := by
  intro k
  rw [exp_div _ hb.1, exp_mul _ hb.1, Rat.add_sub_cancel]

/-- `u ** 0` is literally the empty (dimensionless) container -/
theorem pow_zero (a : UC) : a.pow 0 = [] := by
  unfold pow
  induction a with
  | nil => rfl
  | cons p t ih => simp [Rat.mul_zero]

theorem pow_one {a : UC} (h : a.Canon) : Equiv (a.pow 1) a := by
  intro k; rw [exp_pow h.1, Rat.mul_one]

theorem pow_pow {a : UC} (h : a.Canon) (r s : Rat) : Equiv ((a.pow r).pow s) (a.pow (r * s)) := by
  intro k
  rw [exp_pow (canon_pow h r).1, exp_pow h.1, exp_pow h.1, Rat.mul_assoc]

theorem pow_mul_distrib {a b : UC} (ha : a.Canon) (hb : b.Canon) (r : Rat) :
    Equiv ((a.mul b).pow r) ((a.pow r).mul (b.pow r)) := by
  intro k
  rw [exp_pow (canon_mul ha b).1, exp_mul _ hb.1, exp_mul _ (canon_pow hb r).1, exp_pow ha.1, exp_pow hb.1,
    Rat.add_mul]

/-! ### canonical representation: `==` and `hash` see exactly the exponents -/

theorem eq_iff {a b : UC} (ha : a.Canon) (hb : b.Canon) : a.beq b = true ↔ Equiv a b := by
  unfold beq
  simp only [Bool.and_eq_true, List.all_eq_true, beq_iff_eq]
  constructor
  · rintro ⟨h1, h2⟩ k
    by_cases hz : a.get k = 0
    · by_cases hz' : b.get k = 0
      · rw [hz, hz']
      · have hm := mem_of_get_ne_zero hz'
        have := (lookup_eq_some_iff_mem ha.1 _ _).mp (h2 _ hm)
        rw [mem_get_of_nodup ha.1 this]
    · have hm := mem_of_get_ne_zero hz
      have := (lookup_eq_some_iff_mem hb.1 _ _).mp (h1 _ hm)
      rw [mem_get_of_nodup hb.1 this]
  · intro he
    constructor
    · intro p hp
      have hg := mem_get_of_nodup ha.1 (k := p.1) (v := p.2) hp
      have hne : b.get p.1 ≠ 0 := by rw [← he, hg]; exact ha.2 p hp
      have := mem_of_get_ne_zero hne
      rw [← he, hg] at this
      exact (lookup_eq_some_iff_mem hb.1 _ _).mpr this
    · intro p hp
      have hg := mem_get_of_nodup hb.1 (k := p.1) (v := p.2) hp
      have hne : a.get p.1 ≠ 0 := by rw [he, hg]; exact hb.2 p hp
      have := mem_of_get_ne_zero hne
      rw [he, hg] at this
      exact (lookup_eq_some_iff_mem ha.1 _ _).mpr this

/-- the hash is taken of `frozenset(items)`: equal item sets exactly when exponents agree -/
theorem hash_iff {a b : UC} (ha : a.Canon) (hb : b.Canon) : itemSet a = itemSet b ↔ Equiv a b := by
  constructor
  · intro h k
    by_cases hz : a.get k = 0
    · by_cases hz' : b.get k = 0
      · rw [hz, hz']
      · have hm : itemSet b (k, b.get k) := mem_of_get_ne_zero hz'
        rw [← h] at hm
        rw [mem_get_of_nodup ha.1 hm]
    · have hm : itemSet a (k, a.get k) := mem_of_get_ne_zero hz
      rw [h] at hm
      rw [mem_get_of_nodup hb.1 hm]
  · intro he
    funext p
    apply propext
    constructor
    · intro hp
      have hg := mem_get_of_nodup ha.1 (k := p.1) (v := p.2) hp
      have hne : b.get p.1 ≠ 0 := by rw [← he, hg]; exact ha.2 p hp
      have := mem_of_get_ne_zero hne
      rw [← he, hg] at this
      exact this
    · intro hp
      have hg := mem_get_of_nodup hb.1 (k := p.1) (v := p.2) hp
      have hne : a.get p.1 ≠ 0 := by rw [he, hg]; exact hb.2 p hp
      have := mem_of_get_ne_zero hne
      rw [he, hg] at this
      exact this

theorem eq_hash {a b : UC} (ha : a.Canon) (hb : b.Canon) (h : a.beq b = true) : itemSet a = itemSet b :=
  (hash_iff ha hb).mpr ((eq_iff ha hb).mp h)

/-- commutativity and associativity as seen by `==` -/
theorem mul_comm_beq {a b : UC} (ha : a.Canon) (hb : b.Canon) : (a.mul b).beq (b.mul a) = true :=
  (eq_iff (canon_mul ha b) (canon_mul hb a)).mpr (mul_comm ha hb)

theorem mul_assoc_beq {a b c : UC} (ha : a.Canon) (hb : b.Canon) (hc : c.Canon) :
    ((a.mul b).mul c).beq (a.mul (b.mul c)) = true :=
  (eq_iff (canon_mul (canon_mul ha b) c) (canon_mul ha _)).mpr (mul_assoc hb hc)

/-- the dimensionless unit has exactly one canonical representation: the empty container -/
theorem canon_dimensionless {u : UC} (h : u.Canon) (he : Equiv u []) : u = [] := by
  cases u with
  | nil => rfl
  | cons p t =>
    exfalso
    have hg := mem_get_of_nodup h.1 (k := p.1) (v := p.2) List.mem_cons_self
    have := he p.1
    rw [hg] at this
    exact h.2 p List.mem_cons_self this

theorem div_self_eq_nil {a : UC} (h : a.Canon) : a.div a = [] :=
  canon_dimensionless (canon_div h a) (div_self h)

/-! ### the lazily cached hash stays valid (no operation returns a stale hash) -/

theorem hash_cache_inv_hash (o : UCObj) (h : o.Inv) : o.hash.1.Inv ∧ o.hash.2 = o.d := by
  unfold UCObj.hash
  rcases h with h | h
  · simp [h, UCObj.Inv]
  · simp [h, UCObj.Inv]

theorem hash_cache_inv_ops (a b : UCObj) (r : Rat) :
    (a.mul b).Inv ∧ (a.div b).Inv ∧ (a.pow r).Inv ∧ (a.Inv → a.copy.Inv) := by
  refine ⟨Or.inl rfl, Or.inl rfl, Or.inl rfl, ?_⟩
  intro h; exact h

theorem hash_cache_inv_cow (a : UCObj) (k k2 : String) (v : Rat) (ks : List String) :
    (∀ u, a.add k v = some u → u.Inv) ∧ (∀ u, a.rename k k2 = some u → u.Inv) ∧
    (∀ u, a.remove ks = some u → u.Inv) := by
  refine ⟨?_, ?_, ?_⟩ <;> intro u hu
  · unfold UCObj.add at hu; cases h : a.d.add k v <;> simp [h] at hu; subst hu; exact Or.inl rfl
  · unfold UCObj.rename at hu; cases h : a.d.rename k k2 <;> simp [h] at hu; subst hu; exact Or.inl rfl
  · unfold UCObj.remove at hu; cases h : a.d.remove ks <;> simp [h] at hu; subst hu; exact Or.inl rfl

/-! ### Buckingham pi: every returned group is a dimensionless monomial of the inputs -/

/-- soundness of `pi_theorem` (model `Pi.piRows` = `column_echelon_form` + extraction): for every
    matrix of dimension exponents, each returned exponent vector has zero total exponent in
    every dimension.  (That the groups form a *basis* — count = n − rank, independence — is
    checked by the correspondence against an independent exact rank computation: partial.) -/
theorem pi_sound (matrix : Pi.Mat) :
    ∀ v ∈ Pi.piRows matrix, ∀ x ∈ Pi.monomialDims matrix v, x = 0 :=
  Pi.pi_sound' matrix

example : Pi.piRows [[1, 1, 0], [-1, 0, 1]] = [[1, -1, 1]] := by decide +kernel

/-! ### non-vacuity: the hypotheses are satisfiable on concrete non-trivial containers -/

example : UC.Canon [("meter", 1), ("second", -2)] := by
  constructor
  · decide
  · intro p hp; simp at hp; rcases hp with rfl | rfl <;> decide
example : (UC.mul [("meter", 1), ("second", -2)] [("second", 2), ("gram", 1)]) = [("meter", 1), ("gram", 1)] := by
  decide +kernel
example : (UC.pow [("meter", 2), ("second", -1)] (mkRat 1 2)) = [("meter", 1), ("second", mkRat (-1) 2)] := by
  decide +kernel
example : UC.beq [("meter", 1), ("second", -2)] [("second", -2), ("meter", 1)] = true := by decide +kernel

end Pint.Props.C04
