/-
  C06 — "products ... are only allowed in autoconvert mode and then go through base units": a compound unit that
  holds one offset unit converts, in autoconvert mode, as the reference value of the offset part times the
  REMAINING factors (the F66 repair: the remaining factors used to be dropped).
-/
import PintModel.Model.Registry
import PintModel.Props.C06Conv

namespace Pint.Props.C06Auto
open Pint Pint.Registry

/-- source side: `x` in `k * rest` (k an offset unit to the first power) converts to a multiplicative destination as
    `to_reference(x)` in `rest * reference(k)` -/
theorem C06_autoconvert_compound (R : Registry) (x v : Rat) (src dst sd dd : UC) (k : String) (d : UnitDef)
    (hs : R.validateAndExtract true src = .ok (some k)) (hd : R.validateAndExtract true dst = .ok none)
    (hsd : R.getDimensionality src = .ok sd) (hdd : R.getDimensionality dst = .ok dd) (heq : sd.beq dd = true)
    (hnd : dst.any (fun p => "delta_".toList.isPrefixOf p.1.toList) = false)
    (hk : R.units.find? k = some d) (hoff : d.isMult = false) (hlog : d.conv.isLogarithmic = false)
    (hv : toReference d.conv x = .ok v) :
    R.convertNM true x src dst = R.convertPlain v ((src.del k).mul d.ref) dst := by
  unfold convertNM
  simp only [hs, hd, hsd, hdd, heq, hnd, hk, hv, refOfOffset, hoff, hlog]
  simp
  cases R.convertPlain v ((src.del k).mul d.ref) dst <;> rfl

/-- without autoconvert the same source is refused (DimensionalityError), whatever the destination -/
theorem C06_compound_refused (R : Registry) (x : Rat) (src dst : UC)
    (hs : R.validateAndExtract false src = .error .value) :
    R.convertNM false x src dst = .error .dimensionality := by
  unfold convertNM
  simp only [hs]

end Pint.Props.C06Auto
