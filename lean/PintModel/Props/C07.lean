/-
  C07 — string expressions evaluate like ordinary arithmetic on quantities.

  Model: `Eval.build` (`_build_eval_tree`, with the F3 repair), `Eval.evaluate`
  (`EvalTreeNode.evaluate`), tables `Gen.opPriority`, `Gen.binaryOps`, `Gen.unaryOps`
  regenerated from pint/pint_eval.py on every run.
-/
import PintModel.Model.EvalTree
import PintModel.Gen.EvalTables
import PintModel.Proofs.EvalTreeLemmas

namespace Pint.Props.C07
open Pint Pint.Eval

/-- Python's precedence: `**` binds tighter than unary minus, which binds tighter than
    `* / // %` and juxtaposition (all equal), which bind tighter than `+ -` (equal) -/
def PrioOK (p : Prio) : Bool :=
  match prioOf p "**", prioOf p "^", prioOf p "unary", prioOf p "*", prioOf p "", prioOf p "/",
        prioOf p "//", prioOf p "%", prioOf p "+", prioOf p "-" with
  | some pw, some cr, some un, some mu, some im, some dv, some fd, some md, some ad, some sb =>
    pw == cr && decide (pw > un) && decide (un > mu) && mu == im && mu == dv && mu == fd && mu == md &&
    decide (mu > ad) && ad == sb
  | _, _, _, _, _, _, _, _, _, _ => false

/-- the generated priority table orders the operators like Python -/
theorem C07_prio_ok : PrioOK Gen.opPriority = true := by decide

/-- the operator tables map every operator to plain arithmetic (juxtaposition ≡ `*`), and
    nothing else is in them -/
theorem C07_ops_table :
    Gen.binaryOps = [("+/-", "_ufloat"), ("**", "_power"), ("*", "operator.mul"), ("", "operator.mul"),
      ("/", "operator.truediv"), ("+", "operator.add"), ("-", "operator.sub"), ("%", "operator.mod"),
      ("//", "operator.floordiv")] ∧
    Gen.unaryOps = [("+", "lambda x: x"), ("-", "lambda x: x * -1")] := by decide

/-- evaluation is the fold of the tree with the three tables: its only interaction with the
    world is through `defineOp`, `binOp`, `unOp` (parametricity) -/
theorem C07_eval_leaf {α ε : Type} (d : Token → Except ε α) (b u) (ms : String → ε) (t : Token) :
    evaluate d b u ms (.leaf t) = d t := rfl

theorem C07_eval_binary {α ε : Type} (d : Token → Except ε α) (b u) (ms : String → ε)
    (l r : Tree) (op : Option String) (f : α → α → Except ε α) (x y : α)
    (hf : b (op.getD "") = some f)
    (hl : evaluate d b u ms l = .ok x) (hr : evaluate d b u ms r = .ok y) :
    evaluate d b u ms (.binary l op r) = f x y := by
  simp [evaluate, hf, hl, hr]

theorem C07_eval_unary {α ε : Type} (d : Token → Except ε α) (b u) (ms : String → ε)
    (a : Tree) (op : String) (f : α → Except ε α) (x : α)
    (hf : u op = some f) (ha : evaluate d b u ms a = .ok x) :
    evaluate d b u ms (.unary op a) = f x := by
  simp [evaluate, hf, ha]

/-- an operator that is not in the tables never evaluates -/
theorem C07_eval_missing {α ε : Type} (d : Token → Except ε α) (b u) (ms : String → ε)
    (l r : Tree) (op : Option String) (h : b (op.getD "") = none) :
    evaluate d b u ms (.binary l op r) = .error (ms (op.getD "")) := by
  simp [evaluate, h]

/-- a closing parenthesis with nothing open never yields a tree -/
theorem C07_unopened (p : Prio) (toks : Array Token) (fuel index depth : Nat) (res : Option Tree)
    (h : toks[index]? = some ⟨.op, ")"⟩) :
    build p toks (fuel + 1) index depth "<none>" res = .error .unopened := by
  simp [build, h]

/-- inside a parenthesis the end of input never yields a tree -/
theorem C07_unclosed_at_end (p : Prio) (toks : Array Token) (fuel index depth : Nat) (res : Option Tree)
    (tok : Token) (h : toks[index]? = some tok) (hk : tok.kind = .endmarker) :
    build p toks (fuel + 1) index depth "(" res = .error .unclosed := by
  simp [build, h, hk]

/-- an operator token that is neither a parenthesis nor in the priority table never yields a tree
    (the pinned code skipped it: finding F51) -/
theorem C07_unknown_operator (p : Prio) (toks : Array Token) (fuel index depth : Nat) (prev : String) (res : Option Tree)
    (tok : Token) (h : toks[index]? = some tok) (hk : tok.kind = .op) (h1 : tok.text ≠ ")") (h2 : tok.text ≠ "(")
    (hp : prioOf p tok.text = none) :
    build p toks (fuel + 1) index depth prev res = .error .unknownOp := by
  simp [build, h, hk, h1, h2, hp]

/-- a string literal never yields a tree -/
theorem C07_string_literal (p : Prio) (toks : Array Token) (fuel index depth : Nat) (prev : String) (res : Option Tree)
    (tok : Token) (h : toks[index]? = some tok) (hk : tok.kind = .string) :
    build p toks (fuel + 1) index depth prev res = .error .unexpectedString := by
  simp [build, h, hk]

/-! ### non-vacuity / regression witnesses on concrete token lists -/

private def T (k : TokKind) (s : String) : Token := ⟨k, s⟩

/-- `a / b (c)` groups to the left (F3 repair): ((a / b) c) -/
example : (buildEvalTree Gen.opPriority
    [T .name "a", T .op "/", T .name "b", T .op "(", T .name "c", T .op ")", T .other "", T .endmarker ""]).toOption.map Tree.toStr
    = some "((a / b) c)" := by decide +kernel

/-- `2 ** -x ** 2` : `**` is right associative and tighter than unary minus -/
example : (buildEvalTree Gen.opPriority
    [T .number "2", T .op "**", T .op "-", T .name "x", T .op "**", T .number "2", T .other "", T .endmarker ""]).toOption.map Tree.toStr
    = some "(2 ** (- (x ** 2)))" := by decide +kernel

example : (buildEvalTree Gen.opPriority
    [T .op "(", T .name "a", T .other "", T .endmarker ""]).toOption = none := by decide +kernel

/-- `6 @ 2`, `6 <`, `3 'abc' m` are refused -/
example : (buildEvalTree Gen.opPriority [T .number "6", T .op "@", T .number "2", T .other "", T .endmarker ""]).toOption = none
    ∧ (buildEvalTree Gen.opPriority [T .number "6", T .op "<", T .other "", T .endmarker ""]).toOption = none
    ∧ (buildEvalTree Gen.opPriority [T .number "3", T .string "'abc'", T .name "m", T .other "", T .endmarker ""]).toOption = none := by
  decide +kernel

/-- `8 ± 4 ** 2` (what `(8 ± 4) ** 2` is rewritten to): the plus-minus operator binds tighter than `**`
    (F39 repair; the pinned code read it as 8 ± (4 ** 2)) -/
example : (buildEvalTree Gen.opPriority
    [T .number "8", T .op "+/-", T .number "4", T .op "**", T .number "2", T .other "", T .endmarker ""]).toOption.map Tree.toStr
    = some "((8 +/- 4) ** 2)" := by decide +kernel

/-- `2 ** 8 ± 4` : the uncertainty still belongs to the exponent's operand -/
example : (buildEvalTree Gen.opPriority
    [T .number "2", T .op "**", T .number "8", T .op "+/-", T .number "4", T .other "", T .endmarker ""]).toOption.map Tree.toStr
    = some "(2 ** (8 +/- 4))" := by decide +kernel

/-! ### the parser neither drops, reorders nor invents anything (`Proofs/EvalTreeLemmas.lean`) -/

/-- **yield**: for the bundled priority table, the leaves of the parsed tree, read in order, are exactly the
    operand tokens (numbers and names) of the input up to its end marker — no operand is dropped, duplicated
    or reordered, parentheses included -/
theorem C07_leaves {toks : List Token} {t : Tree} (h : buildEvalTree Gen.opPriority toks = .ok t) :
    t.leaves = operands (beforeEnd toks) := buildEvalTree_leaves_bundled h

/-- … and its operators, read in order, are exactly the operator tokens of the input -/
theorem C07_ops {toks : List Token} {t : Tree} (h : buildEvalTree Gen.opPriority toks = .ok t) :
    t.ops = operators Gen.opPriority (beforeEnd toks) := buildEvalTree_ops_bundled h

/-- for any priority table: every operator of the tree is an operator token of the input, every leaf an operand token -/
theorem C07_nothing_invented {prio : Prio} {toks : List Token} {t : Tree} (h : buildEvalTree prio toks = .ok t) :
    (∀ s ∈ t.ops, ∃ tok ∈ toks, tok.kind = .op ∧ tok.text = s) ∧
    (∀ tok ∈ t.leaves, tok ∈ toks ∧ (tok.kind = .number ∨ tok.kind = .name)) :=
  ⟨buildEvalTree_ops_mem h, buildEvalTree_leaves_mem h⟩

/-- the regenerated priority table is well formed (no "<none>" entry, non-negative priorities, an implicit-product entry) -/
theorem C07_prio_wf : PrioWF Gen.opPriority := prioWF_opPriority


end Pint.Props.C07
