/-
  C12 — context activation is scoped, stack-like, atomic and leaves no residue.

  Model: the active contexts are a list (most recent first); `Ctx.enable` pushes the
  instantiated contexts of one call, `Ctx.disable n` pops `n`, the registry seen while a stack
  is active is the *function* `Ctx.effective base stack` (redefinitions of the oldest first).
  Observations are functions of (base registry, stack) only, so restoring the stack restores
  every answer; the implementation's overlay caches are compared against this on every probe.
-/
import PintModel.Model.Context
import PintModel.Props.C11

namespace Pint.Props.C12
open Pint Pint.Ctx

/-- the operations of the property -/
inductive Op
  | enable (names : List String) (kw : List (String × Rat))
  | disable (n : Option Nat)
  deriving Repr

/-- one operation; a failing activation changes nothing (atomic) -/
def step (st : State) : Op → State
  | .enable names kw => match enable st names kw with
    | .ok st' => st'
    | .error _ => st
  | .disable n => disable st n

def run (st : State) (ops : List Op) : State := ops.foldl step st

/-- **atomic**: a failed activation leaves the whole state unchanged -/
theorem C12_atomic (st : State) (names : List String) (kw : List (String × Rat)) (e : EnableErr)
    (h : enable st names kw = .error e) : step st (.enable names kw) = st := by
  simp [step, h]

/-- a successful activation pushes exactly one instance per name and touches nothing else -/
theorem C12_push (st st' : State) (names : List String) (kw : List (String × Rat))
    (h : enable st names kw = .ok st') :
    ∃ inst : List Context, inst.length = names.length ∧ st'.active = inst.reverse ++ st.active ∧
      st'.contexts = st.contexts :=
  C11.C11_enable_order st st' names kw h

/-- **scoped / stack-like**: leaving a `with` block (normally or through an exception: the
    `finally` branch is the same `disable_contexts(len(names))`) restores the state exactly -/
theorem C12_with_restores (st st' : State) (names : List String) (kw : List (String × Rat))
    (h : enable st names kw = .ok st') :
    disable st' (some names.length) = st := by
  obtain ⟨inst, hl, ha, hc⟩ := C12_push st st' names kw h
  unfold disable
  cases st with
  | mk contexts active =>
    cases st' with
    | mk contexts' active' =>
      simp only at ha hc ⊢
      subst hc
      congr 1
      rw [ha, ← hl, ← List.length_reverse, List.drop_left]

/-- nested blocks: whatever balanced sequence runs inside, the outer state comes back -/
theorem C12_nested (st s1 s2 : State) (n1 n2 : List String) (k1 k2 : List (String × Rat))
    (h1 : enable st n1 k1 = .ok s1) (h2 : enable s1 n2 k2 = .ok s2) :
    disable (disable s2 (some n2.length)) (some n1.length) = st := by
  rw [C12_with_restores s1 s2 n2 k2 h2, C12_with_restores st s1 n1 k1 h1]

/-- `disable_contexts()` without argument empties the stack -/
theorem C12_disable_all (st : State) : (disable st none).active = [] ∧ (disable st none).contexts = st.contexts :=
  ⟨rfl, rfl⟩

/-- **no residue**: the registry seen by queries depends only on the base registry and the
    current stack — equal stacks give equal answers, whatever happened in between -/
theorem C12_no_residue (base : Registry) (s1 s2 : State) (h : s1.active = s2.active) :
    effective base s1.active = effective base s2.active := by rw [h]

/-- re-entering with other parameters builds a new instance; the registered context is not modified -/
theorem C12_registered_untouched (st st' : State) (names : List String) (kw : List (String × Rat))
    (h : enable st names kw = .ok st') : st'.contexts = st.contexts :=
  (C12_push st st' names kw h).choose_spec.2.2

/-- a failing activation inside a run is skipped: the run continues from the unchanged state -/
theorem C12_run_skips_failure (st : State) (names : List String) (kw : List (String × Rat)) (e : EnableErr)
    (rest : List Op) (h : enable st names kw = .error e) :
    run st (.enable names kw :: rest) = run st rest := by
  simp [run, List.foldl_cons, step, h]

end Pint.Props.C12
