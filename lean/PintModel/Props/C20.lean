/-
  C20 — the bundled registry carries the internationally standardised values.

  `Gen.defaultRegistry` is regenerated from pint/default_en.txt + constants_en.txt on every run;
  `Gen.standards` / `Gen.stdPrefixes` come from the curated independent tables under spec/.
  The theorems are whole-table kernel evaluations (`decide +kernel`, no extra axioms).
-/
import PintModel.Gen.DefaultRegistry
import PintModel.Gen.Standards

namespace Pint.Props.C20
open Pint

/-- one row of the curated table holds in registry `R` -/
def checkStd (R : Registry) (e : Gen.Std) : Bool :=
  match R.units.find? e.name with
  | none => false
  | some d =>
    (match R.getRootUnits [(e.name, 1)] with
      | .ok (f, _) => f == e.factor
      | .error _ => false) &&
    (match R.getDimensionality [(e.name, 1)] with
      | .ok dm => dm.beq e.dims
      | .error _ => false) &&
    (match e.symbol with
      | some s => d.sym == s
      | none => true) &&
    (match e.offset with
      | some o => (match d.conv with
          | .offset _ o' => o' == o
          | _ => false)
      | none => d.conv.isMultiplicative)

def checkPrefix (R : Registry) (p : Gen.StdPrefix) : Bool :=
  match R.prefixes.find? p.name with
  | none => false
  | some d => d.value == p.value && d.sym == p.symbol &&
      (match R.prefixes.find? p.symbol with
        | some d' => d'.name == p.name
        | none => false)

set_option maxRecDepth 100000 in
/-- every unit and constant of the curated table has exactly its standardised factor to
    root units, its dimensionality, its symbol and (temperature scales) its offset -/
theorem C20_all : Gen.standards.all (checkStd Gen.defaultRegistry) = true := by
  decide +kernel

set_option maxRecDepth 100000 in
/-- the 24 SI prefixes and the 8 binary prefixes: value and symbol -/
theorem C20_prefixes : Gen.stdPrefixes.all (checkPrefix Gen.defaultRegistry) = true := by
  decide +kernel

/-- non-vacuity: the table is not empty and mentions a non-trivial entry -/
example : Gen.standards.length > 100 ∧ Gen.stdPrefixes.length = 32 := by decide +kernel

end Pint.Props.C20
