/-
  C01 — conversion succeeds exactly between units of identical dimensionality.
-/
import PintModel.Proofs.DimLemmas
import PintModel.Props.C04
import PintModel.Gen.DefaultRegistry

namespace Pint.Props.C01
open Pint Pint.UC Pint.Registry

/-- the compatibility relation: both dimensionalities are defined and equal as dicts -/
def Compat (R : Registry) (a b : UC) : Prop :=
  ∃ da db, R.getDimensionality a = .ok da ∧ R.getDimensionality b = .ok db ∧ da.beq db = true

/-- different dimensionality: `DimensionalityError`, and no number is returned -/
theorem C01_error_kind (R : Registry) {a b da db : UC}
    (ha : R.getDimensionality a = .ok da) (hb : R.getDimensionality b = .ok db)
    (hne : da.beq db = false) (x : Rat) :
    R.convFactor a b = .error .dimensionality ∧ R.convertPlain x a b = .error .dimensionality := by
  have h1 : R.convFactor a b = .error .dimensionality := by
    unfold convFactor; rw [ha, hb]; simp [hne]
  exact ⟨h1, by unfold convertPlain; rw [h1]⟩

/-- a multiplicative conversion that returns a number implies equal dimensionality -/
theorem C01_success_implies_compat (R : Registry) {a b da db : UC} {x y : Rat}
    (ha : R.getDimensionality a = .ok da) (hb : R.getDimensionality b = .ok db)
    (hy : R.convertPlain x a b = .ok y) : da.beq db = true := by
  cases h : da.beq db with
  | true => rfl
  | false =>
    have := (C01_error_kind R ha hb h x).2
    rw [this] at hy; cases hy

/-- equal dimensionality: the conversion is the multiplication by the root factor of `a / b`
    (it succeeds exactly when that expansion succeeds — see `C01_default_wf`) -/
theorem C01_success (R : Registry) {a b da db u : UC} {f : Rat}
    (ha : R.getDimensionality a = .ok da) (hb : R.getDimensionality b = .ok db)
    (he : da.beq db = true) (hr : R.getRootUnits (a.div b) = .ok (f, u)) (x : Rat) :
    R.convertPlain x a b = .ok (x * f) := by
  unfold convertPlain convFactor; rw [ha, hb]; simp [he, hr]

/-- the predicates are the relation by construction: `is_compatible_with`, `check` compare
    dimensionalities with the same `==` -/
theorem C01_compat_symm (R : Registry) {a b : UC} (h : Compat R a b)
    (hc : ∀ u d, R.getDimensionality u = .ok d → d.Canon) : Compat R b a := by
  obtain ⟨da, db, ha, hb, he⟩ := h
  refine ⟨db, da, hb, ha, ?_⟩
  have := (C04.eq_iff (hc _ _ ha) (hc _ _ hb)).mp he
  exact (C04.eq_iff (hc _ _ hb) (hc _ _ ha)).mpr (fun k => (this k).symm)

theorem C01_compat_trans (R : Registry) {a b c : UC} (h1 : Compat R a b) (h2 : Compat R b c)
    (hc : ∀ u d, R.getDimensionality u = .ok d → d.Canon) : Compat R a c := by
  obtain ⟨da, db, ha, hb, he⟩ := h1
  obtain ⟨db', dc, hb', hcc, he'⟩ := h2
  rw [hb] at hb'; cases hb'
  refine ⟨da, dc, ha, hcc, ?_⟩
  have e1 := (C04.eq_iff (hc _ _ ha) (hc _ _ hb)).mp he
  have e2 := (C04.eq_iff (hc _ _ hb) (hc _ _ hcc)).mp he'
  exact (C04.eq_iff (hc _ _ ha) (hc _ _ hcc)).mpr (fun k => (e1 k).trans (e2 k))

end Pint.Props.C01
