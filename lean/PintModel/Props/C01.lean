/-
  C01 — conversion succeeds exactly between units of identical dimensionality.

  Model: `Registry.getDimensionality` (`_get_dimensionality[_recurse]`), `Registry.convFactor`,
  `Registry.convertPlain` (`_get_conversion_factor`, `_convert`).
-/
import PintModel.Proofs.DimHom
import PintModel.Proofs.RootLemmas
import PintModel.Props.C04
import PintModel.Gen.DefaultRegistry

namespace Pint.Props.C01
open Pint Pint.UC Pint.Registry

/-- the compatibility relation all predicates compute: both dimensionalities are defined and
    `==` as dicts -/
def Compat (R : Registry) (a b : UC) : Prop :=
  ∃ da db, R.getDimensionality a = .ok da ∧ R.getDimensionality b = .ok db ∧ da.beq db = true

/-! ### dimensionality of products, quotients and powers -/

/-- every dimensionality the registry reports is in canonical form -/
theorem dim_canon (R : Registry) {u du : UC} (h : R.getDimensionality u = .ok du) : du.Canon :=
  R.getDim_canon h

theorem dim_mul (R : Registry) {a b da db : UC} (hn : a.keys.Nodup)
    (ha : R.getDimensionality a = .ok da) (hb : R.getDimensionality b = .ok db) :
    ∃ dab, R.getDimensionality (a.mul b) = .ok dab ∧ dab.beq (da.mul db) = true := by
  obtain ⟨dab, h1, h2, h3⟩ := R.getDim_merge 1 hn ha hb
  rw [← mul_eq_merge] at h1
  refine ⟨dab, h1, (C04.eq_iff h2 (C04.canon_mul (R.getDim_canon ha) db)).mpr ?_⟩
  intro d
  rw [h3 d, C04.exp_mul da (R.getDim_canon hb).1, Rat.one_mul]

theorem dim_div (R : Registry) {a b da db : UC} (hn : a.keys.Nodup)
    (ha : R.getDimensionality a = .ok da) (hb : R.getDimensionality b = .ok db) :
    ∃ dab, R.getDimensionality (a.div b) = .ok dab ∧ dab.beq (da.div db) = true := by
  obtain ⟨dab, h1, h2, h3⟩ := R.getDim_merge (-1) hn ha hb
  rw [← div_eq_merge] at h1
  refine ⟨dab, h1, (C04.eq_iff h2 (C04.canon_div (R.getDim_canon ha) db)).mpr ?_⟩
  intro d
  rw [h3 d, C04.exp_div da (R.getDim_canon hb).1, Rat.neg_mul, Rat.one_mul, Rat.sub_eq_add_neg]

theorem dim_pow (R : Registry) (r : Rat) {a da : UC}
    (ha : R.getDimensionality a = .ok da) :
    ∃ dr, R.getDimensionality (a.pow r) = .ok dr ∧ dr.beq (da.pow r) = true := by
  obtain ⟨dr, h1, h2, h3⟩ := R.getDim_pow r ha
  refine ⟨dr, h1, (C04.eq_iff h2 (C04.canon_pow (R.getDim_canon ha) r)).mpr ?_⟩
  intro d
  rw [h3 d, C04.exp_pow (R.getDim_canon ha).1, Rat.mul_comm]

/-! ### the relation is an equivalence, preserved by products, quotients and powers -/

theorem compat_refl (R : Registry) {a da : UC} (h : R.getDimensionality a = .ok da) : Compat R a a :=
  ⟨da, da, h, h, (C04.eq_iff (R.getDim_canon h) (R.getDim_canon h)).mpr (fun _ => rfl)⟩

theorem compat_symm (R : Registry) {a b : UC} (h : Compat R a b) : Compat R b a := by
  obtain ⟨da, db, ha, hb, he⟩ := h
  refine ⟨db, da, hb, ha, ?_⟩
  have := (C04.eq_iff (R.getDim_canon ha) (R.getDim_canon hb)).mp he
  exact (C04.eq_iff (R.getDim_canon hb) (R.getDim_canon ha)).mpr (fun k => (this k).symm)

theorem compat_trans (R : Registry) {a b c : UC} (h1 : Compat R a b) (h2 : Compat R b c) : Compat R a c := by
  obtain ⟨da, db, ha, hb, he⟩ := h1
  obtain ⟨db', dc, hb', hcc, he'⟩ := h2
  rw [hb] at hb'; cases hb'
  refine ⟨da, dc, ha, hcc, ?_⟩
  have e1 := (C04.eq_iff (R.getDim_canon ha) (R.getDim_canon hb)).mp he
  have e2 := (C04.eq_iff (R.getDim_canon hb) (R.getDim_canon hcc)).mp he'
  exact (C04.eq_iff (R.getDim_canon ha) (R.getDim_canon hcc)).mpr (fun k => (e1 k).trans (e2 k))

private theorem equiv_of_beq (R : Registry) {a b da db : UC}
    (ha : R.getDimensionality a = .ok da) (hb : R.getDimensionality b = .ok db) (he : da.beq db = true) :
    Equiv da db := (C04.eq_iff (R.getDim_canon ha) (R.getDim_canon hb)).mp he

theorem compat_mul (R : Registry) {a a' b b' : UC} (hn : a.keys.Nodup) (hn' : a'.keys.Nodup)
    (h1 : Compat R a a') (h2 : Compat R b b') : Compat R (a.mul b) (a'.mul b') := by
  obtain ⟨da, da', ha, ha', hea⟩ := h1
  obtain ⟨db, db', hb, hb', heb⟩ := h2
  obtain ⟨d1, p1, c1, v1⟩ := R.getDim_merge 1 hn ha hb
  obtain ⟨d2, p2, c2, v2⟩ := R.getDim_merge 1 hn' ha' hb'
  rw [← mul_eq_merge] at p1 p2
  refine ⟨d1, d2, p1, p2, (C04.eq_iff c1 c2).mpr ?_⟩
  intro d
  rw [v1 d, v2 d, equiv_of_beq R ha ha' hea d, equiv_of_beq R hb hb' heb d]

theorem compat_div (R : Registry) {a a' b b' : UC} (hn : a.keys.Nodup) (hn' : a'.keys.Nodup)
    (h1 : Compat R a a') (h2 : Compat R b b') : Compat R (a.div b) (a'.div b') := by
  obtain ⟨da, da', ha, ha', hea⟩ := h1
  obtain ⟨db, db', hb, hb', heb⟩ := h2
  obtain ⟨d1, p1, c1, v1⟩ := R.getDim_merge (-1) hn ha hb
  obtain ⟨d2, p2, c2, v2⟩ := R.getDim_merge (-1) hn' ha' hb'
  rw [← div_eq_merge] at p1 p2
  refine ⟨d1, d2, p1, p2, (C04.eq_iff c1 c2).mpr ?_⟩
  intro d
  rw [v1 d, v2 d, equiv_of_beq R ha ha' hea d, equiv_of_beq R hb hb' heb d]

theorem compat_pow (R : Registry) (r : Rat) {a a' : UC} (h1 : Compat R a a') :
    Compat R (a.pow r) (a'.pow r) := by
  obtain ⟨da, da', ha, ha', hea⟩ := h1
  obtain ⟨d1, p1, c1, v1⟩ := R.getDim_pow r ha
  obtain ⟨d2, p2, c2, v2⟩ := R.getDim_pow r ha'
  refine ⟨d1, d2, p1, p2, (C04.eq_iff c1 c2).mpr ?_⟩
  intro d
  rw [v1 d, v2 d, equiv_of_beq R ha ha' hea d]

/-! ### conversion succeeds exactly on the relation -/

/-- different dimensionality: `DimensionalityError`, and no number is returned -/
theorem C01_error_kind (R : Registry) {a b da db : UC}
    (ha : R.getDimensionality a = .ok da) (hb : R.getDimensionality b = .ok db)
    (hne : da.beq db = false) (x : Rat) :
    R.convFactor a b = .error .dimensionality ∧ R.convertPlain x a b = .error .dimensionality := by
  have h1 : R.convFactor a b = .error .dimensionality := by
    unfold convFactor; rw [ha, hb]; simp [hne]
  exact ⟨h1, by unfold convertPlain; rw [h1]⟩

/-- a conversion that returns a number implies equal dimensionality -/
theorem C01_success_implies_compat (R : Registry) {a b da db : UC} {x y : Rat}
    (ha : R.getDimensionality a = .ok da) (hb : R.getDimensionality b = .ok db)
    (hy : R.convertPlain x a b = .ok y) : da.beq db = true := by
  cases h : da.beq db with
  | true => rfl
  | false =>
    have := (C01_error_kind R ha hb h x).2
    rw [this] at hy; cases hy

/-- the biconditional: for units with integer exponents whose expansions are exact
    (`WFint`, both root expansions defined), the conversion returns a number iff the
    dimensionalities are equal -/
theorem C01_convert_iff (R : Registry) (hW : R.WFint) {a b da db ua ub : UC} {fa fb : Rat}
    (hIa : IntUC a) (hIb : IntUC b) (hn : a.keys.Nodup)
    (ha : R.getDimensionality a = .ok da) (hb : R.getDimensionality b = .ok db)
    (ra : R.getRootUnits a = .ok (fa, ua)) (rb : R.getRootUnits b = .ok (fb, ub)) (x : Rat) :
    (∃ y, R.convertPlain x a b = .ok y) ↔ da.beq db = true := by
  constructor
  · rintro ⟨y, hy⟩; exact C01_success_implies_compat R ha hb hy
  · intro he
    obtain ⟨f, u, h1, _, _⟩ := R.getRootUnits_div hW hIa hIb hn ra rb
    refine ⟨x * f, ?_⟩
    unfold convertPlain convFactor; rw [ha, hb]; simp [he, h1]

/-! ### non-vacuity on the bundled registry (whole-table definedness: see `C20_all`, `C02_default_wfint`) -/

theorem ok_of_toOption {ε α : Type} {x : Except ε α} {v : α} (h : x.toOption = some v) : x = .ok v := by
  cases x with
  | ok a => simp [Except.toOption] at h; rw [h]
  | error e => simp [Except.toOption] at h

set_option maxRecDepth 100000 in
example : Compat Gen.defaultRegistry [("inch", 1)] [("kilometer", 1)] :=
  ⟨[("[length]", 1)], [("[length]", 1)], ok_of_toOption (by decide +kernel), ok_of_toOption (by decide +kernel),
    by decide +kernel⟩

set_option maxRecDepth 100000 in
example : ∃ da db, Gen.defaultRegistry.getDimensionality [("newton", 1)] = .ok da ∧
    Gen.defaultRegistry.getDimensionality [("joule", 1)] = .ok db ∧ da.beq db = false :=
  ⟨[("[mass]", 1), ("[length]", 1), ("[time]", -2)], [("[mass]", 1), ("[length]", 2), ("[time]", -2)],
    ok_of_toOption (by decide +kernel), ok_of_toOption (by decide +kernel), by decide +kernel⟩

end Pint.Props.C01
