/-
  C08 — "the canonical name and symbol reported for any accepted spelling are those of the definition":
  the symbol clause, after the F63 repair.
-/
import PintModel.Model.Registry
import PintModel.Props.C08
import PintModel.Gen.DefaultRegistry

namespace Pint.Props.C08Sym
open Pint

/-- a spelling whose first reading is prefix + unit, where prefix ++ unit has a definition of its own
    (milliarcsecond = ... = mas): the symbol reported is the one of that definition -/
theorem C08_symbol_explicit (R : Registry) (s p u sfx : String) (cs : Option Bool)
    (rest : List (String × String × String)) (own : UnitDef)
    (hc : R.parseUnitName s cs = (p, u, sfx) :: rest) (hp : p ≠ "")
    (ho : R.units.find? (p ++ u) = some own) :
    R.getSymbol s cs = .ok own.sym := by
  unfold Registry.getSymbol
  simp only [hc]
  have : (p != "") = true := by simpa using hp
  simp only [this, if_true, ho]

/-- a plain (unprefixed) reading reports the symbol of the unit's definition -/
theorem C08_symbol_plain (R : Registry) (s u sfx : String) (cs : Option Bool)
    (rest : List (String × String × String)) (pd : PrefixDef) (ud : UnitDef)
    (hc : R.parseUnitName s cs = ("", u, sfx) :: rest)
    (hp : R.prefixes.find? "" = some pd) (hps : pd.sym = "") (hu : R.units.find? u = some ud) :
    R.getSymbol s cs = .ok ud.sym := by
  unfold Registry.getSymbol
  simp only [hc]
  simp [hp, hu, hps]

/-- a prefixed reading without a definition of its own: prefix symbol ++ unit symbol -/
theorem C08_symbol_prefixed (R : Registry) (s p u sfx : String) (cs : Option Bool)
    (rest : List (String × String × String)) (pd : PrefixDef) (ud : UnitDef)
    (hc : R.parseUnitName s cs = (p, u, sfx) :: rest) (ho : R.units.find? (p ++ u) = none)
    (hp : R.prefixes.find? p = some pd) (hu : R.units.find? u = some ud) :
    R.getSymbol s cs = .ok (pd.sym ++ ud.sym) := by
  unfold Registry.getSymbol
  simp only [hc]
  by_cases h : (p != "") = true <;> simp [h, ho, hp, hu]

/-- no reading: UndefinedUnitError -/
theorem C08_symbol_undefined (R : Registry) (s : String) (cs : Option Bool)
    (hc : R.parseUnitName s cs = []) : R.getSymbol s cs = .error .undefined := by
  unfold Registry.getSymbol
  simp only [hc]

/-- on the registry generated from the bundled definition files: the two explicitly defined prefixed units whose
    symbol differs from prefix symbol ++ unit symbol, an ordinary prefixed spelling, and a plain one -/
example : (Gen.defaultRegistry.getSymbol "milliarcsecond").toOption = some "mas"
    ∧ (Gen.defaultRegistry.getSymbol "kilometer_per_second").toOption = some "kps"
    ∧ (Gen.defaultRegistry.getSymbol "kilometers").toOption = some "km"
    ∧ (Gen.defaultRegistry.getSymbol "kilogram").toOption = some "kg"
    ∧ (Gen.defaultRegistry.getSymbol "ft").toOption = some "ft" := by decide +kernel

end Pint.Props.C08Sym
