/-
  C10 — definition files mean what they say, independent of order and loading path.

  Model: `Registry.load` / adders (`Model/Load.lean`, `Model/Registry.lean`): every table is an
  insertion-ordered dict built by `Dict.insert`.  The textual line parser is modelled by the
  independent reader (tools/defreader.py) and tied by the correspondence.
-/
import PintModel.Model.Load

namespace Pint.Props.C10
open Pint

variable {α : Type}

/-- first value stored for a key in a list of key/value pairs -/
def lookupKV : List (String × α) → String → Option α
  | [], _ => none
  | (k', v) :: t, k => if k' = k then some v else lookupKV t k

theorem find_insert (d : Dict α) (k : String) (v : α) (k' : String) :
    (d.insert k v).find? k' = if k = k' then some v else d.find? k' := by
  induction d with
  | nil => simp [Dict.insert, Dict.find?]
  | cons p t ih =>
    obtain ⟨k0, v0⟩ := p
    by_cases h0 : k0 = k
    · subst h0
      by_cases h1 : k0 = k' <;> simp [Dict.insert, Dict.find?, h1]
    · simp only [Dict.insert, if_neg h0, Dict.find?, ih]
      by_cases h1 : k0 = k'
      · subst h1; simp [Ne.symm h0]
      · simp [h1]

theorem lookupKV_none_of_not_mem {kvs : List (String × α)} {k : String}
    (h : k ∉ kvs.map (·.1)) : lookupKV kvs k = none := by
  induction kvs with
  | nil => rfl
  | cons p t ih =>
    obtain ⟨k0, v0⟩ := p
    simp only [List.map_cons, List.mem_cons, not_or] at h
    have hne : ¬ k0 = k := fun e => h.1 e.symm
    simp only [lookupKV, if_neg hne]
    exact ih h.2

/-- loading key/value pairs with pairwise distinct keys: the table answers with the pair's value -/
theorem find_foldl_insert {kvs : List (String × α)} (hn : (kvs.map (·.1)).Nodup) (d : Dict α) (k : String) :
    Dict.find? (kvs.foldl (fun (acc : Dict α) p => Dict.insert acc p.1 p.2) d) k =
      (match lookupKV kvs k with
        | some v => some v
        | none => d.find? k) := by
  induction kvs generalizing d with
  | nil => rfl
  | cons p t ih =>
    obtain ⟨k0, v0⟩ := p
    simp only [List.map_cons, List.nodup_cons] at hn
    simp only [List.foldl_cons]
    rw [ih hn.2, find_insert]
    by_cases h0 : k0 = k
    · subst h0
      simp [lookupKV, lookupKV_none_of_not_mem hn.1]
    · simp [lookupKV, h0]

theorem lookupKV_eq_some_iff {kvs : List (String × α)} (hn : (kvs.map (·.1)).Nodup) (k : String) (v : α) :
    lookupKV kvs k = some v ↔ (k, v) ∈ kvs := by
  induction kvs with
  | nil => simp [lookupKV]
  | cons p t ih =>
    obtain ⟨k0, v0⟩ := p
    simp only [List.map_cons, List.nodup_cons] at hn
    by_cases h0 : k0 = k
    · subst h0
      simp only [lookupKV, if_true, Option.some.injEq, List.mem_cons, Prod.mk.injEq, true_and]
      constructor
      · intro e; exact Or.inl e.symm
      · rintro (e | hm)
        · exact e.symm
        · exact absurd (List.mem_map_of_mem (f := Prod.fst) hm) hn.1
    · simp only [lookupKV, if_neg h0, List.mem_cons, Prod.mk.injEq, ih hn.2]
      constructor
      · intro hm; exact Or.inr hm
      · rintro (⟨e, _⟩ | hm)
        · exact absurd e.symm h0
        · exact hm

/-- **order independence**: for definitions with pairwise distinct spellings, every lookup in the
    loaded table is the same whatever the order of the lines -/
theorem C10_order_independent {kvs kvs' : List (String × α)} (hn : (kvs.map (·.1)).Nodup)
    (hp : kvs.Perm kvs') (k : String) :
    Dict.find? (kvs.foldl (fun (acc : Dict α) p => Dict.insert acc p.1 p.2) ([] : Dict α)) k =
    Dict.find? (kvs'.foldl (fun (acc : Dict α) p => Dict.insert acc p.1 p.2) ([] : Dict α)) k := by
  have hn' : (kvs'.map (·.1)).Nodup := (hp.map _).nodup_iff.mp hn
  rw [find_foldl_insert hn, find_foldl_insert hn']
  have : lookupKV kvs k = lookupKV kvs' k := by
    cases h : lookupKV kvs k with
    | some v =>
      have := (lookupKV_eq_some_iff hn k v).mp h
      exact ((lookupKV_eq_some_iff hn' k v).mpr (hp.mem_iff.mp this)).symm
    | none =>
      cases h' : lookupKV kvs' k with
      | none => rfl
      | some v =>
        have := (lookupKV_eq_some_iff hn' k v).mp h'
        have := (lookupKV_eq_some_iff hn k v).mpr (hp.mem_iff.mpr this)
        rw [h] at this; cases this
  rw [this]

/-- the unit table after `_add_unit` holds the definition under each of its spellings
    (name, symbol, aliases) -/
theorem C10_unit_under_every_spelling (R : Registry) (d : UnitDef) (k : String) (hk : k ∈ Registry.unitKeys d) :
    ∃ d', ((Registry.unitKeys d).foldl (fun R k => R.addUnitKey k d) R).units.find? k = some d' ∧ d' = d := by
  have key : ∀ (ks : List String) (R : Registry), k ∈ ks →
      (ks.foldl (fun R k => R.addUnitKey k d) R).units.find? k = some d := by
    intro ks
    induction ks with
    | nil => intro R h; cases h
    | cons k0 t ih =>
      intro R h
      simp only [List.foldl_cons]
      by_cases hm : k ∈ t
      · exact ih _ hm
      · have hk0 : k = k0 := by
          simp only [List.mem_cons] at h
          rcases h with h | h
          · exact h
          · exact absurd h hm
        subst hk0
        -- later keys differ from k: the entry is not overwritten
        have stable : ∀ (ks : List String) (R : Registry), k ∉ ks → R.units.find? k = some d →
            (ks.foldl (fun R k => R.addUnitKey k d) R).units.find? k = some d := by
          intro ks
          induction ks with
          | nil => intro R _ h; exact h
          | cons k1 t1 ih1 =>
            intro R hn h
            simp only [List.mem_cons, not_or] at hn
            simp only [List.foldl_cons]
            apply ih1 _ hn.2
            show (R.units.insert k1 d).find? k = some d
            rw [find_insert]; simp [Ne.symm hn.1, h]
        apply stable t _ hm
        show (R.units.insert k d).find? k = some d
        rw [find_insert]; simp
  exact ⟨d, key _ R hk, rfl⟩

/-- non-vacuity -/
example : Dict.find? ((["b", "a"].map fun k => (k, k.length)).foldl (fun (acc : Dict Nat) p => Dict.insert acc p.1 p.2) []) "a" = some 1 := by
  decide

end Pint.Props.C10
