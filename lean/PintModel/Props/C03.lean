/-
  C03 — arithmetic results do not depend on the units used to express the operands.

  Model: `PintModel/Model/Quantity.lean` (`_add_sub`, `_mul_div`, floor division, modulo,
  `compare`, …).  The in-place twins `_iadd_sub` / `_imul_div` compute the same function of
  (magnitude, units): the model has one definition for both; their agreement on the real
  code is checked by the correspondence (object-array magnitudes).
-/
import PintModel.Model.Quantity
import PintModel.Proofs.QtyLemmas

namespace Pint.Props.C03
open Pint Pint.Registry

/-- adding or subtracting quantities of different dimensionality raises `DimensionalityError` -/
theorem C03_add_dim_error (R : Registry) (m : Mode) (op : AddOp) (a b : Qty) {da db : UC}
    (ha : R.getDimensionality a.units = .ok da) (hb : R.getDimensionality b.units = .ok db)
    (hne : da.beq db = false) :
    R.addSub m op a (.q b) = .error .dimensionality := by
  unfold addSub; simp [ha, hb, hne]

/-- ordering quantities of different dimensionality raises `DimensionalityError` -/
theorem C03_compare_dim_error (R : Registry) (m : Mode) (op : CmpOp) (a b : Qty) {da db : UC}
    (hu : a.units.beq b.units = false)
    (ha : R.getDimensionality a.units = .ok da) (hb : R.getDimensionality b.units = .ok db)
    (hne : da.beq db = false) :
    R.compare m op a (.q b) = .error .dimensionality := by
  unfold Registry.compare; simp [hu, ha, hb, hne]

/-- a bare number is accepted as an operand of + and - only when the quantity is
    dimensionless or the number is zero -/
theorem C03_bare_number (R : Registry) (m : Mode) (op : AddOp) (a : Qty) (x : Rat) :
    (x = 0 → R.addSub m op a (.num x) = .ok ⟨op.app a.mag x, a.units⟩) ∧
    (x ≠ 0 → R.dimensionless m a = .ok false → R.addSub m op a (.num x) = .error .dimensionality) ∧
    (x ≠ 0 → R.dimensionless m a = .ok true → ∀ v, R.convertTo m a [] = .ok v →
        R.addSub m op a (.num x) = .ok ⟨op.app v x, []⟩) := by
  refine ⟨?_, ?_, ?_⟩
  · intro hx; unfold addSub; simp [hx]
  · intro hx hd; unfold addSub; simp [hx, hd]
  · intro hx hd v hv; unfold addSub; simp [hx, hd, hv]

theorem C03_neg_neg (a : Qty) : Registry.neg (Registry.neg a) = a := by
  cases a with
  | mk mag units => simp [Registry.neg, Rat.neg_neg]

theorem C03_neg_units (a : Qty) : (Registry.neg a).units = a.units ∧ (Registry.abs a).units = a.units := ⟨rfl, rfl⟩

/-! ### covariance: the result depends only on the operands' physical value

`Good R S q f ru d`: `q`'s units are registered multiplicative units with integer exponents
inside the closed set `S`, root expansion `(f, ru)` and dimensionality `d` are defined.
`rootMag q f = q.mag * f` is the physical magnitude in root units.  Hypotheses are shown
satisfiable on the bundled registry in `Proofs/QtyExamples.lean`. -/

section
variable {R : Registry} {S : String → Prop} (hW : R.WFintOn S) (m : Mode)
include hW
variable {a a' b b' : Qty} {fa fa' fb fb' : Rat} {ua ua' ub ub' da da' db db' : UC}

/-- + and − : the sum in root units is the sum of the operands in root units, whatever units
    the operands are written in -/
theorem C03_add_value (op : AddOp) (ha : Good R S a fa ua da) (hb : Good R S b fb ub db)
    (he : da.beq db = true) :
    ∃ c fc, R.addSub m op a (.q b) = .ok c ∧
      (c.units = a.units ∧ fc = fa ∨ c.units = b.units ∧ fc = fb) ∧
      c.mag * fc = op.app (a.mag * fa) (b.mag * fb) :=
  add_phys_total hW m op ha hb he

theorem C03_cov_add (op : AddOp) {c c' : Qty}
    (ha : Good R S a fa ua da) (ha' : Good R S a' fa' ua' da')
    (hb : Good R S b fb ub db) (hb' : Good R S b' fb' ub' db')
    (va : rootMag a fa = rootMag a' fa') (vb : rootMag b fb = rootMag b' fb')
    (hc : R.addSub m op a (.q b) = .ok c) (hc' : R.addSub m op a' (.q b') = .ok c') :
    ∃ fc fc', (c.units = a.units ∧ fc = fa ∨ c.units = b.units ∧ fc = fb) ∧
      (c'.units = a'.units ∧ fc' = fa' ∨ c'.units = b'.units ∧ fc' = fb') ∧
      rootMag c fc = rootMag c' fc' :=
  add_cov hW m op ha ha' hb hb' va vb hc hc'

/-- success or failure of + / − does not depend on the units either -/
theorem C03_cov_add_ok (op : AddOp)
    (ha : Good R S a fa ua da) (ha' : Good R S a' fa' ua' da')
    (hb : Good R S b fb ub db) (hb' : Good R S b' fb' ub' db')
    (ea : da.beq da' = true) (eb : db.beq db' = true) :
    (∃ c, R.addSub m op a (.q b) = .ok c) ↔ (∃ c', R.addSub m op a' (.q b') = .ok c') :=
  add_cov_ok hW m op ha ha' hb hb' ea eb

theorem C03_cov_mul (ha : Good R S a fa ua da) (ha' : Good R S a' fa' ua' da')
    (hb : Good R S b fb ub db) (hb' : Good R S b' fb' ub' db')
    (va : rootMag a fa = rootMag a' fa') (vb : rootMag b fb = rootMag b' fb') :
    ∃ c c' fc fc' uc uc', R.mulDiv m .mul a (.q b) = .ok c ∧ R.mulDiv m .mul a' (.q b') = .ok c' ∧
      R.getRootUnits c.units = .ok (fc, uc) ∧ R.getRootUnits c'.units = .ok (fc', uc') ∧
      rootMag c fc = rootMag c' fc' :=
  mul_cov hW m ha ha' hb hb' va vb

theorem C03_cov_div (ha : Good R S a fa ua da) (ha' : Good R S a' fa' ua' da')
    (hb : Good R S b fb ub db) (hb' : Good R S b' fb' ub' db')
    (va : rootMag a fa = rootMag a' fa') (vb : rootMag b fb = rootMag b' fb') (hz : b.mag ≠ 0) :
    ∃ c c' fc fc' uc uc', R.mulDiv m .div a (.q b) = .ok c ∧ R.mulDiv m .div a' (.q b') = .ok c' ∧
      R.getRootUnits c.units = .ok (fc, uc) ∧ R.getRootUnits c'.units = .ok (fc', uc') ∧
      rootMag c fc = rootMag c' fc' :=
  div_cov hW m ha ha' hb hb' va vb hz

/-- floor division: the same number (or the same error) in any units -/
theorem C03_cov_floordiv (ha : Good R S a fa ua da) (ha' : Good R S a' fa' ua' da')
    (hb : Good R S b fb ub db) (hb' : Good R S b' fb' ub' db')
    (ea : da.beq da' = true) (eb : db.beq db' = true)
    (va : rootMag a fa = rootMag a' fa') (vb : rootMag b fb = rootMag b' fb') :
    R.floordiv m a (.q b) = R.floordiv m a' (.q b') :=
  floordiv_cov hW m ha ha' hb hb' ea eb va vb

theorem C03_cov_mod (ha : Good R S a fa ua da) (ha' : Good R S a' fa' ua' da')
    (hb : Good R S b fb ub db) (hb' : Good R S b' fb' ub' db')
    (ea : da.beq da' = true) (eb : db.beq db' = true)
    (va : rootMag a fa = rootMag a' fa') (vb : rootMag b fb = rootMag b' fb')
    (he : da.beq db = true) (hz : b.mag ≠ 0) :
    ∃ c c', R.mod m a (.q b) = .ok c ∧ R.mod m a' (.q b') = .ok c' ∧
      c.units = a.units ∧ c'.units = a'.units ∧ rootMag c fa = rootMag c' fa' :=
  mod_cov hW m ha ha' hb hb' ea eb va vb he hz

/-- ordering (positively scaled units): the same truth value or the same error in any units -/
theorem C03_cov_compare (op : CmpOp)
    (ha : Good R S a fa ua da) (ha' : Good R S a' fa' ua' da')
    (hb : Good R S b fb ub db) (hb' : Good R S b' fb' ub' db')
    (ea : da.beq da' = true) (eb : db.beq db' = true)
    (va : rootMag a fa = rootMag a' fa') (vb : rootMag b fb = rootMag b' fb')
    (hpos : 0 < fa) (hpos' : 0 < fa')
    (hra : RootGood R S ua da) (hrb : RootGood R S ub db)
    (hra' : RootGood R S ua' da') (hrb' : RootGood R S ub' db') :
    R.compare m op a (.q b) = R.compare m op a' (.q b') :=
  compare_cov hW m op ha ha' hb hb' ea eb va vb hpos hpos' hra hrb hra' hrb'

theorem C03_cov_eq (ha : Good R S a fa ua da) (ha' : Good R S a' fa' ua' da')
    (hb : Good R S b fb ub db) (hb' : Good R S b' fb' ub' db')
    (ea : da.beq da' = true) (eb : db.beq db' = true)
    (va : rootMag a fa = rootMag a' fa') (vb : rootMag b fb = rootMag b' fb') :
    R.qeq m a (.q b) = R.qeq m a' (.q b') :=
  eq_cov hW m ha ha' hb hb' ea eb va vb

end

end Pint.Props.C03
