/-
  C03 — arithmetic results do not depend on the units used to express the operands.

  Model: `PintModel/Model/Quantity.lean` (`_add_sub`, `_mul_div`, floor division, modulo,
  `compare`, …).  The in-place twins `_iadd_sub` / `_imul_div` compute the same function of
  (magnitude, units): the model has one definition for both; their agreement on the real
  code is checked by the correspondence (object-array magnitudes).
-/
import PintModel.Model.Quantity

namespace Pint.Props.C03
open Pint Pint.Registry

/-- adding or subtracting quantities of different dimensionality raises `DimensionalityError` -/
theorem C03_add_dim_error (R : Registry) (m : Mode) (op : AddOp) (a b : Qty) {da db : UC}
    (ha : R.getDimensionality a.units = .ok da) (hb : R.getDimensionality b.units = .ok db)
    (hne : da.beq db = false) :
    R.addSub m op a (.q b) = .error .dimensionality := by
  unfold addSub; simp [ha, hb, hne]

/-- ordering quantities of different dimensionality raises `DimensionalityError` -/
theorem C03_compare_dim_error (R : Registry) (m : Mode) (op : CmpOp) (a b : Qty) {da db : UC}
    (hu : a.units.beq b.units = false)
    (ha : R.getDimensionality a.units = .ok da) (hb : R.getDimensionality b.units = .ok db)
    (hne : da.beq db = false) :
    R.compare m op a (.q b) = .error .dimensionality := by
  unfold Registry.compare; simp [hu, ha, hb, hne]

/-- a bare number is accepted as an operand of + and - only when the quantity is
    dimensionless or the number is zero -/
theorem C03_bare_number (R : Registry) (m : Mode) (op : AddOp) (a : Qty) (x : Rat) :
    (x = 0 → R.addSub m op a (.num x) = .ok ⟨op.app a.mag x, a.units⟩) ∧
    (x ≠ 0 → R.dimensionless m a = .ok false → R.addSub m op a (.num x) = .error .dimensionality) ∧
    (x ≠ 0 → R.dimensionless m a = .ok true → ∀ v, R.convertTo m a [] = .ok v →
        R.addSub m op a (.num x) = .ok ⟨op.app v x, []⟩) := by
  refine ⟨?_, ?_, ?_⟩
  · intro hx; unfold addSub; simp [hx]
  · intro hx hd; unfold addSub; simp [hx, hd]
  · intro hx hd v hv; unfold addSub; simp [hx, hd, hv]

theorem C03_neg_neg (a : Qty) : Registry.neg (Registry.neg a) = a := by
  cases a with
  | mk mag units => simp [Registry.neg, Rat.neg_neg]

theorem C03_neg_units (a : Qty) : (Registry.neg a).units = a.units ∧ (Registry.abs a).units = a.units := ⟨rfl, rfl⟩

end Pint.Props.C03
