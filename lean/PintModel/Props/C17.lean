/-
  C17 — wraps/check decorators hand over correct magnitudes and enforce dimensions.

  Model: `PintModel/Model/Wraps.lean` (`classify` = `_parse_wrap_args`, `applyDefaults`, `pack`,
  `converter` with its three passes, `replaceUnits`, `wrapperCall`, `checkCall`).  The unit
  conversion `conv` and the dimensionality `dimOf` are arbitrary functions here: the statements
  are about the argument bookkeeping; C02 says what `conv` returns.
-/
import PintModel.Model.Wraps
import PintModel.Proofs.WrapsLemmas

namespace Pint.Props.C17
open Pint Pint.Wraps

variable (conv : Rat → UC → UC → Except Err Rat)

/-! ### what a position receives, by its specification -/

/-- `None` : the value is handed over untouched -/
theorem C17_none (strict : Bool) (bn : List (String × Val)) (v : Val) :
    convertOne conv strict bn .skip v = .ok v := rfl

/-- a declared unit and a quantity: the magnitude converted to that unit, or the conversion's error
    (`DimensionalityError` for incompatible units) -/
theorem C17_unit_quantity (strict : Bool) (bn : List (String × Val)) (u su : UC) (m : Rat) :
    convertOne conv strict bn (.unit u) (.q m su) =
      (match conv m su u with | .ok x => .ok (.num x) | .error e => .error e) := rfl

/-- a declared unit and a bare number: refused in strict mode, passed through unchanged otherwise -/
theorem C17_strict (bn : List (String × Val)) (u : UC) (x : Rat) :
    convertOne conv true bn (.unit u) (.num x) = .error .value ∧
    convertOne conv false bn (.unit u) (.num x) = .ok (.num x) := ⟨rfl, rfl⟩

/-- `"=A"` first occurrence: the magnitude as given, and the value is bound to the name -/
theorem C17_definition (strict : Bool) (bn : List (String × Val)) (k : String) (m : Rat) (u : UC) :
    convertOne conv strict bn (.defn k) (.q m u) = .ok (.num m) := rfl

/-- a dependent reference: converted to the units derived from the bound values -/
theorem C17_dependent (strict : Bool) (bn : List (String × Val)) (u dst : UC) (v : Val)
    (h : replaceUnits u bn = .ok dst) :
    convertOne conv strict bn (.dep u) v =
      (match conv (magOf v) (unitsOf v) dst with | .ok x => .ok (.num x) | .error e => .error e) := by
  simp only [convertOne]; rw [h]; rfl

/-- the derived units of `"=A"`, `"=A**2"`, `"=A*B"` -/
example : (replaceUnits [("A", 2)] [("A", .q 3 [("meter", 1)])]).toOption = some [("meter", 2)] := by decide +kernel
example : (replaceUnits [("A", 1), ("B", -1)] [("A", .q 3 [("meter", 1)]), ("B", .q 2 [("second", 1)])]).toOption
    = some [("meter", 1), ("second", -1)] := by decide +kernel

/-! ### classification of the specifications -/

theorem C17_classify_none {specs : List Spec} {i : Nat} (h : specs[i]? = some .none) :
    (classify specs)[i]? = some .skip := Wraps.classify_none h

theorem C17_classify_unit {specs : List Spec} {i : Nat} {u : UC} (h : specs[i]? = some (.unit u)) :
    (classify specs)[i]? = some (.unit u) := Wraps.classify_unit h

theorem C17_classify_ref {specs : List Spec} {i : Nat} {u : UC} (h : specs[i]? = some (.ref u)) :
    (∃ k, u = [(k, 1)] ∧ (classify specs)[i]? = some (.defn k)) ∨ (classify specs)[i]? = some (.dep u) :=
  Wraps.classify_ref h

example : classify [.ref [("A", 1)], .none, .ref [("A", 1)], .ref [("A", 1), ("B", 1)], .unit [("cm", 1)], .ref [("B", 1)]]
    = [.defn "A", .skip, .dep [("A", 1)], .dep [("A", 1), ("B", 1)], .unit [("cm", 1)], .defn "B"] := by decide

/-! ### default / keyword packing and the whole call -/

/-- every parameter's value — positional, keyword or default — sits at the parameter's index -/
theorem C17_pack {sig : Sig} {args values : List Val} {kw : List (String × Val)}
    (h : pack sig args kw = .ok values) :
    values.take args.length = args ∧
    ∀ (j : Nat) p, (sig.drop args.length)[j]? = some p → values[args.length + j]? = kwGet kw p.name :=
  ⟨Wraps.pack_take h, fun _ _ hp => Wraps.pack_get h hp⟩

/-- a call that returns: every declared position received `convertOne` of its tag and value; the positional
    values come back in place and keyword parameters get the converted value of their position -/
theorem C17_args {tags : List Tag} {sig : Sig} {strict : Bool} {args vals : List Val}
    {kw kw' bn : List (String × Val)}
    (h : converter conv tags sig strict args kw = .ok (vals, kw', bn)) :
    ∃ values, pack sig args kw = .ok values ∧ bn = namedValues tags values ∧
      vals = (convertAll conv strict bn tags values).take args.length ∧
      (∀ (i : Nat) t v, tags[i]? = some t → values[i]? = some v →
        ∃ r, convertOne conv strict bn t v = .ok r ∧ (convertAll conv strict bn tags values)[i]? = some r) :=
  Wraps.converter_ok conv h

theorem C17_kwargs {tags : List Tag} {sig : Sig} {strict : Bool} {args vals values : List Val}
    {kw kw' bn : List (String × Val)} (hn : (sig.map (·.name)).Nodup)
    (h : converter conv tags sig strict args kw = .ok (vals, kw', bn))
    (hp : pack sig args kw = .ok values) {j : Nat} {p : Param} (hj : (sig.drop args.length)[j]? = some p) :
    kwGet kw' p.name = (convertAll conv strict bn tags values)[args.length + j]? :=
  Wraps.converter_kw conv hn h hp hj

/-- a call that raises: a `KeyError` of a missing argument, or the error of some position's conversion
    (`DimensionalityError` for an incompatible argument, `ValueError` for a bare number in strict mode) -/
theorem C17_errors {tags : List Tag} {sig : Sig} {strict : Bool} {args : List Val}
    {kw : List (String × Val)} {e : Err}
    (h : converter conv tags sig strict args kw = .error e) :
    pack sig args kw = .error e ∨
    ∃ values, pack sig args kw = .ok values ∧
      ∃ (i : Nat) (t : Tag) (v : Val), tags[i]? = some t ∧ values[i]? = some v ∧
        convertOne conv strict (namedValues tags values) t v = .error e :=
  Wraps.converter_error conv h

/-- … and an unacceptable argument always makes the call raise -/
theorem C17_refuses {tags : List Tag} {sig : Sig} {strict : Bool} {args values : List Val}
    {kw : List (String × Val)} {i : Nat} {t : Tag} {v : Val} {e : Err}
    (hp : pack sig args kw = .ok values) (ht : tags[i]? = some t) (hv : values[i]? = some v)
    (he : convertOne conv strict (namedValues tags values) t v = .error e) :
    ∃ e', converter conv tags sig strict args kw = .error e' :=
  Wraps.converter_fails conv hp ht hv he

/-- a mismatch between declared and actual parameter count is rejected at decoration time -/
theorem C17_count (specs : List Spec) (sig : Sig) (h : specs.length ≠ sig.length) :
    decorate specs sig = .error .type := by
  simp [decorate, h]

theorem C17_count_call (specs : List Spec) (ret : Ret) (strict : Bool) (sig : Sig) (args : List Val)
    (kw : List (String × Val)) (results : List Rat) (h : specs.length ≠ sig.length) :
    wrapperCall conv specs ret strict sig args kw results = .error .type := by
  simp [wrapperCall, decorate, h]

/-! ### the return value -/

theorem C17_ret (bn : List (String × Val)) (res : Rat) (u : UC) :
    wrapOne .none bn res = .ok (.num res) ∧ wrapOne (.unit u) bn res = .ok (.q res u) ∧
    (∀ d, replaceUnits u bn = .ok d → wrapOne (.ref u) bn res = .ok (.q res d)) := by
  refine ⟨rfl, rfl, ?_⟩
  intro d h; simp [wrapOne, h]

/-! ### `check` -/

theorem C17_check_count {dimOf : Val → Except Err UC} {dims : List (Option UC)} {sig : Sig} {args : List Val}
    {kw : List (String × Val)} (h : dims.length ≠ sig.length) : checkCall dimOf dims sig args kw = .error .type :=
  Wraps.check_count h

/-- `check` raises `DimensionalityError` exactly when an argument's dimensionality differs from the declared one -/
theorem C17_check {dimOf : Val → Except Err UC} {dims : List (Option UC)} {sig : Sig} {args values : List Val}
    {kw : List (String × Val)} (hl : dims.length = sig.length)
    (hp : pack sig args (applyDefaults sig args.length kw) = .ok values)
    (hd : ∀ v ∈ values, ∃ d, dimOf v = .ok d) :
    checkCall dimOf dims sig args kw = .error .dimensionality ↔
      ∃ (i : Nat) (d : UC) (v : Val) (dv : UC), dims[i]? = some (some d) ∧ values[i]? = some v ∧ dimOf v = .ok dv ∧ dv.beq d = false :=
  Wraps.check_iff hl hp hd

/-! ### a whole call on concrete data -/

example :
    (wrapperCall (fun x s d => if s == [("meter", 1)] && d == [("cm", 1)] then .ok (x * 100) else if s == d then .ok x else .error .dimensionality)
      [.unit [("cm", 1)], .none, .ref [("A", 1)]] (.single (.ref [("A", 2)])) true
      [⟨"x", none⟩, ⟨"y", some (.num 5)⟩, ⟨"z", none⟩]
      [.q 2 [("meter", 1)]] [("z", .q 3 [("second", 1)])] [7]).toOption
    = some ([.num 200], [("z", .num 3), ("y", .num 5)], [.q 7 [("second", 2)]]) := by decide +kernel

end Pint.Props.C17
