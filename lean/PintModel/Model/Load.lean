/-
  Model of loading a list of parsed definitions into a registry
  (`load_definitions` → `_helper_dispatch_adder` → adders), plain + non-multiplicative part.
  Groups / systems / contexts carry their own records (see `Model/GroupSys`, `Model/Context`).
-/
import PintModel.Model.Registry

namespace Pint

structure GroupDefn where
  name : String
  using_ : List String
  units : List UnitDef          -- definitions written inside the block
  deriving Repr, Inhabited

structure SystemDefn where
  name : String
  using_ : List String
  rules : List (String × Option String)     -- new : old   (old omitted → none)
  deriving Repr, Inhabited

/-- one transformation rule of a context: `src -> dst : equation` -/
structure RelationDefn where
  src : UC
  dst : UC
  bidir : Bool
  eq : String
  deriving Repr, Inhabited

structure ContextDefn where
  name : String
  aliases : List String
  defaults : List (String × Rat)
  relations : List RelationDefn
  redefs : List UnitDef
  deriving Repr, Inhabited

inductive Definition
  | pfx (p : PrefixDef)
  | unit (u : UnitDef)
  | dim (name : String)
  | ddim (name : String) (ref : UC)
  | alias (name : String) (aliases : List String)
  | group (g : GroupDefn)
  | system (s : SystemDefn)
  | context (c : ContextDefn)
  | defaults (group system : Option String)
  deriving Repr, Inhabited

namespace Registry

/-- one step of `load_definitions`; `none` = the adder raised -/
def addDefinition (R : Registry) : Definition → Option Registry
  | .pfx p => some (R.addPrefix p)
  | .unit u => some (R.addUnit u)
  | .dim n => some (R.addDim n)
  | .ddim n ref => some (R.addDerivedDim n ref)
  | .alias n as => R.addAlias n as
  | .group g => some (g.units.foldl addUnit R)
  | .system _ => some R
  | .context _ => some R
  | .defaults _ _ => some R

def loadInto (R : Registry) : List Definition → Option Registry
  | [] => some R
  | d :: ds => match R.addDefinition d with
    | some R' => loadInto R' ds
    | none => none

def load (ds : List Definition) (lower : List (Char × Char) := []) : Option Registry :=
  loadInto { lower := lower } ds

end Registry
end Pint
