/-
  Model of `pint/pint_eval.py`: `_build_eval_tree` (faithful port of the index-returning
  loop, with the F3 repair), `EvalTreeNode.to_string` and `EvalTreeNode.evaluate`.

  The model starts at *tokens*: Python's `tokenize` and the regex preprocessor are glue
  covered by the correspondence only.
-/
namespace Pint.Eval

inductive TokKind
  | op | number | name | endmarker | string | other
  deriving DecidableEq, Repr, Inhabited

structure Token where
  kind : TokKind
  text : String
  deriving DecidableEq, Repr, Inhabited

inductive Tree
  | leaf (t : Token)
  | unary (op : String) (arg : Tree)
  | binary (l : Tree) (op : Option String) (r : Tree)     -- `none` = implicit product
  deriving Repr, Inhabited, DecidableEq

inductive PErr
  | unopened | weirdExit | unclosed | unexpectedEnd | unknownOp | unexpectedString | assertion | index | fuel
  deriving DecidableEq, Repr, Inhabited

def PErr.toString : PErr → String
  | .unopened => "DefinitionSyntaxError" | .weirdExit => "DefinitionSyntaxError"
  | .unclosed => "DefinitionSyntaxError" | .unexpectedEnd => "DefinitionSyntaxError"
  | .unknownOp => "DefinitionSyntaxError" | .unexpectedString => "DefinitionSyntaxError"
  | .assertion => "DefinitionSyntaxError"   /- (F84 repair: the missing-operand guards raise a syntax error, no longer an assert) -/ | .index => "IndexError" | .fuel => "RecursionError"

/-- `_OP_PRIORITY` as an association list (generated from the source) -/
abbrev Prio := List (String × Int)

def prioOf (p : Prio) (s : String) : Option Int := (p.find? (·.1 == s)).map (·.2)
/-- `op_priority.get(prev_op, -1)` -/
def prioGet (p : Prio) (s : String) : Int := (prioOf p s).getD (-1)

/-- `EvalTreeNode.to_string` -/
def Tree.toStr : Tree → String
  | .leaf t => t.text
  | .unary op a => "(" ++ op ++ " " ++ a.toStr ++ ")"
  | .binary l (some op) r => "(" ++ l.toStr ++ " " ++ op ++ " " ++ r.toStr ++ ")"
  | .binary l none r => "(" ++ l.toStr ++ " " ++ r.toStr ++ ")"

/-- outcome of one pass through the body of `while True`: leave the function, or go on -/
inductive Step
  | ret (t : Tree) (index : Nat)          -- `return result, index`
  | cont (result : Option Tree) (index : Nat)

/-- `_build_eval_tree(tokens, op_priority, index, depth, prev_op)`; returns (tree, index).
    `fuel` bounds recursion depth + loop iterations. -/
def build (prio : Prio) (toks : Array Token) :
    Nat → Nat → Nat → String → Option Tree → Except PErr (Tree × Nat)
  | 0, _, _, _, _ => .error .fuel
  | fuel + 1, index, depth, prevOp, result =>
    match toks[index]? with
    | none => .error .index
    | some tok =>
      -- the token dispatch
      let stepRes : Except PErr Step :=
        if tok.kind == .op then
          if tok.text == ")" then
            if prevOp == "<none>" then .error .unopened
            else match result with
              | none => .error .assertion
              | some r => if prevOp == "(" then .ok (.ret r index) else .ok (.ret r (index - 1))
          else if tok.text == "(" then
            match result with
            | some r =>
              -- implicit op with a parenthetical group (F3/F22 repair: same rule as for NAME/NUMBER)
              if prioGet prio "" ≤ prioGet prio prevOp && (prioOf prio "").isSome then .ok (.ret r (index - 1))
              else
                (match build prio toks fuel index (depth + 1) "" none with
                  | .error e => .error e
                  | .ok (right, idx) => .ok (.cont (some (.binary r none right)) idx))
            | none =>
              (match build prio toks fuel (index + 1) 0 "(" none with
                | .error e => .error e
                | .ok (right, idx) =>
                  if (toks[idx]?.map (·.text)) != some ")" then .error .weirdExit
                  else .ok (.cont (some right) idx))
          else match prioOf prio tok.text with
            | some p =>
              (match result with
                | some r =>
                  if p < prioGet prio prevOp || (p == prioGet prio prevOp && tok.text != "**" && tok.text != "^") then .ok (.ret r (index - 1))
                  else match build prio toks fuel (index + 1) (depth + 1) tok.text none with
                    | .error e => .error e
                    | .ok (right, idx) => .ok (.cont (some (.binary r (some tok.text) right)) idx)
                | none =>
                  match build prio toks fuel (index + 1) (depth + 1) "unary" none with
                  | .error e => .error e
                  | .ok (right, idx) => .ok (.cont (some (.unary tok.text right)) idx))
            | none => .error .unknownOp      -- an operator outside the grammar (F44 repair; the pinned code skipped it)
        else if tok.kind == .string then .error .unexpectedString
        else if tok.kind == .number || tok.kind == .name then
          match result with
          | some r =>
            if prioGet prio "" ≤ prioGet prio prevOp then .ok (.ret r (index - 1))
            else match build prio toks fuel index (depth + 1) "" none with
              | .error e => .error e
              | .ok (right, idx) => .ok (.cont (some (.binary r none right)) idx)
          | none => .ok (.cont (some (.leaf tok)) index)
        else .ok (.cont result index)
      match stepRes with
      | .error e => .error e
      | .ok (.ret t i) => .ok (t, i)
      | .ok (.cont res idx) =>
        match toks[idx]? with
        | none => .error .index
        | some t2 =>
          if t2.kind == .endmarker then
            if prevOp == "(" then .error .unclosed
            else match res with
              | some r => .ok (r, idx)
              | none => .error .assertion
          else if idx + 1 ≥ toks.size then .error .unexpectedEnd
          else build prio toks fuel (idx + 1) depth prevOp res

/-- `build_eval_tree(tokens)` -/
def buildEvalTree (prio : Prio) (toks : List Token) : Except PErr Tree :=
  let a := toks.toArray
  match build prio a (4 * a.size + 8) 0 0 "<none>" none with
  | .ok (t, _) => .ok t
  | .error e => .error e

/-- `EvalTreeNode.evaluate(define_op, bin_op, un_op)`: the only interaction with the world is
    through the three tables -/
def evaluate {α ε : Type} (defineOp : Token → Except ε α)
    (binOp : String → Option (α → α → Except ε α)) (unOp : String → Option (α → Except ε α))
    (missing : String → ε) : Tree → Except ε α
  | .leaf t => defineOp t
  | .unary op a =>
    match unOp op with
    | none => .error (missing op)
    | some f => match evaluate defineOp binOp unOp missing a with
      | .ok v => f v
      | .error e => .error e
  | .binary l op r =>
    match binOp (op.getD "") with
    | none => .error (missing (op.getD ""))
    | some f =>
      match evaluate defineOp binOp unOp missing l with
      | .error e => .error e
      | .ok x => match evaluate defineOp binOp unOp missing r with
        | .error e => .error e
        | .ok y => f x y

end Pint.Eval
