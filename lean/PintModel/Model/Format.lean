/-
  Model of pint's unit formatting (`delegates/formatter`): `prepare_compount_unit` (sign
  split, symbol substitution, sort), `formatter` (terms, ratio, parentheses), `join_u`,
  `join_mu`, `pretty_fmt_exponent`, `latex_escape`, the dispatch of `FullFormatter`, and
  `split_format`.  Style parameters are regenerated from the source (`Gen.FormatTables`).
  Magnitude text is Python's `format` (runtime) and is passed in as a string.
-/
import PintModel.Model.Registry

namespace Pint.Fmt

structure Style where
  key : String                 -- dispatch key ("D", "C", "P", "H", "L")
  asRatio : Bool
  singleDenominator : Bool
  productFmt : String
  divisionFmt : String
  powerFmt : String
  parenthesesFmt : String
  prettyExp : Bool             -- `exp_call=pretty_fmt_exponent`
  latex : Bool                 -- names wrapped in \mathrm{…}, final [ ] → { }
  deriving Repr, Inhabited, DecidableEq

/-- `fmt.format(*args)` for format strings with `{}` / `{n}` fields only (fuel = length) -/
def substGo : Nat → List Char → List String → Nat → List Char
  | 0, l, _, _ => l
  | _, [], _, _ => []
  | fuel + 1, '{' :: rest, args, auto =>
    let digits := rest.takeWhile Char.isDigit
    let after := rest.dropWhile Char.isDigit
    match after with
    | '}' :: tail =>
      let idx := if digits.isEmpty then auto else (String.ofList digits).toNat!
      (args.getD idx "").toList ++ substGo fuel tail args (if digits.isEmpty then auto + 1 else auto)
    | _ => '{' :: substGo fuel rest args auto
  | fuel + 1, c :: rest, args, auto => c :: substGo fuel rest args auto

def subst (fmt : String) (args : List String) : String :=
  String.ofList (substGo (fmt.length + 1) fmt.toList args 0)

/-- `_JOIN_REG_EXP.search(fmt)` : does the string contain a `{digits}` field -/
def hasFieldGo : Nat → List Char → Bool
  | 0, _ => false
  | _, [] => false
  | fuel + 1, '{' :: rest =>
    (match rest.dropWhile Char.isDigit with | '}' :: _ => true | _ => hasFieldGo fuel rest)
  | fuel + 1, _ :: rest => hasFieldGo fuel rest

def hasField (l : List Char) : Bool := hasFieldGo (l.length + 1) l

/-- `join_u` -/
def joinU (fmt : String) (items : List String) : String :=
  match items with
  | [] => ""
  | first :: rest =>
    if !hasField fmt.toList then String.intercalate fmt items
    else rest.foldl (fun acc v => subst fmt [acc, v]) first

/-- decimal text of a rational as `"{:n}".format(x)` prints it, when that text is exact:
    integers, and finite decimals with at most 6 significant digits without exponent notation -/
def digitsOfNat (n : Nat) : String := toString n

def expText (x : Rat) : Option String :=
  if x.den = 1 then some (toString x.num)
  else
    -- finite decimal: find k ≤ 8 with x * 10^k integral
    let rec go (k : Nat) (fuel : Nat) : Option (Int × Nat) :=
      match fuel with
      | 0 => none
      | fuel + 1 =>
        let y := x * ((10 : Rat) ^ k)
        if y.den = 1 then some (y.num, k) else go (k + 1) fuel
    match go 1 8 with
    | none => none
    | some (n, k) =>
      let a := n.natAbs
      let s := toString a
      -- significant digits ≤ 6 and magnitude ≥ 1e-4 (no exponent notation in %g)
      if s.length > 6 then none
      else
        let s := if s.length ≤ k then String.ofList (List.replicate (k + 1 - s.length) '0') ++ s else s
        let ip := (s.toList.take (s.length - k))
        let fp := (s.toList.drop (s.length - k))
        if k - (toString a).length ≥ 4 then none   -- smaller than 1e-4: exponent notation
        else some ((if n < 0 then "-" else "") ++ String.ofList ip ++ "." ++ String.ofList fp)

def prettyDigit : Char → Char
  | '0' => '⁰' | '1' => '¹' | '2' => '²' | '3' => '³' | '4' => '⁴' | '5' => '⁵'
  | '6' => '⁶' | '7' => '⁷' | '8' => '⁸' | '9' => '⁹' | '-' => '⁻' | '.' => '⋅' | c => c

/-- `pretty_fmt_exponent` -/
def prettyExp (s : String) : String := String.ofList (s.toList.map prettyDigit)

/-- `latex_escape` -/
def latexEscape (s : String) : String :=
  String.ofList (s.toList.flatMap fun c =>
    if c == '\\' then "\\textbackslash ".toList
    else if c == '~' then "\\textasciitilde ".toList
    else if c == '^' then "\\textasciicircum ".toList
    else if "&%$#_{}".toList.contains c then ['\\', c]
    else [c])

def absRat (x : Rat) : Rat := if x < 0 then -x else x

/-- `formatter(numerator, denominator, …)`; `none` when an exponent has no exact text -/
def formatter (st : Style) (num den : List (String × Rat)) : Option String := do
  let expCall (x : Rat) : Option String := do
    let t ← expText (if st.asRatio then absRat x else x)
    pure (if st.prettyExp then prettyExp t else t)
  let pos ← num.mapM fun (k, v) =>
    if v == 1 then some k else (expCall v).map fun e => subst st.powerFmt [k, e]
  let neg ← den.mapM fun (k, v) =>
    if v == -1 && st.asRatio then some k else (expCall v).map fun e => subst st.powerFmt [k, e]
  if pos.isEmpty && neg.isEmpty then pure ""
  else if !st.asRatio then pure (joinU st.productFmt (pos ++ neg))
  else
    let posRet := let j := joinU st.productFmt pos; if j == "" then "1" else j
    if neg.isEmpty then pure posRet
    else
      let negRet :=
        if st.singleDenominator then
          let j := joinU st.productFmt neg
          if neg.length > 1 then subst st.parenthesesFmt [j] else j
        else joinU st.divisionFmt neg
      pure (joinU st.divisionFmt [posRet, negRet])

/-- insertion sort by a key (Python's `sorted` is stable; so is this) -/
def insertBy {α : Type} (le : α → α → Bool) (x : α) : List α → List α
  | [] => [x]
  | y :: ys => if le x y then x :: y :: ys else y :: insertBy le x ys
def sortBy {α : Type} (le : α → α → Bool) (l : List α) : List α := l.foldr (insertBy le) []

/-- `prepare_compount_unit` (no locale) with `sort_by_unit_name`:
    items are (display name, exponent, canonical name) -/
def prepare (R : Registry) (u : UC) (short : Bool) (asRatio : Bool := true) :
    List (String × Rat) × List (String × Rat) :=
  if u.isEmpty then (if short then ([], []) else ([("dimensionless", 1)], []))
  else
    let items : List (String × Rat × String) := u.map fun (k, v) =>
      let disp := if short then (match R.units.find? k with | some d => d.sym | none => k) else k
      (disp, v, k)
    let (den, num) := if asRatio then items.partition (fun t => t.2.1 < 0) else ([], items)
    let srt := sortBy (fun (a b : String × Rat × String) => decide (a.2.2 ≤ b.2.2))
    ((srt num).map fun t => (t.1, t.2.1), (srt den).map fun t => (t.1, t.2.1))

def containsSub (s sub : String) : Bool :=
  let l := s.toList
  let p := sub.toList
  (List.range (l.length + 1)).any fun i => p.isPrefixOf (l.drop i)

/-- `FullFormatter.get_formatter(spec)` over the generated styles (dispatch order of the source) -/
def getStyle (order : List String) (styles : List Style) (spec : String) : Option Style :=
  let key := if spec == "" then "D" else (order.find? (fun k => containsSub spec k)).getD "D"
  styles.find? (·.key == key)

/-- `format_unit` of the plain-text / HTML / LaTeX formatters -/
def formatUnit (R : Registry) (st : Style) (u : UC) (spec : String) : Option String := do
  let (num, den) := prepare R u (containsSub spec "~") true
  let wrap (l : List (String × Rat)) := if st.latex then l.map fun (k, v) => ("\\mathrm{" ++ latexEscape k ++ "}", v) else l
  let s ← formatter st (wrap num) (wrap den)
  pure (if st.latex then String.ofList (s.toList.map fun c => if c == '[' then '{' else if c == ']' then '}' else c) else s)

/-- `join_mu` -/
def joinMu (joint mstr ustr : String) : String :=
  if ustr == "" then mstr
  else if "1 / ".toList.isPrefixOf ustr.toList then subst joint [mstr, String.ofList (ustr.toList.drop 2)]
  else subst joint [mstr, ustr]

/-- `remove_custom_flags` / `extract_custom_flags` over the registered flags (longest first) + "~" -/
def removeAll (s sub : String) : String :=
  let p := sub.toList
  let rec go (l : List Char) (fuel : Nat) : List Char :=
    match fuel with
    | 0 => l
    | fuel + 1 =>
      match l with
      | [] => []
      | c :: cs => if !p.isEmpty && p.isPrefixOf l then go (l.drop p.length) fuel else c :: go cs fuel
  String.ofList (go s.toList (s.length + 1))

def removeCustomFlags (flags : List String) (spec : String) : String :=
  (flags ++ ["~"]).foldl (fun s f => if f == "" then s else removeAll s f) spec

def extractCustomFlags (flags : List String) (spec : String) : String :=
  let fl := flags ++ ["~"]
  let rec go (l : List Char) (fuel : Nat) : List Char :=
    match fuel with
    | 0 => []
    | fuel + 1 =>
      match l with
      | [] => []
      | _ :: cs =>
        match fl.find? (fun f => f != "" && f.toList.isPrefixOf l) with
        | some f => f.toList ++ go (l.drop f.length) fuel
        | none => go cs fuel
  String.ofList (go spec.toList (spec.length + 1))

/-- `_split_format(spec, default, separate_format_defaults)` → (mspec, uspec) -/
def splitFormat (flags : List String) (spec default : String) (separate : Option Bool) : String × String :=
  let mspec := removeCustomFlags flags spec
  let uspec := extractCustomFlags flags spec
  let dm := removeCustomFlags flags default
  let du := extractCustomFlags flags default
  match separate with
  | some true => (if mspec == "" then dm else mspec, if uspec == "" then du else uspec)
  | _ => if spec == "" then (dm, du) else (mspec, uspec)

end Pint.Fmt
