/-
  Model of `pint/facets/plain/quantity.py` + `facets/nonmultiplicative/objects.py`:
  arithmetic, comparison, equality and hashing of scalar quantities in exact arithmetic.

  A quantity is (magnitude : Rat, units : UC with canonical names).  NaN / inf / arrays are
  outside the exact model (compared by the correspondence only).
-/
import PintModel.Model.Registry

namespace Pint

structure Qty where
  mag : Rat
  units : UC
  deriving Repr, Inhabited, DecidableEq

/-- the right operand: a quantity of the same registry or a bare number -/
inductive Operand
  | q (x : Qty)
  | num (r : Rat)
  deriving Repr, Inhabited

/-- registry modes that change arithmetic -/
structure Mode where
  autoconvert : Bool := false        -- `autoconvert_offset_to_baseunit`
  deriving Repr, Inhabited

inductive AddOp | add | sub deriving DecidableEq, Repr
inductive MulOp | mul | div deriving DecidableEq, Repr
inductive CmpOp | lt | le | gt | ge deriving DecidableEq, Repr

def AddOp.app : AddOp → Rat → Rat → Rat
  | .add, x, y => x + y
  | .sub, x, y => x - y

def CmpOp.app : CmpOp → Rat → Rat → Bool
  | .lt, x, y => decide (x < y)
  | .le, x, y => decide (x ≤ y)
  | .gt, x, y => decide (x > y)
  | .ge, x, y => decide (x ≥ y)

/-- Python `x // y` on exact numbers -/
def pyFloorDiv (x y : Rat) : Rat := ((x / y).floor : Int)
/-- Python `x % y` on exact numbers (sign of the divisor) -/
def pyMod (x y : Rat) : Rat := x - y * pyFloorDiv x y

namespace Registry

/-- `_get_unit_definition(unit).is_multiplicative` -/
def unitIsMult (R : Registry) (k : String) : Bool :=
  match R.resolve k with
  | .ok (_, some d) => d.isMult
  | _ => true

/-- `_get_non_multiplicative_units` -/
def nonMultUnits (R : Registry) (u : UC) : List String := u.keys.filter (fun k => !R.unitIsMult k)

/-- `_get_delta_units` -/
def deltaUnits (u : UC) : List String := u.keys.filter (fun k => "delta_".toList.isPrefixOf k.toList)

def unitRef (R : Registry) (k : String) : Option UC :=
  match R.resolve k with
  | .ok (_, some d) => some d.ref
  | _ => none

/-- `_has_compatible_delta(unit)` -/
def hasCompatibleDelta (R : Registry) (u : UC) (unit : String) : Bool :=
  let deltas := deltaUnits u
  deltas.contains ("delta_" ++ unit) ||
    deltas.any (fun d => match R.unitRef d, R.unitRef unit with
      | some r1, some r2 => r1.beq r2
      | _, _ => false)

/-- `_ok_for_muldiv(no_offset_units)` -/
def okForMuldiv (m : Mode) (u : UC) (n : Nat) : Bool :=
  if n > 1 then false
  else if n == 1 then
    !(u.length > 1) && !(u.length == 1 && !m.autoconvert) &&
      (match u with
        | (_, v) :: _ => v == 1
        | [] => true)
  else true

/-- `q.to(units).magnitude` -/
def convertTo (R : Registry) (m : Mode) (q : Qty) (dst : UC) : Except Err Rat :=
  R.convert q.mag q.units dst m.autoconvert

/-- `q.to_root_units()` -/
def toRoot (R : Registry) (m : Mode) (q : Qty) : Except Err Qty :=
  match R.getRootUnits q.units with
  | .error e => .error e
  | .ok (_, other) =>
    match R.convertTo m q other with
    | .ok x => .ok ⟨x, other⟩
    | .error e => .error e

/-- `q.dimensionless` -/
def dimensionless (R : Registry) (m : Mode) (q : Qty) : Except Err Bool :=
  match R.toRoot m q with
  | .error e => .error e
  | .ok r =>
    match R.getDimensionality r.units with
    | .ok d => .ok d.isEmpty
    | .error e => .error e

def isMultQ (R : Registry) (q : Qty) : Bool := (R.nonMultUnits q.units).isEmpty

/-- `_add_sub` (and, as functions on (magnitude, units), `_iadd_sub`) -/
def addSub (R : Registry) (m : Mode) (op : AddOp) (a : Qty) (b : Operand) : Except Err Qty :=
  match b with
  | .num x =>
    if x = 0 then .ok ⟨op.app a.mag x, a.units⟩
    else match R.dimensionless m a with
      | .error e => .error e
      | .ok true =>
        (match R.convertTo m a [] with
          | .ok v => .ok ⟨op.app v x, []⟩
          | .error e => .error e)
      | .ok false => .error .dimensionality
  | .q b =>
    match R.getDimensionality a.units, R.getDimensionality b.units with
    | .error e, _ => .error e
    | _, .error e => .error e
    | .ok da, .ok db =>
    if !(da.beq db) then .error .dimensionality else
    let sn := R.nonMultUnits a.units
    let on := R.nonMultUnits b.units
    let bTo (dst : UC) : Except Err Rat := R.convertTo m b dst
    let aTo (dst : UC) : Except Err Rat := R.convertTo m a dst
    if sn.isEmpty && on.isEmpty then
      if a.units.beq b.units then .ok ⟨op.app a.mag b.mag, a.units⟩
      else if !(deltaUnits a.units).isEmpty && (deltaUnits b.units).isEmpty then
        match aTo b.units with
        | .ok v => .ok ⟨op.app v b.mag, b.units⟩
        | .error e => .error e
      else
        match bTo a.units with
        | .ok v => .ok ⟨op.app a.mag v, a.units⟩
        | .error e => .error e
    else
    match sn, on with
    | [s0], _ =>
      if op == .sub && a.units.get s0 == 1 && !R.hasCompatibleDelta b.units s0 then
        let res : Except Err Rat :=
          if a.units.beq b.units then .ok (op.app a.mag b.mag)
          else match bTo a.units with
            | .ok v => .ok (op.app a.mag v)
            | .error e => .error e
        match res, a.units.rename s0 ("delta_" ++ s0) with
        | .ok v, some u => .ok ⟨v, u⟩
        | .error e, _ => .error e
        | _, none => .error .key
      else
      -- second `elif`: only the other operand decides
      (match on with
        | [o0] =>
          if op == .sub && b.units.get o0 == 1 && !R.hasCompatibleDelta a.units o0 then
            match bTo a.units with
            | .ok v => .ok ⟨op.app a.mag v, a.units⟩
            | .error e => .error e
          else if a.units.get s0 == 1 && R.hasCompatibleDelta b.units s0 then
            match a.units.rename s0 ("delta_" ++ s0) with
            | none => .error .key
            | some tu => match bTo tu with
              | .ok v => .ok ⟨op.app a.mag v, a.units⟩
              | .error e => .error e
          else if b.units.get o0 == 1 && R.hasCompatibleDelta a.units o0 then
            match b.units.rename o0 ("delta_" ++ o0) with
            | none => .error .key
            | some tu => match aTo tu with
              | .ok v => .ok ⟨op.app v b.mag, b.units⟩
              | .error e => .error e
          else .error .offsetCalc
        | _ =>
          if a.units.get s0 == 1 && R.hasCompatibleDelta b.units s0 then
            match a.units.rename s0 ("delta_" ++ s0) with
            | none => .error .key
            | some tu => match bTo tu with
              | .ok v => .ok ⟨op.app a.mag v, a.units⟩
              | .error e => .error e
          else .error .offsetCalc)
    | _, [o0] =>
      if op == .sub && b.units.get o0 == 1 && !R.hasCompatibleDelta a.units o0 then
        match bTo a.units with
        | .ok v => .ok ⟨op.app a.mag v, a.units⟩
        | .error e => .error e
      else if b.units.get o0 == 1 && R.hasCompatibleDelta a.units o0 then
        match b.units.rename o0 ("delta_" ++ o0) with
        | none => .error .key
        | some tu => match aTo tu with
          | .ok v => .ok ⟨op.app v b.mag, b.units⟩
          | .error e => .error e
      else .error .offsetCalc
    | _, _ => .error .offsetCalc

/-- `to_root_units` when the single unit is an offset unit (the `elif no_offset_units == len == 1`) -/
def rootIfSingleOffset (R : Registry) (m : Mode) (q : Qty) (n : Nat) : Except Err Qty :=
  if n == q.units.length && n == 1 then R.toRoot m q else .ok q

/-- `_mul_div` (and `_imul_div`) -/
def mulDiv (R : Registry) (m : Mode) (op : MulOp) (a : Qty) (b : Operand) : Except Err Qty :=
  let offs := R.nonMultUnits a.units
  let n := offs.length
  match b with
  | .num x =>
    if !okForMuldiv m a.units n then .error .offsetCalc
    else if n == 1 && (a.units.get (offs.headD "") != 1 || op != .mul) then .error .offsetCalc
    else match op with
      | .mul => .ok ⟨a.mag * x, a.units⟩
      | .div => if x = 0 then .error .zeroDiv else .ok ⟨a.mag / x, a.units⟩
  | .q b =>
    if !okForMuldiv m a.units n then .error .offsetCalc else
    match R.rootIfSingleOffset m a n with
    | .error e => .error e
    | .ok a' =>
    let nb := (R.nonMultUnits b.units).length
    if !okForMuldiv m b.units nb then .error .offsetCalc else
    match R.rootIfSingleOffset m b nb with
    | .error e => .error e
    | .ok b' =>
      match op with
      | .mul => .ok ⟨a'.mag * b'.mag, a'.units.mul b'.units⟩
      | .div => if b'.mag = 0 then .error .zeroDiv else .ok ⟨a'.mag / b'.mag, a'.units.div b'.units⟩

/-- `__rtruediv__` : number / quantity -/
def rtruediv (R : Registry) (m : Mode) (x : Rat) (a : Qty) : Except Err Qty :=
  let n := (R.nonMultUnits a.units).length
  if !okForMuldiv m a.units n then .error .offsetCalc else
  match R.rootIfSingleOffset m a n with
  | .error e => .error e
  | .ok a' => if a'.mag = 0 then .error .zeroDiv else .ok ⟨x / a'.mag, a'.units.inv⟩

/-- operands of `//`, `%` and `divmod` (F58 repair): quantities on an offset scale are refused, or taken to root
    units first in autoconvert mode, as for true division -/
def operandsMult (R : Registry) (a : Qty) (b : Operand) : Bool :=
  R.isMultQ a && (match b with | .q b => R.isMultQ b | .num _ => true)

/-- the F82 repair: two quantities of different dimensionality are refused by `//`, `%` and `divmod` before anything else
    (for multiplicative operands the conversion refuses them anyway; this decides which error an operand on an offset
    scale meets first) -/
def dimsDiffer (R : Registry) (a : Qty) (b : Operand) : Bool :=
  match b with
  | .num _ => false
  | .q b =>
    match R.getDimensionality a.units, R.getDimensionality b.units with
    | .ok da, .ok db => !(da.beq db)
    | _, _ => false

def offsetFree (R : Registry) (m : Mode) (a : Qty) (b : Operand) : Except Err (Qty × Operand) :=
  if R.operandsMult a b then .ok (a, b)
  else if R.dimsDiffer a b then .error .dimensionality
  else if !m.autoconvert then .error .offsetCalc
  else match R.toRoot m a with
    | .error e => .error e
    | .ok a' =>
      match b with
      | .num x => .ok (a', .num x)
      | .q b => match R.toRoot m b with
        | .error e => .error e
        | .ok b' => .ok (a', .q b')

/-- `__floordiv__` -/
def floordiv (R : Registry) (m : Mode) (a0 : Qty) (b0 : Operand) : Except Err Qty :=
  match offsetFree R m a0 b0 with
  | .error e => .error e
  | .ok (a, b) =>
  match b with
  | .q b =>
    match R.convertTo m b a.units with
    | .error e => .error e
    | .ok v => if v = 0 then .error .zeroDiv else .ok ⟨pyFloorDiv a.mag v, []⟩
  | .num x =>
    match R.dimensionless m a with
    | .error e => .error e
    | .ok false => .error .dimensionality
    | .ok true =>
      match R.convertTo m a [] with
      | .error e => .error e
      | .ok v => if x = 0 then .error .zeroDiv else .ok ⟨pyFloorDiv v x, []⟩

/-- `__rfloordiv__` : number // quantity -/
def rfloordiv (R : Registry) (m : Mode) (x : Rat) (a0 : Qty) : Except Err Qty :=
  match offsetFree R m a0 (.num x) with
  | .error e => .error e
  | .ok (a, _) =>
  match R.dimensionless m a with
  | .error e => .error e
  | .ok false => .error .dimensionality
  | .ok true =>
    match R.convertTo m a [] with
    | .error e => .error e
    | .ok v => if v = 0 then .error .zeroDiv else .ok ⟨pyFloorDiv x v, []⟩

/-- `__mod__` -/
def mod (R : Registry) (m : Mode) (a0 : Qty) (b0 : Operand) : Except Err Qty :=
  match offsetFree R m a0 b0 with
  | .error e => .error e
  | .ok (a, b) =>
  let b' : Qty := match b with | .q b => b | .num x => ⟨x, []⟩
  match R.convertTo m b' a.units with
  | .error e => .error e
  | .ok v => if v = 0 then .error .zeroDiv else .ok ⟨pyMod a.mag v, a.units⟩

/-- `__rmod__` : number % quantity -/
def rmod (R : Registry) (m : Mode) (x : Rat) (a0 : Qty) : Except Err Qty :=
  match offsetFree R m a0 (.num x) with
  | .error e => .error e
  | .ok (a, _) =>
  match R.dimensionless m a with
  | .error e => .error e
  | .ok false => .error .dimensionality
  | .ok true =>
    match R.convertTo m a [] with
    | .error e => .error e
    | .ok v => if v = 0 then .error .zeroDiv else .ok ⟨pyMod x v, []⟩

/-- `__divmod__` -/
def divmod (R : Registry) (m : Mode) (a0 : Qty) (b0 : Operand) : Except Err (Qty × Qty) :=
  match offsetFree R m a0 b0 with
  | .error e => .error e
  | .ok (a, b) =>
  let b' : Qty := match b with | .q b => b | .num x => ⟨x, []⟩
  match R.convertTo m b' a.units with
  | .error e => .error e
  | .ok v => if v = 0 then .error .zeroDiv else .ok (⟨pyFloorDiv a.mag v, []⟩, ⟨pyMod a.mag v, a.units⟩)

/-- magnitude ** exponent in exact arithmetic (integer exponents) -/
def magPow (x e : Rat) : Except Err Rat :=
  if e.den = 1 then (if x = 0 ∧ e.num < 0 then .error .zeroDiv else .ok (x ^ e.num)) else .error .inexact

/-- `__pow__` with a bare-number exponent -/
def pow (R : Registry) (m : Mode) (a : Qty) (e : Rat) : Except Err Qty :=
  if e = 1 then .ok a
  else if e = 0 then .ok ⟨1, []⟩
  else
    let a' : Except Err Qty :=
      if !R.isMultQ a then (if m.autoconvert then R.toRoot m a else .error .offsetCalc) else .ok a
    match a' with
    | .error err => .error err
    | .ok a' =>
      match magPow a'.mag e with
      | .ok v => .ok ⟨v, a'.units.pow e⟩
      | .error err => .error err

def neg (a : Qty) : Qty := ⟨-a.mag, a.units⟩
def abs (a : Qty) : Qty := ⟨if a.mag < 0 then -a.mag else a.mag, a.units⟩

/-- `__eq__` (with the F2 repair) -/
def qeq (R : Registry) (m : Mode) (a : Qty) (b : Operand) : Except Err Bool :=
  match b with
  | .num x =>
    if x = 0 then
      if R.isMultQ a then .ok (a.mag == x)
      else if m.autoconvert then
        match R.toRoot m a with
        | .ok r => .ok (r.mag == x)
        | .error e => .error e
      else .error .offsetCalc
    else
      match R.dimensionless m a with
      | .error e => .error e
      | .ok true =>
        (match R.convertTo m a [] with
          | .ok v => .ok (v == x)
          | .error e => .error e)
      | .ok false => .ok false
  | .q b =>
    if R.isMultQ a && R.isMultQ b && a.mag == 0 && b.mag == 0 then
      match R.getDimensionality a.units, R.getDimensionality b.units with
      | .ok da, .ok db => .ok (da.beq db)
      | .error e, _ => .error e
      | _, .error e => .error e
    else if a.units.beq b.units then .ok (a.mag == b.mag)
    else
      match R.convertTo m a b.units with
      | .ok v => .ok (v == b.mag)
      | .error .dimensionality => .ok false
      | .error e => .error e

/-- `compare` -/
def compare (R : Registry) (m : Mode) (op : CmpOp) (a : Qty) (b : Operand) : Except Err Bool :=
  match b with
  | .num x =>
    match R.dimensionless m a with
    | .error e => .error e
    | .ok true =>
      (match R.convertTo m a [] with
        | .ok v => .ok (op.app v x)
        | .error e => .error e)
    | .ok false =>
      if x = 0 then
        if R.isMultQ a then .ok (op.app a.mag x)
        else if m.autoconvert then
          match R.toRoot m a with
          | .ok r => .ok (op.app r.mag x)
          | .error e => .error e
        else .error .offsetCalc
      else .error .value
  | .q b =>
    if a.units.beq b.units then .ok (op.app a.mag b.mag)
    else
      match R.getDimensionality a.units, R.getDimensionality b.units with
      | .error e, _ => .error e
      | _, .error e => .error e
      | .ok da, .ok db =>
        if !(da.beq db) then .error .dimensionality
        else match R.toRoot m a, R.toRoot m b with
          | .ok ra, .ok rb => .ok (op.app ra.mag rb.mag)
          | .error e, _ => .error e
          | _, .error e => .error e

/-- the value `__hash__` is computed from (with the F21 repair), up to the injective rescaling
    root units → base units: root-unit magnitude and dimensionality -/
def hashKey (R : Registry) (m : Mode) (a : Qty) : Except Err (Rat × UC) :=
  match R.toRoot m a with
  | .ok r =>
    (match R.getDimensionality r.units with
      | .ok d => .ok (r.mag, d)
      | .error e => .error e)
  | .error e => .error e

/-- `__bool__` -/
def qbool (R : Registry) (a : Qty) : Except Err Bool :=
  if R.isMultQ a then .ok (a.mag != 0) else .error .value

end Registry
end Pint
