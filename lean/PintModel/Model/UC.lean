/-
  Model of `pint.util.udict` / `UnitsContainer` (pint/util.py).

  A Python `dict[str, number]` is an insertion-ordered association list.  Exponents are
  exact rationals (`int`, `Fraction`, `Decimal` and dyadic `float` exponents are all exact
  rationals; non-dyadic float rounding is outside the model).

  No Mathlib import here: this file is part of the executable model used by the driver.
-/
namespace Pint

/-- `udict`: insertion ordered, a missing key reads as `0` (`__missing__`). -/
abbrev UC := List (String × Rat)

namespace UC

/-- `d[key]` on a `udict` (missing → 0). -/
def get : UC → String → Rat
  | [], _ => 0
  | (k', v) :: t, k => if k' = k then v else get t k

/-- `key in d` -/
def has : UC → String → Bool
  | [], _ => false
  | (k', _) :: t, k => if k' = k then true else has t k

/-- `d.get(key)` as an option (no `__missing__`). -/
def lookup : UC → String → Option Rat
  | [], _ => none
  | (k', v) :: t, k => if k' = k then some v else lookup t k

/-- `d[key] = v` : overwrite in place or append at the end. -/
def set : UC → String → Rat → UC
  | [], k, v => [(k, v)]
  | (k', v') :: t, k, v => if k' = k then (k', v) :: t else (k', v') :: set t k v

/-- `del d[key]` -/
def del : UC → String → UC
  | [], _ => []
  | (k', v') :: t, k => if k' = k then del t k else (k', v') :: del t k

/-- `d[key] = nv; if d[key] == 0: del d[key]` -/
def upd (u : UC) (k : String) (nv : Rat) : UC :=
  if nv = 0 then u.del k else u.set k nv

def keys (u : UC) : List String := u.map (·.1)

/-- `UnitsContainer.__mul__` : for key, value in other.items(): new[key] += value; drop zeros -/
def mul (a b : UC) : UC :=
  b.foldl (fun acc p => acc.upd p.1 (acc.get p.1 + p.2)) a

/-- `UnitsContainer.__truediv__` -/
def div (a b : UC) : UC :=
  b.foldl (fun acc p => acc.upd p.1 (acc.get p.1 - p.2)) a

/-- `UnitsContainer.__pow__` (with the F1 repair: entries whose exponent becomes zero are
    dropped). -/
def pow (a : UC) (r : Rat) : UC :=
  a.filterMap (fun p => if p.2 * r = 0 then none else some (p.1, p.2 * r))

/-- `UnitsContainer.__pow__` as it was before the F1 repair (kept to state the
    counterexample). -/
def powOld (a : UC) (r : Rat) : UC := a.map (fun p => (p.1, p.2 * r))

/-- `1 / u` (`__rtruediv__`) = `u ** -1` -/
def inv (a : UC) : UC := a.pow (-1)

/-- `UnitsContainer.add(key, value)`; `none` models the `KeyError` of `pop` on a missing key -/
def add (a : UC) (k : String) (v : Rat) : Option UC :=
  let nv := a.get k + v
  if nv = 0 then (if a.has k then some (a.del k) else none) else some (a.set k nv)

/-- `UnitsContainer.remove(keys)` -/
def remove (a : UC) : List String → Option UC
  | [] => some a
  | k :: ks => if a.has k then remove (a.del k) ks else none

/-- `UnitsContainer.rename(old, new)` : `d[new] = d.pop(old)` -/
def rename (a : UC) (o n : String) : Option UC :=
  match a.lookup o with
  | none => none
  | some v => some ((a.del o).set n v)

/-- `dict.__eq__` : same keys with equal values, order irrelevant -/
def beq (a b : UC) : Bool :=
  a.all (fun p => b.lookup p.1 == some p.2) && b.all (fun p => a.lookup p.1 == some p.2)

/-- "every unit has the same exponent" -/
def Equiv (a b : UC) : Prop := ∀ k, a.get k = b.get k

/-- canonical representation: no duplicate key, no zero exponent -/
def NoZero (a : UC) : Prop := ∀ p ∈ a, p.2 ≠ 0
def Canon (a : UC) : Prop := (a.keys).Nodup ∧ a.NoZero

def noZeroB (a : UC) : Bool := a.all (fun p => p.2 != 0)
def nodupB : List String → Bool
  | [] => true
  | k :: ks => !ks.contains k && nodupB ks
def canonB (a : UC) : Bool := nodupB a.keys && noZeroB a

/-- `not container` / `len(container) == 0` -/
def isEmpty (a : UC) : Bool := List.isEmpty a

/-- canonical order-independent form used as the `frozenset(items)` the hash is taken of:
    the membership predicate of the item set. -/
def itemSet (a : UC) : String × Rat → Prop := fun p => p ∈ a

/-- scale all exponents (no dropping; used on accumulators) -/
def smul (r : Rat) (a : UC) : UC := a.map (fun p => (p.1, r * p.2))

/-- `defaultdict(int)` accumulator `acc[k] += v` (no zero removal) -/
def acc (a : UC) (k : String) (v : Rat) : UC := a.set k (a.get k + v)

/-- `{k: v for k, v in acc.items() if v != 0}` -/
def dropZeros (a : UC) : UC := a.filter (fun p => p.2 != 0)

end UC

/-- The `UnitsContainer` object with its lazily cached hash.  `cached = some d` records the
    dict contents at the moment `hash()` was computed. -/
structure UCObj where
  d : UC
  cached : Option UC := none

namespace UCObj
def hash (o : UCObj) : UCObj × UC :=
  match o.cached with
  | some h => (o, h)
  | none => ({ o with cached := some o.d }, o.d)
def copy (o : UCObj) : UCObj := { d := o.d, cached := o.cached }
def mul (a b : UCObj) : UCObj := { d := a.d.mul b.d, cached := none }
def div (a b : UCObj) : UCObj := { d := a.d.div b.d, cached := none }
def pow (a : UCObj) (r : Rat) : UCObj := { d := a.d.pow r, cached := none }
def add (a : UCObj) (k : String) (v : Rat) : Option UCObj := (a.d.add k v).map fun d => { d := d, cached := none }
def rename (a : UCObj) (o n : String) : Option UCObj := (a.d.rename o n).map fun d => { d := d, cached := none }
def remove (a : UCObj) (ks : List String) : Option UCObj := (a.d.remove ks).map fun d => { d := d, cached := none }
/-- invariant: a cached hash is the hash of the current contents -/
def Inv (o : UCObj) : Prop := o.cached = none ∨ o.cached = some o.d
end UCObj

end Pint
