/-
  Model of the serialisation hooks: `to_tuple` / `from_tuple`, `UnitsContainer.__getstate__` /
  `__setstate__`, the `__reduce__` argument tuples of Quantity / Unit / Measurement and
  `pint._unpickle` (every unit name of a container argument is parsed in the application registry
  first, which registers prefixed units there), and `SharedRegistryObject._check`.
-/
import PintModel.Model.Quantity

namespace Pint.Ser
open Pint

/-- `Quantity.to_tuple` / `from_tuple` -/
def toTuple (q : Qty) : Rat × List (String × Rat) := (q.mag, q.units)
def fromTuple (t : Rat × List (String × Rat)) : Qty := ⟨t.1, t.2⟩

/-- `UnitsContainer.__getstate__` : the dictionary (the cached hash is not part of the state) -/
def getstate (o : UCObj) : UC := o.d
/-- `__setstate__` : the dictionary is restored and the hash memo reset -/
def setstate (d : UC) : UCObj := { d := d, cached := none }

/-- `__reduce__` arguments of a quantity -/
def reduceQ (q : Qty) : Rat × UC := (q.mag, q.units)

/-- the loop of `_unpickle` over the names of a container: `application_registry.parse_units(name)` -/
def registerNames : List String → Registry → Except Err Registry
  | [], R => .ok R
  | k :: ks, R =>
    match R.getName k with
    | .error e => .error e
    | .ok (_, R') => registerNames ks R'

/-- `_unpickle_quantity(cls, magnitude, units)` in the application registry `app` -/
def unpickleQ (app : Registry) (args : Rat × UC) : Except Err (Registry × Qty) :=
  match registerNames args.2.keys app with
  | .error e => .error e
  | .ok R' => .ok (R', ⟨args.1, args.2⟩)

/-- `SharedRegistryObject._check(other)` : `none` = the other object has no registry -/
def check (selfReg : Nat) (otherReg : Option Nat) : Except Err Bool :=
  match otherReg with
  | none => .ok false
  | some r => if r = selfReg then .ok true else .error .value

/-- operators between registry objects -/
inductive Op
  | add | sub | mul | truediv | floordiv | mod | divmod | lt | le | gt | ge
  | iadd | isub | imul | itruediv | ifloordiv | imod | pow | ipow
  deriving DecidableEq, Repr, Inhabited

/-- every arithmetic and ordering operator starts with the registry check -/
def crossOp (_op : Op) (ra rb : Nat) : Except Err Unit :=
  match check ra (some rb) with
  | .error e => .error e
  | .ok _ => .ok ()

end Pint.Ser
