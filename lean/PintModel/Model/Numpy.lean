/-
  Model of the unit bookkeeping of `pint/facets/numpy/numpy_func.py`: the meaning of an
  (input policy, output policy) registration, `get_op_output_unit`, and `convert_arg`'s decision
  for a non-quantity argument.  NumPy's numerics, broadcasting and protocol dispatch are runtime.
-/
import PintModel.Model.Quantity

namespace Pint.Np
open Pint

/-- the behaviour class a table registration stands for (the vocabulary of `spec/numpy_implied.tsv`) -/
def meaning (input output : String) : String :=
  if input == "none" && output == "none" then "bare"
  else if input == "consistent" && output == "none" then "bare_consistent"
  else if input == "consistent" && output == "match" then "keep_consistent"
  else if input == "none" && output == "match" then "keep_first"
  else if input == "none" && "op:".toList.isPrefixOf output.toList then String.ofList (output.toList.drop 3)
  else if "unit:".toList.isPrefixOf input.toList && "unit:".toList.isPrefixOf output.toList then
    "fixed:" ++ String.ofList (input.toList.drop 5) ++ ">" ++ String.ofList (output.toList.drop 5)
  else if input == "consistent" && "unit:".toList.isPrefixOf output.toList then
    "consistent>" ++ String.ofList (output.toList.drop 5)
  else if "args:".toList.isPrefixOf input.toList then
    (if output == "match" then "keep_args:" else "bare_args:") ++ String.ofList (input.toList.drop 5)
  else if "special:".toList.isPrefixOf input.toList then input
  else "?" ++ input ++ "|" ++ output

inductive UOp
  | sum | mul | delta | deltaDiv | div | invdiv | variance | square | sqrt | cbrt | reciprocal | size (n : Rat)
  deriving DecidableEq, Repr, Inhabited

/-- product of the units of the arguments that have units -/
def prodUnits (args : List (Option UC)) : UC := args.foldl (fun acc a => match a with | some u => acc.mul u | none => acc) []
/-- `product /= x.units` over the arguments that have units -/
def divUnits (start : UC) (args : List (Option UC)) : UC := args.foldl (fun acc a => match a with | some u => acc.div u | none => acc) start

/-- `get_op_output_unit(unit_op, first_input_units, all_args)` -/
def outputUnit (R : Registry) (m : Mode) (op : UOp) (first : UC) (args : List (Option UC)) : Except Err UC :=
  let one : Qty := ⟨1, first⟩
  match op with
  | .sum => (match R.addSub m .add one (.q one) with | .ok q => .ok q.units | .error e => .error e)
  | .delta => (match R.addSub m .sub one (.q one) with | .ok q => .ok q.units | .error e => .error e)
  | .deltaDiv =>
    (match R.addSub m .sub one (.q one) with
      | .ok q => .ok (divUnits q.units (args.drop 1))
      | .error e => .error e)
  | .variance =>
    (match R.addSub m .add one (.q one) with
      | .ok q => (match R.pow m q 2 with | .ok p => .ok p.units | .error e => .error e)
      | .error e => .error e)
  | .mul => .ok (prodUnits args)
  | .div => .ok (divUnits ((args.head?.bind id).getD []) (args.drop 1))
  | .invdiv => .ok ((divUnits ((args.head?.bind id).getD []) (args.drop 1)).pow (-1))
  | .square => .ok (first.pow 2)
  | .sqrt => .ok (first.pow (1 / 2))
  | .cbrt => .ok (first.pow (1 / 3))
  | .reciprocal => .ok (first.pow (-1))
  | .size n => .ok (first.pow n)

/-- `convert_arg(arg, pre_calc_units)` for an argument that is not a quantity (and not None / bool):
    accepted as a dimensionless number when the target is dimensionless, accepted when it is zero or NaN,
    refused (`DimensionalityError`) otherwise -/
inductive BareArg | zeroOrNan | other deriving DecidableEq, Repr
def convertBare (targetDimensionless : Bool) (a : BareArg) : Except Err Unit :=
  if targetDimensionless then .ok () else match a with | .zeroOrNan => .ok () | .other => .error .dimensionality

end Pint.Np
