/-
  What `formatter` writes, as a structure, and what that structure denotes.

  `formatter` (delegates/formatter/_format_helpers.py, model: `Fmt.formatter`) decides, before any
  style string is substituted, (a) which terms carry an exponent text and which are a bare name,
  (b) whether the exponent written is the exponent or its absolute value, (c) whether the
  denominator terms are divided one after the other or grouped behind one division.  `FExpr`
  records exactly these decisions; `FExpr.render` substitutes the style strings (the same `joinU`
  / `subst` calls as `formatter`); `FExpr.denote` is the unit the written structure stands for,
  read the way arithmetic reads it (a bare name is the name to the first power, `a / b / c` is
  `(a / b) / c`, `a / (b * c)` divides by the product).
-/
import PintModel.Model.Format

namespace Pint.Fmt

/-- a written term: the name and the exponent as written (`none`: the bare name) -/
structure FTerm where
  name : String
  exp : Option Rat
  deriving Repr, DecidableEq

inductive FExpr where
  | empty                                            -- ""
  | prod (ts : List FTerm)                           -- t1 * t2 * …           (as_ratio = False)
  | ratioSeq (pos neg : List FTerm)                  -- pos / n1 / n2 / …     (neg non-empty)
  | ratioGroup (pos neg : List FTerm)                -- pos / (n1 * n2 * …)   (single_denominator)
  | numer (pos : List FTerm)                         -- pos (or "1")          (as_ratio, no denominator)
  deriving Repr

/-- the decisions of `formatter`, without the strings -/
def formatterExpr (asRatio singleDen : Bool) (num den : List (String × Rat)) : FExpr :=
  let pos : List FTerm := num.map fun (k, v) =>
    if v == 1 then ⟨k, none⟩ else ⟨k, some (if asRatio then absRat v else v)⟩
  let neg : List FTerm := den.map fun (k, v) =>
    if v == -1 && asRatio then ⟨k, none⟩ else ⟨k, some (if asRatio then absRat v else v)⟩
  if pos.isEmpty && neg.isEmpty then .empty
  else if !asRatio then .prod (pos ++ neg)
  else if neg.isEmpty then .numer pos
  else if singleDen then .ratioGroup pos neg
  else .ratioSeq pos neg

/-- the text of one term under a style -/
def FTerm.render (st : Style) (t : FTerm) : Option String :=
  match t.exp with
  | none => some t.name
  | some e => (expText e).map fun s => subst st.powerFmt [t.name, if st.prettyExp then prettyExp s else s]

/-- the text of the structure under a style: the same joins as `formatter` -/
def FExpr.render (st : Style) : FExpr → Option String
  | .empty => some ""
  | .prod ts => do
    let ss ← ts.mapM (FTerm.render st)
    pure (joinU st.productFmt ss)
  | .numer pos => do
    let ps ← pos.mapM (FTerm.render st)
    pure (let j := joinU st.productFmt ps; if j == "" then "1" else j)
  | .ratioSeq pos neg => do
    let ps ← pos.mapM (FTerm.render st)
    let ns ← neg.mapM (FTerm.render st)
    let posRet := let j := joinU st.productFmt ps; if j == "" then "1" else j
    pure (joinU st.divisionFmt [posRet, joinU st.divisionFmt ns])
  | .ratioGroup pos neg => do
    let ps ← pos.mapM (FTerm.render st)
    let ns ← neg.mapM (FTerm.render st)
    let posRet := let j := joinU st.productFmt ps; if j == "" then "1" else j
    let j := joinU st.productFmt ns
    pure (joinU st.divisionFmt [posRet, if ns.length > 1 then subst st.parenthesesFmt [j] else j])

/-- the unit a written term stands for -/
def FTerm.denote (t : FTerm) : UC := [(t.name, t.exp.getD 1)]

/-- the product of written terms, left to right (the empty product, written "1", is the empty unit) -/
def prodDenote (ts : List FTerm) : UC := ts.foldl (fun acc t => acc.mul t.denote) []

/-- the unit the written structure stands for -/
def FExpr.denote : FExpr → UC
  | .empty => []
  | .prod ts => prodDenote ts
  | .numer pos => prodDenote pos
  | .ratioSeq pos neg => neg.foldl (fun acc t => acc.div t.denote) (prodDenote pos)
  | .ratioGroup pos neg => (prodDenote pos).div (prodDenote neg)

end Pint.Fmt
