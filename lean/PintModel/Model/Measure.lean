/-
  Model of `pint/facets/measurement/objects.py` (constructor normalisation, accessors,
  `plus_minus`), of the conversion of an uncertain magnitude (nominal value like a plain quantity,
  standard deviation scaled by the slope), and of `pint/pint_eval.py::uncertainty_tokenizer`
  (rewriting of the Python token stream, including the look-ahead for an exponent suffix and the
  value(uncertainty) digit alignment — with the F14 / F28 repairs).

  First-order error propagation itself is the `uncertainties` package (trusted base).
-/
import PintModel.Model.Quantity
import PintModel.Model.EvalTree

namespace Pint.Meas
open Pint

/-- a measurement: nominal value, standard deviation, units -/
structure M where
  nominal : Rat
  std : Rat
  units : UC
  deriving DecidableEq, Repr, Inhabited

/-- constructor arguments: a quantity, a bare number, an uncertain number (`ufloat`) -/
inductive Arg
  | q (m : Rat) (u : UC)
  | num (x : Rat)
  | ufl (n s : Rat)
  deriving DecidableEq, Repr, Inhabited

/-- `Measurement.__new__(value, error=MISSING, units=MISSING)`.
    `toUnits x src dst` is `Quantity(x, src).to(dst).magnitude`. -/
def mk (toUnits : Rat → UC → UC → Except Err Rat) (value : Arg) (error : Option Arg) (units : Option UC) :
    Except Err M :=
  -- units MISSING: take them from the quantity; a ufloat first argument means (ufloat, units)
  let step1 : Except Err (Arg × Option Arg × UC) :=
    match units with
    | some u => .ok (value, error, u)
    | none =>
      match value with
      | .q m u => .ok (.num m, error, u)
      | .ufl n s =>
        (match error with
          | some (.q _ u) => .ok (.ufl n s, none, u)       -- a Unit/Quantity given as "units"
          | none => .error .type                           -- `units = error` is the MISSING sentinel
          | some _ => .error .type)
      | .num x => .ok (.num x, error, [])
  match step1 with
  | .error e => .error e
  | .ok (value, error, u) =>
    match error with
    | none =>
      (match value with
        | .ufl n s => .ok ⟨n, s, u⟩
        | _ => .error .type)          -- a plain magnitude has no nominal_value / std_dev
    | some err =>
      let e? : Except Err Rat := match err with
        | .q m eu => toUnits m eu u
        | .num x => .ok x
        | .ufl _ _ => .error .type
      match e?, value with
      | .error e, _ => .error e
      | .ok s, .num n => if s < 0 then .error .value else .ok ⟨n, s, u⟩
      | .ok _, _ => .error .type

/-- `.value`, `.error`, `.rel` -/
def value (m : M) : Qty := ⟨m.nominal, m.units⟩
def error (m : M) : Qty := ⟨m.std, m.units⟩
def absR (x : Rat) : Rat := if x < 0 then -x else x
def rel (m : M) : Except Err Rat := if m.nominal = 0 then .error .zeroDiv else .ok (absR (m.std / m.nominal))

/-- `Quantity.plus_minus(error, relative)` -/
def plusMinus (toUnits : Rat → UC → UC → Except Err Rat) (q : Qty) (err : Arg) (relative : Bool) : Except Err M :=
  match err with
  | .q m eu =>
    if relative then .error .value else
    (match toUnits m eu q.units with
      | .ok s => mk toUnits (.num q.mag) (some (.num s)) (some q.units)
      | .error e => .error e)
  | .num x => mk toUnits (.num q.mag) (some (.num (if relative then x * absR q.mag else x))) (some q.units)
  | .ufl _ _ => .error .type

/-- conversion through an affine map `x ↦ a·x + b` (multiplicative units: b = 0): the nominal value is
    converted like a plain quantity, the standard deviation is scaled by |a| -/
def convertAffine (m : M) (a b : Rat) (dst : UC) : M := ⟨a * m.nominal + b, absR a * m.std, dst⟩

/-! ### the uncertainty tokenizer -/

open Pint.Eval

def isNumOrNan (t : Token) : Bool := t.kind == .number || (t.kind == .name && t.text == "nan")

def startsWithE (s : String) : Bool := match s.toList with | c :: _ => c == 'e' | [] => false
def startsWithEe (s : String) : Bool := match s.toList with | c :: _ => c == 'e' || c == 'E' | [] => false
def secondIsDigit (s : String) : Bool := match s.toList with | _ :: d :: _ => d.isDigit | _ => false

/-- `_get_possible_e(toklist, e_index)` on the remaining tokens: the exponent text and the number of
    tokens it spans.  `none` = no exponent; the F14 repair: an empty token text (end of input) is "no exponent".
    A look-ahead beyond the end of the stream is `ValueError`. -/
def possibleE (rest : List Token) : Except Err (Option (String × Nat)) :=
  match rest with
  | [] => .error .value
  | t :: rest' =>
    if t.text == "" then .ok none
    else if startsWithEe t.text && t.text.length > 1 && secondIsDigit t.text then .ok (some (t.text, 1))      -- (F71 repair: e3 or E3)
    else if t.text == "e" || t.text == "E" then      -- exactly the token `e+3` starts with (F39 repair)
      match rest' with
      | [] => .error .value
      | sgn :: rest'' =>
        if sgn.text == "+" || sgn.text == "-" then
          match rest'' with
          | [] => .error .value
          | n1 :: rest3 =>
            if n1.kind == .number then
              if n1.text == "0" then
                match rest3 with
                | [] => .error .value
                | n2 :: _ =>
                  if n2.kind == .number then .ok (some ("e" ++ sgn.text ++ n2.text, 4))
                  else .ok (some ("e" ++ sgn.text ++ n1.text, 3))
              else .ok (some ("e" ++ sgn.text ++ n1.text, 3))
            else .ok none
        else .ok none
    else .ok none

def allZeroish (s : String) : Bool :=
  -- `float(mantissa.string) == 0.0` for a NUMBER token: every digit of the mantissa part is 0
  let m := s.toList.takeWhile (fun c => c != 'e' && c != 'E')
  m.all (fun c => c == '0' || c == '.' || c == '_')

/-- `_apply_e_notation` -/
def applyE (mantissa : Token) (e : String) : Token :=
  if mantissa.text == "nan" then mantissa
  else if allZeroish mantissa.text then mantissa
  else ⟨.number, mantissa.text ++ e⟩

/-- the F28 repair: the digits in parentheses are aligned with the decimals of the nominal value -/
def lower (s : String) : String := String.ofList (s.toList.map Char.toLower)

def decimalsOf (nominal : String) : Nat :=
  let mant := (lower nominal).toList.takeWhile (· != 'e')
  match mant.dropWhile (· != '.') with
  | [] => 0
  | _ :: frac => frac.length

def rjustZero (l : List Char) (n : Nat) : List Char := List.replicate (n - l.length) '0' ++ l

def parenMant (nominal std : String) : String :=
  if std.toList.contains '.' then std else
  let d := decimalsOf nominal
  let digits := rjustZero std.toList (d + 1)
  if d = 0 then String.ofList digits
  else String.ofList (digits.take (digits.length - d) ++ ['.'] ++ digits.drop (digits.length - d))

/-- the exponent part of a NUMBER token (`partition("e")[2]` of the lower-cased text) -/
def exponentOf (nominal : String) : String :=
  match (lower nominal).toList.dropWhile (· != 'e') with
  | [] => ""
  | _ :: ex => String.ofList ex

/-- F70 repair: the last digits of a value written with an exponent are those of its mantissa:
    1.50e3(2) is 1.50e3 plus-minus 0.02e3 -/
def parenStd (nominal std : String) : String :=
  if std.toList.contains '.' then std
  else if exponentOf nominal == "" then parenMant nominal std
  else parenMant nominal std ++ "e" ++ exponentOf nominal

def pmOp : Token := ⟨.op, "+/-"⟩

/-- `uncertainty_tokenizer` on the Python token stream (fuel = length of the stream) -/
def uncTokens : Nat → List Token → Except Err (List Token)
  | 0, _ => .ok []
  | _, [] => .ok []
  | fuel + 1, t :: rest =>
    let cont (out : List Token) (rest' : List Token) : Except Err (List Token) :=
      match uncTokens fuel rest' with
      | .ok r => .ok (out ++ r)
      | .error e => .error e
    -- "+" "/" "-"  (the look-ahead needs two more tokens)
    let la (n : Nat) : Except Err Token := match rest[n]? with | some x => .ok x | none => .error .value
    if t.text == "+" then
      match la 0 with
      | .error e => .error e
      | .ok a =>
        if a.text == "/" then
          match la 1 with
          | .error e => .error e
          | .ok b => if b.text == "-" then cont [pmOp] (rest.drop 2) else cont [t] rest
        else cont [t] rest
    else if t.text == "(" then
      -- ( [-] NUM + / - NUM ) [E]
      match la 0 with
      | .error e => .error e
      | .ok f =>
        let sm := if f.text == "-" then 1 else 0
        let pat : Except Err Bool :=
          match la sm with
          | .error e => .error e
          | .ok n1 =>
            if !isNumOrNan n1 then .ok false else
            match la (sm + 1) with
            | .error e => .error e
            | .ok p => if p.text != "+" then .ok false else
              match la (sm + 2) with
              | .error e => .error e
              | .ok s => if s.text != "/" then .ok false else
                match la (sm + 3) with
                | .error e => .error e
                | .ok mi => if mi.text != "-" then .ok false else
                  match la (sm + 4) with
                  | .error e => .error e
                  | .ok n2 => if !isNumOrNan n2 then .ok false else
                    match la (sm + 5) with
                    | .error e => .error e
                    | .ok cl => .ok (cl.text == ")")
        match pat with
        | .error e => .error e
        | .ok false => cont [t] rest
        | .ok true =>
          match possibleE (rest.drop (sm + 6)) with
          | .error e => .error e
          | .ok pe =>
            let n1 := rest[sm]!
            let n2 := rest[sm + 4]!
            let pre := if sm = 1 then [rest[0]!] else []
            match pe with
            | none => cont (pre ++ [n1, pmOp, n2]) (rest.drop (sm + 6))
            | some (e, k) => cont (pre ++ [applyE n1 e, pmOp, applyE n2 e]) (rest.drop (sm + 6 + k))
    else if t.kind == .number then
      -- NUM ( NUM ) [E]
      match la 0 with
      | .error e => .error e
      | .ok o =>
        if o.text != "(" then cont [t] rest else
        match la 1 with
        | .error e => .error e
        | .ok s =>
          if s.kind != .number then cont [t] rest else
          match la 2 with
          | .error e => .error e
          | .ok cl =>
            if cl.text != ")" then cont [t] rest else
            match possibleE (rest.drop 3) with
            | .error e => .error e
            | .ok pe =>
              let sd : Token := ⟨s.kind, parenStd t.text s.text⟩
              match pe with
              | none => cont [t, pmOp, sd] (rest.drop 3)
              | some (e, k) => cont [applyE t e, pmOp, applyE sd e] (rest.drop (3 + k))
    else cont [t] rest

end Pint.Meas
