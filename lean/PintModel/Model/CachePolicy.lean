/-
  The memo architecture of a registry as a state machine (C13).

  The declarative state of a registry has three components a read-only question can depend on: the definitions, the
  stack of active contexts (their redefinitions) and the default system.  Every memo table follows a *policy* towards
  each component: a change of the component empties the table (`clearedBy`), or the table is kept per value of the
  component (`keyedBy`, the per-context-stack variants `_caches[key]`), or neither.  `run` answers a history of queries
  and state changes through the tables exactly as the policy says; `runSpec` answers it with no table at all.
  The policy pint implements is read from the source (`Gen/CachePolicy.lean`).
-/
namespace Pint.CachePolicy

inductive Table | parseUnit | dimensionality | rootUnits | convFactor | baseUnits | dimEquiv
  deriving DecidableEq, Repr

/-- components of the declarative state -/
inductive Comp | defs | ctx | sys
  deriving DecidableEq, Repr

def allComps : List Comp := [.defs, .ctx, .sys]
/-- the memo tables (`dimensional_equivalents` is not a memo: it is maintained incrementally by `_add_unit`) -/
def memoTables : List Table := [.parseUnit, .dimensionality, .rootUnits, .convFactor, .baseUnits]

structure Policy where
  clearedBy : Comp → Table → Bool
  keyedBy : Comp → Table → Bool

/-- the value (version) of every component -/
abbrev St := Comp → Nat

def St.set (s : St) (c : Comp) (v : Nat) : St := fun c' => if c' = c then v else s c'

/-- the part of the state a table is kept under -/
def keyProj (p : Policy) (t : Table) (s : St) : List Nat :=
  allComps.map (fun c => if p.keyedBy c t then s c else 0)

structure Entry (κ ν : Type) where
  kp : List Nat
  k : κ
  v : ν

abbrev Memos (κ ν : Type) := Table → List (Entry κ ν)

inductive Op (κ : Type)
  | query (t : Table) (k : κ)
  | change (c : Comp) (v : Nat)

variable {κ ν : Type} [DecidableEq κ]

def lookup (es : List (Entry κ ν)) (kp : List Nat) (k : κ) : Option ν :=
  (es.find? (fun e => decide (e.kp = kp) && decide (e.k = k))).map (·.v)

def store (m : Memos κ ν) (t : Table) (e : Entry κ ν) : Memos κ ν :=
  fun t' => if t' = t then e :: m t' else m t'

def clear (p : Policy) (c : Comp) (m : Memos κ ν) : Memos κ ν :=
  fun t => if p.clearedBy c t then [] else m t

/-- a history answered through the memo tables -/
def run (p : Policy) (spec : Table → St → κ → ν) : St → Memos κ ν → List (Op κ) → List ν
  | _, _, [] => []
  | s, m, .query t k :: ops =>
    match lookup (m t) (keyProj p t s) k with
    | some v => v :: run p spec s m ops
    | none => spec t s k :: run p spec s (store m t ⟨keyProj p t s, k, spec t s k⟩) ops
  | s, m, .change c v :: ops => run p spec (s.set c v) (clear p c m) ops

/-- the same history answered with no memo -/
def runSpec (spec : Table → St → κ → ν) : St → List (Op κ) → List ν
  | _, [] => []
  | s, .query t k :: ops => spec t s k :: runSpec spec s ops
  | s, .change c v :: ops => runSpec spec (s.set c v) ops

/-- every dependency of a table is answered by the policy -/
def Covers (p : Policy) (dep : Comp → Table → Bool) : Prop :=
  ∀ c t, dep c t = true → p.clearedBy c t = true ∨ p.keyedBy c t = true

def coversB (p : Policy) (dep : Comp → Table → Bool) : Bool :=
  allComps.all fun c => (memoTables ++ [Table.dimEquiv]).all fun t => !dep c t || p.clearedBy c t || p.keyedBy c t

/-- the answers of table `t` depend on the components `dep · t` only -/
def Local (spec : Table → St → κ → ν) (dep : Comp → Table → Bool) : Prop :=
  ∀ t s s', (∀ c, dep c t = true → s c = s' c) → ∀ k, spec t s k = spec t s' k

end Pint.CachePolicy
