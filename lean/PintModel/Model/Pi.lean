/-
  Model of `pint.util.column_echelon_form` and `pint.util.pi_theorem` over exact rationals.
  Matrices are lists of rows.
-/
import PintModel.Model.UC

namespace Pint.Pi

abbrev Row := List Rat
abbrev Mat := List Row

def transpose (m : Mat) : Mat :=
  match m with
  | [] => []
  | r :: _ => (List.range r.length).map fun j => m.map fun row => row.getD j 0

def identity (n : Nat) : Mat :=
  (List.range n).map fun i => (List.range n).map fun j => if i = j then 1 else 0

def getRow (m : Mat) (i : Nat) : Row := m.getD i []
def setRow (m : Mat) (i : Nat) (r : Row) : Mat := m.set i r
def swapRows (m : Mat) (i j : Nat) : Mat :=
  let ri := getRow m i
  let rj := getRow m j
  setRow (setRow m i rj) j ri

def entry (m : Mat) (i j : Nat) : Rat := (getRow m i).getD j 0

def scaleRow (r : Row) (lv : Rat) : Row := r.map (· / lv)
/-- `[iv - lv * rv for rv, iv in zip(pivotRow, row)]` -/
def elimRow (pivot row : Row) (lv : Rat) : Row := List.zipWith (fun rv iv => iv - lv * rv) pivot row

structure State where
  ech : Mat
  idm : Mat
  swapped : List Nat
  lead : Nat
  deriving Repr

/-- the inner `while ech[s][lead] == 0` search: returns the pivot row `s` and the new `lead`,
    or `none` when `lead` runs out of columns.  `fuel` bounds the number of probes. -/
def findPivot (ech : Mat) (rows cols r : Nat) : Nat → Nat → Nat → Option (Nat × Nat)
  | 0, _, _ => none
  | fuel + 1, s, lead =>
    if entry ech s lead == 0 then
      let s' := s + 1
      if s' != rows then findPivot ech rows cols r fuel s' lead
      else
        let lead' := lead + 1
        if cols == lead' then none else findPivot ech rows cols r fuel r lead'
    else some (s, lead)

/-- one iteration of `for r in range(rows)`; `none` = early `return` -/
def stepRow (rows cols : Nat) (st : State) (r : Nat) : Option State :=
  if st.lead >= cols then none else
  match findPivot st.ech rows cols r (rows * (cols + 1) + 1) r st.lead with
  | none => none
  | some (s, lead) =>
    let ech := swapRows st.ech s r
    let idm := swapRows st.idm s r
    let lv := entry ech r lead
    let ech := setRow ech r (scaleRow (getRow ech r) lv)
    let idm := setRow idm r (scaleRow (getRow idm r) lv)
    let pe := getRow ech r
    let pi := getRow idm r
    let (ech, idm) := (List.range rows).foldl (fun (acc : Mat × Mat) s' =>
      if s' == r then acc else
        let lv' := entry acc.1 s' lead
        (setRow acc.1 s' (elimRow pe (getRow acc.1 s') lv'), setRow acc.2 s' (elimRow pi (getRow acc.2 s') lv'))) (ech, idm)
    some { ech := ech, idm := idm, swapped := st.swapped ++ [s], lead := lead + 1 }

def loop (rows cols : Nat) : List Nat → State → State
  | [], st => st
  | r :: rs, st =>
    match stepRow rows cols st r with
    | none => st
    | some st' => loop rows cols rs st'

/-- `column_echelon_form(matrix, transpose_result=False)` : (ech_matrix, id_matrix, swapped) -/
def columnEchelonForm (matrix : Mat) : Mat × Mat × List Nat :=
  let ech := transpose matrix
  let rows := ech.length
  let cols := (ech.headD []).length
  let st := loop rows cols (List.range rows) { ech := ech, idm := identity rows, swapped := [], lead := 0 }
  (st.ech, st.idm, st.swapped)

def maxDen (r : Row) : Nat := r.foldl (fun acc f => max acc f.den) 0

/-- the result rows of `pi_theorem`: for every all-zero row of the echelon matrix the matching
    row of the transformed identity, scaled by `neg * max_den` (exponents per quantity index) -/
def piRows (matrix : Mat) : List Row :=
  let (ech, idm, _) := columnEchelonForm matrix
  (List.zip ech idm).filterMap fun (rowm, rowi) =>
    if rowm.any (· != 0) then none else
      let md : Rat := (maxDen rowi : Nat)
      let nneg := (rowi.filter (· < 0)).length
      let npos := (rowi.filter (· > 0)).length
      let neg : Rat := if nneg > npos then -1 else 1
      some (rowi.map fun f => neg * f * md)

/-- `Σ_j v[j] * column_j(matrix)` : the exponent of every dimension in the monomial `v` -/
def monomialDims (matrix : Mat) (v : Row) : Row :=
  matrix.map fun dimRow => (List.zipWith (· * ·) dimRow v).foldl (· + ·) 0

end Pint.Pi
