/-
  Expression language for the bodies of pint's converter classes (`ScaleConverter`, `OffsetConverter`,
  `LogarithmicConverter`: `to_reference` / `from_reference`, functional and in-place branches).

  The bodies themselves are TRANSLATED from the source on every run (tools/gen.py::gen_converters →
  `Gen/Converters.lean`); this file only fixes what the translated terms mean.  `log` and `exp` are
  parameters of the environment (any functions on the rationals): the statements proved about the
  translated bodies hold for every interpretation, in particular for the real logarithm / exponential
  restricted to wherever they are evaluated.
-/
namespace Pint.Conv

/-- right-hand sides -/
inductive E where
  | val                      -- the magnitude being converted
  | par (name : String)      -- `self.<name>`
  | add (a b : E)
  | sub (a b : E)
  | mul (a b : E)
  | div (a b : E)
  | log (a : E)
  | exp (a : E)
  | bad (src : String)       -- anything the translator does not understand
  deriving Repr, DecidableEq, Inhabited

/-- statements of an in-place branch -/
inductive S where
  | aug (op : String) (e : E)    -- `value op= e`, op one of + - * /
  | set (e : E)                  -- `value = e`
  | unary (f : String)           -- `log(value, value)` / `exp(value, value)`: NumPy's in-place form
  | bad (src : String)
  deriving Repr, DecidableEq, Inhabited

structure Env where
  par : String → Rat
  logf : Rat → Rat
  expf : Rat → Rat

def E.eval (env : Env) (v : Rat) : E → Option Rat
  | .val => some v
  | .par n => some (env.par n)
  | .add a b => do let x ← a.eval env v; let y ← b.eval env v; pure (x + y)
  | .sub a b => do let x ← a.eval env v; let y ← b.eval env v; pure (x - y)
  | .mul a b => do let x ← a.eval env v; let y ← b.eval env v; pure (x * y)
  | .div a b => do let x ← a.eval env v; let y ← b.eval env v; pure (x / y)
  | .log a => do let x ← a.eval env v; pure (env.logf x)
  | .exp a => do let x ← a.eval env v; pure (env.expf x)
  | .bad _ => none

def S.step (env : Env) (v : Rat) : S → Option Rat
  | .aug "+" e => do let y ← e.eval env v; pure (v + y)
  | .aug "-" e => do let y ← e.eval env v; pure (v - y)
  | .aug "*" e => do let y ← e.eval env v; pure (v * y)
  | .aug "/" e => do let y ← e.eval env v; pure (v / y)
  | .aug _ _ => none
  | .set e => e.eval env v
  | .unary "log" => some (env.logf v)
  | .unary "exp" => some (env.expf v)
  | .unary _ => none
  | .bad _ => none

/-- an in-place branch: the statements in order, each on the value left by the previous one -/
def run (env : Env) : List S → Rat → Option Rat
  | [], v => some v
  | s :: rest, v => match s.step env v with
    | some v' => run env rest v'
    | none => none

end Pint.Conv
