/-
  Model of `pint/facets/group` and `pint/facets/system`: group membership closure, system
  members, `System.from_definition` (both rule forms), `_get_base_units`, compatible units
  restricted to a group or system.
-/
import PintModel.Model.Quantity
import PintModel.Model.Load

namespace Pint.GS

structure Group where
  name : String
  units : List String := []        -- `_unit_names`
  used : List String := []         -- `_used_groups`
  deriving Repr, Inhabited

structure System where
  name : String
  used : List String := []
  baseUnits : List (String × UC) := []      -- old root unit ↦ replacement container
  deriving Repr, Inhabited

structure State where
  groups : List Group := [{ name := "root" }]
  systems : List System := []
  defaultSystem : Option String := none
  deriving Repr, Inhabited

def findGroup (st : State) (n : String) : Option Group := st.groups.find? (·.name == n)
def findSystem (st : State) (n : String) : Option System := st.systems.find? (·.name == n)

def dedup (l : List String) : List String := l.foldl (fun acc x => if acc.contains x then acc else acc ++ [x]) []

/-- `Group.members` : own units plus the members of every used group, transitively -/
def members (st : State) : Nat → String → List String
  | 0, _ => []
  | fuel + 1, g =>
    match findGroup st g with
    | none => []
    | some grp => dedup (grp.units ++ grp.used.flatMap (members st fuel))

def groupMembers (st : State) (g : String) : List String := members st (st.groups.length + 1) g

/-- `System.members` -/
def systemMembers (st : State) (s : System) : List String := dedup (s.used.flatMap (groupMembers st))

/-- `is_used_group` : does `g` (transitively) use `target` -/
def usesGroup (st : State) : Nat → String → String → Bool
  | 0, _, _ => false
  | fuel + 1, g, target =>
    match findGroup st g with
    | none => false
    | some grp => grp.used.any (fun u => u == target || usesGroup st fuel u target)

/-- `Group(name)` creation (registered, used by root) + `add_units` + `add_groups` with the cycle check -/
def addGroup (st : State) (name : String) (units using_ : List String) : Except Err State :=
  if (findGroup st name).isSome then .error .value else
  let g : Group := { name := name, units := dedup units }
  let st1 : State := { st with groups := (st.groups.map fun x => if x.name == "root" then { x with used := dedup (x.used ++ [name]) } else x) ++ [g] }
  -- add_groups: each used group must exist and must not (transitively) use this one
  let rec go (st : State) : List String → Except Err State
    | [] => .ok st
    | u :: us =>
      match findGroup st u with
      | none => .error .key
      | some _ =>
        if u == name || usesGroup st (st.groups.length + 1) u name then .error .value   -- (F11 repair: no self loop)
        else go { st with groups := st.groups.map fun x => if x.name == name then { x with used := dedup (x.used ++ [u]) } else x } us
  go st1 using_

/-- `System.from_definition` : rule `new` (old omitted) or `new : old` -/
def systemRule (R : Registry) (rule : String × Option String) : Except Err (String × UC) :=
  let (new, old?) := rule
  match R.getRootUnitsOnly [(new, 1)] with
  | .error e => .error e
  | .ok exp =>
    match old? with
    | none =>
      (match exp with
        | [(old, value)] => if value = 0 then .error .zeroDiv else .ok (old, [(new, 1 / value)])
        | _ => .error .value)
    | some old =>
      match R.getRootUnitsOnly [(old, 1)] with
      | .error e => .error e
      | .ok oexp =>
        if !(oexp.beq [(old, 1)]) then .error .value
        else if !(exp.has old) then .error .value
        else
          let others : UC := (exp.filter (fun p => p.1 != old)).map fun p => (p.1, -p.2 / exp.get old)
          .ok (old, others ++ [(new, 1 / exp.get old)])

def addSystem (R : Registry) (st : State) (d : SystemDefn) : Except Err State :=
  if (findSystem st d.name).isSome then .error .value else
  let rec go : List (String × Option String) → List (String × UC) → Except Err (List (String × UC))
    | [], acc => .ok acc
    | r :: rs, acc =>
      match systemRule R r with
      | .error e => .error e
      | .ok (old, repl) => go rs ((acc.filter (·.1 != old)) ++ [(old, repl)])
  match go d.rules [] with
  | .error e => .error e
  | .ok bu => .ok { st with systems := st.systems ++ [{ name := d.name, used := dedup d.using_, baseUnits := bu }] }

/-- `_get_base_units(input_units, system)` (cache omitted) -/
def getBaseUnits (R : Registry) (st : State) (u : UC) (system : Option String := none) : Except Err (Rat × UC) :=
  let sys := match system with | some s => some s | none => st.defaultSystem
  match R.getRootUnits u with
  | .error e => .error e
  | .ok (factor, units) =>
    match sys with
    | none => .ok (factor, units)
    | some sname =>
      match findSystem st sname with
      | none => .error .value
      | some s =>
        let dest : UC := units.foldl (fun acc p =>
          match s.baseUnits.find? (·.1 == p.1) with
          | some (_, repl) => acc.mul (repl.pow p.2)
          | none => acc.mul [(p.1, p.2)]) []
        match R.convert factor units dest with
        | .ok f => .ok (f, dest)
        | .error e => .error e

/-- `_get_compatible_units(input_units, group_or_system)` given the same-dimension names -/
def compatibleUnits (st : State) (equivalents : List String) (groupOrSystem : Option String) : Except Err (List String) :=
  let gs := match groupOrSystem with | some g => some g | none => st.defaultSystem
  match gs with
  | none => .ok equivalents
  | some n =>
    match findSystem st n with
    | some s => .ok (equivalents.filter ((systemMembers st s).contains ·))
    | none =>
      match findGroup st n with
      | some _ => .ok (equivalents.filter ((groupMembers st n).contains ·))
      | none => .error .value

/-- names the group registry's `_add_unit` puts into the root group: the unit itself (the
    automatic `delta_` companion is added by the plain `_add_unit` further down the MRO and
    never reaches the root group) -/
def unitNamesOf (d : UnitDef) : List String := [d.name]

def addRootUnits (st : State) (names : List String) : State :=
  { st with groups := st.groups.map fun g => if g.name == "root" then { g with units := dedup (g.units ++ names) } else g }

/-- groups and systems of a definition list, including the `_after_init` step that puts every
    orphan unit into the default group -/
def fromDefs (R : Registry) (defs : List Definition) : Except Err State :=
  let rec go : List Definition → State → Option String → Option String → Except Err (State × Option String × Option String)
    | [], st, dg, ds => .ok (st, dg, ds)
    | d :: ds', st, dg, ds =>
      match d with
      | .unit u => go ds' (addRootUnits st (unitNamesOf u)) dg ds
      | .group g =>
        let names := g.units.flatMap unitNamesOf
        (match addGroup (addRootUnits st names) g.name (g.units.map (·.name)) g.using_ with
          | .ok st' => go ds' st' dg ds
          | .error e => .error e)
      | .system s =>
        (match addSystem R st s with
          | .ok st' => go ds' st' dg ds
          | .error e => .error e)
      | .defaults g s => go ds' st (g.orElse fun _ => dg) (s.orElse fun _ => ds)
      | _ => go ds' st dg ds
  match go defs {} none none with
  | .error e => .error e
  | .ok (st, dg, ds) =>
    let st := { st with defaultSystem := ds }
    match dg with
    | none => .ok st
    | some gname =>
      let st := if (findGroup st gname).isSome then st else
        match addGroup st gname [] [] with | .ok s => s | .error _ => st
      let grouped := (st.groups.filter (·.name != "root")).flatMap fun g => groupMembers st g.name
      let orphans := (groupMembers st "root").filter fun n => !grouped.contains n
      .ok { st with groups := st.groups.map fun g => if g.name == gname then { g with units := dedup (g.units ++ orphans) } else g }

/-- `System.__getattr__(item)` : the system's variant `<system>_<item>` if the registry resolves that name
    (names, aliases, plurals, prefixes …), else the plain unit -/
def systemAttr (R : Registry) (sysName item : String) : Except Err String :=
  match R.getName (sysName ++ "_" ++ item) with
  | .ok (n, _) => .ok n
  | .error _ =>
    match R.getName item with
    | .ok (n, _) => .ok n
    | .error e => .error e

end Pint.GS
