/-
  Model of the unit-rewriting helpers (`pint/facets/plain/qto.py`, `to_root_units`,
  `to_base_units`, `pint/util.py::infer_base_unit`, `_get_dimensionality_ratio`).

  Every helper is "compute a destination container, then `quantity.to(destination)`", so the
  model of a helper is the destination container plus the shared `convertTo` of
  `Model/Quantity.lean`.  `to_compact` uses an exact ⌊log₁₀|m|⌋ where pint uses the float
  `math.log10` (finding F13 lists the float inputs on which the two differ).
-/
import PintModel.Model.GroupSys

namespace Pint.Rw

/-! ### `_get_dimensionality_ratio` -/

def sameKeys (a b : UC) : Bool := a.keys.all (b.has ·) && b.keys.all (a.has ·)

/-- the part of `_get_dimensionality_ratio` after the two dimensionalities were computed -/
def ratioOfDims (d1 d2 : UC) : Option Rat :=
  if d1.beq d2 then some 1
  else if d1.isEmpty || d2.isEmpty || !(sameKeys d1 d2) then none
  else
    match d1 with
    | [] => none
    | (k, v) :: rest =>
      let first := d2.get k / v
      if rest.all (fun p => d2.get p.1 / p.2 == first) then some first else none

/-- `_get_dimensionality_ratio(unit1, unit2)` for two unit names: x with dim(unit2) = dim(unit1)**x -/
def dimRatio (R : Registry) (u1 u2 : String) : Except Err (Option Rat) :=
  if u1 == u2 then .ok (some 1) else
  match R.getDimensionality [(u1, 1)] with
  | .error e => .error e
  | .ok d1 =>
    match R.getDimensionality [(u2, 1)] with
    | .error e => .error e
    | .ok d2 => .ok (ratioOfDims d1 d2)

/-! ### `_get_reduced_units` -/

/-- the inner `for unit2 in units` loop for one `unit1`: merge `unit1` into the first partner
    (`if power:` — a ratio of 0 or None continues) -/
def reduceInner (ratio : String → String → Option Rat) (units : UC) (u1 : String) : List String → UC
  | [] => units
  | u2 :: rest =>
    if u1 == u2 then reduceInner ratio units u1 rest else
    match ratio u1 u2 with
    | some p =>
      if p = 0 then reduceInner ratio units u1 rest else
      match units.add u2 (units.get u1 / p) with
      | some added => (match added.remove [u1] with | some r => r | none => added)
      | none => units
    | none => reduceInner ratio units u1 rest

/-- the outer loop over the *original* items -/
def reduceOuter (ratio : String → String → Option Rat) : List String → UC → UC
  | [], units => units
  | u1 :: rest, units =>
    if !(units.has u1) then reduceOuter ratio rest units
    else reduceOuter ratio rest (reduceInner ratio units u1 units.keys)

def reducedUnits (ratio : String → String → Option Rat) (units : UC) : UC :=
  reduceOuter ratio units.keys units

/-- the ratio oracle of a registry, errors of undefined names treated as "not comparable"
    (they cannot occur: every name of a quantity's container is defined) -/
def ratioFn (R : Registry) (a b : String) : Option Rat :=
  match dimRatio R a b with | .ok r => r | .error _ => none

/-- destination of `to_reduced_units` : `none` = return the quantity itself (single unit) -/
def reducedTarget (R : Registry) (m : Mode) (q : Qty) : Except Err (Option UC) :=
  match R.dimensionless m q with
  | .error e => .error e
  | .ok true => .ok (some [])
  | .ok false =>
    if q.units.length == 1 then .ok none
    else .ok (some (reducedUnits (ratioFn R) q.units))

def toReduced (R : Registry) (m : Mode) (q : Qty) : Except Err Qty :=
  match reducedTarget R m q with
  | .error e => .error e
  | .ok none => .ok q
  | .ok (some dst) =>
    match R.convertTo m q dst with
    | .ok x => .ok ⟨x, dst⟩
    | .error e => .error e

/-! ### `to_base_units` -/

def toBase (R : Registry) (gs : GS.State) (m : Mode) (q : Qty) : Except Err Qty :=
  match GS.getBaseUnits R gs q.units with
  | .error e => .error e
  | .ok (_, dst) =>
    match R.convertTo m q dst with
    | .ok x => .ok ⟨x, dst⟩
    | .error e => .error e

/-! ### `infer_base_unit` -/

/-- `d[base_unit] += power` for the first reading of every name, zero sums dropped at the end -/
def inferBaseUnit (R : Registry) (units : UC) : Except Err UC :=
  let rec go : UC → UC → Except Err UC
    | [], acc => .ok acc.dropZeros
    | (n, p) :: rest, acc =>
      match R.parseUnitName n with
      | [] => .error .other
      | (_, base, _) :: _ => go rest (acc.acc base p)
  go units []

/-! ### exact logarithms -/

/-- ⌊log₁₀ n⌋ for n ≥ 1 (0 for n = 0) -/
def natLog10 (n : Nat) : Nat :=
  if h : n < 10 then 0 else natLog10 (n / 10) + 1
decreasing_by omega

def pow10 (e : Int) : Rat := if e ≥ 0 then ((10 ^ e.toNat : Nat) : Rat) else 1 / ((10 ^ (-e).toNat : Nat) : Rat)

/-- ⌊log₁₀ q⌋ for a positive rational -/
def floorLog10 (q : Rat) : Int :=
  let e : Int := (natLog10 q.num.natAbs : Int) - (natLog10 q.den : Int)
  if pow10 e ≤ q then (if pow10 (e + 1) ≤ q then e + 1 else e) else e - 1

def absR (x : Rat) : Rat := if x < 0 then -x else x

/-- `math.floor(log10|m| / p / 3) * 3` (p > 0) resp. `math.ceil(…) * 3` (p < 0), exact, p an integer -/
def compactPower (mag : Rat) (p : Int) : Int :=
  let L := floorLog10 (absR mag)
  if p > 0 then (L / (3 * p)) * 3 else -((L / (3 * (-p))) * 3)

/-! ### the decimal-prefix table of `to_compact` -/

/-- e with scale = 10^e, if the scale is an exact power of ten -/
def exactLog10 (s : Rat) : Option Int :=
  if s ≤ 0 then none else
  let e := floorLog10 s
  if pow10 e == s then some e else none

def insertSorted (k : Int) (v : String) : List (Int × String) → List (Int × String)
  | [] => [(k, v)]
  | (k', v') :: t => if k < k' then (k, v) :: (k', v') :: t else if k = k' then (k, v) :: t else (k', v') :: insertSorted k v t

/-- `sorted(SI_prefixes.items())` : later prefixes with the same power overwrite earlier ones;
    a prefix whose scale has no logarithm (≤ 0) writes `SI_prefixes[0] = ""` -/
def siTable (R : Registry) : List (Int × String) :=
  R.prefixes.foldl (fun acc kv =>
    let pd := kv.2
    if pd.value ≤ (0 : Rat) then insertSorted 0 "" acc else
    match exactLog10 pd.value with
    | some e => insertSorted e pd.name acc
    | none => acc) []

/-- `bisect.bisect_left(powers, x)` -/
def bisectLeft (x : Int) : List Int → Nat
  | [] => 0
  | y :: t => if y < x then bisectLeft x t + 1 else 0

def pickPrefix (table : List (Int × String)) (power : Int) : String :=
  let i := bisectLeft power (table.map (·.1))
  let i := if i ≥ table.length then table.length - 1 else i
  match table[i]? with | some (_, n) => n | none => ""

/-! ### `to_compact` -/

/-- looking a prefixed name up registers it (`get_name`) -/
def regKeys (R : Registry) (u : UC) : Registry :=
  u.foldl (fun R p => match R.getName p.1 with | .ok (_, R') => R' | .error _ => R) R


inductive Special | finite | nan | inf deriving DecidableEq, Repr

/-- the unit that receives the prefix: the first with a positive exponent, else the first -/
def leadUnit (units : UC) : Option (String × Rat) :=
  match units.find? (fun p => p.2 > 0) with
  | some p => some p
  | none => units.head?

/-- destination container of `to_compact(unit)`; `none` = the quantity is returned unchanged.
    `qbaseMag` is the magnitude after `quantity.to(inferred)` -/
def compactTarget (R : Registry) (m : Mode) (q : Qty) (unit : Option UC) : Except Err (Option (UC × UC)) :=
  -- `quantity.unitless or qm == 0` : unitless = no root units left
  match R.toRoot m q with
  | .error e => .error e
  | .ok rootq =>
  if rootq.units.isEmpty || q.mag = 0 then .ok none else
  match inferBaseUnit R (unit.getD q.units) with
  | .error e => .error e
  | .ok base =>
    match R.convertTo m q base with
    | .error e => .error e
    | .ok mag =>
      match leadUnit base with
      | none => .error .other        -- `units[0]` on an empty list
      | some (ustr, upow) =>
        if upow.den != 1 then .error .inexact else
        if mag = 0 then .error .value else     -- math.log10(0)
        let power := compactPower mag upow.num
        let pfx := pickPrefix (siTable R) power
        match base.rename ustr (pfx ++ ustr) with
        | none => .error .key
        | some dst => .ok (some (base, dst))

def toCompact (R : Registry) (m : Mode) (q : Qty) (unit : Option UC := none) : Except Err Qty :=
  match compactTarget R m q unit with
  | .error e => .error e
  | .ok none => .ok q
  | .ok (some (_, dst)) =>
    match (regKeys R dst).convertTo m q dst with
    | .ok x => .ok ⟨x, dst⟩
    | .error e => .error e

/-! ### in-place twins: an object store with `ito` -/

/-- a mutable quantity object: `ito(other)` assigns the converted magnitude and the units -/
def ito (R : Registry) (m : Mode) (obj : Qty) (dst : UC) : Except Err Qty :=
  match R.convertTo m obj dst with
  | .ok x => .ok { obj with mag := x, units := dst }
  | .error e => .error e

/-- `to(other)` builds a new object -/
def to (R : Registry) (m : Mode) (obj : Qty) (dst : UC) : Except Err Qty :=
  match R.convertTo m obj dst with
  | .ok x => .ok ⟨x, dst⟩
  | .error e => .error e

end Pint.Rw
