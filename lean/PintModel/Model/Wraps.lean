/-
  Model of `pint/registry_helpers.py` : `_parse_wrap_args` (classification of the unit
  specifications), `_apply_defaults`, `_converter` (pack keyword arguments after the
  positional ones, three conversion passes, unpack), `_replace_units`, the return-value
  re-wrapping of `wraps`, and `check`.

  The unit conversion and the dimensionality of a value are parameters (`conv`, `dimOf`); the
  driver instantiates them with the registry model (`Registry.convertNM`, `getDimensionality`).
-/
import PintModel.Model.Quantity

namespace Pint.Wraps

/-- an argument value: a quantity of the registry or a bare number -/
inductive Val
  | q (mag : Rat) (units : UC)
  | num (x : Rat)
  deriving DecidableEq, Repr, Inhabited

/-- a unit specification: `None`, a unit (string or Unit object), or a reference `"=expr"` -/
inductive Spec
  | none
  | unit (u : UC)
  | ref (u : UC)
  deriving DecidableEq, Repr, Inhabited

/-- what `_parse_wrap_args` decides for a position -/
inductive Tag
  | skip
  | defn (name : String)
  | dep (u : UC)
  | unit (u : UC)
  deriving DecidableEq, Repr, Inhabited

structure Param where
  name : String
  default : Option Val := none
  deriving DecidableEq, Repr, Inhabited

abbrev Sig := List Param

/-- the loop over `args_as_uc`: a reference that is a single name to the power 1 and was not seen
    before is a definition, any other reference depends on definitions, the rest are plain units -/
def classifyGo : List Spec → List String → List Tag
  | [], _ => []
  | .none :: t, defs => .skip :: classifyGo t defs
  | .unit u :: t, defs => .unit u :: classifyGo t defs
  | .ref u :: t, defs =>
    match u with
    | [(k, v)] =>
      if v = 1 ∧ !(defs.contains k) then .defn k :: classifyGo t (k :: defs)
      else .dep u :: classifyGo t defs
    | _ => .dep u :: classifyGo t defs

def classify (specs : List Spec) : List Tag := classifyGo specs []

/-- `_apply_defaults` : every parameter beyond the positional ones that has a default and was not
    given by keyword gets its default -/
def applyDefaults (sig : Sig) (nargs : Nat) (kw : List (String × Val)) : List (String × Val) :=
  let rec go : List Param → Nat → List (String × Val) → List (String × Val)
    | [], _, kw => kw
    | p :: ps, i, kw =>
      match p.default with
      | some d => if i ≥ nargs ∧ !(kw.any (·.1 == p.name)) then go ps (i + 1) (kw ++ [(p.name, d)]) else go ps (i + 1) kw
      | none => go ps (i + 1) kw
  go sig 0 kw

def kwGet (kw : List (String × Val)) (n : String) : Option Val := (kw.find? (·.1 == n)).map (·.2)

/-- `values.append(kw[param_name])` for every parameter beyond the positional ones -/
def pack (sig : Sig) (args : List Val) (kw : List (String × Val)) : Except Err (List Val) :=
  let rec go : List Param → Except Err (List Val)
    | [] => .ok []
    | p :: ps =>
      match kwGet kw p.name, go ps with
      | some v, .ok r => .ok (v :: r)
      | none, _ => .error .key
      | _, .error e => .error e
  match go (sig.drop args.length) with
  | .ok extra => .ok (args ++ extra)
  | .error e => .error e

def magnitudeOf : Val → Val
  | .q m _ => .num m
  | v => v

def unitsOf : Val → UC
  | .q _ u => u
  | .num _ => []

def magOf : Val → Rat
  | .q m _ => m
  | .num x => x

/-- `_replace_units` : the product of the named values' units to the given powers
    (`KeyError` for a name that no parameter defines) -/
def replaceUnits (orig : UC) (byName : List (String × Val)) : Except Err UC :=
  orig.foldl (fun acc p =>
    match acc with
    | .error e => .error e
    | .ok u =>
      match kwGet byName p.1 with
      | none => .error .key
      | some v => .ok (u.mul ((unitsOf v).pow p.2))) (.ok [])

/-- first pass: the named values -/
def namedValues : List Tag → List Val → List (String × Val)
  | .defn n :: ts, v :: vs => (n, v) :: namedValues ts vs
  | _ :: ts, _ :: vs => namedValues ts vs
  | _, _ => []

/-- what one position receives, by its tag -/
def convertOne (conv : Rat → UC → UC → Except Err Rat) (strict : Bool) (byName : List (String × Val))
    (t : Tag) (v : Val) : Except Err Val :=
  match t with
  | .skip => .ok v
  | .defn _ => .ok (magnitudeOf v)
  | .dep u =>
    match replaceUnits u byName with
    | .error e => .error e
    | .ok dst =>
      match conv (magOf v) (unitsOf v) dst with
      | .ok x => .ok (.num x)
      | .error e => .error e
  | .unit u =>
    match v with
    | .q m su => (match conv m su u with | .ok x => .ok (.num x) | .error e => .error e)
    | .num x => if strict then .error .value else .ok (.num x)

def isDep : Tag → Bool | .dep _ => true | _ => false
def isUnit : Tag → Bool | .unit _ => true | _ => false

/-- one pass over the positions selected by `sel`, in increasing index order: the first failing
    conversion is the error of the pass -/
def passErr (conv : Rat → UC → UC → Except Err Rat) (strict : Bool) (byName : List (String × Val))
    (sel : Tag → Bool) : List Tag → List Val → Option Err
  | t :: ts, v :: vs =>
    if sel t then
      match convertOne conv strict byName t v with
      | .error e => some e
      | .ok _ => passErr conv strict byName sel ts vs
    else passErr conv strict byName sel ts vs
  | _, _ => none

/-- the converted values (positions beyond the tags are untouched) -/
def convertAll (conv : Rat → UC → UC → Except Err Rat) (strict : Bool) (byName : List (String × Val)) :
    List Tag → List Val → List Val
  | t :: ts, v :: vs =>
    (match convertOne conv strict byName t v with | .ok r => r | .error _ => v) :: convertAll conv strict byName ts vs
  | [], vs => vs
  | _, [] => []

/-- `_converter` : pack, second pass (dependent, its errors first), third pass (plain units), unpack -/
def converter (conv : Rat → UC → UC → Except Err Rat) (tags : List Tag) (sig : Sig) (strict : Bool)
    (args : List Val) (kw : List (String × Val)) :
    Except Err (List Val × List (String × Val) × List (String × Val)) :=
  match pack sig args kw with
  | .error e => .error e
  | .ok values =>
    let byName := namedValues tags values
    match passErr conv strict byName isDep tags values with
    | some e => .error e
    | none =>
      match passErr conv strict byName isUnit tags values with
      | some e => .error e
      | none =>
        let out := convertAll conv strict byName tags values
        let n := args.length
        -- unpack: kw[param_name] = values[i] for i >= n
        let names := (sig.drop n).map (·.name)
        let extra := out.drop n
        let kw' := (names.zip extra).foldl (fun acc (p : String × Val) =>
          if acc.any (·.1 == p.1) then acc.map (fun e => if e.1 == p.1 then (e.1, p.2) else e) else acc ++ [p]) kw
        .ok (out.take n, kw', byName)

/-- the call `func(*new_values, **new_kw)` is accepted by Python iff no parameter is given twice,
    every keyword names a parameter and there are not too many positional values -/
def callAccepted (sig : Sig) (nargs : Nat) (kw : List (String × Val)) : Bool :=
  nargs ≤ sig.length &&
  kw.all (fun e => ((sig.drop nargs).any (·.name == e.1))) &&
  (sig.drop nargs).all (fun p => kw.any (·.1 == p.name))

inductive Ret
  | single (s : Spec)
  | tuple (l : List Spec)
  deriving Repr, Inhabited

def wrapOne (s : Spec) (byName : List (String × Val)) (res : Rat) : Except Err Val :=
  match s with
  | .none => .ok (.num res)
  | .unit u => .ok (.q res u)
  | .ref u => match replaceUnits u byName with | .ok d => .ok (.q res d) | .error e => .error e

/-- `wraps(ureg, ret, args, strict)(func)` : decoration -/
def decorate (specs : List Spec) (sig : Sig) : Except Err (List Tag) :=
  if specs.length ≠ sig.length then .error .type else .ok (classify specs)

/-- the wrapper: what `func` receives (positional, keyword) and what the caller gets back when
    `func` returns the numbers `results` -/
def wrapperCall (conv : Rat → UC → UC → Except Err Rat) (specs : List Spec) (ret : Ret) (strict : Bool)
    (sig : Sig) (args : List Val) (kw : List (String × Val)) (results : List Rat) :
    Except Err (List Val × List (String × Val) × List Val) :=
  match decorate specs sig with
  | .error e => .error e
  | .ok tags =>
    let kw1 := applyDefaults sig args.length kw
    match converter conv tags sig strict args kw1 with
    | .error e => .error e
    | .ok (vals, kw2, byName) =>
      if !(callAccepted sig vals.length kw2) then .error .type else
      match ret with
      | .single s =>
        (match results with
          | [r] => (match wrapOne s byName r with | .ok v => .ok (vals, kw2, [v]) | .error e => .error e)
          | _ => .error .other)
      | .tuple l =>
        if l.length ≠ results.length then .error .other else
        let rec go : List Spec → List Rat → Except Err (List Val)
          | s :: ss, r :: rs =>
            (match wrapOne s byName r, go ss rs with
              | .ok v, .ok t => .ok (v :: t)
              | .error e, _ => .error e
              | _, .error e => .error e)
          | _, _ => .ok []
        match go l results with
        | .ok vs => .ok (vals, kw2, vs)
        | .error e => .error e

/-! ### `check` -/

/-- `check(ureg, *dims)(func)` : the wrapper raises `DimensionalityError` for the first position whose
    declared dimensionality differs from the value's -/
def checkCall (dimOf : Val → Except Err UC) (dims : List (Option UC)) (sig : Sig)
    (args : List Val) (kw : List (String × Val)) : Except Err Unit :=
  if dims.length ≠ sig.length then .error .type else
  let kw1 := applyDefaults sig args.length kw
  match pack sig args kw1 with
  | .error e => .error e
  | .ok values =>
    let rec go : List (Option UC) → List Val → Except Err Unit
      | some d :: ds, v :: vs =>
        (match dimOf v with
          | .error e => .error e
          | .ok dv => if dv.beq d then go ds vs else .error .dimensionality)
      | none :: ds, _ :: vs => go ds vs
      | _, _ => .ok ()
    match go dims values with
    | .error e => .error e
    | .ok () =>
      -- `func(*args, **kwargs)` with the original arguments
      if args.length ≤ sig.length && kw.all (fun e => ((sig.drop args.length).any (·.name == e.1))) then .ok ()
      else .error .type

end Pint.Wraps
