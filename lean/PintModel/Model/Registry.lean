/-
  Model of `pint/facets/plain/registry.py` (tables, adders, name resolution, dimensionality,
  root units, conversion factor) and of the non-multiplicative part of
  `pint/facets/nonmultiplicative/registry.py` (`_add_unit` delta generation, `_convert`).

  Python dicts are insertion-ordered association lists (`Dict`).  Recursion through
  references uses fuel.  No Mathlib import.
-/
import PintModel.Model.UC

namespace Pint

inductive Err
  | dimensionality | offsetCalc | undefined | defSyntax | value | type | key | recursion
  | redefinition | inexact | zeroDiv | other
  deriving DecidableEq, Repr, Inhabited

def Err.toString : Err → String
  | .dimensionality => "DimensionalityError" | .offsetCalc => "OffsetUnitCalculusError"
  | .undefined => "UndefinedUnitError" | .defSyntax => "DefinitionSyntaxError"
  | .value => "ValueError" | .type => "TypeError" | .key => "KeyError"
  | .recursion => "RecursionError" | .redefinition => "RedefinitionError"
  | .inexact => "Inexact" | .zeroDiv => "ZeroDivisionError" | .other => "Other"

/-- insertion-ordered `dict[str, α]` -/
abbrev Dict (α : Type) := List (String × α)

namespace Dict
variable {α : Type}
def find? : Dict α → String → Option α
  | [], _ => none
  | (k', v) :: t, k => if k' = k then some v else find? t k
def contains (d : Dict α) (k : String) : Bool := (d.find? k).isSome
/-- `d[k] = v` -/
def insert : Dict α → String → α → Dict α
  | [], k, v => [(k, v)]
  | (k', v') :: t, k, v => if k' = k then (k', v) :: t else (k', v') :: insert t k v
def keys (d : Dict α) : List String := d.map (·.1)
end Dict

/-- `Converter` subclasses.  `irrational` marks a scale that is not an exact rational
    (`x ** 0.5`): outside the exact model. -/
inductive Conv
  | scale (s : Rat)
  | offset (s o : Rat)
  | log (s base factor : Rat)
  | irrational
  deriving DecidableEq, Repr, Inhabited

def Conv.isMultiplicative : Conv → Bool
  | .scale _ => true | .irrational => true
  | .offset _ o => o == 0
  | .log .. => false
def Conv.isLogarithmic : Conv → Bool
  | .log .. => true | _ => false
def Conv.scaleOf : Conv → Option Rat
  | .scale s => some s | .offset s _ => some s | .log s _ _ => some s | .irrational => none

structure UnitDef where
  name : String
  symbol : Option String        -- `defined_symbol`
  aliases : List String
  conv : Conv
  ref : UC                      -- `reference`
  isBase : Bool
  deriving Repr, Inhabited, DecidableEq

def UnitDef.sym (d : UnitDef) : String := d.symbol.getD d.name     -- `.symbol` property
def UnitDef.isMult (d : UnitDef) : Bool := d.conv.isMultiplicative

structure PrefixDef where
  name : String
  value : Rat
  symbol : Option String
  aliases : List String
  deriving Repr, Inhabited, DecidableEq

def PrefixDef.sym (p : PrefixDef) : String := p.symbol.getD p.name

/-- `DimensionDefinition` (`ref = none`) or `DerivedDimensionDefinition` -/
structure DimDef where
  name : String
  ref : Option UC
  deriving Repr, Inhabited, DecidableEq

structure Registry where
  units : Dict UnitDef := []                       -- `_units`
  prefixes : Dict PrefixDef := [("", ⟨"", 1, none, []⟩)]   -- `_prefixes`
  suffixes : Dict String := [("", ""), ("s", "")]  -- `_suffixes`
  dims : Dict DimDef := []                         -- `_dimensions`
  baseUnits : List String := []                    -- `_base_units`
  casei : Dict (List String) := []                 -- `_units_casei` (sets, in insertion order)
  prefixed : List String := []                     -- `_prefixed_units` (registered on the fly; F4 repair)
  caseSensitive : Bool := true
  lower : List (Char × Char) := []                 -- non-ASCII lower-casing table (generated)
  deriving Repr, Inhabited, DecidableEq

def isDimName (s : String) : Bool :=
  match s.toList with
  | [] => false
  | c :: cs => c == '[' && (c :: cs).getLast? == some ']'

def lowerChar (tbl : List (Char × Char)) (c : Char) : Char :=
  match tbl.lookup c with
  | some l => l
  | none => c.toLower
def lowerStr (tbl : List (Char × Char)) (s : String) : String :=
  String.ofList (s.toList.map (lowerChar tbl))

namespace Registry

/-! ### adders -/

/-- `_helper_single_adder` (on_redefinition ≠ "raise") -/
def addUnitKey (R : Registry) (key : String) (d : UnitDef) : Registry :=
  let lk := lowerStr R.lower key
  let old := (R.casei.find? lk).getD []
  { R with units := R.units.insert key d,
           prefixed := R.prefixed.filter (· != key),
           casei := R.casei.insert lk (if old.contains key then old else old ++ [key]) }

def unitKeys (d : UnitDef) : List String :=
  d.name :: ((match d.symbol with | some s => [s] | none => []) ++ d.aliases)

def prefixKeyList (p : PrefixDef) : List String :=
  p.name :: ((match p.symbol with | some s => [s] | none => []) ++ p.aliases)

def addDim (R : Registry) (name : String) : Registry :=
  { R with dims := R.dims.insert name ⟨name, none⟩ }

def addMissingDims (R : Registry) (ref : UC) : Registry :=
  ref.foldl (fun R p => if R.dims.contains p.1 then R else R.addDim p.1) R

/-- plain `_add_unit` -/
def addUnitPlain (R : Registry) (d : UnitDef) : Registry :=
  let R := if d.isBase then addMissingDims { R with baseUnits := R.baseUnits ++ [d.name] } d.ref else R
  (unitKeys d).foldl (fun R k => R.addUnitKey k d) R

/-- the automatically generated `delta_` companion of an offset unit -/
def deltaOf (d : UnitDef) : Option UnitDef :=
  match d.conv with
  | .offset s o =>
    if o == 0 then none else
    some { name := "delta_" ++ d.name,
           symbol := some ("Δ" ++ d.sym),
           aliases := d.aliases.map ("Δ" ++ ·) ++ d.aliases.map ("delta_" ++ ·),
           conv := .scale s, ref := d.ref, isBase := d.isBase }
  | _ => none

/-- `_add_unit` of the non-multiplicative registry -/
def addUnit (R : Registry) (d : UnitDef) : Registry :=
  let R := R.addUnitPlain d
  match deltaOf d with
  | some dd => R.addUnitPlain dd
  | none => R

def addPrefix (R : Registry) (p : PrefixDef) : Registry :=
  { R with prefixes := (prefixKeyList p).foldl (fun ps k => ps.insert k p) R.prefixes }

def addDerivedDim (R : Registry) (name : String) (ref : UC) : Registry :=
  let R := addMissingDims R ref
  { R with dims := R.dims.insert name ⟨name, some ref⟩ }

/-- `_add_alias`; `none` = `KeyError` -/
def addAlias (R : Registry) (name : String) (aliases : List String) : Option Registry :=
  match R.units.find? name with
  | none => none
  | some d => some (aliases.foldl (fun R a => R.addUnitKey a d) R)

/-! ### name resolution -/

/-- `_yield_unit_triplets` -/
def yieldTriplets (R : Registry) (s : String) (cs : Bool) : List (String × String × String) :=
  let cl := s.toList
  R.suffixes.flatMap fun sf =>
    R.prefixes.flatMap fun pf =>
      let p := pf.1.toList
      let x := sf.1.toList
      if p.isPrefixOf cl && x.isSuffixOf cl then
        let name := cl.drop p.length
        let name := if x.isEmpty then name else name.take (name.length - x.length)
        if !x.isEmpty && name.length == 1 then []
        else if cs then
          let nm := String.ofList name
          -- (F4 repair) a prefixed unit registered on the fly is not a stem for further prefixes
          if !p.isEmpty && R.prefixed.contains nm then [] else
          match R.units.find? nm with
          | some d => [(pf.2.name, d.name, sf.2)]
          | none => []
        else
          let nm := String.ofList name
          let reals := (R.casei.find? (lowerStr R.lower nm)).getD []
          -- (F5 repair) the exactly spelled unit wins, other candidates in sorted order
          let reals := if reals.contains nm then [nm] else reals.mergeSort (fun a b => decide (a ≤ b))
          reals.filterMap fun real =>
            (R.units.find? real).map fun d => (pf.2.name, d.name, sf.2)
      else []

/-- ordered set (`dict.fromkeys`) -/
def orderedDedup {α : Type} [BEq α] : List α → List α
  | [] => []
  | x :: xs => x :: (orderedDedup xs).filter (· != x)

/-- `_dedup_candidates` -/
def dedupCandidates (c : List (String × String × String)) : List (String × String × String) :=
  let c := orderedDedup c
  c.foldl (fun acc t => if t.1 != "" then acc.filter (· != ("", t.1 ++ t.2.1, "")) else acc) c

/-- `parse_unit_name` -/
def parseUnitName (R : Registry) (s : String) (cs : Option Bool := none) : List (String × String × String) :=
  dedupCandidates (R.yieldTriplets s (cs.getD R.caseSensitive))

/-- `get_symbol` -/
def getSymbol (R : Registry) (s : String) (cs : Option Bool := none) : Except Err String :=
  match R.parseUnitName s cs with
  | [] => .error .undefined
  | (p, u, _) :: _ =>
    -- F63 repair: a prefixed name that has a definition of its own reports that definition's symbol
    match (if p != "" then R.units.find? (p ++ u) else none) with
    | some own => .ok own.sym
    | none =>
    match R.prefixes.find? p, R.units.find? u with
    | some pd, some ud => .ok (pd.sym ++ ud.sym)
    | _, _ => .error .key

/-- the `UnitDefinition` that `get_name` registers for a prefixed unit -/
def prefixedDef (R : Registry) (p u : String) (cs : Option Bool) : Except Err UnitDef :=
  match R.units.find? u, R.prefixes.find? p with
  | some ud, some pd =>
    if !ud.isMult then .error .offsetCalc
    else match R.getSymbol (p ++ u) cs with
      | .error e => .error e
      | .ok sym => .ok { name := p ++ u, symbol := some sym, aliases := [], conv := .scale pd.value,
                          ref := [(u, 1)], isBase := false }
  | _, _ => .error .key

/-- pure reading of `get_name`: canonical name and the definition it denotes
    (`none` for "dimensionless") without registering anything. -/
def resolve (R : Registry) (s : String) (cs : Option Bool := none) : Except Err (String × Option UnitDef) :=
  if s = "dimensionless" then .ok ("", none) else
  match R.units.find? s with
  | some d => .ok (d.name, R.units.find? d.name)
  | none =>
    match R.parseUnitName s cs with
    | [] => .error .undefined
    | (p, u, _) :: _ =>
      if p != "" then
        match R.prefixedDef p u cs with
        | .error e => .error e
        | .ok d => .ok (p ++ u, some d)
      else .ok (u, R.units.find? u)

/-- `get_name` with its side effect: a prefixed unit is registered under its name -/
def getName (R : Registry) (s : String) (cs : Option Bool := none) : Except Err (String × Registry) :=
  if s = "dimensionless" then .ok ("", R) else
  match R.units.find? s with
  | some d => .ok (d.name, R)
  | none =>
    match R.parseUnitName s cs with
    | [] => .error .undefined
    | (p, u, _) :: _ =>
      if p != "" then
        match R.prefixedDef p u cs with
        | .error e => .error e
        | .ok d => .ok (p ++ u, { R with units := R.units.insert (p ++ u) d,
                                          prefixed := if R.prefixed.contains (p ++ u) then R.prefixed
                                                      else R.prefixed ++ [p ++ u] })
      else .ok (u, R)

/-- the loop of `_parse_units_as_container` after tokenisation: canonical names, optional
    `delta_` substitution, `ret.add(cname, value)`.  Threads the registry (on-the-fly
    registration of prefixed units). -/
def parseUnitsLoop (asDelta : Bool) (many : Bool) (cs : Option Bool) :
    UC → Registry → UC → Except Err (UC × Registry)
  | [], R, ret => .ok (ret, R)
  | (name, value) :: t, R, ret =>
    match R.getName name cs with
    | .error e => .error e
    | .ok (cname, R') =>
      if cname = "" then parseUnitsLoop asDelta many cs t R' ret
      else
        let cname' :=
          if asDelta && (many || value ≠ 1) then
            match R'.units.find? cname with
            | some d => if !d.isMult then "delta_" ++ cname else cname
            | none => cname
          else cname
        match ret.add cname' value with
        | none => .error .key
        | some ret' => parseUnitsLoop asDelta many cs t R' ret'

/-- `_parse_units_as_container` on an already evaluated `ParserHelper` (scale 1) -/
def parseUnitsContainer (R : Registry) (units : UC) (asDelta : Bool := true) (cs : Option Bool := none) :
    Except Err (UC × Registry) :=
  parseUnitsLoop asDelta (units.length > 1) cs units R []

/-! ### dimensionality and root units -/

/-- sequential fold over the items of a container with early error exit -/
def foldItems {σ : Type} (step : String → Rat → σ → Except Err σ) : UC → σ → Except Err σ
  | [], acc => .ok acc
  | (k, e) :: t, acc =>
    match step k e acc with
    | .ok acc' => foldItems step t acc'
    | .error x => .error x

/-- body of the loop of `_get_dimensionality_recurse` for one key (`rec` = the recursive call) -/
def dimStep (R : Registry) (rec : UC → Rat → UC → Except Err UC) (exp : Rat)
    (k : String) (e : Rat) (acc : UC) : Except Err UC :=
  let exp2 := exp * e
  if isDimName k then
    match R.dims.find? k with
    | none => .error .value
    | some ⟨_, some r⟩ => rec r exp2 acc
    | some ⟨_, none⟩ => .ok (acc.acc k exp2)
  else
    match R.resolve k with
    | .error x => .error x
    | .ok (_, none) => .error .key       -- `self._units[""]`
    | .ok (_, some d) => rec d.ref exp2 acc

/-- `_get_dimensionality_recurse` -/
def dimRec (R : Registry) : Nat → UC → Rat → UC → Except Err UC
  | 0, _, _, _ => .error .recursion
  | fuel + 1, ref, exp, acc => foldItems (R.dimStep (dimRec R fuel) exp) ref acc

def fuelOf (R : Registry) : Nat := R.units.length + R.dims.length + 2

/-- `_get_dimensionality` (cache omitted: see `Model/Cache`) -/
def getDimensionality (R : Registry) (u : UC) : Except Err UC :=
  if u.isEmpty then .ok [] else
  match R.dimRec R.fuelOf u 1 [] with
  | .error e => .error e
  | .ok acc => .ok ((acc.del "[]").dropZeros)

/-- `scale ** exp2` in exact arithmetic; `none` when the result is not (known to be) rational -/
def powRat (s e : Rat) : Option Rat :=
  if e.den = 1 then (if s = 0 ∧ e.num < 0 then none else some (s ^ e.num))
  else none   -- Python computes a non-integer power in float, even `1 ** Fraction(1, 2)`

/-- accumulators of `_get_root_units_recurse`: the `None` slot (factor) and the unit slots -/
structure RootAcc where
  factor : Rat := 1
  units : UC := []
  deriving Repr, Inhabited

/-- body of the loop of `_get_root_units_recurse` for one key -/
def rootStep (R : Registry) (rec : UC → Rat → RootAcc → Except Err RootAcc) (exp : Rat)
    (k : String) (e : Rat) (acc : RootAcc) : Except Err RootAcc :=
  let exp2 := exp * e
  match R.resolve k with
  | .error x => .error x
  | .ok (_, none) => .error .key
  | .ok (key, some d) =>
    if d.isBase then .ok { acc with units := acc.units.acc key exp2 }
    else
      match d.conv.scaleOf with
      | none => .error .inexact
      | some s =>
        match powRat s exp2 with
        | none => .error .inexact
        | some f => rec d.ref exp2 { acc with factor := acc.factor * f }

/-- `_get_root_units_recurse` -/
def rootRec (R : Registry) : Nat → UC → Rat → RootAcc → Except Err RootAcc
  | 0, _, _, _ => .error .recursion
  | fuel + 1, ref, exp, acc => foldItems (R.rootStep (rootRec R fuel) exp) ref acc

/-- `_get_root_units` with `check_nonmult = False` -/
def getRootUnits (R : Registry) (u : UC) : Except Err (Rat × UC) :=
  if u.isEmpty then .ok (1, []) else
  match R.rootRec R.fuelOf u 1 {} with
  | .error e => .error e
  | .ok acc => .ok (acc.factor, acc.units.dropZeros)

/-- the unit part of `_get_root_units_recurse` alone (defined even where the factor is not an
    exact rational) -/
def rootUnitsRec (R : Registry) : Nat → UC → Rat → UC → Except Err UC
  | 0, _, _, _ => .error .recursion
  | fuel + 1, ref, exp, acc =>
    foldItems (fun k e acc =>
      match R.resolve k with
      | .error x => .error x
      | .ok (_, none) => .error .key
      | .ok (key, some d) =>
        if d.isBase then .ok (acc.acc key (exp * e))
        else rootUnitsRec R fuel d.ref (exp * e) acc) ref acc

/-- `_get_root_units(u)[1]` -/
def getRootUnitsOnly (R : Registry) (u : UC) : Except Err UC :=
  if u.isEmpty then .ok [] else
  match R.rootUnitsRec R.fuelOf u 1 [] with
  | .error e => .error e
  | .ok acc => .ok acc.dropZeros

/-- `_get_conversion_factor` (cache omitted) -/
def convFactor (R : Registry) (src dst : UC) : Except Err Rat :=
  match R.getDimensionality src, R.getDimensionality dst with
  | .ok sd, .ok dd =>
    if !(sd.beq dd) then .error .dimensionality
    else match R.getRootUnits (src.div dst) with
      | .ok (f, _) => .ok f
      | .error e => .error e
  | .error e, _ => .error e
  | _, .error e => .error e

/-- plain `_convert` -/
def convertPlain (R : Registry) (x : Rat) (src dst : UC) : Except Err Rat :=
  match R.convFactor src dst with
  | .ok f => .ok (x * f)
  | .error e => .error e

/-! ### non-multiplicative conversion -/

/-- `_is_multiplicative(unit_name)` for a container key -/
def isMultName (R : Registry) (k : String) : Except Err Bool :=
  match R.units.find? k with
  | some d => .ok d.isMult
  | none =>
    match R.parseUnitName k with
    | [(_, u, _)] => match R.units.find? u with
        | some d => .ok d.isMult
        | none => .error .undefined
    | _ => .error .other       -- the `assert len(names) == 1`

/-- `[(u, e) for u, e in units.items() if not self._is_multiplicative(u)]` -/
def nonMultItems (R : Registry) : UC → Except Err (List (String × Rat))
  | [] => .ok []
  | p :: t =>
    match R.isMultName p.1 with
    | .error e => .error e
    | .ok m =>
      match nonMultItems R t with
      | .error e => .error e
      | .ok l => .ok (if m then l else p :: l)

/-- `_validate_and_extract`; `.error .value` stands for the `ValueError`s -/
def validateAndExtract (R : Registry) (autoconvert : Bool) (u : UC) : Except Err (Option String) :=
  match R.nonMultItems u with
  | .error e => .error e
  | .ok [] => .ok none
  | .ok [(k, e)] =>
    if e ≠ 1 then .error .value
    else if u.length > 1 && !autoconvert then .error .value
    else .ok (some k)
  | .ok _ => .error .value

def toReference : Conv → Rat → Except Err Rat
  | .scale s, x => .ok (x * s)
  | .offset s o, x => .ok (x * s + o)
  | _, _ => .error .inexact
def fromReference : Conv → Rat → Except Err Rat
  | .scale s, x => if s = 0 then .error .value else .ok (x / s)
  | .offset s o, x => if s = 0 then .error .value else .ok ((x - o) / s)
  | _, _ => .error .inexact

/-- `_add_ref_of_log_or_offset_unit` for offset units (logarithmic: outside the exact model) -/
def refOfOffset (R : Registry) (k : String) (all : UC) : Except Err UC :=
  match R.units.find? k with
  | none => .error .key
  | some d => if d.conv.isLogarithmic then .error .inexact
              else if !d.isMult then .ok (all.mul d.ref) else .ok all      -- (F66 repair: the other factors are kept)

/-- `NonMultiplicativeRegistry._convert` -/
def convertNM (R : Registry) (autoconvert : Bool) (x : Rat) (src dst : UC) : Except Err Rat :=
  match R.validateAndExtract autoconvert src with
  | .error .value => .error .dimensionality
  | .error e => .error e
  | .ok so =>
  match R.validateAndExtract autoconvert dst with
  | .error .value => .error .dimensionality
  | .error e => .error e
  | .ok dof =>
  if so.isNone && dof.isNone then R.convertPlain x src dst else
  match R.getDimensionality src, R.getDimensionality dst with
  | .error e, _ => .error e
  | _, .error e => .error e
  | .ok sd, .ok dd =>
  if !(sd.beq dd) then .error .dimensionality else
  -- source side
  let srcStep : Except Err (Rat × UC) :=
    match so with
    | none => .ok (x, src)
    | some k =>
      if dst.any (fun p => "delta_".toList.isPrefixOf p.1.toList) then .error .dimensionality else
      match R.units.find? k with
      | none => .error .key
      | some d =>
        match toReference d.conv x, R.refOfOffset k (src.del k) with
        | .ok v, .ok s' => .ok (v, s')
        | .error e, _ => .error e
        | _, .error e => .error e
  match srcStep with
  | .error e => .error e
  | .ok (v, src') =>
  let dstStep : Except Err UC :=
    match dof with
    | none => .ok dst
    | some k =>
      if src'.any (fun p => "delta_".toList.isPrefixOf p.1.toList) then .error .dimensionality else
      R.refOfOffset k (dst.del k)
  match dstStep with
  | .error e => .error e
  | .ok dst' =>
  match R.convertPlain v src' dst' with
  | .error e => .error e
  | .ok v' =>
    match dof with
    | none => .ok v'
    | some k =>
      match R.units.find? k with
      | none => .error .key
      | some d => fromReference d.conv v'

/-- `UnitRegistry.convert(value, src, dst)` on containers -/
def convert (R : Registry) (x : Rat) (src dst : UC) (autoconvert : Bool := false) : Except Err Rat :=
  if src.beq dst then .ok x else R.convertNM autoconvert x src dst

end Registry
end Pint
