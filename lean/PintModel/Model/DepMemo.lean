/-
  Dependency-directed invalidation of per-node memos (C14: `Group.members`, `System.members`).

  Every node (a group) has a memo of an answer that depends on the node's own content and on the content of the nodes below
  it (`dep t c`: the answer of `t` depends on the content of `c`).  Editing the content of `c` empties the memos the policy
  says (`clearedBy c t`: pint's `invalidate_members` empties the node's own memo and walks `_used_by` upwards).  `run`
  answers a history of reads and edits through the memos; `runSpec` recomputes every answer.
-/
namespace Pint.DepMemo

variable {N κ ν : Type} [DecidableEq N]

/-- the content version of every node -/
abbrev St (N : Type) := N → Nat

def St.set (s : St N) (c : N) (v : Nat) : St N := fun c' => if c' = c then v else s c'

inductive Op (N : Type)
  | read (t : N)
  | edit (c : N) (v : Nat)

abbrev Memos (N ν : Type) := N → Option ν

/-- a history answered through the memos: a read stores its answer, an edit of `c` empties the memos `clearedBy c` names -/
def run (clearedBy : N → N → Bool) (spec : N → St N → ν) : St N → Memos N ν → List (Op N) → List ν
  | _, _, [] => []
  | s, m, .read t :: ops =>
    match m t with
    | some v => v :: run clearedBy spec s m ops
    | none => spec t s :: run clearedBy spec s (fun t' => if t' = t then some (spec t s) else m t') ops
  | s, m, .edit c v :: ops => run clearedBy spec (s.set c v) (fun t => if clearedBy c t then none else m t) ops

def runSpec (spec : N → St N → ν) : St N → List (Op N) → List ν
  | _, [] => []
  | s, .read t :: ops => spec t s :: runSpec spec s ops
  | s, .edit c v :: ops => runSpec spec (s.set c v) ops

/-- every memo whose answer depends on `c` is emptied by an edit of `c` -/
def Covers (clearedBy dep : N → N → Bool) : Prop := ∀ c t, dep t c = true → clearedBy c t = true

/-- the answer of `t` depends on the content of the nodes `dep t ·` only -/
def Local (spec : N → St N → ν) (dep : N → N → Bool) : Prop :=
  ∀ t s s', (∀ c, dep t c = true → s c = s' c) → spec t s = spec t s'

def Inv (spec : N → St N → ν) (s : St N) (m : Memos N ν) : Prop := ∀ t v, m t = some v → v = spec t s

/-- **any history of reads and edits**: every answer is the one the current contents imply -/
theorem run_transparent {clearedBy dep : N → N → Bool} {spec : N → St N → ν} (hc : Covers clearedBy dep)
    (hl : Local spec dep) (s : St N) (m : Memos N ν) (hi : Inv spec s m) (ops : List (Op N)) :
    run clearedBy spec s m ops = runSpec spec s ops := by
  induction ops generalizing s m with
  | nil => rfl
  | cons o ops ih =>
    cases o with
    | read t =>
      simp only [run, runSpec]
      cases hm : m t with
      | some v =>
        simp only
        rw [hi t v hm, ih s m hi]
      | none =>
        simp only
        rw [ih s _ ?_]
        intro t' v' h'
        by_cases htt : t' = t
        · subst htt; simp at h'; exact h'.symm
        · simp [htt] at h'; exact hi t' v' h'
    | edit c v =>
      simp only [run, runSpec]
      apply ih
      intro t w h
      cases hcl : clearedBy c t with
      | true => simp [hcl] at h
      | false =>
        simp only [hcl] at h
        have hw := hi t w (by simpa using h)
        rw [hw]
        apply hl
        intro c' hd
        unfold St.set
        by_cases hcc : c' = c
        · subst hcc
          have := hc c' t hd
          rw [hcl] at this; cases this
        · simp [hcc]

/-- **necessity**: a dependency the policy does not answer has a three-step history with a stale answer -/
theorem uncovered_counterexample :
    ∃ (clearedBy dep : Bool → Bool → Bool) (spec : Bool → St Bool → Nat) (ops : List (Op Bool)),
      Local spec dep ∧ ¬ Covers clearedBy dep ∧ run clearedBy spec (fun _ => 0) (fun _ => none) ops ≠ runSpec spec (fun _ => 0) ops := by
  refine ⟨fun c t => decide (c = t), fun t c => decide (t = true ∨ t = c), fun t s => if t then s true + s false else s false,
    [.read true, .edit false 1, .read true], ?_, ?_, by decide⟩
  · intro t s s' h
    cases t
    · simp; exact h false (by decide)
    · simp; rw [h true (by decide), h false (by decide)]
  · intro h
    have := h false true (by decide)
    simp at this

end Pint.DepMemo
