/-
  Model of `pint/facets/context`: `Context` (rules keyed by (src, dst) dimensionalities,
  defaults, redefinitions), `Context.from_context`, `ContextChain` (`insert_contexts`,
  `remove_contexts`, lookup with "most recently enabled wins", `defaults`, `graph`),
  `util.find_shortest_path`, `enable_contexts` / `disable_contexts` / `context` and the
  context-aware `_convert`.

  Rule equations are monomials `num * Π unit^e * Π param^k * value^{±1}` (every rule of the
  bundled contexts has this shape; fractional powers are outside the exact model).
  Set iteration order (Python hash order) is a parameter: results are given for every order.
-/
import PintModel.Model.Quantity

namespace Pint.Ctx

/-- one transformation rule: `value ↦ num * Π units * Π params^k * value^{vexp}` -/
structure Rule where
  src : UC
  dst : UC
  num : Rat := 1
  units : UC := []                       -- unit factors with integer exponents
  params : List (String × Int) := []     -- parameter factors
  vexp : Int := 1                        -- exponent of `value` (+1 or -1)
  fid : Nat := 0                         -- identity of the Python function object
  deriving Repr, Inhabited, DecidableEq

structure Context where
  name : String
  aliases : List String := []
  defaults : List (String × Rat) := []
  rules : List Rule := []                -- `funcs` in insertion order (unique (src,dst) keys)
  redefs : List UnitDef := []
  deriving Repr, Inhabited

def sameKey (a b : UC × UC) : Bool := a.1.beq b.1 && a.2.beq b.2

/-- `dict(context.defaults, **kw)` -/
def mergeKw (base kw : List (String × Rat)) : List (String × Rat) :=
  kw.foldl (fun acc p => if acc.any (·.1 == p.1) then acc.map (fun q => if q.1 == p.1 then p else q) else acc ++ [p]) base

/-- `Context.from_context(ctx, **kwargs)` -/
def fromContext (c : Context) (kw : List (String × Rat)) : Context :=
  if kw.isEmpty then c else { c with defaults := mergeKw c.defaults kw }

structure State where
  contexts : List (String × Context) := []   -- `_contexts` (names and aliases)
  active : List Context := []                -- `_active_ctx.contexts`, most recent first
  deriving Repr, Inhabited

/-- `ContextChain.defaults` (F64 repair): the parameters of the most recently enabled context, which already
    carries what it inherited from the contexts that were active when it was enabled -/
def chainDefaults (st : State) : List (String × Rat) :=
  match st.active with
  | [] => []
  | c :: _ => c.defaults

inductive EnableErr | unknown (name : String) deriving Repr

/-- `enable_contexts(*names, **kwargs)` (without unit redefinitions, see `Model/Cache`) -/
def enable (st : State) (names : List String) (kw : List (String × Rat)) : Except EnableErr State :=
  let kw' := let d := chainDefaults st; if d.isEmpty then kw else mergeKw d kw
  let rec resolve : List String → Except EnableErr (List Context)
    | [] => .ok []
    | n :: ns =>
      match st.contexts.find? (·.1 == n) with
      | none => .error (.unknown n)
      | some (_, c) => match resolve ns with
        | .ok cs => .ok (c :: cs)
        | .error e => .error e
  match resolve names with
  | .error e => .error e
  | .ok cs =>
    let inst := cs.map (fun c => fromContext c kw')
    .ok { st with active := inst.reverse ++ st.active }

/-- `disable_contexts(n)` -/
def disable (st : State) (n : Option Nat) : State :=
  match n with
  | none => { st with active := [] }
  | some k => { st with active := st.active.drop k }

/-- `self._active_ctx[(src, dst)]` : the rule of the most recently enabled context that has one -/
def lookupRule (st : State) (src dst : UC) : Option (Rule × Context) :=
  st.active.findSome? fun c => (c.rules.find? (fun r => sameKey (r.src, r.dst) (src, dst))).map (·, c)

/-- all (src, dst) keys of the chain -/
def edges (st : State) : List (UC × UC) :=
  st.active.flatMap fun c => c.rules.map fun r => (r.src, r.dst)

def dedupUC (l : List UC) : List UC :=
  l.foldl (fun acc x => if acc.any (·.beq x) then acc else acc ++ [x]) []

/-- `graph[node]` as a list (some order of the Python set) -/
def adj (es : List (UC × UC)) (node : UC) : List UC :=
  dedupUC ((es.filter (fun e => e.1.beq node)).map (·.2))

/-- `find_shortest_path(graph, start, end)` with adjacency sets iterated in list order -/
def bfs (es : List (UC × UC)) (target : UC) : Nat → List (UC × List UC) → List UC → Option (List UC)
  | 0, _, _ => none
  | _, [], _ => none
  | fuel + 1, (node, path) :: rest, visited =>
    let visited := if visited.any (·.beq node) then visited else visited ++ [node]
    let nexts := (adj es node).filter (fun a => !(visited.any (·.beq a)))
    match nexts.find? (·.beq target) with
    | some a => some (path ++ [a])
    | none => bfs es target fuel (rest ++ nexts.map (fun a => (a, path ++ [a]))) visited

/-- an upper bound on the number of iterations of the loop of `bfs` (a node is marked visited
    when popped, so the queue may grow exponentially; see `Proofs/BfsLemmas.lean`,
    `bfs_fuel_suffices`).  The number is only decremented, never iterated over. -/
def bfsFuel (es : List (UC × UC)) : Nat := (es.length + 1) ^ es.length + 1

def findShortestPath (es : List (UC × UC)) (start target : UC) : Option (List UC) :=
  if start.beq target then some [start]
  else bfs es target (bfsFuel es) [(start, [start])] []

/-- a walk along edges -/
def isPath (es : List (UC × UC)) : List UC → Bool
  | [] => false
  | [_] => true
  | a :: b :: t => es.any (fun e => e.1.beq a && e.2.beq b) && isPath es (b :: t)

/-- apply one rule to a quantity -/
def applyRule (R : Registry) (m : Mode) (r : Rule) (params : List (String × Rat)) (q : Qty) : Except Err Qty :=
  let coeff : Except Err Rat := r.params.foldl (fun (acc : Except Err Rat) (p : String × Int) =>
    let k : Int := p.2
    match acc, params.find? (fun q => q.1 == p.1) with
    | .ok a, some (_, v) => if v = 0 ∧ k < 0 then .error .zeroDiv else .ok (a * (v ^ k))
    | .error e, _ => .error e
    | .ok _, none => .error .type) (.ok r.num)
  match coeff with
  | .error e => .error e
  | .ok c =>
    let k : Qty := ⟨c, r.units⟩
    if r.vexp = 1 then R.mulDiv m .mul k (.q q)
    else R.mulDiv m .div k (.q q)

/-- context-aware `_convert`: follow `path` applying the winning rule of each edge, then convert -/
def convertAlong (R : Registry) (m : Mode) (st : State) (x : Rat) (src dst : UC) : List UC → Except Err Rat
  | path =>
    let rec go : List UC → Qty → Except Err Qty
      | a :: b :: t, q =>
        match lookupRule st a b with
        | none => .error .key
        | some (r, c) =>
          match applyRule R m r c.defaults q with
          | .error e => .error e
          | .ok q' => go (b :: t) q'
      | _, q => .ok q
    match go path ⟨x, src⟩ with
    | .error e => .error e
    | .ok q => R.convert q.mag q.units dst m.autoconvert

def convert (R : Registry) (m : Mode) (st : State) (x : Rat) (src dst : UC) : Except Err Rat :=
  if st.active.isEmpty then R.convert x src dst m.autoconvert
  else if src.beq dst then .ok x
  else
    match R.getDimensionality src, R.getDimensionality dst with
    | .ok sd, .ok dd =>
      (match findShortestPath (edges st) sd dd with
        | some path => convertAlong R m st x src dst path
        | none => R.convert x src dst m.autoconvert)
    | .error e, _ => .error e
    | _, .error e => .error e

/-- `_redefine(definition)` on the effective registry -/
def redefine (R : Registry) (d : UnitDef) : Except Err Registry :=
  match R.parseUnitName d.name with
  | [] => .error .undefined
  | cands =>
    match cands.filter (fun c => c.1 == "") with
    | [] => .error .value
    | (_, name, _) :: _ =>
      match R.units.find? name with
      | none => .error .undefined
      | some base =>
        if base.isBase then .error .value
        else match R.getDimensionality base.ref, R.getDimensionality d.ref with
          | .ok d1, .ok d2 =>
            if !(d1.beq d2) then .error .value
            else .ok (R.addUnit { name := base.name, symbol := some base.sym, aliases := base.aliases,
                                  conv := d.conv, ref := d.ref, isBase := false })
          | .error e, _ => .error e
          | _, .error e => .error e

/-- the registry as seen while the stack `active` is enabled: redefinitions of the oldest
    context first, newer ones override (`_switch_context_cache_and_units`) -/
def effective (R : Registry) (active : List Context) : Except Err Registry :=
  (active.reverse.flatMap (·.redefs)).foldl (fun acc d => match acc with
    | .ok R' => redefine R' d
    | .error e => .error e) (.ok R)

/-- all walks of exactly `n` edges from `a` to `target` without repeated nodes -/
def walks (es : List (UC × UC)) (target : UC) : Nat → UC → List UC → List (List UC)
  | 0, a, seen => if a.beq target then [seen ++ [a]] else []
  | n + 1, a, seen =>
    if seen.any (·.beq a) then [] else
    (adj es a).flatMap fun b => walks es target n b (seen ++ [a])

/-- every shortest path (the BFS returns one of them, which one depends on set order) -/
def allShortest (es : List (UC × UC)) (start target : UC) : List (List UC) :=
  match findShortestPath es start target with
  | none => []
  | some p => walks es target (p.length - 1) start []

end Pint.Ctx
