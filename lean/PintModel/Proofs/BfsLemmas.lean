/-
  Breadth-first `find_shortest_path` (model: `PintModel/Model/Context.lean`):
  validity, completeness (the fuel `bfsFuel` of the model is proved sufficient) and minimality
  of the returned path.
  Core Lean only.
-/
import PintModel.Model.Context

namespace Pint.Ctx
open Pint

/-! ### `UC.beq` : symmetry and transitivity hold unconditionally -/

theorem lookup_mem {u : UC} {k : String} {v : Rat} (h : u.lookup k = some v) : (k, v) ∈ u := by
  induction u with
  | nil => simp [UC.lookup] at h
  | cons p t ih =>
    obtain ⟨k', v'⟩ := p
    by_cases hk : k' = k
    · simp [UC.lookup, hk] at h
      simp [hk, h]
    · simp only [UC.lookup, if_neg hk] at h
      exact List.mem_cons_of_mem _ (ih h)

theorem beq_symm {a b : UC} (h : a.beq b = true) : b.beq a = true := by
  unfold UC.beq at h ⊢; rw [Bool.and_comm]; exact h

theorem beq_trans {a b c : UC} (h1 : a.beq b = true) (h2 : b.beq c = true) : a.beq c = true := by
  unfold UC.beq at h1 h2 ⊢
  simp only [Bool.and_eq_true, List.all_eq_true, beq_iff_eq] at h1 h2 ⊢
  constructor
  · intro p hp
    have := lookup_mem (h1.1 p hp)
    exact h2.1 _ this
  · intro p hp
    have := lookup_mem (h2.2 p hp)
    exact h1.2 _ this

theorem beq_false_of_beq {a b t : UC} (h : a.beq b = true) (hb : a.beq t = false) :
    b.beq t = false := by
  cases hbt : b.beq t with
  | false => rfl
  | true => rw [beq_trans h hbt] at hb; exact hb

/-- `x` is `==` to some element of `vis` -/
def InV (vis : List UC) (x : UC) : Prop := ∃ v ∈ vis, v.beq x = true

theorem any_iff_InV (vis : List UC) (x : UC) : vis.any (·.beq x) = true ↔ InV vis x := by
  simp [InV, List.any_eq_true]

theorem InV_trans {vis : List UC} {x y : UC} (h : InV vis x) (hxy : x.beq y = true) : InV vis y := by
  obtain ⟨v, hv, hvx⟩ := h
  exact ⟨v, hv, beq_trans hvx hxy⟩

/-! ### `dedupUC`, `adj` -/

def dedupStep (acc : List UC) (x : UC) : List UC := if acc.any (·.beq x) then acc else acc ++ [x]

theorem dedupUC_eq (l : List UC) : dedupUC l = l.foldl dedupStep [] := rfl

theorem mem_foldl_dedup {l acc : List UC} {x : UC} (h : x ∈ l.foldl dedupStep acc) :
    x ∈ acc ∨ x ∈ l := by
  induction l generalizing acc with
  | nil => exact Or.inl h
  | cons y l ih =>
    rw [List.foldl_cons] at h
    rcases ih h with h | h
    · unfold dedupStep at h
      split at h
      · exact Or.inl h
      · rcases List.mem_append.mp h with h | h
        · exact Or.inl h
        · simp at h; subst h; exact Or.inr (by simp)
    · exact Or.inr (List.mem_cons_of_mem _ h)

theorem acc_sub_foldl_dedup {l acc : List UC} {x : UC} (h : x ∈ acc) : x ∈ l.foldl dedupStep acc := by
  induction l generalizing acc with
  | nil => exact h
  | cons y l ih =>
    rw [List.foldl_cons]
    apply ih
    unfold dedupStep
    split
    · exact h
    · exact List.mem_append_left _ h

theorem cover_foldl_dedup {l acc : List UC} {x : UC} (hx : x ∈ l) (hr : x.beq x = true) :
    InV (l.foldl dedupStep acc) x := by
  induction l generalizing acc with
  | nil => cases hx
  | cons y l ih =>
    rw [List.foldl_cons]
    rcases List.mem_cons.mp hx with h | h
    · subst h
      by_cases hany : acc.any (·.beq x) = true
      · obtain ⟨v, hv, hvx⟩ := (any_iff_InV _ _).mp hany
        refine ⟨v, acc_sub_foldl_dedup ?_, hvx⟩
        unfold dedupStep; rw [if_pos hany]; exact hv
      · refine ⟨x, acc_sub_foldl_dedup ?_, hr⟩
        unfold dedupStep; rw [if_neg hany]; simp
    · exact ih h

theorem mem_adj {es : List (UC × UC)} {n a : UC} (h : a ∈ adj es n) :
    ∃ e ∈ es, e.1.beq n = true ∧ e.2 = a := by
  unfold adj at h
  rw [dedupUC_eq] at h
  rcases mem_foldl_dedup h with h | h
  · cases h
  · obtain ⟨e, he, rfl⟩ := List.mem_map.mp h
    obtain ⟨he1, he2⟩ := List.mem_filter.mp he
    exact ⟨e, he1, he2, rfl⟩

theorem adj_cover {es : List (UC × UC)} {n : UC} {e : UC × UC} (he : e ∈ es)
    (h1 : e.1.beq n = true) (hr : e.2.beq e.2 = true) : InV (adj es n) e.2 := by
  unfold adj
  rw [dedupUC_eq]
  apply cover_foldl_dedup _ hr
  exact List.mem_map.mpr ⟨e, List.mem_filter.mpr ⟨he, h1⟩, rfl⟩

/-! ### one step of the loop -/

def visit (vis : List UC) (node : UC) : List UC :=
  if vis.any (·.beq node) then vis else vis ++ [node]

def nexts (es : List (UC × UC)) (node : UC) (vis : List UC) : List UC :=
  (adj es node).filter (fun a => !((visit vis node).any (·.beq a)))

def push (rest : List (UC × List UC)) (path : List UC) (ns : List UC) : List (UC × List UC) :=
  rest ++ ns.map (fun a => (a, path ++ [a]))

theorem bfs_succ (es : List (UC × UC)) (t : UC) (fuel : Nat) (node : UC) (path : List UC)
    (rest : List (UC × List UC)) (vis : List UC) :
    bfs es t (fuel + 1) ((node, path) :: rest) vis =
      match (nexts es node vis).find? (·.beq t) with
      | some a => some (path ++ [a])
      | none => bfs es t fuel (push rest path (nexts es node vis)) (visit vis node) := rfl

theorem bfs_zero (es : List (UC × UC)) (t : UC) (q : List (UC × List UC)) (vis : List UC) :
    bfs es t 0 q vis = none := rfl

theorem bfs_nil (es : List (UC × UC)) (t : UC) (fuel : Nat) (vis : List UC) :
    bfs es t fuel [] vis = none := by
  cases fuel <;> rfl

theorem mem_visit {vis : List UC} {n v : UC} (h : v ∈ visit vis n) : v ∈ vis ∨ v = n := by
  unfold visit at h
  split at h
  · exact Or.inl h
  · rcases List.mem_append.mp h with h | h
    · exact Or.inl h
    · simp at h; exact Or.inr h

theorem InV_visit_mono {vis : List UC} {n x : UC} (h : InV vis x) : InV (visit vis n) x := by
  obtain ⟨v, hv, hvx⟩ := h
  refine ⟨v, ?_, hvx⟩
  unfold visit; split
  · exact hv
  · exact List.mem_append_left _ hv

theorem InV_visit_self {vis : List UC} {n x : UC} (h : n.beq x = true) : InV (visit vis n) x := by
  unfold visit; split
  next hany => exact InV_trans ((any_iff_InV _ _).mp hany) h
  next => exact ⟨n, by simp, h⟩

theorem mem_nexts {es : List (UC × UC)} {n a : UC} {vis : List UC} :
    a ∈ nexts es n vis ↔ a ∈ adj es n ∧ ¬ InV (visit vis n) a := by
  unfold nexts
  rw [List.mem_filter, ← any_iff_InV]
  simp

theorem mem_push {rest : List (UC × List UC)} {path ns : List UC} {e : UC × List UC} :
    e ∈ push rest path ns ↔ e ∈ rest ∨ ∃ a ∈ ns, e = (a, path ++ [a]) := by
  unfold push
  rw [List.mem_append, List.mem_map]
  constructor
  · rintro (h | ⟨a, ha, rfl⟩)
    · exact Or.inl h
    · exact Or.inr ⟨a, ha, rfl⟩
  · rintro (h | ⟨a, ha, rfl⟩)
    · exact Or.inl h
    · exact Or.inr ⟨a, ha, rfl⟩

/-- Invariant induction: a `some` result was produced from a state satisfying the invariant. -/
theorem bfs_some_induct {es : List (UC × UC)} {t : UC} (P : List (UC × List UC) → List UC → Prop)
    (hstep : ∀ node path rest vis, P ((node, path) :: rest) vis →
      (nexts es node vis).find? (·.beq t) = none →
      P (push rest path (nexts es node vis)) (visit vis node)) :
    ∀ (fuel : Nat) (q : List (UC × List UC)) (vis : List UC) (p : List UC), P q vis →
      bfs es t fuel q vis = some p →
      ∃ node path rest vis' a, P ((node, path) :: rest) vis' ∧
        (nexts es node vis').find? (·.beq t) = some a ∧ p = path ++ [a] := by
  intro fuel
  induction fuel with
  | zero => intro q vis p _ h; rw [bfs_zero] at h; cases h
  | succ fuel ih =>
    intro q vis p hP h
    match q, hP, h with
    | [], _, h => rw [bfs_nil] at h; cases h
    | (node, path) :: rest, hP, h =>
      rw [bfs_succ] at h
      cases hf : (nexts es node vis).find? (·.beq t) with
      | some a =>
        rw [hf] at h
        simp only [Option.some.injEq] at h
        exact ⟨node, path, rest, vis, a, hP, hf, h.symm⟩
      | none =>
        rw [hf] at h
        exact ih _ _ _ (hstep _ _ _ _ hP hf) h

/-- "the loop ran out of fuel before the queue emptied or a path was found" -/
def bfsExhausts (es : List (UC × UC)) (target : UC) : Nat → List (UC × List UC) → List UC → Bool
  | _, [], _ => false
  | 0, _ :: _, _ => true
  | fuel + 1, (node, path) :: rest, vis =>
    match (nexts es node vis).find? (·.beq target) with
    | some _ => false
    | none => bfsExhausts es target fuel (push rest path (nexts es node vis)) (visit vis node)

/-- Invariant induction: a `none` result without fuel exhaustion means the queue emptied. -/
theorem bfs_none_induct {es : List (UC × UC)} {t : UC} (P : List (UC × List UC) → List UC → Prop)
    (hstep : ∀ node path rest vis, P ((node, path) :: rest) vis →
      (nexts es node vis).find? (·.beq t) = none →
      P (push rest path (nexts es node vis)) (visit vis node)) :
    ∀ (fuel : Nat) (q : List (UC × List UC)) (vis : List UC), P q vis →
      bfs es t fuel q vis = none → bfsExhausts es t fuel q vis = false →
      ∃ vis', P [] vis' := by
  intro fuel
  induction fuel with
  | zero =>
    intro q vis hP _ hx
    match q, hP, hx with
    | [], hP, _ => exact ⟨vis, hP⟩
    | _ :: _, _, hx => simp [bfsExhausts] at hx
  | succ fuel ih =>
    intro q vis hP h hx
    match q, hP, h, hx with
    | [], hP, _, _ => exact ⟨vis, hP⟩
    | (node, path) :: rest, hP, h, hx =>
      rw [bfs_succ] at h
      unfold bfsExhausts at hx
      cases hf : (nexts es node vis).find? (·.beq t) with
      | some a => rw [hf] at h; cases h
      | none =>
        rw [hf] at h
        simp only [hf] at hx
        exact ih _ _ (hstep _ _ _ _ hP hf) h hx

/-! ### (1) validity -/

theorem isPath_append_single {es : List (UC × UC)} {p : List UC} {n a : UC} {e : UC × UC}
    (hp : isPath es p = true) (hl : p.getLast? = some n) (he : e ∈ es)
    (h1 : e.1.beq n = true) (h2 : e.2.beq a = true) : isPath es (p ++ [a]) = true := by
  induction p with
  | nil => simp [isPath] at hp
  | cons x p ih =>
    cases p with
    | nil =>
      simp at hl; subst hl
      simp only [List.cons_append, List.nil_append, isPath, Bool.and_true, List.any_eq_true]
      exact ⟨e, he, by simp [h1, h2]⟩
    | cons y p =>
      simp only [List.cons_append, isPath, Bool.and_eq_true] at hp ⊢
      refine ⟨hp.1, ?_⟩
      apply ih hp.2
      simpa [List.getLast?_cons_cons] using hl

/-- every edge target is `==` to itself (true when nodes have no duplicate keys) -/
def EdgeRefl (es : List (UC × UC)) : Prop := ∀ e ∈ es, e.2.beq e.2 = true

def ValidQ (es : List (UC × UC)) (s : UC) (q : List (UC × List UC)) : Prop :=
  ∀ e ∈ q, isPath es e.2 = true ∧ e.2.head? = some s ∧ e.2.getLast? = some e.1

theorem validQ_step {es : List (UC × UC)} (hr : EdgeRefl es) {s node : UC} {path : List UC}
    {rest : List (UC × List UC)} {vis : List UC} (h : ValidQ es s ((node, path) :: rest)) :
    ValidQ es s (push rest path (nexts es node vis)) := by
  intro e he
  rcases mem_push.mp he with he | ⟨a, ha, rfl⟩
  · exact h e (List.mem_cons_of_mem _ he)
  · obtain ⟨hp, hh, hl⟩ := h (node, path) (by simp)
    obtain ⟨e, hees, he1, rfl⟩ := mem_adj (mem_nexts.mp ha).1
    refine ⟨isPath_append_single hp hl hees he1 (hr e hees), ?_, by simp⟩
    cases path with
    | nil => simp [isPath] at hp
    | cons x xs => simpa using hh

theorem bfs_valid {es : List (UC × UC)} (hr : EdgeRefl es) {s t : UC} {fuel : Nat}
    {q : List (UC × List UC)} {vis p : List UC} (hq : ValidQ es s q)
    (h : bfs es t fuel q vis = some p) :
    isPath es p = true ∧ p.head? = some s ∧ ∃ last, p.getLast? = some last ∧ last.beq t = true := by
  obtain ⟨node, path, rest, vis', a, hP, hf, rfl⟩ :=
    bfs_some_induct (es := es) (t := t) (fun q _ => ValidQ es s q)
      (fun node path rest vis hP _ => validQ_step hr hP) fuel q vis p hq h
  have hmem := List.mem_of_find?_eq_some hf
  have hat := List.find?_some hf
  obtain ⟨hp, hh, hl⟩ := hP (node, path) (by simp)
  obtain ⟨e, hees, he1, rfl⟩ := mem_adj (mem_nexts.mp hmem).1
  refine ⟨isPath_append_single hp hl hees he1 (hr e hees), ?_, e.2, by simp, hat⟩
  cases path with
  | nil => simp [isPath] at hp
  | cons x xs => simpa using hh

theorem validQ_init (es : List (UC × UC)) (s : UC) : ValidQ es s [(s, [s])] := by
  intro e he
  simp at he; subst he
  simp [isPath]

/-- (1) the returned list is a walk along edges of `es` from `s` to a node `==` `t` -/
theorem bfs_path {es : List (UC × UC)} (hr : EdgeRefl es) {s t : UC} {p : List UC}
    (h : findShortestPath es s t = some p) :
    isPath es p = true ∧ p.head? = some s ∧ ∃ last, p.getLast? = some last ∧ last.beq t = true := by
  unfold findShortestPath at h
  split at h
  next hst =>
    simp only [Option.some.injEq] at h; subst h
    exact ⟨rfl, rfl, s, rfl, hst⟩
  next => exact bfs_valid hr (validQ_init es s) h

/-! ### reachability by a walk of `n` nodes -/

/-- `Reach es s n x` : some walk of `n` nodes starting at `s` ends at `x` (edges matched with `==`) -/
inductive Reach (es : List (UC × UC)) (s : UC) : Nat → UC → Prop
  | base : Reach es s 1 s
  | step {n : Nat} {y x : UC} {e : UC × UC} : Reach es s n y → e ∈ es → e.1.beq y = true →
      e.2.beq x = true → Reach es s (n + 1) x

theorem Reach.pos {es : List (UC × UC)} {s x : UC} {n : Nat} (h : Reach es s n x) : 1 ≤ n := by
  cases h <;> omega

theorem reach_of_isPath_aux {es : List (UC × UC)} {s : UC} :
    ∀ (w : List UC) (a l : UC) (n : Nat), Reach es s n a → isPath es (a :: w) = true →
      (a :: w).getLast? = some l → Reach es s (n + w.length) l := by
  intro w
  induction w with
  | nil => intro a l n hr _ hl; simp at hl; subst hl; exact hr
  | cons b w ih =>
    intro a l n hr hp hl
    simp only [isPath, Bool.and_eq_true, List.any_eq_true] at hp
    obtain ⟨⟨e, he, he12⟩, hp2⟩ := hp
    have := ih b l (n + 1) (Reach.step hr he he12.1 he12.2) hp2
      (by simpa [List.getLast?_cons_cons] using hl)
    simpa [Nat.add_assoc, Nat.add_comm 1] using this

/-- a walk in the sense of `isPath` gives `Reach` with its number of nodes -/
theorem reach_of_isPath {es : List (UC × UC)} {s l : UC} {w : List UC}
    (hp : isPath es w = true) (hh : w.head? = some s) (hl : w.getLast? = some l) :
    Reach es s w.length l := by
  cases w with
  | nil => simp at hh
  | cons a w =>
    simp at hh; subst hh
    have := reach_of_isPath_aux w a l 1 Reach.base hp hl
    simpa [Nat.add_comm] using this

/-! ### the layered invariant -/

structure Inv (es : List (UC × UC)) (s t : UC) (k : Nat) (A B : List (UC × List UC))
    (vis : List UC) : Prop where
  kpos : 1 ≤ k
  lenA : ∀ e ∈ A, e.2.length = k
  lenB : ∀ e ∈ B, e.2.length = k + 1
  eqk : ∀ x, Reach es s k x → InV vis x ∨ ∃ e ∈ A, e.1.beq x = true
  ltk : ∀ n x, n < k → Reach es s n x → InV vis x
  clos : ∀ v ∈ vis, ∀ e ∈ es, e.1.beq v = true →
    InV vis e.2 ∨ ∃ e' ∈ A ++ B, e'.1.beq e.2 = true
  ntV : ∀ v ∈ vis, v.beq t = false
  ntQ : ∀ e ∈ A ++ B, e.1.beq t = false

theorem inv_init {es : List (UC × UC)} {s t : UC} (hs : s.beq s = true) (hst : s.beq t = false) :
    Inv es s t 1 [(s, [s])] [] [] where
  kpos := Nat.le_refl _
  lenA := by intro e he; simp at he; subst he; rfl
  lenB := by intro e he; cases he
  eqk := by
    intro x hx
    right
    cases hx with
    | base => exact ⟨(s, [s]), by simp, hs⟩
    | step h _ _ _ => exact absurd h.pos (by omega)
  ltk := by intro n x hn hx; exact absurd hx.pos (by omega)
  clos := by intro v hv; cases hv
  ntV := by intro v hv; cases hv
  ntQ := by intro e he; simp at he; subst he; exact hst

/-- when the layer-`k` part of the queue is empty, the invariant holds for layer `k+1` -/
theorem inv_shift {es : List (UC × UC)} {s t : UC} {k : Nat} {B : List (UC × List UC)}
    {vis : List UC} (h : Inv es s t k [] B vis) : Inv es s t (k + 1) B [] vis := by
  have hlt : ∀ n x, n < k + 1 → Reach es s n x → InV vis x := by
    intro n x hn hx
    by_cases hnk : n < k
    · exact h.ltk n x hnk hx
    · have : n = k := by omega
      subst this
      rcases h.eqk x hx with h' | ⟨e, he, _⟩
      · exact h'
      · cases he
  exact {
    kpos := by omega
    lenA := h.lenB
    lenB := by intro e he; cases he
    ltk := hlt
    eqk := by
      intro x hx
      cases hx with
      | base => exact absurd h.kpos (by omega)
      | step hy he h1 h2 =>
        rename_i y e
        obtain ⟨v, hv, hvy⟩ := hlt _ _ (Nat.lt_succ_self k) hy
        rcases h.clos v hv e he (beq_trans h1 (beq_symm hvy)) with h' | ⟨e', he', h'⟩
        · exact Or.inl (InV_trans h' h2)
        · exact Or.inr ⟨e', by simpa using he', beq_trans h' h2⟩
    clos := by
      intro v hv e he h1
      rcases h.clos v hv e he h1 with h' | ⟨e', he', h'⟩
      · exact Or.inl h'
      · exact Or.inr ⟨e', by simpa using he', h'⟩
    ntV := h.ntV
    ntQ := by intro e he; exact h.ntQ e (by simpa using he) }

/-- popping the head of the layer-`k` part preserves the invariant -/
theorem inv_pop {es : List (UC × UC)} (hr : EdgeRefl es) {s t : UC} {k : Nat} {node : UC}
    {path : List UC} {A B : List (UC × List UC)} {vis : List UC}
    (h : Inv es s t k ((node, path) :: A) B vis)
    (hf : (nexts es node vis).find? (·.beq t) = none) :
    Inv es s t k A (push B path (nexts es node vis)) (visit vis node) where
  kpos := h.kpos
  lenA := by intro e he; exact h.lenA e (List.mem_cons_of_mem _ he)
  lenB := by
    intro e he
    rcases mem_push.mp he with he | ⟨a, _, rfl⟩
    · exact h.lenB e he
    · have := h.lenA (node, path) (by simp)
      simp at this ⊢; exact this
  eqk := by
    intro x hx
    rcases h.eqk x hx with h' | ⟨e, he, h'⟩
    · exact Or.inl (InV_visit_mono h')
    · rcases List.mem_cons.mp he with rfl | he
      · exact Or.inl (InV_visit_self h')
      · exact Or.inr ⟨e, he, h'⟩
  ltk := by intro n x hn hx; exact InV_visit_mono (h.ltk n x hn hx)
  clos := by
    intro v hv e he h1
    rcases mem_visit hv with hv | rfl
    · rcases h.clos v hv e he h1 with h' | ⟨e', he', h'⟩
      · exact Or.inl (InV_visit_mono h')
      · rw [List.cons_append] at he'
        rcases List.mem_cons.mp he' with rfl | he'
        · exact Or.inl (InV_visit_self h')
        · refine Or.inr ⟨e', ?_, h'⟩
          rcases List.mem_append.mp he' with he' | he'
          · exact List.mem_append_left _ he'
          · exact List.mem_append_right _ (mem_push.mpr (Or.inl he'))
    · obtain ⟨a, ha, hae⟩ := adj_cover he h1 (hr e he)
      by_cases hin : InV (visit vis v) a
      · exact Or.inl (InV_trans hin hae)
      · refine Or.inr ⟨(a, path ++ [a]), ?_, hae⟩
        exact List.mem_append_right _
          (mem_push.mpr (Or.inr ⟨a, mem_nexts.mpr ⟨ha, hin⟩, rfl⟩))
  ntV := by
    intro v hv
    rcases mem_visit hv with hv | rfl
    · exact h.ntV v hv
    · exact h.ntQ (v, path) (by simp)
  ntQ := by
    intro e he
    rcases List.mem_append.mp he with he | he
    · exact h.ntQ e (by simp [he])
    · rcases mem_push.mp he with he | ⟨a, ha, rfl⟩
      · exact h.ntQ e (by simp [he])
      · have := List.find?_eq_none.mp hf a ha
        simpa using this

/-- the queue is `A ++ B` with `A` the remaining layer-`k` entries and `B` the layer-`k+1` ones -/
def LInv (es : List (UC × UC)) (s t : UC) (q : List (UC × List UC)) (vis : List UC) : Prop :=
  ∃ k A B, q = A ++ B ∧ Inv es s t k A B vis

/-- normal form: the popped head belongs to the current layer -/
theorem linv_head {es : List (UC × UC)} {s t : UC} {hd : UC × List UC}
    {rest : List (UC × List UC)} {vis : List UC} (h : LInv es s t (hd :: rest) vis) :
    ∃ k A B, rest = A ++ B ∧ Inv es s t k (hd :: A) B vis := by
  obtain ⟨k, A, B, hq, hI⟩ := h
  cases A with
  | nil =>
    simp only [List.nil_append] at hq
    subst hq
    exact ⟨k + 1, rest, [], by simp, inv_shift hI⟩
  | cons a A =>
    simp only [List.cons_append, List.cons.injEq] at hq
    obtain ⟨rfl, rfl⟩ := hq
    exact ⟨k, A, B, rfl, hI⟩

theorem linv_step {es : List (UC × UC)} (hr : EdgeRefl es) {s t node : UC} {path : List UC}
    {rest : List (UC × List UC)} {vis : List UC} (h : LInv es s t ((node, path) :: rest) vis)
    (hf : (nexts es node vis).find? (·.beq t) = none) :
    LInv es s t (push rest path (nexts es node vis)) (visit vis node) := by
  obtain ⟨k, A, B, rfl, hI⟩ := linv_head h
  refine ⟨k, A, push B path (nexts es node vis), ?_, inv_pop hr hI hf⟩
  unfold push; rw [List.append_assoc]

/-- under the invariant no node `==` target is reachable by a walk of at most `k` nodes -/
theorem inv_no_target {es : List (UC × UC)} {s t : UC} {k : Nat} {A B : List (UC × List UC)}
    {vis : List UC} (h : Inv es s t k A B vis) {n : Nat} {x : UC} (hx : Reach es s n x)
    (hxt : x.beq t = true) : k < n := by
  apply Nat.lt_of_not_le
  intro hle
  have hv : ∀ v ∈ vis, v.beq x = true → False := by
    intro v hv hvx
    have := h.ntV v hv
    rw [beq_trans hvx hxt] at this; cases this
  by_cases hlt : n < k
  · obtain ⟨v, hv', hvx⟩ := h.ltk n x hlt hx
    exact hv v hv' hvx
  · have : n = k := by omega
    subst this
    rcases h.eqk x hx with ⟨v, hv', hvx⟩ | ⟨e, he, hex⟩
    · exact hv v hv' hvx
    · have := h.ntQ e (List.mem_append_left _ he)
      rw [beq_trans hex hxt] at this; cases this

/-! ### (3) minimality -/

theorem bfs_min {es : List (UC × UC)} (hr : EdgeRefl es) {s t : UC} {fuel : Nat}
    {q : List (UC × List UC)} {vis p : List UC} (hq : LInv es s t q vis)
    (h : bfs es t fuel q vis = some p) {n : Nat} {x : UC} (hx : Reach es s n x)
    (hxt : x.beq t = true) : p.length ≤ n := by
  obtain ⟨node, path, rest, vis', a, hP, _, rfl⟩ :=
    bfs_some_induct (es := es) (t := t) (LInv es s t)
      (fun node path rest vis hP hf => linv_step hr hP hf) fuel q vis p hq h
  obtain ⟨k, A, B, _, hI⟩ := linv_head hP
  have h1 := inv_no_target hI hx hxt
  have h2 := hI.lenA (node, path) (by simp)
  simp at h2 ⊢
  omega

/-- (3) the returned path has the fewest nodes among all walks from `s` to a node `==` `t`.
    Hypotheses: `s == s` and every edge target is `==` to itself. -/
theorem bfs_shortest {es : List (UC × UC)} (hr : EdgeRefl es) {s t : UC} (hs : s.beq s = true)
    {p : List UC} (h : findShortestPath es s t = some p) :
    ∀ p' : List UC, isPath es p' = true → p'.head? = some s →
      (∃ last, p'.getLast? = some last ∧ last.beq t = true) → p.length ≤ p'.length := by
  intro p' hp' hh' ⟨l, hl, hlt⟩
  have hx := reach_of_isPath hp' hh' hl
  unfold findShortestPath at h
  split at h
  next =>
    simp only [Option.some.injEq] at h; subst h
    exact hx.pos
  next hst =>
    have hst' : s.beq t = false := by simpa using hst
    exact bfs_min hr ⟨1, _, _, rfl, inv_init hs hst'⟩ h hx hlt

/-! ### (2) completeness, fuel-explicit -/

theorem bfs_none_unreach {es : List (UC × UC)} (hr : EdgeRefl es) {s t : UC} {fuel : Nat}
    {q : List (UC × List UC)} {vis : List UC} (hq : LInv es s t q vis)
    (h : bfs es t fuel q vis = none) (hx : bfsExhausts es t fuel q vis = false) :
    ∀ n x, Reach es s n x → x.beq t = false := by
  obtain ⟨vis', k, A, B, hq', hI⟩ :=
    bfs_none_induct (es := es) (t := t) (LInv es s t)
      (fun node path rest vis hP hf => linv_step hr hP hf) fuel q vis hq h hx
  have hAB : A = [] ∧ B = [] := by
    cases A with
    | nil => cases B with
      | nil => exact ⟨rfl, rfl⟩
      | cons b B => simp at hq'
    | cons a A => simp at hq'
  obtain ⟨rfl, rfl⟩ := hAB
  have hall : ∀ j, Inv es s t (k + j) [] [] vis' := by
    intro j
    induction j with
    | zero => exact hI
    | succ j ih => exact inv_shift ih
  intro n x hxr
  cases hxt : x.beq t with
  | false => rfl
  | true =>
    have := inv_no_target (hall n) hxr hxt
    omega

/-! ### the fuel `bfsFuel es` bounds the number of iterations

  A node is marked visited when popped, so the queue may hold many entries per node.  Potential:
  with `B = es.length + 1` and `unvis es vis` the number of edges whose target is not yet `==` to
  a visited node, a queue entry `(node, _)` weighs `B ^ unvis es (visit vis node)`.  Weights never
  grow when `vis` grows.  An iteration that does not return replaces the popped entry, of weight
  `B ^ u` with `u = unvis es (visit vis node)`, by at most `es.length = B - 1` entries `(a, _)`
  where `a` is an edge target not yet visited, hence each of weight at most `B ^ (u - 1)`:
  the potential strictly decreases. -/

/-- the edge target of `e` is not `==` to a visited node -/
def unv (vis : List UC) (e : UC × UC) : Bool := !(vis.any (·.beq e.2))

theorem unv_iff {vis : List UC} {e : UC × UC} : unv vis e = true ↔ ¬ InV vis e.2 := by
  unfold unv
  rw [← any_iff_InV]
  cases vis.any (·.beq e.2) <;> simp

theorem unv_false_iff {vis : List UC} {e : UC × UC} : unv vis e = false ↔ InV vis e.2 := by
  unfold unv
  rw [← any_iff_InV]
  cases vis.any (·.beq e.2) <;> simp

/-- number of edges whose target is not visited -/
def unvis (es : List (UC × UC)) (vis : List UC) : Nat := es.countP (unv vis)

theorem unvis_le (es : List (UC × UC)) (vis : List UC) : unvis es vis ≤ es.length :=
  List.countP_le_length

theorem InV_visit_iff {vis : List UC} {n x : UC} :
    InV (visit vis n) x ↔ InV vis x ∨ n.beq x = true := by
  constructor
  · rintro ⟨v, hv, hvx⟩
    rcases mem_visit hv with h | rfl
    · exact Or.inl ⟨v, h, hvx⟩
    · exact Or.inr hvx
  · rintro (h | h)
    · exact InV_visit_mono h
    · exact InV_visit_self h

theorem unvis_mono {es : List (UC × UC)} {v1 v2 : List UC} (h : ∀ x, InV v1 x → InV v2 x) :
    unvis es v2 ≤ unvis es v1 := by
  unfold unvis
  apply List.countP_mono_left
  intro e _ he
  rw [unv_iff] at he ⊢
  exact fun h1 => he (h _ h1)

theorem countP_lt_of {α : Type} {p q : α → Bool} {l : List α}
    (h : ∀ x ∈ l, p x = true → q x = true) {a : α} (ha : a ∈ l) (hq : q a = true)
    (hp : p a = false) : l.countP p < l.countP q := by
  induction l with
  | nil => cases ha
  | cons b l ih =>
    have hmono : l.countP p ≤ l.countP q :=
      List.countP_mono_left (fun x hx => h x (List.mem_cons_of_mem _ hx))
    rw [List.countP_cons, List.countP_cons]
    rcases List.mem_cons.mp ha with rfl | ha
    · rw [hp, hq]; simp; omega
    · have ih := ih (fun x hx => h x (List.mem_cons_of_mem _ hx)) ha
      have hb := h b (by simp)
      cases hpb : p b with
      | false => simp; omega
      | true => rw [hb hpb]; simp; omega

theorem unvis_lt {es : List (UC × UC)} {v1 v2 : List UC} (h : ∀ x, InV v1 x → InV v2 x)
    {e : UC × UC} (he : e ∈ es) (h1 : ¬ InV v1 e.2) (h2 : InV v2 e.2) :
    unvis es v2 < unvis es v1 := by
  unfold unvis
  apply countP_lt_of (a := e) _ he (unv_iff.mpr h1) (unv_false_iff.mpr h2)
  intro e' _ he'
  rw [unv_iff] at he' ⊢
  exact fun h1 => he' (h _ h1)

/-- weight of a queue entry for `node` -/
def wt (es : List (UC × UC)) (vis : List UC) (node : UC) : Nat :=
  (es.length + 1) ^ unvis es (visit vis node)

/-- the potential of the queue -/
def pot (es : List (UC × UC)) (vis : List UC) : List (UC × List UC) → Nat
  | [] => 0
  | e :: q => wt es vis e.1 + pot es vis q

theorem pot_append (es : List (UC × UC)) (vis : List UC) (q1 q2 : List (UC × List UC)) :
    pot es vis (q1 ++ q2) = pot es vis q1 + pot es vis q2 := by
  induction q1 with
  | nil => simp [pot]
  | cons e q1 ih => simp only [List.cons_append, pot, ih]; omega

theorem wt_mono {es : List (UC × UC)} {v1 v2 : List UC} (h : ∀ x, InV v1 x → InV v2 x)
    (n : UC) : wt es v2 n ≤ wt es v1 n := by
  unfold wt
  apply Nat.pow_le_pow_right (Nat.succ_pos _)
  apply unvis_mono
  intro x hx
  rw [InV_visit_iff] at hx ⊢
  rcases hx with hx | hx
  · exact Or.inl (h _ hx)
  · exact Or.inr hx

theorem pot_mono {es : List (UC × UC)} {v1 v2 : List UC} (h : ∀ x, InV v1 x → InV v2 x)
    (q : List (UC × List UC)) : pot es v2 q ≤ pot es v1 q := by
  induction q with
  | nil => exact Nat.le_refl _
  | cons e q ih =>
    simp only [pot]
    exact Nat.add_le_add (wt_mono h _) ih

theorem pot_map_le {es : List (UC × UC)} {vis path : List UC} {u : Nat} (l : List UC)
    (h : ∀ a ∈ l, unvis es (visit vis a) ≤ u) :
    pot es vis (l.map (fun a => (a, path ++ [a]))) ≤ l.length * (es.length + 1) ^ u := by
  induction l with
  | nil => simp [pot]
  | cons a l ih =>
    have ih := ih (fun b hb => h b (List.mem_cons_of_mem _ hb))
    have ha : wt es vis a ≤ (es.length + 1) ^ u :=
      Nat.pow_le_pow_right (Nat.succ_pos _) (h a (by simp))
    simp only [List.map_cons, pot, List.length_cons, Nat.succ_mul]
    omega

theorem length_foldl_dedup (l acc : List UC) :
    (l.foldl dedupStep acc).length ≤ acc.length + l.length := by
  induction l generalizing acc with
  | nil => simp
  | cons x l ih =>
    rw [List.foldl_cons]
    have := ih (dedupStep acc x)
    have h2 : (dedupStep acc x).length ≤ acc.length + 1 := by
      unfold dedupStep; split <;> simp
    simp only [List.length_cons]
    omega

theorem length_adj_le (es : List (UC × UC)) (n : UC) : (adj es n).length ≤ es.length := by
  unfold adj
  rw [dedupUC_eq]
  have h1 := length_foldl_dedup ((es.filter (fun e => e.1.beq n)).map (·.2)) []
  have h2 := List.length_filter_le (fun e : UC × UC => e.1.beq n) es
  simp only [List.length_map, List.length_nil] at h1
  omega

theorem length_nexts_le (es : List (UC × UC)) (n : UC) (vis : List UC) :
    (nexts es n vis).length ≤ es.length := by
  unfold nexts
  exact Nat.le_trans (List.length_filter_le _ _) (length_adj_le es n)

/-- the entries pushed by one iteration weigh less than the popped one -/
theorem pot_nexts_lt {es : List (UC × UC)} (hr : EdgeRefl es) (node : UC) (path vis : List UC) :
    pot es (visit vis node) ((nexts es node vis).map (fun a => (a, path ++ [a]))) + 1 ≤
      (es.length + 1) ^ unvis es (visit vis node) := by
  have hlt : ∀ a ∈ nexts es node vis,
      unvis es (visit (visit vis node) a) < unvis es (visit vis node) := by
    intro a ha
    obtain ⟨ha1, ha2⟩ := mem_nexts.mp ha
    obtain ⟨e, he, _, rfl⟩ := mem_adj ha1
    exact unvis_lt (fun x hx => InV_visit_mono hx) he ha2 (InV_visit_self (hr e he))
  cases hu : unvis es (visit vis node) with
  | zero =>
    have hnil : nexts es node vis = [] := by
      cases hn : nexts es node vis with
      | nil => rfl
      | cons a l =>
        have := hlt a (by rw [hn]; simp)
        omega
    rw [hnil]
    simp [pot]
  | succ u =>
    have h1 := pot_map_le (es := es) (vis := visit vis node) (path := path) (u := u)
      (nexts es node vis) (fun a ha => by have := hlt a ha; omega)
    have h2 := Nat.mul_le_mul_right ((es.length + 1) ^ u) (length_nexts_le es node vis)
    have h3 : 1 ≤ (es.length + 1) ^ u := Nat.pow_pos (Nat.succ_pos _)
    rw [Nat.pow_succ, Nat.mul_succ, Nat.mul_comm ((es.length + 1) ^ u) es.length]
    omega

/-- one iteration that does not return strictly decreases the potential -/
theorem pot_step {es : List (UC × UC)} (hr : EdgeRefl es) (node : UC) (path : List UC)
    (rest : List (UC × List UC)) (vis : List UC) :
    pot es (visit vis node) (push rest path (nexts es node vis)) + 1 ≤
      pot es vis ((node, path) :: rest) := by
  unfold push
  rw [pot_append]
  have h1 := pot_mono (es := es) (v1 := vis) (v2 := visit vis node)
    (fun x hx => InV_visit_mono hx) rest
  have h2 := pot_nexts_lt hr node path vis
  simp only [pot, wt]
  omega

/-- a fuel above the potential is never exhausted -/
theorem bfsExhausts_false_of_pot {es : List (UC × UC)} (hr : EdgeRefl es) {t : UC} :
    ∀ (fuel : Nat) (q : List (UC × List UC)) (vis : List UC), pot es vis q < fuel →
      bfsExhausts es t fuel q vis = false := by
  intro fuel
  induction fuel with
  | zero => intro q vis h; omega
  | succ fuel ih =>
    intro q vis h
    match q, h with
    | [], _ => unfold bfsExhausts; rfl
    | (node, path) :: rest, h =>
      unfold bfsExhausts
      cases hf : (nexts es node vis).find? (·.beq t) with
      | some a => rfl
      | none =>
        simp only []
        apply ih
        have := pot_step hr node path rest vis
        omega

/-- the fuel of the model is never exhausted: `findShortestPath` is the unbounded Python loop -/
theorem bfs_fuel_suffices {es : List (UC × UC)} (hr : EdgeRefl es) {s t : UC}
    (hs : s.beq s = true) : bfsExhausts es t (bfsFuel es) [(s, [s])] [] = false := by
  have _ := hs
  apply bfsExhausts_false_of_pot hr
  have h : wt es [] s ≤ (es.length + 1) ^ es.length :=
    Nat.pow_le_pow_right (Nat.succ_pos _) (unvis_le es _)
  simp only [pot, bfsFuel]
  omega

/-- (2) if the search fails and the loop did not run out of fuel, no walk leads from `s` to a
    node `==` `t`. -/
theorem bfs_none_unreachable {es : List (UC × UC)} (hr : EdgeRefl es) {s t : UC}
    (hs : s.beq s = true) (h : findShortestPath es s t = none)
    (hfuel : bfsExhausts es t (bfsFuel es) [(s, [s])] [] = false) :
    ¬ ∃ p, isPath es p = true ∧ p.head? = some s ∧
      (∃ l, p.getLast? = some l ∧ l.beq t = true) := by
  rintro ⟨p, hp, hh, l, hl, hlt⟩
  have hx := reach_of_isPath hp hh hl
  unfold findShortestPath at h
  split at h
  next => cases h
  next hst =>
    have hst' : s.beq t = false := by simpa using hst
    have := bfs_none_unreach hr ⟨1, _, _, rfl, inv_init hs hst'⟩ h hfuel _ _ hx
    rw [hlt] at this; cases this

/-- (2) unconditional completeness: if the search fails, no walk leads from `s` to a node
    `==` `t` (the fuel hypothesis of `bfs_none_unreachable` is discharged by
    `bfs_fuel_suffices`). -/
theorem bfs_none_unreachable_full {es : List (UC × UC)} (hr : EdgeRefl es) {s t : UC}
    (hs : s.beq s = true) (h : findShortestPath es s t = none) :
    ¬ ∃ p, isPath es p = true ∧ p.head? = some s ∧
      (∃ l, p.getLast? = some l ∧ l.beq t = true) :=
  bfs_none_unreachable hr hs h (bfs_fuel_suffices hr hs)

/-- the weak form (kept for reference; the first alternative never happens, see
    `bfs_fuel_suffices`): `none` means the start differs from the target and either the fuel or the
    queue was exhausted (in the second case the target is unreachable). -/
theorem bfs_none_cases {es : List (UC × UC)} (hr : EdgeRefl es) {s t : UC}
    (hs : s.beq s = true) (h : findShortestPath es s t = none) :
    s.beq t = false ∧
    (bfsExhausts es t (bfsFuel es) [(s, [s])] [] = true ∨
      ¬ ∃ p, isPath es p = true ∧ p.head? = some s ∧
        (∃ l, p.getLast? = some l ∧ l.beq t = true)) := by
  constructor
  · unfold findShortestPath at h
    split at h
    · cases h
    · next hst => simpa using hst
  · cases hx : bfsExhausts es t (bfsFuel es) [(s, [s])] [] with
    | true => exact Or.inl rfl
    | false => exact Or.inr (bfs_none_unreachable hr hs h hx)

/-- if the loop finishes within `fuel`, its result does not depend on the fuel: it is the
    result of the unbounded Python loop -/
theorem bfs_fuel_mono {es : List (UC × UC)} {t : UC} (k : Nat) :
    ∀ (fuel : Nat) (q : List (UC × List UC)) (vis : List UC),
      bfsExhausts es t fuel q vis = false →
      bfs es t (fuel + k) q vis = bfs es t fuel q vis ∧
        bfsExhausts es t (fuel + k) q vis = false := by
  intro fuel
  induction fuel with
  | zero =>
    intro q vis hx
    match q, hx with
    | [], _ => exact ⟨by rw [bfs_nil, bfs_nil], by unfold bfsExhausts; rfl⟩
    | _ :: _, hx => simp [bfsExhausts] at hx
  | succ fuel ih =>
    intro q vis hx
    match q, hx with
    | [], _ => exact ⟨by rw [bfs_nil, bfs_nil], by unfold bfsExhausts; rfl⟩
    | (node, path) :: rest, hx =>
      have e : fuel + 1 + k = (fuel + k) + 1 := by omega
      rw [e, bfs_succ, bfs_succ]
      unfold bfsExhausts at hx ⊢
      cases hf : (nexts es node vis).find? (·.beq t) with
      | some a => exact ⟨rfl, rfl⟩
      | none =>
        simp only [hf] at hx ⊢
        exact ih _ _ hx

/-- `UC.beq` is reflexive on containers without duplicate keys -/
theorem lookup_of_mem_nodup {u : UC} (hn : (u.map (·.1)).Nodup) {p : String × Rat} (hp : p ∈ u) :
    u.lookup p.1 = some p.2 := by
  induction u with
  | nil => cases hp
  | cons q u ih =>
    obtain ⟨k', v'⟩ := q
    simp only [List.map_cons, List.nodup_cons] at hn
    rcases List.mem_cons.mp hp with rfl | hp
    · simp [UC.lookup]
    · have hne : k' ≠ p.1 := by
        intro heq; apply hn.1; rw [heq]; exact List.mem_map.mpr ⟨p, hp, rfl⟩
      simp only [UC.lookup, if_neg hne]
      exact ih hn.2 hp

theorem beq_refl_of_nodup {u : UC} (hn : (u.map (·.1)).Nodup) : u.beq u = true := by
  unfold UC.beq
  simp only [Bool.and_self, List.all_eq_true, beq_iff_eq]
  intro p hp
  exact lookup_of_mem_nodup hn hp

theorem edgeRefl_of_nodup {es : List (UC × UC)} (h : ∀ e ∈ es, (e.2.map (·.1)).Nodup) :
    EdgeRefl es := fun e he => beq_refl_of_nodup (h e he)

end Pint.Ctx

section
open Pint.Ctx
#print axioms bfs_path
#print axioms bfs_shortest
#print axioms bfs_none_unreachable
#print axioms bfs_none_cases
#print axioms bfs_fuel_suffices
#print axioms bfs_none_unreachable_full
#print axioms bfs_fuel_mono
#print axioms edgeRefl_of_nodup
end
