/-
  Helper lemmas about the association-list model of `UnitsContainer`.
-/
import PintModel.Model.UC

namespace Pint.UC

@[simp] theorem get_nil (k : String) : get [] k = 0 := rfl
@[simp] theorem get_cons (k' : String) (v : Rat) (t : UC) (k : String) :
    get ((k', v) :: t) k = if k' = k then v else get t k := rfl

@[simp] theorem keys_nil : keys ([] : UC) = [] := rfl
@[simp] theorem keys_cons (p : String × Rat) (t : UC) : keys (p :: t) = p.1 :: keys t := rfl

theorem get_eq_zero_of_not_mem_keys {u : UC} {k : String} (h : k ∉ u.keys) : u.get k = 0 := by
  induction u with
  | nil => rfl
  | cons p t ih =>
    obtain ⟨k', v⟩ := p
    simp only [keys_cons, List.mem_cons, not_or] at h
    simp only [get_cons]
    rw [if_neg (fun e => h.1 e.symm)]
    exact ih h.2

theorem get_set (u : UC) (k : String) (v : Rat) (k' : String) :
    (u.set k v).get k' = if k = k' then v else u.get k' := by
  induction u with
  | nil => simp [set]
  | cons p t ih =>
    obtain ⟨k0, v0⟩ := p
    by_cases h0 : k0 = k
    · subst h0
      by_cases h1 : k0 = k' <;> simp [set, h1]
    · simp only [set, if_neg h0, get_cons, ih]
      by_cases h1 : k0 = k'
      · subst h1; simp [Ne.symm h0]
      · simp [h1]

theorem get_del (u : UC) (k k' : String) :
    (u.del k).get k' = if k = k' then 0 else u.get k' := by
  induction u with
  | nil => simp [del]
  | cons p t ih =>
    obtain ⟨k0, v0⟩ := p
    by_cases h0 : k0 = k
    · subst h0
      simp only [del, if_true, ih, get_cons]
      by_cases h1 : k0 = k' <;> simp [h1]
    · simp only [del, if_neg h0, get_cons, ih]
      by_cases h1 : k0 = k'
      · subst h1; simp; intro e; exact absurd e.symm h0
      · simp [h1]

theorem get_upd (u : UC) (k : String) (nv : Rat) (k' : String) :
    (u.upd k nv).get k' = if k = k' then nv else u.get k' := by
  unfold upd
  by_cases h : nv = 0
  · simp [h, get_del]
  · simp [h, get_set]

theorem keys_set (u : UC) (k : String) (v : Rat) :
    (u.set k v).keys = if k ∈ u.keys then u.keys else u.keys ++ [k] := by
  induction u with
  | nil => simp [set, keys]
  | cons p t ih =>
    obtain ⟨k0, v0⟩ := p
    by_cases h0 : k0 = k
    · subst h0; simp [set, keys]
    · have h0' : ¬ k = k0 := fun e => h0 e.symm
      simp only [set, if_neg h0, keys_cons, ih, List.mem_cons, h0', false_or]
      by_cases hm : k ∈ keys t <;> simp [hm]

theorem nodup_keys_set {u : UC} (h : u.keys.Nodup) (k : String) (v : Rat) : (u.set k v).keys.Nodup := by
  rw [keys_set]
  by_cases hm : k ∈ u.keys
  · simp [hm, h]
  · simp only [hm, if_false]
    rw [List.nodup_append]
    refine ⟨h, by simp, ?_⟩
    intro a ha b hb
    simp at hb; subst hb
    intro e; subst e; exact hm ha

theorem keys_del_sublist (u : UC) (k : String) : (u.del k).keys.Sublist u.keys := by
  induction u with
  | nil => simp [del]
  | cons p t ih =>
    obtain ⟨k0, v0⟩ := p
    by_cases h0 : k0 = k
    · simp only [del, h0, if_true, keys_cons]
      exact List.Sublist.cons _ (h0 ▸ ih)
    · simp only [del, if_neg h0, keys_cons]
      exact List.Sublist.cons_cons _ ih

theorem nodup_keys_del {u : UC} (h : u.keys.Nodup) (k : String) : (u.del k).keys.Nodup :=
  List.Nodup.sublist (keys_del_sublist u k) h

theorem nodup_keys_upd {u : UC} (h : u.keys.Nodup) (k : String) (nv : Rat) : (u.upd k nv).keys.Nodup := by
  unfold upd; split
  · exact nodup_keys_del h k
  · exact nodup_keys_set h k nv

theorem mem_del {u : UC} {k : String} {p : String × Rat} (h : p ∈ u.del k) : p ∈ u := by
  induction u with
  | nil => simp [del] at h
  | cons q t ih =>
    obtain ⟨k0, v0⟩ := q
    by_cases h0 : k0 = k
    · simp only [del, h0, if_true] at h
      exact List.mem_cons_of_mem _ (ih h)
    · simp only [del, if_neg h0, List.mem_cons] at h
      rcases h with h | h
      · exact h ▸ List.mem_cons_self
      · exact List.mem_cons_of_mem _ (ih h)

theorem mem_set {u : UC} {k : String} {v : Rat} {p : String × Rat} (h : p ∈ u.set k v) :
    p ∈ u ∨ p = (k, v) := by
  induction u with
  | nil => simp [set] at h; exact Or.inr h
  | cons q t ih =>
    obtain ⟨k0, v0⟩ := q
    by_cases h0 : k0 = k
    · subst h0
      simp only [set, if_true, List.mem_cons] at h
      rcases h with h | h
      · exact Or.inr h
      · exact Or.inl (List.mem_cons_of_mem _ h)
    · simp only [set, if_neg h0, List.mem_cons] at h
      rcases h with h | h
      · exact Or.inl (h ▸ List.mem_cons_self)
      · rcases ih h with h | h
        · exact Or.inl (List.mem_cons_of_mem _ h)
        · exact Or.inr h

theorem noZero_del {u : UC} (h : u.NoZero) (k : String) : (u.del k).NoZero :=
  fun p hp => h p (mem_del hp)

theorem noZero_set {u : UC} (h : u.NoZero) (k : String) {v : Rat} (hv : v ≠ 0) : (u.set k v).NoZero := by
  intro p hp
  rcases mem_set hp with hp | hp
  · exact h p hp
  · subst hp; exact hv

theorem noZero_upd {u : UC} (h : u.NoZero) (k : String) (nv : Rat) : (u.upd k nv).NoZero := by
  unfold upd; split
  · exact noZero_del h k
  · next hne => exact noZero_set h k hne

theorem canon_upd {u : UC} (h : u.Canon) (k : String) (nv : Rat) : (u.upd k nv).Canon :=
  ⟨nodup_keys_upd h.1 k nv, noZero_upd h.2 k nv⟩

/-- generic fold: `acc[k] = acc[k] + s*v` with zero removal, over the items of `b` -/
def merge (s : Rat) (a b : UC) : UC := b.foldl (fun acc p => acc.upd p.1 (acc.get p.1 + s * p.2)) a

theorem mul_eq_merge (a b : UC) : a.mul b = merge 1 a b := by
  unfold mul merge; congr; funext acc p; simp

theorem div_eq_merge (a b : UC) : a.div b = merge (-1) a b := by
  unfold div merge; congr; funext acc p
  have : acc.get p.1 - p.2 = acc.get p.1 + -1 * p.2 := by
    rw [Rat.sub_eq_add_neg, Rat.neg_mul, Rat.one_mul]
  rw [this]

theorem canon_merge (s : Rat) {a : UC} (h : a.Canon) (b : UC) : (merge s a b).Canon := by
  unfold merge
  induction b generalizing a with
  | nil => exact h
  | cons p t ih => exact ih (canon_upd h _ _)

theorem get_merge (s : Rat) (a : UC) {b : UC} (hb : b.keys.Nodup) (k : String) :
    (merge s a b).get k = a.get k + s * b.get k := by
  unfold merge
  induction b generalizing a with
  | nil => simp [Rat.mul_zero, Rat.add_zero]
  | cons p t ih =>
    obtain ⟨k0, v0⟩ := p
    simp only [keys_cons, List.nodup_cons] at hb
    simp only [List.foldl_cons]
    rw [ih _ hb.2, get_upd, get_cons]
    by_cases h0 : k0 = k
    · subst h0
      simp only [if_true]
      rw [get_eq_zero_of_not_mem_keys hb.1, Rat.mul_zero, Rat.add_zero]
    · simp [h0]

theorem mem_get_of_nodup {u : UC} (h : u.keys.Nodup) {k : String} {v : Rat} (hm : (k, v) ∈ u) : u.get k = v := by
  induction u with
  | nil => simp at hm
  | cons p t ih =>
    obtain ⟨k0, v0⟩ := p
    simp only [keys_cons, List.nodup_cons] at h
    simp only [List.mem_cons, Prod.mk.injEq] at hm
    rcases hm with ⟨e1, e2⟩ | hm
    · subst e1; subst e2; simp
    · have : k0 ≠ k := by
        intro e; subst e
        exact h.1 (List.mem_map_of_mem (f := Prod.fst) hm)
      simp [this, ih h.2 hm]

theorem mem_of_get_ne_zero {u : UC} {k : String} (h : u.get k ≠ 0) : (k, u.get k) ∈ u := by
  induction u with
  | nil => simp at h
  | cons p t ih =>
    obtain ⟨k0, v0⟩ := p
    by_cases h0 : k0 = k
    · subst h0; simp
    · simp only [get_cons, if_neg h0] at h ⊢
      exact List.mem_cons_of_mem _ (ih h)

theorem lookup_eq_some_iff_mem {u : UC} (h : u.keys.Nodup) (k : String) (v : Rat) :
    u.lookup k = some v ↔ (k, v) ∈ u := by
  induction u with
  | nil => simp [lookup]
  | cons p t ih =>
    obtain ⟨k0, v0⟩ := p
    simp only [keys_cons, List.nodup_cons] at h
    by_cases h0 : k0 = k
    · subst h0
      simp only [lookup, if_true, Option.some.injEq, List.mem_cons, Prod.mk.injEq, true_and]
      constructor
      · intro e; exact Or.inl e.symm
      · rintro (e | hm)
        · exact e.symm
        · exact absurd (List.mem_map_of_mem (f := Prod.fst) hm) h.1
    · simp only [lookup, if_neg h0, List.mem_cons, Prod.mk.injEq, ih h.2]
      constructor
      · intro hm; exact Or.inr hm
      · rintro (⟨e, _⟩ | hm)
        · exact absurd e.symm h0
        · exact hm

theorem keys_pow_sublist (a : UC) (r : Rat) : (a.pow r).keys.Sublist a.keys := by
  induction a with
  | nil => simp [pow]
  | cons p t ih =>
    obtain ⟨k0, v0⟩ := p
    unfold pow at ih ⊢
    simp only [List.filterMap_cons]
    split
    · exact List.Sublist.cons _ ih
    · next b h =>
      split at h
      · simp at h
      · simp only [Option.some.injEq] at h; subst h
        exact List.Sublist.cons_cons _ ih

theorem noZero_pow (a : UC) (r : Rat) : (a.pow r).NoZero := by
  intro p hp
  unfold pow at hp
  simp only [List.mem_filterMap] at hp
  obtain ⟨q, _, hq⟩ := hp
  split at hq
  · simp at hq
  · next hne => simp only [Option.some.injEq] at hq; subst hq; exact hne

theorem get_pow {a : UC} (h : a.keys.Nodup) (r : Rat) (k : String) : (a.pow r).get k = a.get k * r := by
  induction a with
  | nil => simp [pow, Rat.zero_mul]
  | cons p t ih =>
    obtain ⟨k0, v0⟩ := p
    simp only [keys_cons, List.nodup_cons] at h
    have ih' := ih h.2
    unfold pow at ih' ⊢
    simp only [List.filterMap_cons]
    by_cases hz : v0 * r = 0
    · simp only [hz, if_true, get_cons]
      by_cases h0 : k0 = k
      · subst h0
        simp only [if_true, hz]
        have : k0 ∉ (pow t r).keys := fun hm => h.1 ((keys_pow_sublist t r).subset hm)
        exact get_eq_zero_of_not_mem_keys this
      · simp [h0, ih']
    · simp only [hz, if_false, get_cons]
      by_cases h0 : k0 = k
      · simp [h0]
      · simp [h0, ih']

end Pint.UC
