/-
  Soundness of the Buckingham-pi model (`PintModel/Model/Pi.lean`):
  every row returned by `piRows matrix` is a dimensionless monomial.

  Route: the Gaussian elimination keeps the invariant
     row i of `ech`  =  Σ_k (row i of `idm`)[k] • (row k of A)        (A := transpose matrix)
  (stated entrywise through `wsum`).  A zero row of `ech` therefore gives a vanishing linear
  combination of the quantity rows, i.e. a dimensionless monomial.
-/
import PintModel.Model.Pi

namespace Pint.Pi

/-! ### weighted sums `Σ_k c[k] * f k` -/

def wsum : Row → (Nat → Rat) → Rat
  | [], _ => 0
  | c :: cs, f => c * f 0 + wsum cs (fun k => f (k + 1))

@[simp] theorem wsum_nil (f : Nat → Rat) : wsum [] f = 0 := rfl
@[simp] theorem wsum_cons (c : Rat) (cs : Row) (f : Nat → Rat) :
    wsum (c :: cs) f = c * f 0 + wsum cs (fun k => f (k + 1)) := rfl

theorem wsum_congr {c : Row} {f g : Nat → Rat} (h : ∀ k, k < c.length → f k = g k) :
    wsum c f = wsum c g := by
  induction c generalizing f g with
  | nil => rfl
  | cons a t ih =>
    simp only [wsum_cons]
    rw [h 0 (by simp), ih (fun k hk => h (k + 1) (by simpa using hk))]

theorem wsum_zero (c : Row) {f : Nat → Rat} (h : ∀ k, f k = 0) : wsum c f = 0 := by
  induction c generalizing f with
  | nil => rfl
  | cons a t ih =>
    simp only [wsum_cons]
    rw [h 0, ih (fun k => h (k + 1))]; grind

theorem wsum_map_div (c : Row) (lv : Rat) (f : Nat → Rat) :
    wsum (c.map (· / lv)) f = wsum c f / lv := by
  induction c generalizing f with
  | nil => simp [Rat.div_def]
  | cons a t ih =>
    rw [List.map_cons, wsum_cons, ih, wsum_cons]; simp only [Rat.div_def]; grind

theorem wsum_map_scale (c : Row) (a b : Rat) (f : Nat → Rat) :
    wsum (c.map (fun x => a * x * b)) f = a * b * wsum c f := by
  induction c generalizing f with
  | nil => simp
  | cons x t ih =>
    simp only [List.map_cons, wsum_cons, ih]; grind

theorem wsum_elim (p c : Row) (lv : Rat) (f : Nat → Rat) (h : p.length = c.length) :
    wsum (List.zipWith (fun rv iv => iv - lv * rv) p c) f = wsum c f - lv * wsum p f := by
  induction p generalizing c f with
  | nil =>
    cases c with
    | nil => simp only [List.zipWith_nil_left, wsum_nil]; grind
    | cons b u => simp at h
  | cons a t ih =>
    cases c with
    | nil => simp at h
    | cons b u =>
      simp only [List.zipWith_cons_cons, wsum_cons]
      rw [ih _ _ (by simpa using h)]; grind

theorem wsum_append (a b : Row) (f : Nat → Rat) :
    wsum (a ++ b) f = wsum a f + wsum b (fun k => f (k + a.length)) := by
  induction a generalizing f with
  | nil => simp only [List.nil_append, wsum_nil, List.length_nil, Nat.add_zero]; grind
  | cons x t ih =>
    simp only [List.cons_append, wsum_cons, ih, List.length_cons]
    have : (fun k => f (k + t.length + 1)) = (fun k => f (k + (t.length + 1))) := rfl
    rw [this]; grind

theorem wsum_indicator (n i : Nat) (f : Nat → Rat) :
    wsum ((List.range n).map fun j => if i = j then (1 : Rat) else 0) f
      = if i < n then f i else 0 := by
  induction n with
  | zero => simp
  | succ n ih =>
    rw [List.range_succ, List.map_append, wsum_append, ih]
    simp only [List.map_cons, List.map_nil, wsum_cons, wsum_nil, List.length_map,
      List.length_range, Nat.zero_add]
    by_cases h1 : i < n
    · have h2 : i ≠ n := by omega
      have h3 : i < n + 1 := by omega
      simp only [h1, h2, h3, if_true, if_false]; grind
    · by_cases h2 : i = n
      · subst h2; simp; grind
      · have h3 : ¬ i < n + 1 := by omega
        simp only [h1, h2, h3, if_false]; grind

theorem foldl_add (l : List Rat) (a : Rat) :
    l.foldl (· + ·) a = a + l.foldl (· + ·) 0 := by
  induction l generalizing a with
  | nil => simp only [List.foldl_nil]; grind
  | cons x t ih =>
    simp only [List.foldl_cons]
    rw [ih (a + x), ih (0 + x)]; grind

theorem foldl_zipWith_eq_wsum (d v : Row) :
    (List.zipWith (· * ·) d v).foldl (· + ·) 0 = wsum v (fun k => d.getD k 0) := by
  induction v generalizing d with
  | nil => simp
  | cons x t ih =>
    cases d with
    | nil =>
      rw [wsum_zero]
      · simp
      · intro k; simp
    | cons y u =>
      simp only [List.zipWith_cons_cons, List.foldl_cons, wsum_cons]
      rw [foldl_add, ih]
      simp only [List.getD_cons_zero, List.getD_cons_succ]; grind

/-! ### rows of matrices -/

theorem getRow_eq_getElem {m : Mat} {i : Nat} (h : i < m.length) : getRow m i = m[i] := by
  simp [getRow, List.getD_eq_getElem?_getD, h]

theorem getRow_of_le {m : Mat} {i : Nat} (h : m.length ≤ i) : getRow m i = [] := by
  simp [getRow, List.getD_eq_getElem?_getD, h]

@[simp] theorem length_setRow (m : Mat) (i : Nat) (r : Row) : (setRow m i r).length = m.length := by
  simp [setRow]

theorem getRow_setRow (m : Mat) (i k : Nat) (r : Row) :
    getRow (setRow m i r) k = if i = k ∧ i < m.length then r else getRow m k := by
  unfold getRow setRow
  simp only [List.getD_eq_getElem?_getD, List.getElem?_set]
  by_cases h1 : i = k
  · subst h1
    by_cases h2 : i < m.length
    · simp [h2]
    · simp [h2]
  · simp [h1]

@[simp] theorem length_swapRows (m : Mat) (i j : Nat) : (swapRows m i j).length = m.length := by
  simp [swapRows]

theorem getRow_swapRows (m : Mat) (i j k : Nat) (hi : i < m.length) (hj : j < m.length) :
    getRow (swapRows m i j) k
      = if k = j then getRow m i else if k = i then getRow m j else getRow m k := by
  simp only [swapRows, getRow_setRow, length_setRow]
  by_cases h1 : k = j
  · subst h1; simp [hj]
  · by_cases h2 : k = i
    · subst h2
      have : ¬ j = k := fun h => h1 h.symm
      simp [this, hi, h1]
    · have h1' : ¬ j = k := fun h => h1 h.symm
      have h2' : ¬ i = k := fun h => h2 h.symm
      simp [h1, h2, h1', h2']

/-! ### the invariant -/

/-- the pair (row of `ech`, row of `idm`) is well-shaped and the first is the linear combination
    of the rows of `A` with the coefficients of the second -/
def RowOK (A : Mat) (cols L : Nat) (re ri : Row) : Prop :=
  re.length = cols ∧ ri.length = L ∧ ∀ j, re.getD j 0 = wsum ri (fun k => entry A k j)

structure Inv (A : Mat) (rows cols : Nat) (ech idm : Mat) : Prop where
  hel : ech.length = rows
  hil : idm.length = rows
  hrow : ∀ i, i < rows → RowOK A cols rows (getRow ech i) (getRow idm i)

theorem RowOK.scale {A : Mat} {cols L : Nat} {re ri : Row} (h : RowOK A cols L re ri) (lv : Rat) :
    RowOK A cols L (scaleRow re lv) (scaleRow ri lv) := by
  obtain ⟨h1, h2, h3⟩ := h
  refine ⟨by simp [scaleRow, h1], by simp [scaleRow, h2], fun j => ?_⟩
  unfold scaleRow
  rw [wsum_map_div, ← h3 j]
  simp only [List.getD_eq_getElem?_getD, List.getElem?_map]
  cases re[j]? with
  | none => simp [Rat.div_def]
  | some x => simp

theorem RowOK.elim {A : Mat} {cols L : Nat} {pe pi re ri : Row}
    (hp : RowOK A cols L pe pi) (h : RowOK A cols L re ri) (lv : Rat) :
    RowOK A cols L (elimRow pe re lv) (elimRow pi ri lv) := by
  obtain ⟨p1, p2, p3⟩ := hp
  obtain ⟨h1, h2, h3⟩ := h
  refine ⟨by simp [elimRow, h1, p1], by simp [elimRow, h2, p2], fun j => ?_⟩
  unfold elimRow
  rw [wsum_elim _ _ _ _ (by omega), ← h3 j, ← p3 j]
  simp only [List.getD_eq_getElem?_getD, List.getElem?_zipWith]
  by_cases hj : j < cols
  · have a1 : j < pe.length := by omega
    have a2 : j < re.length := by omega
    simp [a1, a2]
  · have a1 : pe.length ≤ j := by omega
    have a2 : re.length ≤ j := by omega
    simp [a1, a2]; grind

theorem Inv.setRow {A : Mat} {rows cols : Nat} {ech idm : Mat} (h : Inv A rows cols ech idm)
    {r : Nat} {re ri : Row} (hr : RowOK A cols rows re ri) :
    Inv A rows cols (setRow ech r re) (setRow idm r ri) := by
  refine ⟨by simp [h.hel], by simp [h.hil], fun i hi => ?_⟩
  rw [getRow_setRow, getRow_setRow, h.hel, h.hil]
  by_cases c : r = i ∧ r < rows
  · rw [if_pos c, if_pos c]; exact hr
  · rw [if_neg c, if_neg c]; exact h.hrow i hi

theorem Inv.swap {A : Mat} {rows cols : Nat} {ech idm : Mat} (h : Inv A rows cols ech idm)
    {s r : Nat} (hs : s < rows) (hr : r < rows) :
    Inv A rows cols (swapRows ech s r) (swapRows idm s r) := by
  refine ⟨by simp [h.hel], by simp [h.hil], fun i hi => ?_⟩
  rw [getRow_swapRows _ _ _ _ (by rw [h.hel]; exact hs) (by rw [h.hel]; exact hr),
    getRow_swapRows _ _ _ _ (by rw [h.hil]; exact hs) (by rw [h.hil]; exact hr)]
  by_cases h1 : i = r
  · rw [if_pos h1, if_pos h1]; exact h.hrow s hs
  · rw [if_neg h1, if_neg h1]
    by_cases h2 : i = s
    · rw [if_pos h2, if_pos h2]; exact h.hrow r hr
    · rw [if_neg h2, if_neg h2]; exact h.hrow i hi

/-! ### the elimination preserves the invariant -/

theorem findPivot_lt {ech : Mat} {rows cols r : Nat} (hr : r < rows) :
    ∀ (fuel s lead : Nat) {s' lead' : Nat}, s < rows →
      findPivot ech rows cols r fuel s lead = some (s', lead') → s' < rows := by
  intro fuel
  induction fuel with
  | zero => intro s lead s' lead' _ h; simp [findPivot] at h
  | succ fuel ih =>
    intro s lead s' lead' hs h
    unfold findPivot at h
    split at h
    · simp only at h
      split at h
      · rename_i hne
        have : s + 1 < rows := by
          have : s + 1 ≠ rows := by simpa using hne
          omega
        exact ih _ _ this h
      · split at h
        · simp at h
        · exact ih _ _ hr h
    · simp only [Option.some.injEq, Prod.mk.injEq] at h
      omega

/-- the body of the inner `for s' in range(rows)` loop -/
def elimStep (pe pi : Row) (r lead : Nat) (acc : Mat × Mat) (s' : Nat) : Mat × Mat :=
  if s' == r then acc else
    let lv' := entry acc.1 s' lead
    (setRow acc.1 s' (elimRow pe (getRow acc.1 s') lv'),
     setRow acc.2 s' (elimRow pi (getRow acc.2 s') lv'))

theorem elimStep_inv {A : Mat} {rows cols : Nat} {pe pi : Row} (hp : RowOK A cols rows pe pi)
    (r lead : Nat) {acc : Mat × Mat} (h : Inv A rows cols acc.1 acc.2) {s' : Nat} (hs : s' < rows) :
    Inv A rows cols (elimStep pe pi r lead acc s').1 (elimStep pe pi r lead acc s').2 := by
  unfold elimStep
  split
  · exact h
  · exact h.setRow (hp.elim (h.hrow s' hs) _)

theorem elimFold_inv {A : Mat} {rows cols : Nat} {pe pi : Row} (hp : RowOK A cols rows pe pi)
    (r lead : Nat) (l : List Nat) (hl : ∀ x ∈ l, x < rows) {acc : Mat × Mat}
    (h : Inv A rows cols acc.1 acc.2) :
    Inv A rows cols (l.foldl (elimStep pe pi r lead) acc).1 (l.foldl (elimStep pe pi r lead) acc).2 := by
  induction l generalizing acc with
  | nil => exact h
  | cons x t ih =>
    simp only [List.foldl_cons]
    exact ih (fun y hy => hl y (List.mem_cons_of_mem _ hy))
      (elimStep_inv hp r lead h (hl x List.mem_cons_self))

theorem stepRow_inv {A : Mat} {rows cols : Nat} {st st' : State} {r : Nat} (hr : r < rows)
    (h : Inv A rows cols st.ech st.idm) (hst : stepRow rows cols st r = some st') :
    Inv A rows cols st'.ech st'.idm := by
  unfold stepRow at hst
  split at hst
  · simp at hst
  · split at hst
    · simp at hst
    · rename_i s lead hfp
      have hs : s < rows := findPivot_lt hr _ _ _ hr hfp
      simp only [Option.some.injEq] at hst
      subst hst
      have h1 := h.swap hs hr
      have h2 := h1.setRow (r := r) ((h1.hrow r hr).scale (entry (swapRows st.ech s r) r lead))
      have hp := h2.hrow r hr
      exact elimFold_inv hp r lead (List.range rows) (fun x hx => by simpa using hx)
        (acc := (_, _)) h2

theorem loop_inv {A : Mat} {rows cols : Nat} (l : List Nat) (hl : ∀ x ∈ l, x < rows) {st : State}
    (h : Inv A rows cols st.ech st.idm) :
    Inv A rows cols (loop rows cols l st).ech (loop rows cols l st).idm := by
  induction l generalizing st with
  | nil => exact h
  | cons r rs ih =>
    unfold loop
    split
    · exact h
    · rename_i st' hst
      exact ih (fun y hy => hl y (List.mem_cons_of_mem _ hy))
        (stepRow_inv (hl r List.mem_cons_self) h hst)

/-! ### the initial state -/

theorem length_identity (n : Nat) : (identity n).length = n := by simp [identity]

theorem getRow_identity {n i : Nat} (h : i < n) :
    getRow (identity n) i = (List.range n).map fun j => if i = j then (1 : Rat) else 0 := by
  rw [getRow_eq_getElem (by rw [length_identity]; exact h)]
  simp [identity]

theorem inv_init (A : Mat) (c : Nat) (hA : ∀ row ∈ A, row.length = c) :
    Inv A A.length (A.headD []).length A (identity A.length) := by
  refine ⟨rfl, length_identity _, fun i hi => ?_⟩
  rw [getRow_identity hi]
  refine ⟨?_, by simp, fun j => ?_⟩
  · rw [getRow_eq_getElem hi, hA _ (List.getElem_mem hi)]
    cases A with
    | nil => simp at hi
    | cons a t => simp [hA a List.mem_cons_self]
  · rw [wsum_indicator, if_pos hi]; rfl

/-! ### `transpose` -/

theorem length_transpose_cons (r : Row) (t : Mat) : (transpose (r :: t)).length = r.length := by
  simp [transpose]

theorem transpose_row_length (m : Mat) : ∀ row ∈ transpose m, row.length = m.length := by
  intro row h
  cases m with
  | nil => simp [transpose] at h
  | cons r t =>
    simp only [transpose, List.mem_map, List.mem_range] at h
    obtain ⟨j, _, rfl⟩ := h
    simp

theorem entry_transpose_cons (r : Row) (t : Mat) {k : Nat} (hk : k < r.length) (j : Nat)
    (hj : j < (r :: t).length) :
    entry (transpose (r :: t)) k j = ((r :: t)[j]).getD k 0 := by
  unfold entry
  rw [getRow_eq_getElem (by rw [length_transpose_cons]; exact hk)]
  have key : ∀ (m : Mat) (hj : j < m.length),
      (m.map (fun row => row.getD k 0)).getD j 0 = m[j].getD k 0 := by
    intro m hj; simp [List.getD_eq_getElem?_getD, hj]
  simp only [transpose, List.getElem_map, List.getElem_range]
  exact key _ hj

/-! ### soundness -/

/-- the final state of the elimination run by `columnEchelonForm` -/
def finalState (matrix : Mat) : State :=
  let ech := transpose matrix
  let rows := ech.length
  let cols := (ech.headD []).length
  loop rows cols (List.range rows) { ech := ech, idm := identity rows, swapped := [], lead := 0 }

theorem finalState_inv (matrix : Mat) :
    Inv (transpose matrix) (transpose matrix).length ((transpose matrix).headD []).length
      (finalState matrix).ech (finalState matrix).idm :=
  loop_inv _ (fun x hx => by simpa using hx)
    (inv_init (transpose matrix) matrix.length (transpose_row_length matrix))

/-- the post-processing of one (echelon row, identity row) pair in `pi_theorem` -/
def extract (p : Row × Row) : Option Row :=
  if p.1.any (· != 0) then none else
    let md : Rat := (maxDen p.2 : Nat)
    let nneg := (p.2.filter (· < 0)).length
    let npos := (p.2.filter (· > 0)).length
    let neg : Rat := if nneg > npos then -1 else 1
    some (p.2.map fun f => neg * f * md)

theorem piRows_eq (matrix : Mat) :
    piRows matrix
      = (List.zip (finalState matrix).ech (finalState matrix).idm).filterMap extract := rfl

/-- Extraction step: given the invariant for the final state, every extracted row is a vanishing
    linear combination of the rows of `A`. -/
theorem extract_sound {A ech idm : Mat} {rows cols : Nat} (h : Inv A rows cols ech idm)
    {v : Row} (hv : v ∈ (List.zip ech idm).filterMap extract) :
    v.length = rows ∧ ∀ j, wsum v (fun k => entry A k j) = 0 := by
  rw [List.mem_filterMap] at hv
  obtain ⟨⟨rowm, rowi⟩, hmem, hex⟩ := hv
  obtain ⟨i, hi, hget⟩ := List.mem_iff_getElem.mp hmem
  rw [List.getElem_zip] at hget
  have hi1 : i < ech.length := by simp at hi; omega
  have hi2 : i < idm.length := by simp at hi; omega
  have hir : i < rows := by rw [← h.hel]; exact hi1
  have hok := h.hrow i hir
  rw [getRow_eq_getElem hi1, getRow_eq_getElem hi2] at hok
  simp only [Prod.mk.injEq] at hget
  rw [hget.1, hget.2] at hok
  obtain ⟨_, hlen, hlin⟩ := hok
  unfold extract at hex
  simp only at hex
  split at hex
  · simp at hex
  · rename_i hany
    simp only [Option.some.injEq] at hex
    subst hex
    refine ⟨by simp [hlen], fun j => ?_⟩
    rw [wsum_map_scale, ← hlin j]
    have : rowm.getD j 0 = 0 := by
      rw [List.getD_eq_getElem?_getD]
      cases hj : rowm[j]? with
      | none => rfl
      | some x =>
        have hx : x ∈ rowm := List.mem_of_getElem? hj
        have : ¬ (x != 0) = true := fun hne => hany (List.any_eq_true.mpr ⟨x, hx, hne⟩)
        simpa using this
    rw [this]; grind

/-- **Soundness of the pi-theorem model** (no shape hypothesis needed): every returned exponent
    vector is a dimensionless monomial. -/
theorem pi_sound' (matrix : Mat) :
    ∀ v ∈ piRows matrix, ∀ x ∈ monomialDims matrix v, x = 0 := by
  intro v hv x hx
  rw [piRows_eq] at hv
  obtain ⟨hlen, hz⟩ := extract_sound (finalState_inv matrix) hv
  cases matrix with
  | nil => simp [monomialDims] at hx
  | cons r t =>
    unfold monomialDims at hx
    rw [List.mem_map] at hx
    obtain ⟨dimRow, hd, rfl⟩ := hx
    obtain ⟨j, hj, rfl⟩ := List.mem_iff_getElem.mp hd
    rw [foldl_zipWith_eq_wsum]
    refine Eq.trans ?_ (hz j)
    apply wsum_congr
    intro k hk
    rw [hlen, length_transpose_cons] at hk
    rw [entry_transpose_cons r t hk j hj]

/-- well-formedness of the input: all rows (one per dimension) have the same length -/
def Rect (matrix : Mat) : Prop := ∃ n, ∀ row ∈ matrix, row.length = n

theorem pi_sound (matrix : Mat) (_hrect : Rect matrix) :
    ∀ v ∈ piRows matrix, ∀ x ∈ monomialDims matrix v, x = 0 :=
  pi_sound' matrix

/-- the invariant, stated for the result of `columnEchelonForm`: row `i` of the echelon matrix is
    the linear combination of the rows of `transpose matrix` with coefficients row `i` of the
    transformed identity -/
theorem columnEchelonForm_inv (matrix : Mat) :
    Inv (transpose matrix) (transpose matrix).length ((transpose matrix).headD []).length
      (columnEchelonForm matrix).1 (columnEchelonForm matrix).2.1 :=
  finalState_inv matrix

end Pint.Pi
