/-
  Non-vacuity of the hypotheses of `QtyLemmas` (`Good`, `RootGood`, `WFintOn`) on the bundled
  registry: `1 mile + 1 foot`, `1 mile == 5280 foot`, `1 mile > 1 foot` through the general
  theorems.
-/
import PintModel.Proofs.QtyLemmas
import PintModel.Props.C02

namespace Pint.QtyExamples
open Pint Pint.UC Pint.Registry Pint.Props

abbrev R0 := Gen.defaultRegistry
abbrev S0 : String → Prop := fun k => k ∈ Gen.exactNames

theorem intUC_single (k : String) (n : Int) : IntUC [(k, (n : Rat))] := by
  intro p hp; simp at hp; subst hp; rfl

theorem canon_single (k : String) : UC.Canon [(k, 1)] := by
  refine ⟨by simp [UC.keys], ?_⟩
  intro p hp; simp at hp; subst hp; show (1 : Rat) ≠ 0; decide

set_option maxRecDepth 100000 in
theorem good_mile : GoodU R0 S0 [("mile", 1)] (mkRat 201168 125) [("meter", 1)] [("[length]", 1)] where
  int := intUC_single "mile" 1
  keys := by intro k hk; simp [UC.keys] at hk; subst hk; decide +kernel
  canon := canon_single "mile"
  reg := registered_of_B (by decide +kernel)
  root := C02.ok_of_toOption (by decide +kernel)
  dim := C02.ok_of_toOption (by decide +kernel)

set_option maxRecDepth 100000 in
theorem good_foot : GoodU R0 S0 [("foot", 1)] (mkRat 381 1250) [("meter", 1)] [("[length]", 1)] where
  int := intUC_single "foot" 1
  keys := by intro k hk; simp [UC.keys] at hk; subst hk; decide +kernel
  canon := canon_single "foot"
  reg := registered_of_B (by decide +kernel)
  root := C02.ok_of_toOption (by decide +kernel)
  dim := C02.ok_of_toOption (by decide +kernel)

set_option maxRecDepth 100000 in
theorem good_meter : GoodU R0 S0 [("meter", 1)] 1 [("meter", 1)] [("[length]", 1)] where
  int := intUC_single "meter" 1
  keys := by intro k hk; simp [UC.keys] at hk; subst hk; decide +kernel
  canon := canon_single "meter"
  reg := registered_of_B (by decide +kernel)
  root := C02.ok_of_toOption (by decide +kernel)
  dim := C02.ok_of_toOption (by decide +kernel)

theorem rootGood_meter : RootGood R0 S0 [("meter", 1)] [("[length]", 1)] :=
  ⟨_, _, good_meter, by decide +kernel⟩

/-- `1 mile + 1 foot` through `add_phys_total` -/
example (m : Mode) : ∃ c fc, R0.addSub m .add ⟨1, [("mile", 1)]⟩ (.q ⟨1, [("foot", 1)]⟩) = .ok c ∧
    (c.units = [("mile", 1)] ∧ fc = mkRat 201168 125 ∨ c.units = [("foot", 1)] ∧ fc = mkRat 381 1250) ∧
    c.mag * fc = AddOp.add.app (1 * mkRat 201168 125) (1 * mkRat 381 1250) :=
  add_phys_total C02.C02_default_wfint m .add (a := ⟨1, _⟩) (b := ⟨1, _⟩) good_mile good_foot
    (by decide +kernel)

/-- `1 mile == 5280 foot` through `eq_phys` -/
example (m : Mode) : R0.qeq m ⟨1, [("mile", 1)]⟩ (.q ⟨5280, [("foot", 1)]⟩) = .ok true := by
  rw [eq_phys C02.C02_default_wfint m (a := ⟨1, _⟩) (b := ⟨5280, _⟩) good_mile good_foot]
  congr 1
  decide +kernel

/-- `1 mile > 1 foot` through `compare_phys` -/
example (m : Mode) : R0.compare m .gt ⟨1, [("mile", 1)]⟩ (.q ⟨1, [("foot", 1)]⟩) = .ok true := by
  rw [compare_phys C02.C02_default_wfint m .gt (a := ⟨1, _⟩) (b := ⟨1, _⟩) good_mile good_foot
    (by decide +kernel) (by decide +kernel) rootGood_meter rootGood_meter]
  congr 1
  decide +kernel

/-- `7 mile // 2 foot` through `floordiv_phys` -/
example (m : Mode) : R0.floordiv m ⟨7, [("mile", 1)]⟩ (.q ⟨2, [("foot", 1)]⟩) = .ok ⟨18480, []⟩ := by
  rw [floordiv_phys C02.C02_default_wfint m (a := ⟨7, _⟩) (b := ⟨2, _⟩) good_mile good_foot
    (by decide +kernel) (by decide +kernel)]
  congr 2
  decide +kernel

end Pint.QtyExamples
