/-
  `_get_dimensionality` is a homomorphism: characterisation of `getDimensionality` by the
  denotation `dimVal`, and `dimVal` of products / quotients / powers.
-/
import PintModel.Proofs.DimLemmas
import PintModel.Proofs.SumLemmas

namespace Pint
open UC

theorem noZero_dropZeros (u : UC) : (u.dropZeros).NoZero := by
  intro p hp
  unfold UC.dropZeros at hp
  simp only [List.mem_filter, bne_iff_ne, ne_eq] at hp
  exact hp.2

namespace Registry

theorem fuelOf_succ (R : Registry) : R.fuelOf = (R.units.length + R.dims.length + 1) + 1 := rfl

/-- total characterisation of `getDimensionality` -/
theorem getDim_char (R : Registry) (u : UC) :
    (∃ F du, R.dimVal R.fuelOf u = some F ∧ R.getDimensionality u = .ok du ∧ du.Canon ∧
        ∀ d, du.get d = if d = "[]" then 0 else F d) ∨
    (R.dimVal R.fuelOf u = none ∧ ∃ err, R.getDimensionality u = .error err) := by
  cases u with
  | nil =>
    left
    refine ⟨fun _ => 0, [], ?_, rfl, ⟨List.nodup_nil, fun p hp => by cases hp⟩, ?_⟩
    · rw [fuelOf_succ]; rfl
    · intro d; by_cases h : d = "[]" <;> simp [h]
  | cons p t =>
    unfold getDimensionality
    have he : UC.isEmpty (p :: t) = false := rfl
    simp only [he, Bool.false_eq_true, if_false]
    rcases R.dimRec_spec R.fuelOf (p :: t) 1 [] with ⟨F, r, h1, h2, h3, h4⟩ | ⟨h1, err, h2⟩
    · left
      have hn : r.keys.Nodup := h4 List.nodup_nil
      refine ⟨F, (r.del "[]").dropZeros, h1, by rw [h2], ?_, ?_⟩
      · exact ⟨nodup_keys_dropZeros (nodup_keys_del hn _), noZero_dropZeros _⟩
      · intro d
        rw [get_dropZeros (nodup_keys_del hn _), get_del, h3 d]
        by_cases h : d = "[]"
        · subst h; simp
        · have h' : ¬ "[]" = d := fun e => h e.symm
          simp [h, h', Rat.one_mul, Rat.zero_add]
    · right
      exact ⟨h1, err, by rw [h2]⟩

theorem getDim_canon (R : Registry) {u du : UC} (h : R.getDimensionality u = .ok du) : du.Canon := by
  rcases R.getDim_char u with ⟨F, du', _, h2, h3, _⟩ | ⟨_, err, h2⟩
  · rw [h2] at h; cases h; exact h3
  · rw [h2] at h; cases h

/-- `dimVal` of `merge s a b` (`s = 1`: product, `s = -1`: quotient) -/
theorem dimVal_merge (R : Registry) (n : Nat) (s : Rat) {a b : UC} (hn : a.keys.Nodup)
    {Fa Fb : String → Rat} (ha : R.dimVal (n + 1) a = some Fa) (hb : R.dimVal (n + 1) b = some Fb) :
    ∃ F, R.dimVal (n + 1) (merge s a b) = some F ∧ ∀ d, F d = Fa d + s * Fb d := by
  have ha' := (sumVal_some_iff (R.keyVal (R.dimVal n)) a Fa).mp ha
  have hb' := (sumVal_some_iff (R.keyVal (R.dimVal n)) b Fb).mp hb
  refine ⟨fun d => sumOver (merge s a b) (fun k => ((R.keyVal (R.dimVal n) k).getD (fun _ => 0)) d), ?_, ?_⟩
  · apply (sumVal_some_iff (R.keyVal (R.dimVal n)) (merge s a b) _).mpr
    refine ⟨?_, fun d => rfl⟩
    intro k hk
    rcases keys_merge_subset hk with h | h
    · exact ha'.1 k h
    · exact hb'.1 k h
  · intro d
    show sumOver (merge s a b) _ = _
    rw [sumOver_merge s hn b, ← ha'.2 d, ← hb'.2 d]

theorem dimVal_pow (R : Registry) (n : Nat) (r : Rat) {a : UC} {Fa : String → Rat}
    (ha : R.dimVal (n + 1) a = some Fa) :
    ∃ F, R.dimVal (n + 1) (a.pow r) = some F ∧ ∀ d, F d = r * Fa d := by
  have ha' := (sumVal_some_iff (R.keyVal (R.dimVal n)) a Fa).mp ha
  refine ⟨fun d => sumOver (a.pow r) (fun k => ((R.keyVal (R.dimVal n) k).getD (fun _ => 0)) d), ?_, ?_⟩
  · apply (sumVal_some_iff (R.keyVal (R.dimVal n)) (a.pow r) _).mpr
    exact ⟨fun k hk => ha'.1 k (keys_pow_subset hk), fun d => rfl⟩
  · intro d
    show sumOver (a.pow r) _ = _
    rw [sumOver_pow, ← ha'.2 d]

/-- the dimensionality of `merge s a b` -/
theorem getDim_merge (R : Registry) (s : Rat) {a b da db : UC} (hn : a.keys.Nodup)
    (ha : R.getDimensionality a = .ok da) (hb : R.getDimensionality b = .ok db) :
    ∃ dab, R.getDimensionality (merge s a b) = .ok dab ∧ dab.Canon ∧
      ∀ d, dab.get d = da.get d + s * db.get d := by
  rcases R.getDim_char a with ⟨Fa, da', a1, a2, _, a4⟩ | ⟨_, err, a2⟩
  · rcases R.getDim_char b with ⟨Fb, db', b1, b2, _, b4⟩ | ⟨_, err, b2⟩
    · rw [a2] at ha; cases ha
      rw [b2] at hb; cases hb
      rw [fuelOf_succ] at a1 b1
      obtain ⟨F, hF, hv⟩ := R.dimVal_merge _ s hn a1 b1
      rcases R.getDim_char (merge s a b) with ⟨F', dab, c1, c2, c3, c4⟩ | ⟨c1, _, _⟩
      · rw [fuelOf_succ, hF] at c1
        cases c1
        refine ⟨dab, c2, c3, ?_⟩
        intro d
        rw [c4 d, a4 d, b4 d, hv d]
        by_cases h : d = "[]" <;> simp [h, Rat.mul_zero, Rat.add_zero]
      · rw [fuelOf_succ, hF] at c1; cases c1
    · rw [b2] at hb; cases hb
  · rw [a2] at ha; cases ha

theorem getDim_pow (R : Registry) (r : Rat) {a da : UC}
    (ha : R.getDimensionality a = .ok da) :
    ∃ dr, R.getDimensionality (a.pow r) = .ok dr ∧ dr.Canon ∧ ∀ d, dr.get d = r * da.get d := by
  rcases R.getDim_char a with ⟨Fa, da', a1, a2, _, a4⟩ | ⟨_, err, a2⟩
  · rw [a2] at ha; cases ha
    rw [fuelOf_succ] at a1
    obtain ⟨F, hF, hv⟩ := R.dimVal_pow _ r a1
    rcases R.getDim_char (a.pow r) with ⟨F', dr, c1, c2, c3, c4⟩ | ⟨c1, _, _⟩
    · rw [fuelOf_succ, hF] at c1
      cases c1
      refine ⟨dr, c2, c3, ?_⟩
      intro d
      rw [c4 d, a4 d, hv d]
      by_cases h : d = "[]" <;> simp [h, Rat.mul_zero]
    · rw [fuelOf_succ, hF] at c1; cases c1
  · rw [a2] at ha; cases ha

end Registry
end Pint
