/-
  Helper lemmas for C09Denote: what `prodDenote` / `FExpr.denote` read at a key, permutation
  invariance of `UC.get` over lists with distinct keys, the shape of `prepare`, and the monadic
  bookkeeping that identifies `formatter` with `FExpr.render ∘ formatterExpr`.
-/
import PintModel.Model.FormatDenote
import PintModel.Proofs.UCLemmas

deriving instance DecidableEq for Pint.Fmt.FExpr

namespace Pint.Fmt.DenoteLemmas
open Pint Pint.Fmt

/-! ### the sum of the exponents written for a name -/

/-- the sum of all exponents stored under `k` (equals `get` when keys are distinct) -/
def sumGet : UC → String → Rat
  | [], _ => 0
  | (k', v) :: t, k => (if k' = k then v else 0) + sumGet t k

@[simp] theorem sumGet_nil (k : String) : sumGet [] k = 0 := rfl
@[simp] theorem sumGet_cons (k' : String) (v : Rat) (t : UC) (k : String) :
    sumGet ((k', v) :: t) k = (if k' = k then v else 0) + sumGet t k := rfl

theorem sumGet_append (a b : UC) (k : String) : sumGet (a ++ b) k = sumGet a k + sumGet b k := by
  induction a with
  | nil => simp [Rat.zero_add]
  | cons p t ih =>
    obtain ⟨k0, v0⟩ := p
    simp only [List.cons_append, sumGet_cons, ih]
    grind

theorem sumGet_eq_zero_of_not_mem_keys {u : UC} {k : String} (h : k ∉ u.keys) : sumGet u k = 0 := by
  induction u with
  | nil => rfl
  | cons p t ih =>
    obtain ⟨k0, v0⟩ := p
    simp only [UC.keys_cons, List.mem_cons, not_or] at h
    have hne : ¬ k0 = k := fun e => h.1 e.symm
    simp only [sumGet_cons, if_neg hne, ih h.2]
    grind

theorem sumGet_eq_get {u : UC} (h : u.keys.Nodup) (k : String) : sumGet u k = u.get k := by
  induction u with
  | nil => rfl
  | cons p t ih =>
    obtain ⟨k0, v0⟩ := p
    simp only [UC.keys_cons, List.nodup_cons] at h
    simp only [sumGet_cons, UC.get_cons]
    by_cases h0 : k0 = k
    · subst h0
      simp only [if_true, sumGet_eq_zero_of_not_mem_keys h.1]
      grind
    · simp only [if_neg h0, ih h.2]
      grind

theorem sumGet_perm {a b : UC} (h : a.Perm b) (k : String) : sumGet a k = sumGet b k := by
  induction h with
  | nil => rfl
  | cons x _ ih => obtain ⟨k0, v0⟩ := x; simp only [sumGet_cons, ih]
  | swap x y l =>
    obtain ⟨k0, v0⟩ := x; obtain ⟨k1, v1⟩ := y
    simp only [sumGet_cons]; grind
  | trans _ _ ih1 ih2 => exact ih1.trans ih2

theorem keys_perm {a b : UC} (h : a.Perm b) : a.keys.Perm b.keys := h.map _

/-- `get` over lists with distinct keys does not depend on the order -/
theorem get_perm {a b : UC} (h : a.Perm b) (hb : b.keys.Nodup) (k : String) : a.get k = b.get k := by
  have ha : a.keys.Nodup := (keys_perm h).nodup_iff.mpr hb
  rw [← sumGet_eq_get ha, ← sumGet_eq_get hb]
  exact sumGet_perm h k

theorem sumGet_map_neg (u : UC) (k : String) :
    sumGet (u.map fun p => (p.1, -p.2)) k = - sumGet u k := by
  induction u with
  | nil => simp
  | cons p t ih =>
    obtain ⟨k0, v0⟩ := p
    simp only [List.map_cons, sumGet_cons, ih]
    by_cases h0 : k0 = k <;> simp only [h0, if_true, if_false] <;> grind

/-! ### what the written structure reads at a key -/

/-- the items a list of written terms stands for -/
def toUC (ts : List FTerm) : UC := ts.map fun t => (t.name, t.exp.getD 1)

@[simp] theorem toUC_nil : toUC [] = [] := rfl
@[simp] theorem toUC_cons (t : FTerm) (ts : List FTerm) :
    toUC (t :: ts) = (t.name, t.exp.getD 1) :: toUC ts := rfl

theorem toUC_append (a b : List FTerm) : toUC (a ++ b) = toUC a ++ toUC b := by
  simp [toUC]

theorem keys_toUC (ts : List FTerm) : (toUC ts).keys = ts.map (·.name) := by
  simp [toUC, UC.keys]

theorem get_mul_denote (a : UC) (t : FTerm) (k : String) :
    (a.mul t.denote).get k = a.get k + (if t.name = k then t.exp.getD 1 else 0) := by
  show ((a.upd t.name (a.get t.name + t.exp.getD 1)).get k) = _
  rw [UC.get_upd]
  by_cases h : t.name = k
  · subst h; simp
  · simp only [if_neg h]; grind

theorem get_div_denote (a : UC) (t : FTerm) (k : String) :
    (a.div t.denote).get k = a.get k - (if t.name = k then t.exp.getD 1 else 0) := by
  show ((a.upd t.name (a.get t.name - t.exp.getD 1)).get k) = _
  rw [UC.get_upd]
  by_cases h : t.name = k
  · subst h; simp
  · simp only [if_neg h]; grind

theorem get_foldl_mul (ts : List FTerm) (a : UC) (k : String) :
    (ts.foldl (fun acc t => acc.mul t.denote) a).get k = a.get k + sumGet (toUC ts) k := by
  induction ts generalizing a with
  | nil => simp [Rat.add_zero]
  | cons t ts ih =>
    simp only [List.foldl_cons, ih, get_mul_denote, toUC_cons, sumGet_cons]
    grind

theorem get_foldl_div (ts : List FTerm) (a : UC) (k : String) :
    (ts.foldl (fun acc t => acc.div t.denote) a).get k = a.get k - sumGet (toUC ts) k := by
  induction ts generalizing a with
  | nil => simp [Rat.sub_eq_add_neg, Rat.add_zero]
  | cons t ts ih =>
    simp only [List.foldl_cons, ih, get_div_denote, toUC_cons, sumGet_cons]
    grind

theorem get_prodDenote (ts : List FTerm) (k : String) :
    (prodDenote ts).get k = sumGet (toUC ts) k := by
  unfold prodDenote
  rw [get_foldl_mul]
  simp [Rat.zero_add]

theorem canon_nil : UC.Canon ([] : UC) := ⟨List.nodup_nil, fun _ h => absurd h List.not_mem_nil⟩

theorem canon_foldl_mul (ts : List FTerm) {a : UC} (h : a.Canon) :
    (ts.foldl (fun acc t => acc.mul t.denote) a).Canon := by
  induction ts generalizing a with
  | nil => exact h
  | cons t ts ih =>
    simp only [List.foldl_cons]
    apply ih
    rw [UC.mul_eq_merge]
    exact UC.canon_merge 1 h _

theorem canon_prodDenote (ts : List FTerm) : (prodDenote ts).Canon :=
  canon_foldl_mul ts canon_nil

theorem get_denote_prod (ts : List FTerm) (k : String) :
    (FExpr.prod ts).denote.get k = sumGet (toUC ts) k := get_prodDenote ts k

theorem get_denote_numer (ts : List FTerm) (k : String) :
    (FExpr.numer ts).denote.get k = sumGet (toUC ts) k := get_prodDenote ts k

theorem get_denote_ratioSeq (pos neg : List FTerm) (k : String) :
    (FExpr.ratioSeq pos neg).denote.get k = sumGet (toUC pos) k - sumGet (toUC neg) k := by
  show (neg.foldl (fun acc t => acc.div t.denote) (prodDenote pos)).get k = _
  rw [get_foldl_div, get_prodDenote]

theorem get_denote_ratioGroup (pos neg : List FTerm) (k : String) :
    (FExpr.ratioGroup pos neg).denote.get k = sumGet (toUC pos) k - sumGet (toUC neg) k := by
  show ((prodDenote pos).div (prodDenote neg)).get k = _
  rw [UC.div_eq_merge, UC.get_merge _ _ (canon_prodDenote neg).1, get_prodDenote, get_prodDenote]
  grind

/-! ### the terms `formatterExpr` writes -/

/-- the written term of a numerator item -/
def posTerm (asRatio : Bool) (p : String × Rat) : FTerm :=
  if p.2 == 1 then ⟨p.1, none⟩ else ⟨p.1, some (if asRatio then absRat p.2 else p.2)⟩

/-- the written term of a denominator item -/
def negTerm (asRatio : Bool) (p : String × Rat) : FTerm :=
  if p.2 == -1 && asRatio then ⟨p.1, none⟩ else ⟨p.1, some (if asRatio then absRat p.2 else p.2)⟩

/-- the branches of `formatterExpr` over term lists -/
def exprOf (asRatio singleDen : Bool) (pos neg : List FTerm) : FExpr :=
  if pos.isEmpty && neg.isEmpty then .empty
  else if !asRatio then .prod (pos ++ neg)
  else if neg.isEmpty then .numer pos
  else if singleDen then .ratioGroup pos neg
  else .ratioSeq pos neg

theorem formatterExpr_eq (asRatio singleDen : Bool) (num den : List (String × Rat)) :
    formatterExpr asRatio singleDen num den
      = exprOf asRatio singleDen (num.map (posTerm asRatio)) (den.map (negTerm asRatio)) := rfl

theorem absRat_of_pos {v : Rat} (h : 0 < v) : absRat v = v := by
  unfold absRat
  have : ¬ v < 0 := by grind
  simp [this]

theorem absRat_of_neg {v : Rat} (h : v < 0) : absRat v = -v := by
  unfold absRat; simp [h]

theorem toUC_posTerm_true (num : List (String × Rat)) (hn : ∀ p ∈ num, 0 < p.2) :
    toUC (num.map (posTerm true)) = num := by
  induction num with
  | nil => rfl
  | cons p t ih =>
    obtain ⟨k, v⟩ := p
    have hv : 0 < v := hn (k, v) List.mem_cons_self
    rw [List.map_cons, toUC_cons, ih (fun q hq => hn q (List.mem_cons_of_mem _ hq))]
    unfold posTerm
    by_cases h1 : v = 1
    · subst h1; simp
    · have : (v == 1) = false := by simpa using h1
      simp [this, absRat_of_pos hv]

theorem toUC_negTerm_true (den : List (String × Rat)) (hd : ∀ p ∈ den, p.2 < 0) :
    toUC (den.map (negTerm true)) = den.map fun p => (p.1, -p.2) := by
  induction den with
  | nil => rfl
  | cons p t ih =>
    obtain ⟨k, v⟩ := p
    have hv : v < 0 := hd (k, v) List.mem_cons_self
    rw [List.map_cons, toUC_cons, ih (fun q hq => hd q (List.mem_cons_of_mem _ hq))]
    unfold negTerm
    by_cases h1 : v = -1
    · subst h1; simp [Rat.neg_neg]
    · have : (v == -1) = false := by simpa using h1
      simp [this, absRat_of_neg hv]

theorem toUC_posTerm_false (num : List (String × Rat)) :
    toUC (num.map (posTerm false)) = num := by
  induction num with
  | nil => rfl
  | cons p t ih =>
    obtain ⟨k, v⟩ := p
    rw [List.map_cons, toUC_cons, ih]
    unfold posTerm
    by_cases h1 : v = 1
    · subst h1; simp
    · have : (v == 1) = false := by simpa using h1
      simp [this]

theorem toUC_negTerm_false (den : List (String × Rat)) :
    toUC (den.map (negTerm false)) = den := by
  induction den with
  | nil => rfl
  | cons p t ih =>
    obtain ⟨k, v⟩ := p
    rw [List.map_cons, toUC_cons, ih]
    simp [negTerm]

/-- as_ratio: positive numerator items, negative denominator items, distinct names -/
theorem denote_ratio (singleDen : Bool) (num den : List (String × Rat))
    (hk : (UC.keys (num ++ den)).Nodup) (hn : ∀ p ∈ num, 0 < p.2) (hd : ∀ p ∈ den, p.2 < 0) :
    UC.Equiv (formatterExpr true singleDen num den).denote (num ++ den) := by
  intro k
  rw [← sumGet_eq_get hk, sumGet_append, formatterExpr_eq]
  have hP := toUC_posTerm_true num hn
  have hN := toUC_negTerm_true den hd
  unfold exprOf
  cases num with
  | nil =>
    cases den with
    | nil =>
      simp only [List.map_nil, List.isEmpty_nil, Bool.and_self, if_true]
      show UC.get [] k = _
      simp [Rat.add_zero]
    | cons q qs =>
      cases singleDen
      · simp only [List.map_nil, List.map_cons, List.isEmpty_nil, List.isEmpty_cons, Bool.true_and,
          Bool.not_true, Bool.false_eq_true, if_false]
        rw [get_denote_ratioSeq, ← List.map_cons, hN, sumGet_map_neg]; simp; grind
      · simp only [List.map_nil, List.map_cons, List.isEmpty_nil, List.isEmpty_cons, Bool.true_and,
          Bool.not_true, Bool.false_eq_true, if_false, if_true]
        rw [get_denote_ratioGroup, ← List.map_cons, hN, sumGet_map_neg]; simp; grind
  | cons p ps =>
    cases den with
    | nil =>
      simp only [List.map_nil, List.map_cons, List.isEmpty_nil, List.isEmpty_cons, Bool.false_and,
          Bool.not_true, Bool.false_eq_true, if_false, if_true]
      rw [get_denote_numer, ← List.map_cons, hP]; simp [Rat.add_zero]
    | cons q qs =>
      cases singleDen
      · simp only [List.map_cons, List.isEmpty_cons, Bool.false_and,
          Bool.not_true, Bool.false_eq_true, if_false]
        rw [get_denote_ratioSeq, ← List.map_cons, ← List.map_cons, hP, hN, sumGet_map_neg]; grind
      · simp only [List.map_cons, List.isEmpty_cons, Bool.false_and,
          Bool.not_true, Bool.false_eq_true, if_false, if_true]
        rw [get_denote_ratioGroup, ← List.map_cons, ← List.map_cons, hP, hN, sumGet_map_neg]; grind

/-- no as_ratio: every item written with its own exponent -/
theorem denote_product (singleDen : Bool) (num den : List (String × Rat))
    (hk : (UC.keys (num ++ den)).Nodup) :
    UC.Equiv (formatterExpr false singleDen num den).denote (num ++ den) := by
  intro k
  rw [← sumGet_eq_get hk, formatterExpr_eq]
  unfold exprOf
  by_cases he : ((num.map (posTerm false)).isEmpty && (den.map (negTerm false)).isEmpty) = true
  · simp only [he, if_true]
    simp only [List.isEmpty_map, Bool.and_eq_true, List.isEmpty_iff] at he
    rw [he.1, he.2]; rfl
  · simp only [he, Bool.not_false, Bool.false_eq_true, if_false, if_true]
    rw [get_denote_prod, toUC_append, toUC_posTerm_false, toUC_negTerm_false]

theorem seq_eq_group (pos neg : List FTerm) :
    UC.Equiv (FExpr.ratioSeq pos neg).denote (FExpr.ratioGroup pos neg).denote := by
  intro k
  rw [get_denote_ratioSeq, get_denote_ratioGroup]

/-! ### the shape of `prepare` -/

theorem insertBy_perm {α : Type} (le : α → α → Bool) (x : α) (l : List α) :
    (insertBy le x l).Perm (x :: l) := by
  induction l with
  | nil => exact List.Perm.refl _
  | cons y ys ih =>
    unfold insertBy
    split
    · exact List.Perm.refl _
    · exact (List.Perm.cons y ih).trans (List.Perm.swap x y ys)

theorem sortBy_perm {α : Type} (le : α → α → Bool) (l : List α) : (sortBy le l).Perm l := by
  induction l with
  | nil => exact List.Perm.refl _
  | cons x xs ih =>
    show (insertBy le x (sortBy le xs)).Perm (x :: xs)
    exact (insertBy_perm le x _).trans (List.Perm.cons x ih)

/-- the display name `prepare` uses -/
def dispName (R : Registry) (short : Bool) (k : String) : String :=
  if short then (match R.units.find? k with | some d => d.sym | none => k) else k

def proj (t : String × Rat × String) : String × Rat := (t.1, t.2.1)
def srt : List (String × Rat × String) → List (String × Rat × String) :=
  sortBy (fun (a b : String × Rat × String) => decide (a.2.2 ≤ b.2.2))
def items (R : Registry) (short : Bool) (u : UC) : List (String × Rat × String) :=
  u.map fun p => (dispName R short p.1, p.2, p.1)

/-- the unit with every name replaced by its display name -/
def shown (R : Registry) (short : Bool) (u : UC) : UC := u.map fun p => (dispName R short p.1, p.2)

theorem items_map_proj (R : Registry) (short : Bool) (u : UC) :
    (items R short u).map proj = shown R short u := by
  simp [items, shown, proj, Function.comp_def]

theorem srt_perm (l : List (String × Rat × String)) : (srt l).Perm l := sortBy_perm _ l

theorem isEmpty_false_of_ne {u : UC} (hne : u ≠ []) : UC.isEmpty u = false := by
  cases u with
  | nil => exact absurd rfl hne
  | cons _ _ => rfl

theorem prepare_true (R : Registry) (u : UC) (short : Bool) (hne : u ≠ []) :
    prepare R u short true =
      ((srt ((items R short u).filter fun t => !decide (t.2.1 < 0))).map proj,
       (srt ((items R short u).filter fun t => decide (t.2.1 < 0))).map proj) := by
  unfold prepare
  simp only [isEmpty_false_of_ne hne, Bool.false_eq_true, if_false, if_true,
    List.partition_eq_filter_filter]
  rfl

theorem prepare_false (R : Registry) (u : UC) (short : Bool) (hne : u ≠ []) :
    prepare R u short false = ((srt (items R short u)).map proj, []) := by
  unfold prepare
  simp only [isEmpty_false_of_ne hne, Bool.false_eq_true, if_false]
  rfl

/-- numerator ++ denominator is a permutation of the shown unit; with as_ratio the numerator
    holds the non-negative exponents and the denominator the negative ones; without as_ratio the
    denominator is empty -/
theorem prepare_spec (R : Registry) (u : UC) (short asRatio : Bool) (hne : u ≠ []) :
    ((prepare R u short asRatio).1 ++ (prepare R u short asRatio).2).Perm (shown R short u) ∧
    (asRatio = true → (∀ p ∈ (prepare R u short asRatio).1, ¬ p.2 < 0) ∧
                       (∀ p ∈ (prepare R u short asRatio).2, p.2 < 0)) := by
  cases asRatio with
  | false =>
    rw [prepare_false R u short hne]
    refine ⟨?_, fun h => absurd h (by decide)⟩
    simp only [List.append_nil]
    rw [← items_map_proj]
    exact (srt_perm _).map proj
  | true =>
    rw [prepare_true R u short hne]
    refine ⟨?_, fun _ => ⟨?_, ?_⟩⟩
    · simp only []
      rw [← items_map_proj, ← List.map_append]
      apply List.Perm.map
      refine ((srt_perm _).append (srt_perm _)).trans ?_
      refine List.perm_append_comm.trans ?_
      exact List.filter_append_perm (fun t => decide (t.2.1 < 0)) (items R short u)
    · intro p hp
      simp only [List.mem_map] at hp
      obtain ⟨t, ht, rfl⟩ := hp
      have := (srt_perm _).mem_iff.mp ht
      simp only [List.mem_filter, Bool.not_eq_true', decide_eq_false_iff_not] at this
      exact this.2
    · intro p hp
      simp only [List.mem_map] at hp
      obtain ⟨t, ht, rfl⟩ := hp
      have := (srt_perm _).mem_iff.mp ht
      simp only [List.mem_filter, decide_eq_true_eq] at this
      exact this.2

theorem keys_shown (R : Registry) (short : Bool) (u : UC) :
    (shown R short u).keys = u.map fun p => dispName R short p.1 := by
  simp [shown, UC.keys, Function.comp_def]

theorem noZero_shown (R : Registry) (short : Bool) {u : UC} (h : u.NoZero) :
    (shown R short u).NoZero := by
  intro p hp
  simp only [shown, List.mem_map] at hp
  obtain ⟨q, hq, rfl⟩ := hp
  exact h q hq

/-- registry level, any display-name map that keeps the names of the unit distinct -/
theorem denote_exact_gen (R : Registry) (u : UC) (hz : u.NoZero) (hne : u ≠ [])
    (short asRatio singleDen : Bool) (hs : (u.map fun p => dispName R short p.1).Nodup) :
    UC.Equiv (formatterExpr asRatio singleDen (prepare R u short asRatio).1
        (prepare R u short asRatio).2).denote (shown R short u) := by
  obtain ⟨hperm, hsign⟩ := prepare_spec R u short asRatio hne
  have hk' : (shown R short u).keys.Nodup := by rw [keys_shown]; exact hs
  have hk : (UC.keys ((prepare R u short asRatio).1 ++ (prepare R u short asRatio).2)).Nodup :=
    (keys_perm hperm).nodup_iff.mpr hk'
  have hnz : ∀ p ∈ (prepare R u short asRatio).1 ++ (prepare R u short asRatio).2, p.2 ≠ 0 :=
    fun p hp => noZero_shown R short hz p (hperm.mem_iff.mp hp)
  intro k
  rw [← get_perm hperm hk' k]
  cases asRatio with
  | false => exact denote_product singleDen _ _ hk k
  | true =>
    obtain ⟨h1, h2⟩ := hsign rfl
    refine denote_ratio singleDen _ _ hk ?_ h2 k
    intro p hp
    have := hnz p (List.mem_append_left _ hp)
    have := h1 p hp
    grind

theorem shown_long (R : Registry) (u : UC) : shown R false u = u := by
  simp [shown, dispName]

theorem dispName_short (R : Registry) (k : String) :
    dispName R true k = (match R.units.find? k with | some d => d.sym | none => k) := by
  simp [dispName]

/-! ### `formatter` in normal form -/

/-- the text of a numerator item, as `formatter` computes it -/
def posText (st : Style) (p : String × Rat) : Option String :=
  if p.2 == 1 then some p.1
  else ((expText (if st.asRatio then absRat p.2 else p.2)).bind fun t =>
      some (if st.prettyExp then prettyExp t else t)).map fun e => subst st.powerFmt [p.1, e]

def negText (st : Style) (p : String × Rat) : Option String :=
  if p.2 == -1 && st.asRatio then some p.1
  else ((expText (if st.asRatio then absRat p.2 else p.2)).bind fun t =>
      some (if st.prettyExp then prettyExp t else t)).map fun e => subst st.powerFmt [p.1, e]

/-- the joins of `formatter` over the rendered terms -/
def joinAll (st : Style) (pos neg : List String) : String :=
  if pos.isEmpty && neg.isEmpty then ""
  else if !st.asRatio then joinU st.productFmt (pos ++ neg)
  else
    let posRet := let j := joinU st.productFmt pos; if j == "" then "1" else j
    if neg.isEmpty then posRet
    else
      let negRet :=
        if st.singleDenominator then
          let j := joinU st.productFmt neg
          if neg.length > 1 then subst st.parenthesesFmt [j] else j
        else joinU st.divisionFmt neg
      joinU st.divisionFmt [posRet, negRet]


def joinAllM (st : Style) (pos neg : List String) : Option String :=
  if pos.isEmpty && neg.isEmpty then pure ""
  else if !st.asRatio then pure (joinU st.productFmt (pos ++ neg))
  else
    let posRet := let j := joinU st.productFmt pos; if j == "" then "1" else j
    if neg.isEmpty then pure posRet
    else
      let negRet :=
        if st.singleDenominator then
          let j := joinU st.productFmt neg
          if neg.length > 1 then subst st.parenthesesFmt [j] else j
        else joinU st.divisionFmt neg
      pure (joinU st.divisionFmt [posRet, negRet])

theorem joinAllM_eq (st : Style) (pos neg : List String) :
    joinAllM st pos neg = some (joinAll st pos neg) := by
  unfold joinAllM joinAll
  split
  · rfl
  · split
    · rfl
    · simp only []
      split <;> rfl

theorem formatter_eq (st : Style) (num den : List (String × Rat)) :
    formatter st num den =
      (num.mapM (posText st)).bind fun pos => (den.mapM (negText st)).bind fun neg =>
        some (joinAll st pos neg) := by
  have : formatter st num den =
      (num.mapM (posText st)).bind fun pos => (den.mapM (negText st)).bind fun neg =>
        joinAllM st pos neg := rfl
  rw [this]
  simp only [joinAllM_eq]

/-! ### `Option` bookkeeping for `mapM` -/

theorem mapM_cons_opt {α β : Type} (f : α → Option β) (a : α) (l : List α) :
    (a :: l).mapM f = (f a).bind fun b => (l.mapM f).bind fun bs => some (b :: bs) := by
  simp only [List.mapM_cons]; rfl

theorem mapM_map_opt {α β γ : Type} (g : α → β) (f : β → Option γ) (l : List α) :
    (l.map g).mapM f = l.mapM (fun a => f (g a)) := by
  induction l with
  | nil => rfl
  | cons a l ih => rw [List.map_cons, mapM_cons_opt, mapM_cons_opt, ih]

theorem mapM_length_opt {α β : Type} (f : α → Option β) (l : List α) (l' : List β)
    (h : l.mapM f = some l') : l'.length = l.length := by
  induction l generalizing l' with
  | nil => simp at h; subst h; rfl
  | cons a l ih =>
    rw [mapM_cons_opt] at h
    cases hb : f a with
    | none => rw [hb] at h; simp at h
    | some b =>
      cases hl : l.mapM f with
      | none => rw [hb, hl] at h; simp at h
      | some bs =>
        rw [hb, hl] at h
        simp at h; subst h
        simp [ih bs hl]

theorem mapM_append_opt {α β : Type} (f : α → Option β) (l₁ l₂ : List α) :
    (l₁ ++ l₂).mapM f = (l₁.mapM f).bind fun a => (l₂.mapM f).bind fun b => some (a ++ b) := by
  induction l₁ with
  | nil => cases h : l₂.mapM f <;> simp [h]
  | cons a l ih =>
    rw [List.cons_append, mapM_cons_opt, mapM_cons_opt, ih]
    cases f a <;> cases l.mapM f <;> cases l₂.mapM f <;> simp

theorem mapM_ne_nil_of_none {α β : Type} (f : α → Option β) (l : List α) (h : l.mapM f = none) :
    l.isEmpty = false := by
  cases l with
  | nil => simp at h
  | cons _ _ => rfl

/-! ### rendering the written terms gives the texts of `formatter` -/

theorem render_term_some (st : Style) (k : String) (e : Rat) :
    FTerm.render st ⟨k, some e⟩ = ((expText e).bind fun t =>
      some (if st.prettyExp then prettyExp t else t)).map fun e => subst st.powerFmt [k, e] := by
  show (expText e).map _ = _
  cases expText e <;> rfl

theorem render_posTerm (st : Style) (p : String × Rat) :
    (posTerm st.asRatio p).render st = posText st p := by
  unfold posTerm posText
  by_cases h : (p.2 == 1) = true
  · rw [if_pos h, if_pos h]; rfl
  · rw [if_neg h, if_neg h, render_term_some]

theorem render_negTerm (st : Style) (p : String × Rat) :
    (negTerm st.asRatio p).render st = negText st p := by
  unfold negTerm negText
  by_cases h : (p.2 == -1 && st.asRatio) = true
  · rw [if_pos h, if_pos h]; rfl
  · rw [if_neg h, if_neg h, render_term_some]

theorem mapM_render_pos (st : Style) (num : List (String × Rat)) :
    (num.map (posTerm st.asRatio)).mapM (FTerm.render st) = num.mapM (posText st) := by
  rw [mapM_map_opt]; congr; funext p; exact render_posTerm st p

theorem mapM_render_neg (st : Style) (den : List (String × Rat)) :
    (den.map (negTerm st.asRatio)).mapM (FTerm.render st) = den.mapM (negText st) := by
  rw [mapM_map_opt]; congr; funext p; exact render_negTerm st p


theorem render_prod (st : Style) (ts : List FTerm) :
    (FExpr.prod ts).render st = (ts.mapM (FTerm.render st)).bind fun ss =>
      some (joinU st.productFmt ss) := rfl

theorem render_numer (st : Style) (ts : List FTerm) :
    (FExpr.numer ts).render st = (ts.mapM (FTerm.render st)).bind fun ps =>
      some (let j := joinU st.productFmt ps; if j == "" then "1" else j) := rfl

theorem render_ratioSeq (st : Style) (pos neg : List FTerm) :
    (FExpr.ratioSeq pos neg).render st = (pos.mapM (FTerm.render st)).bind fun ps =>
      (neg.mapM (FTerm.render st)).bind fun ns =>
      some (joinU st.divisionFmt [(let j := joinU st.productFmt ps; if j == "" then "1" else j),
        joinU st.divisionFmt ns]) := rfl

theorem render_ratioGroup (st : Style) (pos neg : List FTerm) :
    (FExpr.ratioGroup pos neg).render st = (pos.mapM (FTerm.render st)).bind fun ps =>
      (neg.mapM (FTerm.render st)).bind fun ns =>
      some (joinU st.divisionFmt [(let j := joinU st.productFmt ps; if j == "" then "1" else j),
        (let j := joinU st.productFmt ns
         if ns.length > 1 then subst st.parenthesesFmt [j] else j)]) := rfl

theorem isEmpty_eq_of_length {α β : Type} {a : List α} {b : List β} (h : a.length = b.length) :
    a.isEmpty = b.isEmpty := by
  cases a <;> cases b <;> simp at h ⊢

/-- rendering the structure chosen by `exprOf` is the join `formatter` performs -/
theorem render_exprOf (st : Style) (P N : List FTerm) :
    (exprOf st.asRatio st.singleDenominator P N).render st =
      (P.mapM (FTerm.render st)).bind fun pos => (N.mapM (FTerm.render st)).bind fun neg =>
        some (joinAll st pos neg) := by
  cases hP : P.mapM (FTerm.render st) with
  | none =>
    have hPe := mapM_ne_nil_of_none _ _ hP
    unfold exprOf
    simp only [hPe, Bool.false_and, Bool.false_eq_true, if_false, Option.bind_none]
    split
    · rw [render_prod, mapM_append_opt, hP]; rfl
    · split
      · rw [render_numer, hP]; rfl
      · split
        · rw [render_ratioGroup, hP]; rfl
        · rw [render_ratioSeq, hP]; rfl
  | some ps =>
    have hPl := mapM_length_opt _ _ _ hP
    have hPe := isEmpty_eq_of_length hPl
    cases hN : N.mapM (FTerm.render st) with
    | none =>
      have hNe := mapM_ne_nil_of_none _ _ hN
      unfold exprOf
      simp only [hNe, Bool.and_false, Bool.false_eq_true, if_false, Option.bind_none,
        Option.bind_some]
      split
      · rw [render_prod, mapM_append_opt, hP, hN]; rfl
      · split
        · rw [render_ratioGroup, hP, hN]; rfl
        · rw [render_ratioSeq, hP, hN]; rfl
    | some ns =>
      have hNl := mapM_length_opt _ _ _ hN
      have hNe := isEmpty_eq_of_length hNl
      unfold exprOf joinAll
      simp only [Option.bind_some, hPe, hNe]
      split
      · rfl
      · split
        · rw [render_prod, mapM_append_opt, hP, hN]; rfl
        · split
          · rw [render_numer, hP]; rfl
          · split
            · rw [render_ratioGroup, hP, hN]; simp
            · rw [render_ratioSeq, hP, hN]; simp

theorem formatter_is_render (st : Style) (num den : List (String × Rat)) :
    formatter st num den = (formatterExpr st.asRatio st.singleDenominator num den).render st := by
  rw [formatter_eq, formatterExpr_eq, render_exprOf, mapM_render_pos, mapM_render_neg]

end Pint.Fmt.DenoteLemmas
