/-
  Arithmetic on MULTIPLICATIVE quantities depends only on the operands' physical value
  ("covariance under change of units").

  Model: `PintModel/Model/Quantity.lean` (`addSub`, `mulDiv`, `floordiv`, `mod`, `compare`,
  `qeq`, `convertTo`, `toRoot`) on top of `Registry.convert` / `convertNM` / `convertPlain`.

  All hypotheses are explicit (`Registered`, `GoodU`/`Good`, `WFintOn`).  Core Lean only.
-/
import PintModel.Model.Quantity
import PintModel.Proofs.RootLemmas
import PintModel.Proofs.DimHom
import PintModel.Props.C04

namespace Pint
open UC RatPow Registry
open Pint.Props

/-! ### hypotheses -/

/-- every key is a registered canonical multiplicative unit -/
def Registered (R : Registry) (u : UC) : Prop :=
  ∀ k ∈ u.keys, ∃ d, R.units.find? k = some d ∧ R.units.find? d.name = some d ∧
    d.isMult = true ∧ k ≠ "dimensionless"

/-- a units container all of whose hypotheses for exact reasoning hold: integer exponents,
    keys in the closed set `S`, canonical (no duplicate key, no zero exponent), registered
    multiplicative units, root expansion defined with factor `f` and root units `ru`,
    dimensionality defined and equal to `d`. -/
structure GoodU (R : Registry) (S : String → Prop) (u : UC) (f : Rat) (ru : UC) (d : UC) : Prop where
  int : IntUC u
  keys : KeysIn S u
  canon : u.Canon
  reg : Registered R u
  root : R.getRootUnits u = .ok (f, ru)
  dim : R.getDimensionality u = .ok d

/-- the same for a quantity (only its units matter) -/
abbrev Good (R : Registry) (S : String → Prop) (q : Qty) (f : Rat) (ru : UC) (d : UC) : Prop :=
  GoodU R S q.units f ru d

/-- physical magnitude in root units -/
def rootMag (q : Qty) (f : Rat) : Rat := q.mag * f

/-- decidable form of `Registered` (for concrete registries) -/
def registeredB (R : Registry) (u : UC) : Bool :=
  u.keys.all fun k =>
    match R.units.find? k with
    | some d => R.units.find? d.name == some d && d.isMult && k != "dimensionless"
    | none => false

theorem registered_of_B {R : Registry} {u : UC} (h : registeredB R u = true) : Registered R u := by
  intro k hk
  unfold registeredB at h
  simp only [List.all_eq_true] at h
  have := h k hk
  cases hf : R.units.find? k with
  | none => rw [hf] at this; cases this
  | some d =>
    rw [hf] at this
    simp only [Bool.and_eq_true, beq_iff_eq, bne_iff_ne, ne_eq] at this
    exact ⟨d, rfl, this.1.1, this.1.2, this.2⟩

/-! ### L1 – L3 : registered multiplicative units take the plain conversion path -/

theorem Registered.tail {R : Registry} {p : String × Rat} {t : UC} (h : Registered R (p :: t)) :
    Registered R t := fun k hk => h k (by simp [hk])

theorem Registered.nil (R : Registry) : Registered R [] := fun _ hk => by cases hk

theorem resolve_registered {R : Registry} {k : String} {d : UnitDef}
    (h1 : R.units.find? k = some d) (h2 : R.units.find? d.name = some d)
    (hk : k ≠ "dimensionless") : R.resolve k = .ok (d.name, some d) := by
  unfold Registry.resolve
  simp [hk, h1, h2]

theorem unitIsMult_registered {R : Registry} {u : UC} (h : Registered R u) {k : String}
    (hk : k ∈ u.keys) : R.unitIsMult k = true := by
  obtain ⟨d, h1, h2, h3, h4⟩ := h k hk
  unfold Registry.unitIsMult
  rw [resolve_registered h1 h2 h4]
  exact h3

/-- (L1) -/
theorem nonMultUnits_nil {R : Registry} {u : UC} (h : Registered R u) : R.nonMultUnits u = [] := by
  unfold Registry.nonMultUnits
  rw [List.filter_eq_nil_iff]
  intro k hk
  simp [unitIsMult_registered h hk]

theorem isMultQ_registered {R : Registry} {q : Qty} (h : Registered R q.units) :
    R.isMultQ q = true := by
  unfold Registry.isMultQ; rw [nonMultUnits_nil h]; rfl

theorem isMultName_registered {R : Registry} {u : UC} (h : Registered R u) {k : String}
    (hk : k ∈ u.keys) : R.isMultName k = .ok true := by
  obtain ⟨d, h1, _, h3, _⟩ := h k hk
  unfold Registry.isMultName
  simp [h1, h3]

theorem nonMultItems_nil {R : Registry} {u : UC} (h : Registered R u) :
    R.nonMultItems u = .ok [] := by
  induction u with
  | nil => rfl
  | cons p t ih =>
    have h1 := isMultName_registered h (k := p.1) (by simp)
    have h2 := ih h.tail
    simp [Registry.nonMultItems, h1, h2]

/-- (L2) -/
theorem validateAndExtract_none {R : Registry} {u : UC} (h : Registered R u) (auto : Bool) :
    R.validateAndExtract auto u = .ok none := by
  unfold Registry.validateAndExtract
  rw [nonMultItems_nil h]

theorem convertNM_mult {R : Registry} {src dst : UC} (hs : Registered R src) (hd : Registered R dst)
    (x : Rat) (auto : Bool) : R.convertNM auto x src dst = R.convertPlain x src dst := by
  unfold Registry.convertNM
  rw [validateAndExtract_none hs, validateAndExtract_none hd]
  simp

/-- (L3) -/
theorem convert_mult {R : Registry} {src dst : UC} (hs : Registered R src) (hd : Registered R dst)
    (x : Rat) (auto : Bool) :
    R.convert x src dst auto = if src.beq dst then .ok x else R.convertPlain x src dst := by
  unfold Registry.convert
  rw [convertNM_mult hs hd]

/-! ### L4 : `==` units have the same root factor and the same dimensionality -/

theorem beq_comm (a b : UC) : a.beq b = b.beq a := by
  unfold UC.beq; rw [Bool.and_comm]

theorem beq_self {a : UC} (h : a.Canon) : a.beq a = true :=
  (C04.eq_iff h h).mpr (fun _ => rfl)

theorem beq_trans {a b c : UC} (ha : a.Canon) (hb : b.Canon) (hc : c.Canon)
    (h1 : a.beq b = true) (h2 : b.beq c = true) : a.beq c = true :=
  (C04.eq_iff ha hc).mpr (fun k =>
    ((C04.eq_iff ha hb).mp h1 k).trans ((C04.eq_iff hb hc).mp h2 k))

theorem div_eq_nil_of_beq {a b : UC} (ha : a.Canon) (hb : b.Canon) (h : a.beq b = true) :
    a.div b = [] := by
  apply C04.canon_dimensionless (C04.canon_div ha b)
  intro k
  rw [C04.exp_div a hb.1, (C04.eq_iff ha hb).mp h k]
  simp [Rat.sub_self]

theorem GoodU.factor_ne_zero {R : Registry} {S : String → Prop} (hW : R.WFintOn S)
    {u ru d : UC} {f : Rat} (h : GoodU R S u f ru d) : f ≠ 0 :=
  R.getRootUnits_factor_ne_zero_on hW h.int h.keys h.root

theorem GoodU.dim_canon {R : Registry} {S : String → Prop}
    {u ru d : UC} {f : Rat} (h : GoodU R S u f ru d) : d.Canon := R.getDim_canon h.dim

/-- (L4) -/
theorem root_congr {R : Registry} {S : String → Prop} (hW : R.WFintOn S)
    {a b ua ub da db : UC} {fa fb : Rat}
    (ha : GoodU R S a fa ua da) (hb : GoodU R S b fb ub db) (h : a.beq b = true) : fa = fb := by
  obtain ⟨f, u, h1, h2, _⟩ :=
    R.getRootUnits_div_on hW ha.int hb.int ha.keys hb.keys ha.canon.1 ha.root hb.root
  rw [div_eq_nil_of_beq ha.canon hb.canon h] at h1
  have h3 : R.getRootUnits [] = .ok (1, []) := rfl
  rw [h3] at h1
  cases h1
  have hne := hb.factor_ne_zero hW
  have : fa = fa / fb * fb := (Rat.div_mul_cancel hne).symm
  rw [← h2, Rat.one_mul] at this
  exact this

/-- `==` units have `==` dimensionality -/
theorem dim_congr {R : Registry} {S : String → Prop}
    {a b ua ub da db : UC} {fa fb : Rat}
    (ha : GoodU R S a fa ua da) (hb : GoodU R S b fb ub db) (h : a.beq b = true) :
    da.beq db = true := by
  obtain ⟨dab, h1, _, h3⟩ := R.getDim_merge (-1) ha.canon.1 ha.dim hb.dim
  rw [← div_eq_merge, div_eq_nil_of_beq ha.canon hb.canon h] at h1
  have h4 : R.getDimensionality [] = .ok [] := rfl
  rw [h4] at h1
  cases h1
  apply (C04.eq_iff ha.dim_canon hb.dim_canon).mpr
  intro k
  have := h3 k
  simp only [get_nil] at this
  grind

/-! ### L5 : conversion between good units -/

theorem convFactor_good {R : Registry} {S : String → Prop} (hW : R.WFintOn S)
    {a b ua ub da db : UC} {fa fb : Rat}
    (ha : GoodU R S a fa ua da) (hb : GoodU R S b fb ub db) (he : da.beq db = true) :
    R.convFactor a b = .ok (fa / fb) := by
  obtain ⟨f, u, h1, h2, _⟩ :=
    R.getRootUnits_div_on hW ha.int hb.int ha.keys hb.keys ha.canon.1 ha.root hb.root
  unfold Registry.convFactor
  rw [ha.dim, hb.dim]
  simp [he, h1, h2]

theorem convFactor_dim_error {R : Registry} {a b da db : UC}
    (ha : R.getDimensionality a = .ok da) (hb : R.getDimensionality b = .ok db)
    (he : da.beq db = false) : R.convFactor a b = .error .dimensionality := by
  unfold Registry.convFactor
  rw [ha, hb]
  simp [he]

/-- (L5) general form on containers -/
theorem convert_good {R : Registry} {S : String → Prop} (hW : R.WFintOn S)
    {a b ua ub da db : UC} {fa fb : Rat}
    (ha : GoodU R S a fa ua da) (hb : GoodU R S b fb ub db) (he : da.beq db = true)
    (x : Rat) (auto : Bool) : R.convert x a b auto = .ok (x * (fa / fb)) := by
  rw [convert_mult ha.reg hb.reg]
  by_cases h : a.beq b = true
  · rw [if_pos h, root_congr hW ha hb h, Rat.div_def, Rat.mul_inv_cancel _ (hb.factor_ne_zero hW),
      Rat.mul_one]
  · rw [if_neg h]
    unfold Registry.convertPlain
    rw [convFactor_good hW ha hb he]

/-- different dimensionality: `DimensionalityError` -/
theorem convert_dim_error {R : Registry} {S : String → Prop}
    {a b ua ub da db : UC} {fa fb : Rat}
    (ha : GoodU R S a fa ua da) (hb : GoodU R S b fb ub db) (he : da.beq db = false)
    (x : Rat) (auto : Bool) : R.convert x a b auto = .error .dimensionality := by
  rw [convert_mult ha.reg hb.reg]
  have h : ¬ a.beq b = true := fun h => by
    rw [dim_congr ha hb h] at he; cases he
  rw [if_neg h]
  unfold Registry.convertPlain
  rw [convFactor_dim_error ha.dim hb.dim he]

/-- (L5) `b.to(a.units).magnitude` -/
theorem convertTo_good {R : Registry} {S : String → Prop} (hW : R.WFintOn S) (m : Mode)
    {a b : Qty} {ua ub da db : UC} {fa fb : Rat}
    (ha : Good R S a fa ua da) (hb : Good R S b fb ub db) (he : da.beq db = true) :
    R.convertTo m b a.units = .ok (b.mag * (fb / fa)) := by
  unfold Registry.convertTo
  have he' : db.beq da = true := by rw [beq_comm]; exact he
  exact convert_good hW hb ha he' _ _

theorem convertTo_dim_error {R : Registry} {S : String → Prop} (m : Mode)
    {a b : Qty} {ua ub da db : UC} {fa fb : Rat}
    (ha : Good R S a fa ua da) (hb : Good R S b fb ub db) (he : da.beq db = false) :
    R.convertTo m b a.units = .error .dimensionality := by
  unfold Registry.convertTo
  have he' : db.beq da = false := by rw [beq_comm]; exact he
  exact convert_dim_error hb ha he' _ _

/-! ### T2 : multiplication and division -/

theorem mulDiv_mul_eq {R : Registry} (m : Mode) {a b : Qty}
    (ha : Registered R a.units) (hb : Registered R b.units) :
    R.mulDiv m .mul a (.q b) = .ok ⟨a.mag * b.mag, a.units.mul b.units⟩ := by
  unfold Registry.mulDiv
  simp [nonMultUnits_nil ha, nonMultUnits_nil hb, Registry.okForMuldiv,
    Registry.rootIfSingleOffset]

theorem mulDiv_div_eq {R : Registry} (m : Mode) {a b : Qty}
    (ha : Registered R a.units) (hb : Registered R b.units) (hz : b.mag ≠ 0) :
    R.mulDiv m .div a (.q b) = .ok ⟨a.mag / b.mag, a.units.div b.units⟩ := by
  unfold Registry.mulDiv
  simp [nonMultUnits_nil ha, nonMultUnits_nil hb, Registry.okForMuldiv,
    Registry.rootIfSingleOffset, hz]

theorem mulDiv_div_zero {R : Registry} (m : Mode) {a b : Qty}
    (ha : Registered R a.units) (hb : Registered R b.units) (hz : b.mag = 0) :
    R.mulDiv m .div a (.q b) = .error .zeroDiv := by
  unfold Registry.mulDiv
  simp [nonMultUnits_nil ha, nonMultUnits_nil hb, Registry.okForMuldiv,
    Registry.rootIfSingleOffset, hz]

/-- (T2, product) the product is the product of the physical values -/
theorem mul_phys {R : Registry} {S : String → Prop} (hW : R.WFintOn S) (m : Mode)
    {a b : Qty} {ua ub da db : UC} {fa fb : Rat}
    (ha : Good R S a fa ua da) (hb : Good R S b fb ub db) :
    ∃ c fc uc, R.mulDiv m .mul a (.q b) = .ok c ∧ c = ⟨a.mag * b.mag, a.units.mul b.units⟩ ∧
      R.getRootUnits c.units = .ok (fc, uc) ∧ fc = fa * fb ∧
      (∀ d, uc.get d = ua.get d + ub.get d) ∧
      c.mag * fc = (a.mag * fa) * (b.mag * fb) := by
  obtain ⟨f, u, h1, h2, h3⟩ :=
    R.getRootUnits_mul_on hW ha.int hb.int ha.keys hb.keys ha.canon.1 ha.root hb.root
  refine ⟨_, f, u, mulDiv_mul_eq m ha.reg hb.reg, rfl, h1, h2, h3, ?_⟩
  subst h2
  show a.mag * b.mag * (fa * fb) = _
  grind

/-- (T2, quotient) -/
theorem div_phys {R : Registry} {S : String → Prop} (hW : R.WFintOn S) (m : Mode)
    {a b : Qty} {ua ub da db : UC} {fa fb : Rat}
    (ha : Good R S a fa ua da) (hb : Good R S b fb ub db) (hz : b.mag ≠ 0) :
    ∃ c fc uc, R.mulDiv m .div a (.q b) = .ok c ∧ c = ⟨a.mag / b.mag, a.units.div b.units⟩ ∧
      R.getRootUnits c.units = .ok (fc, uc) ∧ fc = fa / fb ∧
      (∀ d, uc.get d = ua.get d - ub.get d) ∧
      c.mag * fc = (a.mag * fa) / (b.mag * fb) := by
  obtain ⟨f, u, h1, h2, h3⟩ :=
    R.getRootUnits_div_on hW ha.int hb.int ha.keys hb.keys ha.canon.1 ha.root hb.root
  refine ⟨_, f, u, mulDiv_div_eq m ha.reg hb.reg hz, rfl, h1, h2, h3, ?_⟩
  subst h2
  show a.mag / b.mag * (fa / fb) = _
  simp only [Rat.div_def, Rat.inv_mul_rev]
  grind

/-! ### T1 : addition and subtraction -/

theorem AddOp.app_scale (op : AddOp) (x y f : Rat) : op.app x y * f = op.app (x * f) (y * f) := by
  cases op <;> simp only [AddOp.app] <;> grind

/-- the multiplicative branch of `_add_sub` -/
theorem addSub_mult_eq {R : Registry} (m : Mode) (op : AddOp) {a b : Qty} {da db : UC}
    (ra : Registered R a.units) (rb : Registered R b.units)
    (ha : R.getDimensionality a.units = .ok da) (hb : R.getDimensionality b.units = .ok db)
    (he : da.beq db = true) :
    R.addSub m op a (.q b) =
      if a.units.beq b.units then .ok ⟨op.app a.mag b.mag, a.units⟩
      else if !(deltaUnits a.units).isEmpty && (deltaUnits b.units).isEmpty then
        match R.convertTo m a b.units with
        | .ok v => .ok ⟨op.app v b.mag, b.units⟩
        | .error e => .error e
      else
        match R.convertTo m b a.units with
        | .ok v => .ok ⟨op.app a.mag v, a.units⟩
        | .error e => .error e := by
  unfold Registry.addSub
  simp [ha, hb, he, nonMultUnits_nil ra, nonMultUnits_nil rb]
  rfl

/-- (T1, error) different dimensionality -/
theorem add_dim_error {R : Registry} (m : Mode) (op : AddOp) {a b : Qty} {da db : UC}
    (ha : R.getDimensionality a.units = .ok da) (hb : R.getDimensionality b.units = .ok db)
    (he : da.beq db = false) :
    R.addSub m op a (.q b) = .error .dimensionality := by
  unfold Registry.addSub
  simp [ha, hb, he]

/-- (T1, total form) the sum / difference succeeds, is expressed in the units of one of the
    operands, and its physical value is the sum / difference of the physical values -/
theorem add_phys_total {R : Registry} {S : String → Prop} (hW : R.WFintOn S) (m : Mode)
    (op : AddOp) {a b : Qty} {ua ub da db : UC} {fa fb : Rat}
    (ha : Good R S a fa ua da) (hb : Good R S b fb ub db) (he : da.beq db = true) :
    ∃ c fc, R.addSub m op a (.q b) = .ok c ∧
      (c.units = a.units ∧ fc = fa ∨ c.units = b.units ∧ fc = fb) ∧
      c.mag * fc = op.app (a.mag * fa) (b.mag * fb) := by
  have hna := ha.factor_ne_zero hW
  have hnb := hb.factor_ne_zero hW
  have he' : db.beq da = true := by rw [beq_comm]; exact he
  rw [addSub_mult_eq m op ha.reg hb.reg ha.dim hb.dim he]
  by_cases h1 : a.units.beq b.units = true
  · rw [if_pos h1]
    refine ⟨_, fa, rfl, Or.inl ⟨rfl, rfl⟩, ?_⟩
    rw [← root_congr hW ha hb h1]
    exact AddOp.app_scale op _ _ _
  · rw [if_neg h1]
    split
    · rw [convertTo_good hW m hb ha he']
      refine ⟨_, fb, rfl, Or.inr ⟨rfl, rfl⟩, ?_⟩
      show op.app (a.mag * (fa / fb)) b.mag * fb = _
      rw [AddOp.app_scale, Rat.mul_assoc, Rat.div_mul_cancel hnb]
    · rw [convertTo_good hW m ha hb he]
      refine ⟨_, fa, rfl, Or.inl ⟨rfl, rfl⟩, ?_⟩
      show op.app a.mag (b.mag * (fb / fa)) * fa = _
      rw [AddOp.app_scale, Rat.mul_assoc, Rat.div_mul_cancel hna]

/-- (T1) -/
theorem add_phys {R : Registry} {S : String → Prop} (hW : R.WFintOn S) (m : Mode)
    (op : AddOp) {a b c : Qty} {ua ub da db : UC} {fa fb : Rat}
    (ha : Good R S a fa ua da) (hb : Good R S b fb ub db)
    (hc : R.addSub m op a (.q b) = .ok c) (he : da.beq db = true) :
    ∃ fc, (c.units = a.units ∧ fc = fa ∨ c.units = b.units ∧ fc = fb) ∧
      c.mag * fc = op.app (a.mag * fa) (b.mag * fb) := by
  obtain ⟨c', fc, h1, h2, h3⟩ := add_phys_total hW m op ha hb he
  rw [h1] at hc; cases hc
  exact ⟨fc, h2, h3⟩

/-- (T1) when the left operand has no `delta_` unit the result is in the left operand's units -/
theorem add_phys_left {R : Registry} {S : String → Prop} (hW : R.WFintOn S) (m : Mode)
    (op : AddOp) {a b c : Qty} {ua ub da db : UC} {fa fb : Rat}
    (ha : Good R S a fa ua da) (hb : Good R S b fb ub db)
    (hd : deltaUnits a.units = [])
    (hc : R.addSub m op a (.q b) = .ok c) (he : da.beq db = true) :
    c.units = a.units ∧ c.mag * fa = op.app (a.mag * fa) (b.mag * fb) := by
  have hna := ha.factor_ne_zero hW
  rw [addSub_mult_eq m op ha.reg hb.reg ha.dim hb.dim he] at hc
  by_cases h1 : a.units.beq b.units = true
  · rw [if_pos h1] at hc
    cases hc
    refine ⟨rfl, ?_⟩
    rw [← root_congr hW ha hb h1]
    exact AddOp.app_scale op _ _ _
  · rw [if_neg h1, hd, convertTo_good hW m ha hb he] at hc
    simp at hc
    subst hc
    refine ⟨rfl, ?_⟩
    show op.app a.mag (b.mag * (fb / fa)) * fa = _
    rw [AddOp.app_scale, Rat.mul_assoc, Rat.div_mul_cancel hna]

/-! ### T6 : equality -/

theorem rat_mul_right_cancel_iff {x y f : Rat} (hf : f ≠ 0) : x * f = y * f ↔ x = y := by
  constructor
  · intro h
    have := congrArg (· / f) h
    simp only [Rat.mul_div_cancel hf] at this
    exact this
  · intro h; rw [h]

theorem rat_mul_div_eq_iff {x y f g : Rat} (hg : g ≠ 0) : x * (f / g) = y ↔ x * f = y * g := by
  rw [← rat_mul_right_cancel_iff hg (x := x * (f / g)), Rat.mul_assoc, Rat.div_mul_cancel hg]

theorem qeq_mult_eq {R : Registry} (m : Mode) {a b : Qty} {da db : UC}
    (ra : Registered R a.units) (rb : Registered R b.units)
    (ha : R.getDimensionality a.units = .ok da) (hb : R.getDimensionality b.units = .ok db) :
    R.qeq m a (.q b) =
      if a.mag = 0 ∧ b.mag = 0 then .ok (da.beq db)
      else if a.units.beq b.units then .ok (a.mag == b.mag)
      else
        match R.convertTo m a b.units with
        | .ok v => .ok (v == b.mag)
        | .error .dimensionality => .ok false
        | .error e => .error e := by
  unfold Registry.qeq
  simp [isMultQ_registered ra, isMultQ_registered rb, ha, hb]
  rfl

/-- (T6) two multiplicative quantities are `==` exactly when they have the same
    dimensionality and the same physical value -/
theorem eq_phys {R : Registry} {S : String → Prop} (hW : R.WFintOn S) (m : Mode)
    {a b : Qty} {ua ub da db : UC} {fa fb : Rat}
    (ha : Good R S a fa ua da) (hb : Good R S b fb ub db) :
    R.qeq m a (.q b) = .ok (decide (da.beq db = true ∧ a.mag * fa = b.mag * fb)) := by
  have hna := ha.factor_ne_zero hW
  have hnb := hb.factor_ne_zero hW
  rw [qeq_mult_eq m ha.reg hb.reg ha.dim hb.dim]
  by_cases hz : a.mag = 0 ∧ b.mag = 0
  · rw [if_pos hz]
    simp [hz.1, hz.2, Rat.zero_mul]
  · rw [if_neg hz]
    by_cases h1 : a.units.beq b.units = true
    · rw [if_pos h1]
      have hd := dim_congr ha hb h1
      have hf := root_congr hW ha hb h1
      subst hf
      simp [hd, rat_mul_right_cancel_iff hna, Bool.beq_eq_decide_eq]
    · rw [if_neg h1]
      cases he : da.beq db with
      | true =>
        have he' : db.beq da = true := by rw [beq_comm]; exact he
        rw [convertTo_good hW m hb ha he']
        simp [Bool.beq_eq_decide_eq, rat_mul_div_eq_iff hnb]
      | false =>
        have he' : db.beq da = false := by rw [beq_comm]; exact he
        rw [convertTo_dim_error m hb ha he']
        simp

/-! ### T5 : ordering -/

/-- Hypothesis on the root units `ua` of a good container of dimensionality `da`, needed
    wherever the model calls `to_root_units()` (`toRoot`: `compare`, `hashKey`): the root
    units are themselves good (registered multiplicative base units, integer exponents, in
    `S`), expand to themselves with factor `1`, and have the same dimensionality.  This holds
    for every registry whose base units are plain multiplicative units (a base unit resolves
    to itself with `isBase = true`, so `rootStep` contributes factor `1`); it is stated as a
    hypothesis because neither idempotence of `getRootUnits` nor preservation of
    dimensionality by the root expansion is proved in `RootLemmas`/`DimHom`. -/
def RootGood (R : Registry) (S : String → Prop) (ua da : UC) : Prop :=
  ∃ uu du, GoodU R S ua 1 uu du ∧ da.beq du = true

/-- `q.to_root_units()` : magnitude times root factor, in the root units -/
theorem toRoot_good {R : Registry} {S : String → Prop} (hW : R.WFintOn S) (m : Mode)
    {a : Qty} {ua da : UC} {fa : Rat}
    (ha : Good R S a fa ua da) (hr : RootGood R S ua da) :
    R.toRoot m a = .ok ⟨a.mag * fa, ua⟩ := by
  obtain ⟨uu, du, hu, hd⟩ := hr
  have hd' : du.beq da = true := by rw [beq_comm]; exact hd
  have hu' : Good R S ⟨0, ua⟩ 1 uu du := hu
  have hc := convertTo_good hW m hu' ha hd'
  unfold Registry.toRoot
  rw [ha.root]
  simp only
  rw [hc]
  have h1 : fa / 1 = fa := by
    have : (1 : Rat)⁻¹ = 1 := by
      have h := Rat.mul_inv_cancel 1 (by decide)
      rwa [Rat.one_mul] at h
    rw [Rat.div_def, this, Rat.mul_one]
  rw [h1]

theorem CmpOp.app_scale (op : CmpOp) (x y : Rat) {f : Rat} (hf : 0 < f) :
    op.app (x * f) (y * f) = op.app x y := by
  have hlt : ∀ u v : Rat, u * f < v * f ↔ u < v := fun u v => Rat.mul_lt_mul_right hf
  have hle : ∀ u v : Rat, u * f ≤ v * f ↔ u ≤ v := fun u v => by
    rw [← Rat.not_lt, ← Rat.not_lt, hlt]
  cases op <;> simp only [CmpOp.app, GT.gt, GE.ge, hlt, hle]

theorem compare_mult_eq {R : Registry} (m : Mode) (op : CmpOp) {a b : Qty} {da db : UC}
    (ha : R.getDimensionality a.units = .ok da) (hb : R.getDimensionality b.units = .ok db) :
    R.compare m op a (.q b) =
      if a.units.beq b.units then .ok (op.app a.mag b.mag)
      else if da.beq db = false then .error .dimensionality
      else
        match R.toRoot m a, R.toRoot m b with
        | .ok ra, .ok rb => .ok (op.app ra.mag rb.mag)
        | .error e, _ => .error e
        | _, .error e => .error e := by
  unfold Registry.compare
  simp [ha, hb]
  rfl

/-- (T5) ordering compares the physical values.  `0 < fa` is needed in the `units ==`
    shortcut (there `fa = fb`), `RootGood` in the `to_root_units` branch. -/
theorem compare_phys {R : Registry} {S : String → Prop} (hW : R.WFintOn S) (m : Mode)
    (op : CmpOp) {a b : Qty} {ua ub da db : UC} {fa fb : Rat}
    (ha : Good R S a fa ua da) (hb : Good R S b fb ub db) (he : da.beq db = true)
    (hpos : 0 < fa) (hra : RootGood R S ua da) (hrb : RootGood R S ub db) :
    R.compare m op a (.q b) = .ok (op.app (a.mag * fa) (b.mag * fb)) := by
  rw [compare_mult_eq m op ha.dim hb.dim]
  by_cases h1 : a.units.beq b.units = true
  · rw [if_pos h1, ← root_congr hW ha hb h1, CmpOp.app_scale op _ _ hpos]
  · rw [if_neg h1, if_neg (by rw [he]; decide), toRoot_good hW m ha hra, toRoot_good hW m hb hrb]

/-- (T5) under `a.units == b.units` no hypothesis on the root units is needed -/
theorem compare_phys_partial {R : Registry} {S : String → Prop} (hW : R.WFintOn S) (m : Mode)
    (op : CmpOp) {a b : Qty} {ua ub da db : UC} {fa fb : Rat}
    (ha : Good R S a fa ua da) (hb : Good R S b fb ub db) (h1 : a.units.beq b.units = true)
    (hpos : 0 < fa) :
    R.compare m op a (.q b) = .ok (op.app (a.mag * fa) (b.mag * fb)) := by
  rw [compare_mult_eq m op ha.dim hb.dim, if_pos h1, ← root_congr hW ha hb h1,
    CmpOp.app_scale op _ _ hpos]

/-- (T5, error) different dimensionality -/
theorem compare_dim_error {R : Registry} {S : String → Prop} (m : Mode)
    (op : CmpOp) {a b : Qty} {ua ub da db : UC} {fa fb : Rat}
    (ha : Good R S a fa ua da) (hb : Good R S b fb ub db) (he : da.beq db = false) :
    R.compare m op a (.q b) = .error .dimensionality := by
  have h1 : ¬ a.units.beq b.units = true := fun h => by
    rw [dim_congr ha hb h] at he; cases he
  rw [compare_mult_eq m op ha.dim hb.dim, if_neg h1, if_pos he]

/-- (T5, error) the same from the raw hypotheses -/
theorem compare_dim_error' {R : Registry} (m : Mode) (op : CmpOp) {a b : Qty} {da db : UC}
    (ha : R.getDimensionality a.units = .ok da) (hb : R.getDimensionality b.units = .ok db)
    (he : da.beq db = false) (h1 : ¬ a.units.beq b.units = true) :
    R.compare m op a (.q b) = .error .dimensionality := by
  rw [compare_mult_eq m op ha hb, if_neg h1, if_pos he]

/-- the value `__hash__` is computed from: root magnitude and the dimensionality of the root units -/
theorem hashKey_good {R : Registry} {S : String → Prop} (hW : R.WFintOn S) (m : Mode)
    {a : Qty} {ua da : UC} {fa : Rat}
    (ha : Good R S a fa ua da) (hr : RootGood R S ua da) :
    ∃ du, R.getDimensionality ua = .ok du ∧ da.beq du = true ∧
      R.hashKey m a = .ok (a.mag * fa, du) := by
  obtain ⟨uu, du, hg, hb⟩ := hr
  refine ⟨du, hg.dim, hb, ?_⟩
  unfold Registry.hashKey
  rw [toRoot_good hW m ha ⟨uu, du, hg, hb⟩]
  simp only [hg.dim]

/-! ### T3 / T4 : floor division and modulo -/

theorem rat_div_rescale (x y : Rat) {f g : Rat} (hf : f ≠ 0) :
    x / (y * (g / f)) = (x * f) / (y * g) := by
  simp only [Rat.div_def, Rat.inv_mul_rev, Rat.inv_inv]
  have : f * f⁻¹ = 1 := Rat.mul_inv_cancel _ hf
  by_cases hy : y = 0
  · subst hy; simp [Rat.mul_zero, Rat.inv_zero]
  · by_cases hg : g = 0
    · subst hg; simp [Rat.zero_mul, Rat.mul_zero, Rat.inv_zero]
    · grind

theorem pyFloorDiv_rescale (x y : Rat) {f g : Rat} (hf : f ≠ 0) :
    pyFloorDiv x (y * (g / f)) = pyFloorDiv (x * f) (y * g) := by
  unfold pyFloorDiv; rw [rat_div_rescale x y hf]

/-- multiplicative operands pass through `offsetFree` unchanged (quantity operand) -/
theorem offsetFree_q_mult {R : Registry} (m : Mode) {a b : Qty}
    (ha : R.isMultQ a = true) (hb : R.isMultQ b = true) :
    R.offsetFree m a (.q b) = .ok (a, .q b) := by
  unfold Registry.offsetFree
  simp [Registry.operandsMult, ha, hb]

/-- multiplicative operands pass through `offsetFree` unchanged (bare-number operand) -/
theorem offsetFree_num_mult {R : Registry} (m : Mode) {a : Qty} (x : Rat)
    (ha : R.isMultQ a = true) :
    R.offsetFree m a (.num x) = .ok (a, .num x) := by
  unfold Registry.offsetFree
  simp [Registry.operandsMult, ha]

theorem offsetFree_q_good {R : Registry} {S : String → Prop} (m : Mode)
    {a b : Qty} {ua ub da db : UC} {fa fb : Rat}
    (ha : Good R S a fa ua da) (hb : Good R S b fb ub db) :
    R.offsetFree m a (.q b) = .ok (a, .q b) :=
  offsetFree_q_mult m (isMultQ_registered ha.reg) (isMultQ_registered hb.reg)

/-- (T3) floor division is the floor of the ratio of the physical values -/
theorem floordiv_phys {R : Registry} {S : String → Prop} (hW : R.WFintOn S) (m : Mode)
    {a b : Qty} {ua ub da db : UC} {fa fb : Rat}
    (ha : Good R S a fa ua da) (hb : Good R S b fb ub db) (he : da.beq db = true)
    (hz : b.mag ≠ 0) :
    R.floordiv m a (.q b) = .ok ⟨pyFloorDiv (a.mag * fa) (b.mag * fb), []⟩ := by
  have hna := ha.factor_ne_zero hW
  have hnb := hb.factor_ne_zero hW
  have hv : b.mag * (fb / fa) ≠ 0 := by
    intro h
    rw [Rat.div_def] at h
    rcases Rat.mul_eq_zero.1 h with h | h
    · exact hz h
    · rcases Rat.mul_eq_zero.1 h with h | h
      · exact hnb h
      · exact hna (by rw [← Rat.inv_inv fa, h, Rat.inv_zero])
  unfold Registry.floordiv
  simp only [offsetFree_q_good m ha hb, convertTo_good hW m ha hb he, hv, if_false,
    pyFloorDiv_rescale _ _ hna]

theorem floordiv_dim_error {R : Registry} {S : String → Prop} (m : Mode)
    {a b : Qty} {ua ub da db : UC} {fa fb : Rat}
    (ha : Good R S a fa ua da) (hb : Good R S b fb ub db) (he : da.beq db = false) :
    R.floordiv m a (.q b) = .error .dimensionality := by
  unfold Registry.floordiv
  simp only [offsetFree_q_good m ha hb, convertTo_dim_error m ha hb he]

/-- (T4) modulo: in the units of the left operand, physical value = `pyMod` of the physical values -/
theorem mod_phys {R : Registry} {S : String → Prop} (hW : R.WFintOn S) (m : Mode)
    {a b : Qty} {ua ub da db : UC} {fa fb : Rat}
    (ha : Good R S a fa ua da) (hb : Good R S b fb ub db) (he : da.beq db = true)
    (hz : b.mag ≠ 0) :
    ∃ c, R.mod m a (.q b) = .ok c ∧ c.units = a.units ∧
      c.mag * fa = pyMod (a.mag * fa) (b.mag * fb) := by
  have hna := ha.factor_ne_zero hW
  have hnb := hb.factor_ne_zero hW
  have hv : b.mag * (fb / fa) ≠ 0 := by
    intro h
    rw [Rat.div_def] at h
    rcases Rat.mul_eq_zero.1 h with h | h
    · exact hz h
    · rcases Rat.mul_eq_zero.1 h with h | h
      · exact hnb h
      · exact hna (by rw [← Rat.inv_inv fa, h, Rat.inv_zero])
  refine ⟨⟨pyMod a.mag (b.mag * (fb / fa)), a.units⟩, ?_, rfl, ?_⟩
  · unfold Registry.mod
    simp only [offsetFree_q_good m ha hb, convertTo_good hW m ha hb he, hv, if_false]
  · show pyMod a.mag (b.mag * (fb / fa)) * fa = _
    unfold pyMod
    rw [pyFloorDiv_rescale _ _ hna]
    have : fb / fa * fa = fb := Rat.div_mul_cancel hna
    grind

/-! ### total characterisations in terms of the physical values -/

theorem convTo_zero_iff {b fb fa : Rat} (hna : fa ≠ 0) : b * (fb / fa) = 0 ↔ b * fb = 0 := by
  rw [rat_mul_div_eq_iff hna, Rat.zero_mul]

/-- `floordiv` as a function of dimensionalities and physical values only -/
theorem floordiv_char {R : Registry} {S : String → Prop} (hW : R.WFintOn S) (m : Mode)
    {a b : Qty} {ua ub da db : UC} {fa fb : Rat}
    (ha : Good R S a fa ua da) (hb : Good R S b fb ub db) :
    R.floordiv m a (.q b) =
      if da.beq db = true then
        (if b.mag * fb = 0 then .error .zeroDiv
         else .ok ⟨pyFloorDiv (a.mag * fa) (b.mag * fb), []⟩)
      else .error .dimensionality := by
  have hna := ha.factor_ne_zero hW
  cases he : da.beq db with
  | false => rw [floordiv_dim_error m ha hb he]; rfl
  | true =>
    rw [if_pos rfl]
    unfold Registry.floordiv
    simp only [offsetFree_q_good m ha hb, convertTo_good hW m ha hb he, convTo_zero_iff hna,
      pyFloorDiv_rescale _ _ hna]

/-- `compare` as a function of dimensionalities and physical values only -/
theorem compare_char {R : Registry} {S : String → Prop} (hW : R.WFintOn S) (m : Mode)
    (op : CmpOp) {a b : Qty} {ua ub da db : UC} {fa fb : Rat}
    (ha : Good R S a fa ua da) (hb : Good R S b fb ub db)
    (hpos : 0 < fa) (hra : RootGood R S ua da) (hrb : RootGood R S ub db) :
    R.compare m op a (.q b) =
      if da.beq db = true then .ok (op.app (a.mag * fa) (b.mag * fb))
      else .error .dimensionality := by
  cases he : da.beq db with
  | false => rw [compare_dim_error m op ha hb he]; rfl
  | true => rw [compare_phys hW m op ha hb he hpos hra hrb]; rfl

/-! ### T7 : covariance under change of units -/

theorem beq_transfer {da da' db db' : UC} (h1 : da.Canon) (h2 : da'.Canon) (h3 : db.Canon)
    (h4 : db'.Canon) (ea : da.beq da' = true) (eb : db.beq db' = true) :
    da.beq db = da'.beq db' := by
  have ea' : da'.beq da = true := by rw [beq_comm]; exact ea
  have eb' : db'.beq db = true := by rw [beq_comm]; exact eb
  rw [Bool.eq_iff_iff]
  constructor
  · intro h; exact beq_trans h2 h3 h4 (beq_trans h2 h1 h3 ea' h) eb
  · intro h; exact beq_trans h1 h3 h3 (beq_trans h1 h2 h3 ea (beq_trans h2 h4 h3 h eb')) (beq_self h3)

section Covariance
variable {R : Registry} {S : String → Prop} (hW : R.WFintOn S) (m : Mode)
  {a a' b b' : Qty} {ua ua' ub ub' da da' db db' : UC} {fa fa' fb fb' : Rat}
include hW

/-- (T7, `+`/`-`) operands with the same dimensionalities and physical values give results with
    the same physical value, whatever units the operands (and hence the results) are
    expressed in.  `fc`/`fc'` are the root factors of the units of the results. -/
theorem add_cov (op : AddOp) {c c' : Qty}
    (ha : Good R S a fa ua da) (ha' : Good R S a' fa' ua' da')
    (hb : Good R S b fb ub db) (hb' : Good R S b' fb' ub' db')
    (va : rootMag a fa = rootMag a' fa') (vb : rootMag b fb = rootMag b' fb')
    (hc : R.addSub m op a (.q b) = .ok c) (hc' : R.addSub m op a' (.q b') = .ok c') :
    ∃ fc fc', (c.units = a.units ∧ fc = fa ∨ c.units = b.units ∧ fc = fb) ∧
      (c'.units = a'.units ∧ fc' = fa' ∨ c'.units = b'.units ∧ fc' = fb') ∧
      rootMag c fc = rootMag c' fc' := by
  have he : da.beq db = true := by
    cases h : da.beq db with
    | true => rfl
    | false => rw [add_dim_error m op ha.dim hb.dim h] at hc; cases hc
  have he' : da'.beq db' = true := by
    cases h : da'.beq db' with
    | true => rfl
    | false => rw [add_dim_error m op ha'.dim hb'.dim h] at hc'; cases hc'
  obtain ⟨fc, h1, h2⟩ := add_phys hW m op ha hb hc he
  obtain ⟨fc', h1', h2'⟩ := add_phys hW m op ha' hb' hc' he'
  refine ⟨fc, fc', h1, h1', ?_⟩
  unfold rootMag at va vb ⊢
  rw [h2, h2', va, vb]

/-- (T7, `+`/`-`) success is covariant too -/
theorem add_cov_ok (op : AddOp)
    (ha : Good R S a fa ua da) (ha' : Good R S a' fa' ua' da')
    (hb : Good R S b fb ub db) (hb' : Good R S b' fb' ub' db')
    (ea : da.beq da' = true) (eb : db.beq db' = true) :
    (∃ c, R.addSub m op a (.q b) = .ok c) ↔ (∃ c', R.addSub m op a' (.q b') = .ok c') := by
  have ht := beq_transfer ha.dim_canon ha'.dim_canon hb.dim_canon hb'.dim_canon ea eb
  cases h : da.beq db with
  | true =>
    obtain ⟨c, _, h1, _⟩ := add_phys_total hW m op ha hb h
    obtain ⟨c', _, h1', _⟩ := add_phys_total hW m op ha' hb' (ht ▸ h)
    exact ⟨fun _ => ⟨c', h1'⟩, fun _ => ⟨c, h1⟩⟩
  | false =>
    rw [add_dim_error m op ha.dim hb.dim h, add_dim_error m op ha'.dim hb'.dim (ht ▸ h)]

/-- (T7, `*`) -/
theorem mul_cov
    (ha : Good R S a fa ua da) (ha' : Good R S a' fa' ua' da')
    (hb : Good R S b fb ub db) (hb' : Good R S b' fb' ub' db')
    (va : rootMag a fa = rootMag a' fa') (vb : rootMag b fb = rootMag b' fb') :
    ∃ c c' fc fc' uc uc', R.mulDiv m .mul a (.q b) = .ok c ∧ R.mulDiv m .mul a' (.q b') = .ok c' ∧
      R.getRootUnits c.units = .ok (fc, uc) ∧ R.getRootUnits c'.units = .ok (fc', uc') ∧
      rootMag c fc = rootMag c' fc' := by
  obtain ⟨c, fc, uc, h1, _, h3, _, _, h6⟩ := mul_phys hW m ha hb
  obtain ⟨c', fc', uc', h1', _, h3', _, _, h6'⟩ := mul_phys hW m ha' hb'
  refine ⟨c, c', fc, fc', uc, uc', h1, h1', h3, h3', ?_⟩
  unfold rootMag at va vb ⊢
  rw [h6, h6', va, vb]

/-- (T7, `/`) -/
theorem div_cov
    (ha : Good R S a fa ua da) (ha' : Good R S a' fa' ua' da')
    (hb : Good R S b fb ub db) (hb' : Good R S b' fb' ub' db')
    (va : rootMag a fa = rootMag a' fa') (vb : rootMag b fb = rootMag b' fb')
    (hz : b.mag ≠ 0) :
    ∃ c c' fc fc' uc uc', R.mulDiv m .div a (.q b) = .ok c ∧ R.mulDiv m .div a' (.q b') = .ok c' ∧
      R.getRootUnits c.units = .ok (fc, uc) ∧ R.getRootUnits c'.units = .ok (fc', uc') ∧
      rootMag c fc = rootMag c' fc' := by
  unfold rootMag at va vb
  have hz' : b'.mag ≠ 0 := by
    intro h
    rw [h, Rat.zero_mul] at vb
    rcases Rat.mul_eq_zero.1 vb with h | h
    · exact hz h
    · exact hb.factor_ne_zero hW h
  obtain ⟨c, fc, uc, h1, _, h3, _, _, h6⟩ := div_phys hW m ha hb hz
  obtain ⟨c', fc', uc', h1', _, h3', _, _, h6'⟩ := div_phys hW m ha' hb' hz'
  refine ⟨c, c', fc, fc', uc, uc', h1, h1', h3, h3', ?_⟩
  unfold rootMag
  rw [h6, h6', va, vb]

/-- (T7, `//`) the results (value or error) are equal -/
theorem floordiv_cov
    (ha : Good R S a fa ua da) (ha' : Good R S a' fa' ua' da')
    (hb : Good R S b fb ub db) (hb' : Good R S b' fb' ub' db')
    (ea : da.beq da' = true) (eb : db.beq db' = true)
    (va : rootMag a fa = rootMag a' fa') (vb : rootMag b fb = rootMag b' fb') :
    R.floordiv m a (.q b) = R.floordiv m a' (.q b') := by
  unfold rootMag at va vb
  rw [floordiv_char hW m ha hb, floordiv_char hW m ha' hb', va, vb,
    beq_transfer ha.dim_canon ha'.dim_canon hb.dim_canon hb'.dim_canon ea eb]

/-- (T7, `%`) -/
theorem mod_cov
    (ha : Good R S a fa ua da) (ha' : Good R S a' fa' ua' da')
    (hb : Good R S b fb ub db) (hb' : Good R S b' fb' ub' db')
    (ea : da.beq da' = true) (eb : db.beq db' = true)
    (va : rootMag a fa = rootMag a' fa') (vb : rootMag b fb = rootMag b' fb')
    (he : da.beq db = true) (hz : b.mag ≠ 0) :
    ∃ c c', R.mod m a (.q b) = .ok c ∧ R.mod m a' (.q b') = .ok c' ∧
      c.units = a.units ∧ c'.units = a'.units ∧ rootMag c fa = rootMag c' fa' := by
  unfold rootMag at va vb
  have hz' : b'.mag ≠ 0 := by
    intro h
    rw [h, Rat.zero_mul] at vb
    rcases Rat.mul_eq_zero.1 vb with h | h
    · exact hz h
    · exact hb.factor_ne_zero hW h
  have he' : da'.beq db' = true := by
    rw [← beq_transfer ha.dim_canon ha'.dim_canon hb.dim_canon hb'.dim_canon ea eb]; exact he
  obtain ⟨c, h1, h2, h3⟩ := mod_phys hW m ha hb he hz
  obtain ⟨c', h1', h2', h3'⟩ := mod_phys hW m ha' hb' he' hz'
  refine ⟨c, c', h1, h1', h2, h2', ?_⟩
  unfold rootMag
  rw [h3, h3', va, vb]

/-- (T7, `<`, `<=`, `>`, `>=`) the results (value or error) are equal -/
theorem compare_cov (op : CmpOp)
    (ha : Good R S a fa ua da) (ha' : Good R S a' fa' ua' da')
    (hb : Good R S b fb ub db) (hb' : Good R S b' fb' ub' db')
    (ea : da.beq da' = true) (eb : db.beq db' = true)
    (va : rootMag a fa = rootMag a' fa') (vb : rootMag b fb = rootMag b' fb')
    (hpos : 0 < fa) (hpos' : 0 < fa')
    (hra : RootGood R S ua da) (hrb : RootGood R S ub db)
    (hra' : RootGood R S ua' da') (hrb' : RootGood R S ub' db') :
    R.compare m op a (.q b) = R.compare m op a' (.q b') := by
  unfold rootMag at va vb
  rw [compare_char hW m op ha hb hpos hra hrb, compare_char hW m op ha' hb' hpos' hra' hrb', va, vb,
    beq_transfer ha.dim_canon ha'.dim_canon hb.dim_canon hb'.dim_canon ea eb]

/-- (T7, `==`) the results are equal -/
theorem eq_cov
    (ha : Good R S a fa ua da) (ha' : Good R S a' fa' ua' da')
    (hb : Good R S b fb ub db) (hb' : Good R S b' fb' ub' db')
    (ea : da.beq da' = true) (eb : db.beq db' = true)
    (va : rootMag a fa = rootMag a' fa') (vb : rootMag b fb = rootMag b' fb') :
    R.qeq m a (.q b) = R.qeq m a' (.q b') := by
  unfold rootMag at va vb
  rw [eq_phys hW m ha hb, eq_phys hW m ha' hb', va, vb,
    beq_transfer ha.dim_canon ha'.dim_canon hb.dim_canon hb'.dim_canon ea eb]

/-- (T7, `hash`) equal quantities hash equal as soon as their root units coincide -/
theorem hashKey_cov
    (ha : Good R S a fa ua da) (ha' : Good R S a' fa' ua' da')
    (va : rootMag a fa = rootMag a' fa') (hu : ua = ua')
    (hra : RootGood R S ua da) (hra' : RootGood R S ua' da') :
    R.hashKey m a = R.hashKey m a' := by
  unfold rootMag at va
  subst hu
  obtain ⟨du, h1, _, h2⟩ := hashKey_good hW m ha hra
  obtain ⟨du', h1', _, h2'⟩ := hashKey_good hW m ha' hra'
  rw [h1] at h1'; cases h1'
  rw [h2, h2', va]

end Covariance

end Pint
