/-
  Structural theorems about `Eval.build` / `Eval.buildEvalTree` (the port of pint's
  `_build_eval_tree`): the in-order yield of the returned tree is exactly the token sequence
  that was consumed (operands and operators, in order, nothing dropped, invented or reordered).
-/
import PintModel.Model.EvalTree
import PintModel.Gen.EvalTables

namespace Pint.Eval

/-! ### yields -/

/-- what a tree node contributes to the in-order yield -/
inductive Item
  | operand (t : Token)
  | oper (s : String)
  deriving DecidableEq, Repr

def optOp : Option String → List Item
  | some s => [.oper s]
  | none => []

/-- in-order yield of a tree: leaf tokens and operator texts (implicit products are silent) -/
def Tree.items : Tree → List Item
  | .leaf t => [.operand t]
  | .unary op a => .oper op :: a.items
  | .binary l op r => l.items ++ optOp op ++ r.items

def optItems : Option Tree → List Item
  | some t => t.items
  | none => []

/-- in-order list of leaf tokens -/
def Tree.leaves : Tree → List Token
  | .leaf t => [t]
  | .unary _ a => a.leaves
  | .binary l _ r => l.leaves ++ r.leaves

/-- in-order list of operator texts (unary and binary; implicit products skipped) -/
def Tree.ops : Tree → List String
  | .leaf _ => []
  | .unary op a => op :: a.ops
  | .binary l op r => l.ops ++ op.toList ++ r.ops

def isOperand (t : Token) : Bool := t.kind == .number || t.kind == .name

/-- an operator token that the parser turns into a node: kind `op`, not a parenthesis, and
    present in the priority table (other `op` tokens are a syntax error in `_build_eval_tree` (they used to be skipped)) -/
def isOperator (prio : Prio) (t : Token) : Bool :=
  t.kind == .op && t.text != ")" && t.text != "(" && (prioOf prio t.text).isSome

/-- the operand tokens (kind number or name), in order -/
def operands (toks : List Token) : List Token := toks.filter isOperand

/-- the texts of the operator tokens, in order -/
def operators (prio : Prio) (toks : List Token) : List String :=
  (toks.filter (isOperator prio)).map (·.text)

/-- what one token contributes to the yield -/
def tokItems (prio : Prio) (tok : Token) : List Item :=
  if tok.kind == .op then
    if tok.text == ")" then []
    else if tok.text == "(" then []
    else match prioOf prio tok.text with
      | some _ => [.oper tok.text]
      | none => []
  else if tok.kind == .number || tok.kind == .name then [.operand tok]
  else []

def Item.operand? : Item → Option Token
  | .operand t => some t
  | .oper _ => none

def Item.oper? : Item → Option String
  | .operand _ => none
  | .oper s => some s

@[simp] theorem Item.operand?_operand (t : Token) : Item.operand? (.operand t) = some t := rfl
@[simp] theorem Item.operand?_oper (s : String) : Item.operand? (.oper s) = none := rfl
@[simp] theorem Item.oper?_operand (t : Token) : Item.oper? (.operand t) = none := rfl
@[simp] theorem Item.oper?_oper (s : String) : Item.oper? (.oper s) = some s := rfl

theorem Tree.leaves_eq_items (t : Tree) : t.leaves = t.items.filterMap Item.operand? := by
  induction t with
  | leaf t => rfl
  | unary op a ih => simp [Tree.leaves, Tree.items, List.filterMap_cons, ih]
  | binary l op r ihl ihr =>
    cases op <;> simp [Tree.leaves, Tree.items, optOp, List.filterMap_cons, ihl, ihr]

theorem Tree.ops_eq_items (t : Tree) : t.ops = t.items.filterMap Item.oper? := by
  induction t with
  | leaf t => rfl
  | unary op a ih => simp [Tree.ops, Tree.items, ih]
  | binary l op r ihl ihr =>
    cases op <;> simp [Tree.ops, Tree.items, optOp, ihl, ihr]

theorem tokItems_operand (prio : Prio) (tok : Token) :
    (tokItems prio tok).filterMap Item.operand? = if isOperand tok then [tok] else [] := by
  unfold tokItems isOperand
  cases tok with | mk k s =>
  cases k <;> simp <;> (repeat' split) <;> simp_all

theorem tokItems_oper (prio : Prio) (tok : Token) :
    (tokItems prio tok).filterMap Item.oper? = if isOperator prio tok then [tok.text] else [] := by
  unfold tokItems isOperator
  cases tok with | mk k s =>
  cases k <;> simp <;> (repeat' split) <;> simp_all

theorem flatMap_tokItems_operand (prio : Prio) (l : List Token) :
    (l.flatMap (tokItems prio)).filterMap Item.operand? = operands l := by
  induction l with
  | nil => rfl
  | cons a l ih =>
    simp only [List.flatMap_cons, List.filterMap_append, ih, tokItems_operand, operands,
      List.filter_cons]
    split <;> simp

theorem flatMap_tokItems_oper (prio : Prio) (l : List Token) :
    (l.flatMap (tokItems prio)).filterMap Item.oper? = operators prio l := by
  induction l with
  | nil => rfl
  | cons a l ih =>
    simp only [List.flatMap_cons, List.filterMap_append, ih, tokItems_oper, operators,
      List.filter_cons]
    split <;> simp

/-! ### token ranges -/

/-- the yield of the tokens at positions `a ≤ i < b` -/
def rangeItems (prio : Prio) (toks : Array Token) (a b : Nat) : List Item :=
  ((toks.toList.drop a).take (b - a)).flatMap (tokItems prio)

theorem rangeItems_self (prio : Prio) (toks : Array Token) (a : Nat) :
    rangeItems prio toks a a = [] := by
  simp [rangeItems]

theorem rangeItems_cons {prio : Prio} {toks : Array Token} {a b : Nat} {tok : Token}
    (h : toks[a]? = some tok) (hab : a < b) :
    rangeItems prio toks a b = tokItems prio tok ++ rangeItems prio toks (a + 1) b := by
  obtain ⟨ha, rfl⟩ := Array.getElem?_eq_some_iff.mp h
  unfold rangeItems
  have h1 : toks.toList.drop a = toks[a] :: toks.toList.drop (a + 1) := by
    rw [List.drop_eq_getElem_cons (by simpa using ha)]; simp
  have h2 : b - a = (b - (a + 1)) + 1 := by omega
  rw [h1, h2, List.take_succ_cons, List.flatMap_cons]

theorem rangeItems_append {prio : Prio} {toks : Array Token} {a b c : Nat}
    (hab : a ≤ b) (hbc : b ≤ c) :
    rangeItems prio toks a b ++ rangeItems prio toks b c = rangeItems prio toks a c := by
  unfold rangeItems
  have h1 : c - a = (b - a) + (c - b) := by omega
  have h2 : toks.toList.drop b = (toks.toList.drop a).drop (b - a) := by
    rw [List.drop_drop]; congr 1; omega
  rw [h1, List.take_add, List.flatMap_append, h2]

theorem rangeItems_single {prio : Prio} {toks : Array Token} {a : Nat} {tok : Token}
    (h : toks[a]? = some tok) :
    rangeItems prio toks a (a + 1) = tokItems prio tok := by
  rw [rangeItems_cons h (by omega), rangeItems_self, List.append_nil]

/-! ### one pass through the loop body -/

/-- the token dispatch of `build` (the `stepRes` of the model), with the recursive call abstracted -/
def stepOf (prio : Prio) (toks : Array Token)
    (rec : Nat → Nat → String → Option Tree → Except PErr (Tree × Nat))
    (index depth : Nat) (prevOp : String) (result : Option Tree) (tok : Token) : Except PErr Step :=
  if tok.kind == .op then
    if tok.text == ")" then
      if prevOp == "<none>" then .error .unopened
      else match result with
        | none => .error .assertion
        | some r => if prevOp == "(" then .ok (.ret r index) else .ok (.ret r (index - 1))
    else if tok.text == "(" then
      match result with
      | some r =>
        if prioGet prio "" ≤ prioGet prio prevOp && (prioOf prio "").isSome then .ok (.ret r (index - 1))
        else
          (match rec index (depth + 1) "" none with
            | .error e => .error e
            | .ok (right, idx) => .ok (.cont (some (.binary r none right)) idx))
      | none =>
        (match rec (index + 1) 0 "(" none with
          | .error e => .error e
          | .ok (right, idx) =>
            if (toks[idx]?.map (·.text)) != some ")" then .error .weirdExit
            else .ok (.cont (some right) idx))
    else match prioOf prio tok.text with
      | some p =>
        (match result with
          | some r =>
            if p < prioGet prio prevOp || (p == prioGet prio prevOp && tok.text != "**" && tok.text != "^") then .ok (.ret r (index - 1))
            else match rec (index + 1) (depth + 1) tok.text none with
              | .error e => .error e
              | .ok (right, idx) => .ok (.cont (some (.binary r (some tok.text) right)) idx)
          | none =>
            match rec (index + 1) (depth + 1) "unary" none with
            | .error e => .error e
            | .ok (right, idx) => .ok (.cont (some (.unary tok.text right)) idx))
      | none => .error .unknownOp
  else if tok.kind == .string then .error .unexpectedString
  else if tok.kind == .number || tok.kind == .name then
    match result with
    | some r =>
      if prioGet prio "" ≤ prioGet prio prevOp then .ok (.ret r (index - 1))
      else match rec index (depth + 1) "" none with
        | .error e => .error e
        | .ok (right, idx) => .ok (.cont (some (.binary r none right)) idx)
    | none => .ok (.cont (some (.leaf tok)) index)
  else .ok (.cont result index)

theorem build_zero (prio : Prio) (toks : Array Token) (index depth : Nat) (prevOp : String)
    (result : Option Tree) : build prio toks 0 index depth prevOp result = .error .fuel := by
  rw [build]

theorem build_succ (prio : Prio) (toks : Array Token) (fuel index depth : Nat) (prevOp : String)
    (result : Option Tree) :
    build prio toks (fuel + 1) index depth prevOp result =
      match toks[index]? with
      | none => .error .index
      | some tok =>
        match stepOf prio toks (build prio toks fuel) index depth prevOp result tok with
        | .error e => .error e
        | .ok (.ret t i) => .ok (t, i)
        | .ok (.cont res idx) =>
          match toks[idx]? with
          | none => .error .index
          | some t2 =>
            if t2.kind == .endmarker then
              if prevOp == "(" then .error .unclosed
              else match res with
                | some r => .ok (r, idx)
                | none => .error .assertion
            else if idx + 1 ≥ toks.size then .error .unexpectedEnd
            else build prio toks fuel (idx + 1) depth prevOp res := by
  rfl

/-! ### the invariant -/

/-- no end marker at positions `a ≤ i < b` -/
def NoEnd (toks : Array Token) (a b : Nat) : Prop :=
  ∀ i tk, a ≤ i → i < b → toks[i]? = some tk → tk.kind ≠ .endmarker

/-- what a successful `build … index … result = .ok (t, j)` guarantees -/
structure Inv (prio : Prio) (toks : Array Token) (index : Nat) (result : Option Tree)
    (t : Tree) (j : Nat) : Prop where
  le : index ≤ j + 1
  le_none : result = none → index ≤ j
  lt : j < toks.size
  items : t.items = optItems result ++ rangeItems prio toks index (j + 1)
  noEnd : NoEnd toks index j

/-- what a `cont res idx` outcome of the token dispatch guarantees -/
structure ContInv (prio : Prio) (toks : Array Token) (index : Nat) (result : Option Tree)
    (res : Option Tree) (idx : Nat) : Prop where
  le : index ≤ idx + 1
  le_none : result = none → index ≤ idx
  items : optItems res = optItems result ++ rangeItems prio toks index (idx + 1)
  noEnd : NoEnd toks index idx

def RecOK (prio : Prio) (toks : Array Token)
    (rec : Nat → Nat → String → Option Tree → Except PErr (Tree × Nat)) : Prop :=
  ∀ index depth prevOp result t j, (result.isSome → 0 < index) →
    rec index depth prevOp result = .ok (t, j) → Inv prio toks index result t j

theorem lt_size_of_getElem? {toks : Array Token} {i : Nat} {tok : Token}
    (h : toks[i]? = some tok) : i < toks.size := by
  obtain ⟨hi, _⟩ := Array.getElem?_eq_some_iff.mp h
  exact hi

/-- "unread the current token": `return result, index - 1` -/
theorem inv_unread {prio : Prio} {toks : Array Token} {index : Nat} {tok : Token} {r : Tree}
    (htok : toks[index]? = some tok) (hpos : 0 < index) :
    Inv prio toks index (some r) r (index - 1) := by
  have := lt_size_of_getElem? htok
  refine ⟨by omega, by simp, by omega, ?_, ?_⟩
  · have : index - 1 + 1 = index := by omega
    rw [this, rangeItems_self]; simp [optItems]
  · intro i tk h1 h2; omega

/-- the closing parenthesis of a group: `return result, index` -/
theorem inv_close {prio : Prio} {toks : Array Token} {index : Nat} {tok : Token} {r : Tree}
    (htok : toks[index]? = some tok) (hk : (tok.kind == TokKind.op) = true)
    (ht : (tok.text == ")") = true) :
    Inv prio toks index (some r) r index := by
  have := lt_size_of_getElem? htok
  refine ⟨by omega, by simp, by omega, ?_, ?_⟩
  · rw [rangeItems_single htok]; simp [optItems, tokItems, hk, ht]
  · intro i tk h1 h2; omega

theorem stepOf_ret {prio : Prio} {toks : Array Token}
    {rec : Nat → Nat → String → Option Tree → Except PErr (Tree × Nat)}
    {index depth : Nat} {prevOp : String} {result : Option Tree} {tok : Token} {t : Tree} {j : Nat}
    (htok : toks[index]? = some tok) (hpos : result.isSome → 0 < index)
    (h : stepOf prio toks rec index depth prevOp result tok = .ok (.ret t j)) :
    Inv prio toks index result t j := by
  unfold stepOf at h
  repeat' (split at h)
  all_goals (first | (cases h; done) | skip)
  all_goals (injection h with h; injection h with h1 h2; subst h1 h2)
  · exact inv_close htok ‹_› ‹_›
  all_goals exact inv_unread htok (hpos rfl)

/-- the current token is consumed and contributes `its` to the yield -/
theorem cont_here {prio : Prio} {toks : Array Token} {index : Nat} {tok : Token}
    {result res : Option Tree}
    (htok : toks[index]? = some tok)
    (hitems : optItems res = optItems result ++ tokItems prio tok) :
    ContInv prio toks index result res index := by
  refine ⟨by omega, by intro; omega, ?_, ?_⟩
  · rw [rangeItems_single htok, hitems]
  · intro i tk h1 h2; omega

/-- the right operand was parsed starting at the current token (implicit product) -/
theorem cont_same {prio : Prio} {toks : Array Token} {index idx : Nat}
    {r right : Tree}
    (hinv : Inv prio toks index none right idx) :
    ContInv prio toks index (some r) (some (.binary r none right)) idx := by
  refine ⟨hinv.le, by simp, ?_, hinv.noEnd⟩
  simp [optItems, Tree.items, optOp, hinv.items]

/-- the current token is consumed and the sub-expression after it was parsed recursively -/
theorem cont_next {prio : Prio} {toks : Array Token} {index idx : Nat} {tok : Token}
    {result res : Option Tree} {right : Tree}
    (htok : toks[index]? = some tok) (hk : (tok.kind == TokKind.op) = true)
    (hinv : Inv prio toks (index + 1) none right idx)
    (hitems : optItems res = optItems result ++ tokItems prio tok ++ right.items) :
    ContInv prio toks index result res idx := by
  have hle := hinv.le_none rfl
  refine ⟨by omega, by intro; omega, ?_, ?_⟩
  · rw [rangeItems_cons htok (by omega), hitems, hinv.items]
    simp [optItems]
  · intro i tk h1 h2 h3
    by_cases hi : i = index
    · subst hi
      rw [htok] at h3
      injection h3 with h3
      subst h3
      intro hc
      simp [hc] at hk
    · exact hinv.noEnd i tk (by omega) h2 h3

theorem stepOf_cont {prio : Prio} {toks : Array Token}
    {rec : Nat → Nat → String → Option Tree → Except PErr (Tree × Nat)}
    {index depth : Nat} {prevOp : String} {result : Option Tree} {tok : Token}
    {res : Option Tree} {idx : Nat}
    (ih : RecOK prio toks rec)
    (htok : toks[index]? = some tok) (hpos : result.isSome → 0 < index)
    (h : stepOf prio toks rec index depth prevOp result tok = .ok (.cont res idx)) :
    ContInv prio toks index result res idx := by
  unfold stepOf at h
  repeat' (split at h)
  all_goals (first | (cases h; done) | skip)
  all_goals (injection h with h; injection h with h1 h2; subst h1 h2)
  · exact cont_same (ih _ _ _ _ _ _ (by simp) ‹_›)
  · refine cont_next htok ‹_› (ih _ _ _ _ _ _ (by simp) ‹_›) ?_
    simp [tokItems, optItems, *]
  · refine cont_next htok ‹_› (ih _ _ _ _ _ _ (by simp) ‹_›) ?_
    simp [tokItems, optItems, Tree.items, optOp, *]
  · refine cont_next htok ‹_› (ih _ _ _ _ _ _ (by simp) ‹_›) ?_
    simp [tokItems, optItems, Tree.items, *]
  · exact cont_same (ih _ _ _ _ _ _ (by simp) ‹_›)
  · exact cont_here htok (by simp [tokItems, optItems, Tree.items, *])
  · exact cont_here htok (by simp [tokItems, *])

theorem inv_of_cont_end {prio : Prio} {toks : Array Token} {index idx : Nat} {t2 : Token}
    {result : Option Tree} {r : Tree}
    (hc : ContInv prio toks index result (some r) idx) (ht2 : toks[idx]? = some t2) :
    Inv prio toks index result r idx :=
  ⟨hc.le, hc.le_none, lt_size_of_getElem? ht2, hc.items, hc.noEnd⟩

theorem inv_of_cont_tail {prio : Prio} {toks : Array Token} {index idx j : Nat} {t2 : Token}
    {result res : Option Tree} {t : Tree}
    (hc : ContInv prio toks index result res idx) (ht2 : toks[idx]? = some t2)
    (hne : ¬(t2.kind == TokKind.endmarker) = true)
    (hinv : Inv prio toks (idx + 1) res t j) :
    Inv prio toks index result t j := by
  have h1 := hc.le
  have h2 := hinv.le
  refine ⟨by omega, ?_, hinv.lt, ?_, ?_⟩
  · intro hn; have := hc.le_none hn; omega
  · rw [hinv.items, hc.items, List.append_assoc, rangeItems_append hc.le hinv.le]
  · intro i tk h3 h4 h5
    by_cases hi : i < idx
    · exact hc.noEnd i tk h3 hi h5
    · by_cases hi2 : i = idx
      · subst hi2
        rw [ht2] at h5
        injection h5 with h5
        subst h5
        simpa using hne
      · exact hinv.noEnd i tk (by omega) h4 h5

/-- **the invariant of `build`** -/
theorem build_inv (prio : Prio) (toks : Array Token) (fuel : Nat) :
    RecOK prio toks (build prio toks fuel) := by
  induction fuel with
  | zero =>
    intro index depth prevOp result t j _ h
    rw [build_zero] at h
    cases h
  | succ fuel ih =>
    intro index depth prevOp result t j hpos h
    rw [build_succ] at h
    split at h
    · cases h
    · rename_i tok htok
      split at h
      · cases h
      · rename_i t' i hs
        injection h with h
        injection h with h1 h2
        subst h1 h2
        exact stepOf_ret htok hpos hs
      · rename_i res idx hs
        have hc := stepOf_cont ih htok hpos hs
        split at h
        · cases h
        · rename_i t2 ht2
          split at h
          · split at h
            · cases h
            · split at h
              · injection h with h
                injection h with h1 h2
                subst h1 h2
                exact inv_of_cont_end hc ht2
              · cases h
          · rename_i hne
            split at h
            · cases h
            · exact inv_of_cont_tail hc ht2 hne (ih _ _ _ _ _ _ (by simp) h)

/-! ### consequences for `build` on a token range -/

/-- the tokens at positions `a ≤ i < b` -/
def tokRange (toks : Array Token) (a b : Nat) : List Token := (toks.toList.drop a).take (b - a)

def optLeaves : Option Tree → List Token
  | some t => t.leaves
  | none => []

def optOps : Option Tree → List String
  | some t => t.ops
  | none => []

theorem optLeaves_eq_items (r : Option Tree) : optLeaves r = (optItems r).filterMap Item.operand? := by
  cases r <;> simp [optLeaves, optItems, Tree.leaves_eq_items]

theorem optOps_eq_items (r : Option Tree) : optOps r = (optItems r).filterMap Item.oper? := by
  cases r <;> simp [optOps, optItems, Tree.ops_eq_items]

/-- (C) index progress: the returned index is a valid position, at most one token is "unread",
    and none when the call started without a pending left operand -/
theorem build_index {prio : Prio} {toks : Array Token} {fuel index depth : Nat} {prevOp : String}
    {result : Option Tree} {t : Tree} {j : Nat}
    (hpos : result.isSome → 0 < index)
    (h : build prio toks fuel index depth prevOp result = .ok (t, j)) :
    index ≤ j + 1 ∧ (result = none → index ≤ j) ∧ j < toks.size :=
  have hi := build_inv prio toks fuel _ _ _ _ _ _ hpos h
  ⟨hi.le, hi.le_none, hi.lt⟩

/-- (A) for a token range: the leaves of the returned tree are the leaves of the incoming
    `result` followed by exactly the operand tokens at positions `index … j`, in order -/
theorem build_leaves {prio : Prio} {toks : Array Token} {fuel index depth : Nat} {prevOp : String}
    {result : Option Tree} {t : Tree} {j : Nat}
    (hpos : result.isSome → 0 < index)
    (h : build prio toks fuel index depth prevOp result = .ok (t, j)) :
    t.leaves = optLeaves result ++ operands (tokRange toks index (j + 1)) := by
  have hi := build_inv prio toks fuel _ _ _ _ _ _ hpos h
  rw [Tree.leaves_eq_items, hi.items, List.filterMap_append, optLeaves_eq_items]
  unfold rangeItems
  rw [flatMap_tokItems_operand]
  rfl

/-- (B) for a token range, in its exact form: the operators of the returned tree are those of
    the incoming `result` followed by exactly the texts of the operator tokens at positions
    `index … j`, in order -/
theorem build_ops {prio : Prio} {toks : Array Token} {fuel index depth : Nat} {prevOp : String}
    {result : Option Tree} {t : Tree} {j : Nat}
    (hpos : result.isSome → 0 < index)
    (h : build prio toks fuel index depth prevOp result = .ok (t, j)) :
    t.ops = optOps result ++ operators prio (tokRange toks index (j + 1)) := by
  have hi := build_inv prio toks fuel _ _ _ _ _ _ hpos h
  rw [Tree.ops_eq_items, hi.items, List.filterMap_append, optOps_eq_items]
  unfold rangeItems
  rw [flatMap_tokItems_oper]
  rfl

/-- no end marker is stepped over -/
theorem build_noEnd {prio : Prio} {toks : Array Token} {fuel index depth : Nat} {prevOp : String}
    {result : Option Tree} {t : Tree} {j : Nat}
    (hpos : result.isSome → 0 < index)
    (h : build prio toks fuel index depth prevOp result = .ok (t, j)) :
    ∀ i tk, index ≤ i → i < j → toks[i]? = some tk → tk.kind ≠ .endmarker :=
  (build_inv prio toks fuel _ _ _ _ _ _ hpos h).noEnd

/-! ### the top-level call -/

/-- the assumptions on the priority table under which the top-level call (`prev_op = None`,
    priority -1) can only stop at the end marker -/
structure PrioWF (prio : Prio) : Prop where
  none_absent : prioOf prio "<none>" = none
  nonneg : ∀ s p, prioOf prio s = some p → 0 ≤ p
  implicit : (prioOf prio "").isSome

theorem PrioWF.get_none {prio : Prio} (hp : PrioWF prio) : prioGet prio "<none>" = -1 := by
  simp [prioGet, hp.none_absent]

theorem PrioWF.get_implicit {prio : Prio} (hp : PrioWF prio) : 0 ≤ prioGet prio "" := by
  have h := hp.implicit
  cases hq : prioOf prio "" with
  | none => simp [hq] at h
  | some p => simpa [prioGet, hq] using hp.nonneg _ _ hq

theorem prioWF_of_all {prio : Prio} (h1 : prioOf prio "<none>" = none)
    (h2 : ∀ e ∈ prio, 0 ≤ e.2) (h3 : (prioOf prio "").isSome) : PrioWF prio := by
  refine ⟨h1, ?_, h3⟩
  intro s p hs
  unfold prioOf at hs
  cases hf : prio.find? (·.1 == s) with
  | none => simp [hf] at hs
  | some e =>
    simp [hf] at hs
    subst hs
    exact h2 e (List.mem_of_find?_eq_some hf)

/-- the bundled `_OP_PRIORITY` satisfies the assumptions -/
theorem prioWF_opPriority : PrioWF Gen.opPriority :=
  prioWF_of_all (by decide) (by decide) (by decide)

theorem stepOf_top_no_ret {prio : Prio} {toks : Array Token}
    {rec : Nat → Nat → String → Option Tree → Except PErr (Tree × Nat)}
    {index depth : Nat} {result : Option Tree} {tok : Token} {t : Tree} {j : Nat}
    (hp : PrioWF prio)
    (h : stepOf prio toks rec index depth "<none>" result tok = .ok (.ret t j)) : False := by
  have h1 := hp.get_none
  have h2 := hp.get_implicit
  unfold stepOf at h
  repeat' (split at h)
  all_goals (first | (cases h; done) | skip)
  · rename_i hn _ _ _; simp at hn
  · rename_i hn _ _ _; simp at hn
  · rename_i hc; simp at hc; omega
  · rename_i _ _ _ v hv _ _ hc
    have := hp.nonneg _ _ hv
    simp at hc; omega
  · rename_i hc; omega

/-- with `prev_op = None` the loop can only be left at the end marker -/
theorem build_top_end {prio : Prio} (hp : PrioWF prio) (toks : Array Token) (fuel : Nat) :
    ∀ index depth result t j,
      build prio toks fuel index depth "<none>" result = .ok (t, j) →
      ∃ tk, toks[j]? = some tk ∧ tk.kind = .endmarker := by
  induction fuel with
  | zero =>
    intro index depth result t j h
    rw [build_zero] at h
    cases h
  | succ fuel ih =>
    intro index depth result t j h
    rw [build_succ] at h
    split at h
    · cases h
    · rename_i tok htok
      split at h
      · cases h
      · rename_i t' i hs
        exact (stepOf_top_no_ret hp hs).elim
      · rename_i res idx hs
        split at h
        · cases h
        · rename_i t2 ht2
          split at h
          · rename_i hend
            split at h
            · cases h
            · split at h
              · injection h with h
                injection h with h1 h2
                subst h1 h2
                exact ⟨t2, ht2, by simpa using hend⟩
              · cases h
          · split at h
            · cases h
            · exact ih _ _ _ _ _ h

/-- the tokens before the first end marker -/
def beforeEnd (toks : List Token) : List Token := toks.takeWhile (fun t => t.kind != .endmarker)

theorem beforeEnd_eq_take {toks : List Token} {j : Nat} {tk : Token}
    (hj : toks[j]? = some tk) (hk : tk.kind = .endmarker)
    (hno : ∀ i tk', i < j → toks[i]? = some tk' → tk'.kind ≠ .endmarker) :
    beforeEnd toks = toks.take j := by
  induction toks generalizing j with
  | nil => simp at hj
  | cons a l ih =>
    cases j with
    | zero =>
      simp at hj
      subst hj
      simp [beforeEnd, hk]
    | succ j =>
      have ha : a.kind ≠ .endmarker := hno 0 a (by omega) (by simp)
      have := ih (j := j) (by simpa using hj)
        (fun i tk' hi h => hno (i + 1) tk' (by omega) (by simpa using h))
      simp [beforeEnd, ha] at this ⊢
      exact this

theorem beforeEnd_append_eof {body : List Token} {eof : Token}
    (hbody : ∀ tk ∈ body, tk.kind ≠ .endmarker) (heof : eof.kind = .endmarker) :
    beforeEnd (body ++ [eof]) = body := by
  induction body with
  | nil => simp [beforeEnd, heof]
  | cons a l ih =>
    have ha : a.kind ≠ .endmarker := hbody a (by simp)
    have := ih (fun tk h => hbody tk (by simp [h]))
    simp [beforeEnd, ha] at this ⊢
    exact this

/-- the strongest form: under `PrioWF`, the in-order yield of the tree returned by
    `buildEvalTree` is exactly the yield of the tokens before the first end marker -/
theorem buildEvalTree_items {prio : Prio} (hp : PrioWF prio) {toks : List Token} {t : Tree}
    (h : buildEvalTree prio toks = .ok t) :
    t.items = (beforeEnd toks).flatMap (tokItems prio) := by
  unfold buildEvalTree at h
  simp only at h
  split at h
  · rename_i t' j hb
    injection h with h
    subst h
    have hi := build_inv prio toks.toArray _ _ _ _ _ _ _ (by simp) hb
    obtain ⟨tk, hj, hk⟩ := build_top_end hp toks.toArray _ _ _ _ _ _ hb
    have hj' : toks[j]? = some tk := by simpa using hj
    have hno : ∀ i tk', i < j → toks[i]? = some tk' → tk'.kind ≠ .endmarker :=
      fun i tk' hij h => hi.noEnd i tk' (by omega) hij (by simpa using h)
    rw [beforeEnd_eq_take hj' hk hno, hi.items]
    simp only [optItems, List.nil_append, rangeItems, List.drop_zero, Nat.sub_zero]
    rw [List.take_add_one, hj']
    simp [tokItems, hk]
  · cases h

/-- **(A), top level**: no operand is dropped, duplicated or reordered: the leaves of the tree
    are exactly the operand tokens before the first end marker -/
theorem buildEvalTree_leaves {prio : Prio} (hp : PrioWF prio) {toks : List Token} {t : Tree}
    (h : buildEvalTree prio toks = .ok t) :
    t.leaves = operands (beforeEnd toks) := by
  rw [Tree.leaves_eq_items, buildEvalTree_items hp h, flatMap_tokItems_operand]

/-- **(B), top level, exact form**: the operators of the tree (unary and binary, in order) are
    exactly the texts of the operator tokens before the first end marker -/
theorem buildEvalTree_ops {prio : Prio} (hp : PrioWF prio) {toks : List Token} {t : Tree}
    (h : buildEvalTree prio toks = .ok t) :
    t.ops = operators prio (beforeEnd toks) := by
  rw [Tree.ops_eq_items, buildEvalTree_items hp h, flatMap_tokItems_oper]

theorem operands_append_eof {body : List Token} {eof : Token} (heof : eof.kind = .endmarker) :
    operands (body ++ [eof]) = operands body := by
  simp [operands, List.filter_append, isOperand, heof]

theorem operators_append_eof {prio : Prio} {body : List Token} {eof : Token}
    (heof : eof.kind = .endmarker) :
    operators prio (body ++ [eof]) = operators prio body := by
  simp [operators, List.filter_append, isOperator, heof]

/-- (A) for a well-formed token list (a body without end markers followed by the end marker):
    `t.leaves = operands toks` -/
theorem buildEvalTree_leaves_eof {prio : Prio} (hp : PrioWF prio) {body : List Token} {eof : Token}
    {t : Tree} (hbody : ∀ tk ∈ body, tk.kind ≠ .endmarker) (heof : eof.kind = .endmarker)
    (h : buildEvalTree prio (body ++ [eof]) = .ok t) :
    t.leaves = operands (body ++ [eof]) := by
  rw [buildEvalTree_leaves hp h, beforeEnd_append_eof hbody heof, operands_append_eof heof]

/-- (B), exact form, for a well-formed token list -/
theorem buildEvalTree_ops_eof {prio : Prio} (hp : PrioWF prio) {body : List Token} {eof : Token}
    {t : Tree} (hbody : ∀ tk ∈ body, tk.kind ≠ .endmarker) (heof : eof.kind = .endmarker)
    (h : buildEvalTree prio (body ++ [eof]) = .ok t) :
    t.ops = operators prio (body ++ [eof]) := by
  rw [buildEvalTree_ops hp h, beforeEnd_append_eof hbody heof, operators_append_eof heof]

/-- (A) without any assumption on the priority table: the leaves are the operands of a
    non-empty prefix of the token list (a degenerate table can make the top-level call stop
    early, but it can never drop, invent or reorder an operand inside what it consumed) -/
theorem buildEvalTree_leaves_prefix {prio : Prio} {toks : List Token} {t : Tree}
    (h : buildEvalTree prio toks = .ok t) :
    ∃ j, j < toks.length ∧ t.leaves = operands (toks.take (j + 1)) ∧
      t.ops = operators prio (toks.take (j + 1)) := by
  unfold buildEvalTree at h
  simp only at h
  split at h
  · rename_i t' j hb
    injection h with h
    subst h
    refine ⟨j, ?_, ?_, ?_⟩
    · simpa using (build_index (by simp) hb).2.2
    · rw [build_leaves (by simp) hb]
      simp [optLeaves, tokRange]
    · rw [build_ops (by simp) hb]
      simp [optOps, tokRange]
  · cases h

/-- **(B)**: operators are not invented (no assumption on the priority table): every operator
    text in the tree is the text of some token of kind `op` of the input -/
theorem buildEvalTree_ops_mem {prio : Prio} {toks : List Token} {t : Tree}
    (h : buildEvalTree prio toks = .ok t) :
    ∀ s ∈ t.ops, ∃ tok ∈ toks, tok.kind = .op ∧ tok.text = s := by
  obtain ⟨j, _, _, ho⟩ := buildEvalTree_leaves_prefix h
  intro s hs
  rw [ho] at hs
  simp only [operators, List.mem_map, List.mem_filter] at hs
  obtain ⟨tok, ⟨hmem, hop⟩, rfl⟩ := hs
  refine ⟨tok, List.mem_of_mem_take hmem, ?_, rfl⟩
  simp [isOperator] at hop
  exact hop.1.1.1

/-- every leaf of the tree is an operand token of the input (no assumption on the table) -/
theorem buildEvalTree_leaves_mem {prio : Prio} {toks : List Token} {t : Tree}
    (h : buildEvalTree prio toks = .ok t) :
    ∀ tok ∈ t.leaves, tok ∈ toks ∧ (tok.kind = .number ∨ tok.kind = .name) := by
  obtain ⟨j, _, hl, _⟩ := buildEvalTree_leaves_prefix h
  intro tok hs
  rw [hl] at hs
  simp only [operands, List.mem_filter] at hs
  refine ⟨List.mem_of_mem_take hs.1, ?_⟩
  simpa [isOperand] using hs.2

/-- instances for the bundled priority table -/
theorem buildEvalTree_leaves_bundled {toks : List Token} {t : Tree}
    (h : buildEvalTree Gen.opPriority toks = .ok t) : t.leaves = operands (beforeEnd toks) :=
  buildEvalTree_leaves prioWF_opPriority h

theorem buildEvalTree_ops_bundled {toks : List Token} {t : Tree}
    (h : buildEvalTree Gen.opPriority toks = .ok t) :
    t.ops = operators Gen.opPriority (beforeEnd toks) :=
  buildEvalTree_ops prioWF_opPriority h

/-! ### non-vacuity witnesses -/

private def T (k : TokKind) (s : String) : Token := ⟨k, s⟩

/-- `-a * (b + 2) c` : (A) and (B) on a concrete token list -/
example :
    let toks := [T .op "-", T .name "a", T .op "*", T .op "(", T .name "b", T .op "+", T .number "2",
      T .op ")", T .name "c", T .other "", T .endmarker ""]
    (buildEvalTree Gen.opPriority toks).toOption.map (fun t => (t.leaves, t.ops))
      = some (operands toks, operators Gen.opPriority toks) ∧
    operands toks = [T .name "a", T .name "b", T .number "2", T .name "c"] ∧
    operators Gen.opPriority toks = ["-", "*", "+"] := by decide +kernel

/-- the side condition `result.isSome → 0 < index` of `build_leaves` cannot be dropped: at
    index 0 the "unread" return `index - 1` truncates to 0 and the token at 0 is lost -/
example :
    (build Gen.opPriority #[T .name "a", T .endmarker ""] 1 0 0 "" (some (.leaf (T .name "x")))).toOption
      = some (.leaf (T .name "x"), 0) := by decide +kernel

end Pint.Eval
