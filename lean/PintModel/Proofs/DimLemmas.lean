/-
  The dimensionality expansion `_get_dimensionality_recurse` (model: `Registry.dimRec`)
  computes `acc + exp • Σ_{(k,v) ∈ ref} v • δ(k)`: characterisation by a pure denotation
  `dimVal`, and the homomorphism lemmas that follow.
-/
import PintModel.Proofs.UCLemmas
import PintModel.Model.Registry

namespace Pint
open UC

/-- `Σ_{(k,v) ∈ u} v * g k` -/
def sumOver (u : UC) (g : String → Rat) : Rat :=
  match u with
  | [] => 0
  | (k, v) :: t => v * g k + sumOver t g

namespace Registry

/-- what one key contributes per unit exponent, as a function of the base dimension -/
def keyVal (R : Registry) (rec : UC → Option (String → Rat)) (k : String) : Option (String → Rat) :=
  if isDimName k then
    match R.dims.find? k with
    | none => none
    | some ⟨_, some r⟩ => rec r
    | some ⟨_, none⟩ => some (fun d => if k = d then 1 else 0)
  else
    match R.resolve k with
    | .ok (_, some d) => rec d.ref
    | _ => none

/-- fold of `keyVal` over the items of a container -/
def sumVal (kv : String → Option (String → Rat)) : UC → Option (String → Rat)
  | [] => some (fun _ => 0)
  | (k, v) :: t =>
    match kv k, sumVal kv t with
    | some f, some g => some (fun d => v * f d + g d)
    | _, _ => none

/-- denotation of the dimensionality expansion with fuel -/
def dimVal (R : Registry) : Nat → UC → Option (String → Rat)
  | 0, _ => none
  | n + 1, ref => sumVal (R.keyVal (dimVal R n)) ref

theorem get_acc (a : UC) (k : String) (v : Rat) (d : String) :
    (a.acc k v).get d = a.get d + v * (if k = d then 1 else 0) := by
  unfold UC.acc
  rw [get_set]
  by_cases h : k = d
  · subst h; simp [Rat.mul_one]
  · simp [h, Rat.mul_zero, Rat.add_zero]

theorem nodup_acc {a : UC} (h : a.keys.Nodup) (k : String) (v : Rat) : (a.acc k v).keys.Nodup :=
  nodup_keys_set h k _

/-- total characterisation of `dimRec` by `dimVal` -/
theorem dimRec_spec (R : Registry) : ∀ (n : Nat) (ref : UC) (e : Rat) (acc : UC),
    (∃ f r, R.dimVal n ref = some f ∧ R.dimRec n ref e acc = .ok r ∧
        (∀ d, r.get d = acc.get d + e * f d) ∧ (acc.keys.Nodup → r.keys.Nodup)) ∨
    (R.dimVal n ref = none ∧ ∃ err, R.dimRec n ref e acc = .error err) := by
  intro n
  induction n with
  | zero => intro ref e acc; right; exact ⟨rfl, _, rfl⟩
  | succ n ih =>
    intro ref
    induction ref with
    | nil =>
      intro e acc; left
      refine ⟨fun _ => 0, acc, rfl, rfl, ?_, fun h => h⟩
      intro d; simp [Rat.mul_zero, Rat.add_zero]
    | cons p t iht =>
      intro e acc
      obtain ⟨k, v⟩ := p
      -- the step on the head key
      have hstep : (∃ f a', R.keyVal (R.dimVal n) k = some f ∧
            R.dimStep (R.dimRec n) e k v acc = .ok a' ∧
            (∀ d, a'.get d = acc.get d + (e * v) * f d) ∧ (acc.keys.Nodup → a'.keys.Nodup)) ∨
          (R.keyVal (R.dimVal n) k = none ∧ ∃ err,
            R.dimStep (R.dimRec n) e k v acc = .error err) := by
        unfold keyVal dimStep
        by_cases hd : isDimName k
        · simp only [hd, if_true]
          cases hf : R.dims.find? k with
          | none => right; exact ⟨rfl, _, rfl⟩
          | some dd =>
            obtain ⟨nm, rf⟩ := dd
            cases rf with
            | none =>
              left
              refine ⟨_, _, rfl, rfl, ?_, fun h => nodup_acc h _ _⟩
              intro d; exact get_acc acc k (e * v) d
            | some r =>
              rcases ih r (e * v) acc with ⟨f, a', h1, h2, h3, h4⟩ | ⟨h1, err, h2⟩
              · left; exact ⟨f, a', h1, h2, h3, h4⟩
              · right; exact ⟨h1, err, h2⟩
        · simp only [hd, if_false]
          cases hr : R.resolve k with
          | error x => right; exact ⟨rfl, _, rfl⟩
          | ok pr =>
            obtain ⟨nm, od⟩ := pr
            cases od with
            | none => right; exact ⟨rfl, _, rfl⟩
            | some dfn =>
              rcases ih dfn.ref (e * v) acc with ⟨f, a', h1, h2, h3, h4⟩ | ⟨h1, err, h2⟩
              · left; exact ⟨f, a', h1, h2, h3, h4⟩
              · right; exact ⟨h1, err, h2⟩
      rcases hstep with ⟨f, a', hk, hs, hg, hn⟩ | ⟨hk, err, hs⟩
      · rcases iht e a' with ⟨g, r, h1, h2, h3, h4⟩ | ⟨h1, err, h2⟩
        · left
          refine ⟨fun d => v * f d + g d, r, ?_, ?_, ?_, fun h => h4 (hn h)⟩
          · show sumVal _ ((k, v) :: t) = _
            simp only [sumVal, hk]
            have : R.dimVal (n + 1) t = sumVal (R.keyVal (R.dimVal n)) t := rfl
            rw [← this, h1]
          · show R.dimRec (n + 1) ((k, v) :: t) e acc = _
            simp only [dimRec, foldItems]
            rw [hs]
            exact h2
          · intro d; rw [h3, hg]; grind
        · right
          refine ⟨?_, err, ?_⟩
          · show sumVal _ ((k, v) :: t) = _
            simp only [sumVal, hk]
            have : R.dimVal (n + 1) t = sumVal (R.keyVal (R.dimVal n)) t := rfl
            rw [← this, h1]
          · show R.dimRec (n + 1) ((k, v) :: t) e acc = _
            simp only [dimRec, foldItems]
            rw [hs]
            exact h2
      · right
        refine ⟨?_, err, ?_⟩
        · show sumVal _ ((k, v) :: t) = _
          simp only [sumVal, hk]
        · show R.dimRec (n + 1) ((k, v) :: t) e acc = _
          simp only [dimRec, foldItems]
          rw [hs]

end Registry
end Pint
