/-
  Generally useful lemmas about `sumOver` / `sumVal` (weighted sums over the items of a
  container), about the keys of `merge`, about `dropZeros`, and fuel monotonicity of
  `foldItems` / `dimRec`.  Reused by the root-unit and the dimensionality proofs.
-/
import PintModel.Proofs.DimLemmas

namespace Pint
open UC

/-! ### `sumOver` -/

@[simp] theorem sumOver_nil (g : String → Rat) : sumOver [] g = 0 := rfl
@[simp] theorem sumOver_cons (k : String) (v : Rat) (t : UC) (g : String → Rat) :
    sumOver ((k, v) :: t) g = v * g k + sumOver t g := rfl

/-- `d[k] = v` changes the sum by `(v - d[k]) * g k` (no hypothesis: `set` overwrites the first
    occurrence, which is the one `get` reads). -/
theorem sumOver_set (a : UC) (k : String) (v : Rat) (g : String → Rat) :
    sumOver (a.set k v) g = sumOver a g + (v - a.get k) * g k := by
  induction a with
  | nil => simp only [UC.set, sumOver_cons, sumOver_nil, get_nil]; grind
  | cons p t ih =>
    obtain ⟨k0, v0⟩ := p
    by_cases h0 : k0 = k
    · subst h0
      simp only [UC.set, if_true, sumOver_cons, get_cons]; grind
    · simp only [UC.set, if_neg h0, sumOver_cons, get_cons, ih]; grind

theorem sumOver_del {a : UC} (h : a.keys.Nodup) (k : String) (g : String → Rat) :
    sumOver (a.del k) g = sumOver a g - a.get k * g k := by
  induction a with
  | nil => simp only [UC.del, sumOver_nil, get_nil]; grind
  | cons p t ih =>
    obtain ⟨k0, v0⟩ := p
    simp only [keys_cons, List.nodup_cons] at h
    by_cases h0 : k0 = k
    · subst h0
      simp only [UC.del, if_true, sumOver_cons, get_cons, ih h.2]
      rw [get_eq_zero_of_not_mem_keys h.1]; grind
    · simp only [UC.del, if_neg h0, sumOver_cons, get_cons, ih h.2]; grind

theorem sumOver_upd {a : UC} (h : a.keys.Nodup) (k : String) (nv : Rat) (g : String → Rat) :
    sumOver (a.upd k nv) g = sumOver a g + (nv - a.get k) * g k := by
  unfold UC.upd
  by_cases hz : nv = 0
  · simp only [hz, if_true, sumOver_del h]; grind
  · simp only [hz, if_false, sumOver_set]

theorem sumOver_merge (s : Rat) {a : UC} (h : a.keys.Nodup) (b : UC) (g : String → Rat) :
    sumOver (merge s a b) g = sumOver a g + s * sumOver b g := by
  unfold merge
  induction b generalizing a with
  | nil => simp only [List.foldl_nil, sumOver_nil]; grind
  | cons p t ih =>
    obtain ⟨k, v⟩ := p
    simp only [List.foldl_cons, sumOver_cons]
    rw [ih (nodup_keys_upd h _ _), sumOver_upd h]; grind

theorem sumOver_pow (a : UC) (r : Rat) (g : String → Rat) :
    sumOver (a.pow r) g = r * sumOver a g := by
  induction a with
  | nil => simp only [UC.pow, List.filterMap_nil, sumOver_nil]; grind
  | cons p t ih =>
    obtain ⟨k, v⟩ := p
    unfold UC.pow at ih ⊢
    simp only [List.filterMap_cons, sumOver_cons]
    by_cases hz : v * r = 0
    · simp only [hz, if_true, ih]; grind
    · simp only [hz, if_false, sumOver_cons, ih]; grind

/-- the sum only looks at `g` on the keys of the container -/
theorem sumOver_congr {u : UC} {g g' : String → Rat} (h : ∀ k ∈ u.keys, g k = g' k) :
    sumOver u g = sumOver u g' := by
  induction u with
  | nil => rfl
  | cons p t ih =>
    obtain ⟨k, v⟩ := p
    simp only [sumOver_cons]
    rw [h k (by simp), ih (fun k' hk' => h k' (by simp [hk']))]

/-! ### keys of `upd` / `merge` / `pow` -/

theorem keys_upd_subset {a : UC} {k : String} {nv : Rat} {k' : String}
    (h : k' ∈ (a.upd k nv).keys) : k' ∈ a.keys ∨ k' = k := by
  unfold UC.upd at h
  split at h
  · exact Or.inl ((keys_del_sublist a k).subset h)
  · rw [keys_set] at h
    split at h
    · exact Or.inl h
    · simpa using h

theorem keys_merge_subset {s : Rat} {a b : UC} {k : String}
    (h : k ∈ (merge s a b).keys) : k ∈ a.keys ∨ k ∈ b.keys := by
  unfold merge at h
  induction b generalizing a with
  | nil => exact Or.inl h
  | cons p t ih =>
    obtain ⟨k0, v0⟩ := p
    simp only [List.foldl_cons] at h
    rcases ih h with h1 | h1
    · rcases keys_upd_subset h1 with h2 | h2
      · exact Or.inl h2
      · right; simp [h2]
    · right; simp [h1]

theorem nodup_keys_merge (s : Rat) {a : UC} (h : a.keys.Nodup) (b : UC) :
    (merge s a b).keys.Nodup := by
  unfold merge
  induction b generalizing a with
  | nil => exact h
  | cons p t ih => exact ih (nodup_keys_upd h _ _)

theorem keys_pow_subset {a : UC} {r : Rat} {k : String} (h : k ∈ (a.pow r).keys) : k ∈ a.keys :=
  (keys_pow_sublist a r).subset h

/-! ### `dropZeros` -/

theorem keys_dropZeros_sublist (u : UC) : (u.dropZeros).keys.Sublist u.keys := by
  unfold UC.dropZeros UC.keys
  exact List.Sublist.map _ List.filter_sublist

theorem nodup_keys_dropZeros {u : UC} (h : u.keys.Nodup) : (u.dropZeros).keys.Nodup :=
  List.Nodup.sublist (keys_dropZeros_sublist u) h

theorem get_dropZeros {u : UC} (h : u.keys.Nodup) (k : String) : (u.dropZeros).get k = u.get k := by
  induction u with
  | nil => rfl
  | cons p t ih =>
    obtain ⟨k0, v0⟩ := p
    simp only [keys_cons, List.nodup_cons] at h
    have ih' := ih h.2
    unfold UC.dropZeros at ih' ⊢
    by_cases hz : v0 = 0
    · subst hz
      have hf : List.filter (fun p : String × Rat => p.2 != 0) ((k0, (0 : Rat)) :: t)
          = List.filter (fun p : String × Rat => p.2 != 0) t := by
        rw [List.filter_cons]; simp
      rw [hf, ih', get_cons]
      by_cases h0 : k0 = k
      · subst h0
        rw [if_pos rfl]
        exact get_eq_zero_of_not_mem_keys h.1
      · rw [if_neg h0]
    · have hf : List.filter (fun p : String × Rat => p.2 != 0) ((k0, v0) :: t)
          = (k0, v0) :: List.filter (fun p : String × Rat => p.2 != 0) t := by
        rw [List.filter_cons]; simp [hz]
      rw [hf, get_cons, get_cons, ih']

/-! ### `sumVal` -/

namespace Registry

/-- `sumVal kv u` is defined iff `kv` is defined on every key of `u`, and is then pointwise the
    weighted sum of the key values. -/
theorem sumVal_some_iff (kv : String → Option (String → Rat)) (u : UC) (F : String → Rat) :
    sumVal kv u = some F ↔
      (∀ k ∈ u.keys, ∃ f, kv k = some f) ∧
      ∀ d, F d = sumOver u (fun k => ((kv k).getD (fun _ => 0)) d) := by
  induction u generalizing F with
  | nil =>
    simp only [sumVal, Option.some.injEq, keys_nil, List.not_mem_nil, false_imp_iff,
      implies_true, true_and, sumOver_nil]
    constructor
    · intro h d; rw [← h]
    · intro h; funext d; rw [h]
  | cons p t ih =>
    obtain ⟨k, v⟩ := p
    simp only [sumVal, keys_cons, List.mem_cons, sumOver_cons]
    cases hk : kv k with
    | none =>
      simp only
      constructor
      · intro h; cases h
      · rintro ⟨h, _⟩
        obtain ⟨f, hf⟩ := h k (Or.inl rfl)
        rw [hk] at hf; cases hf
    | some f =>
      cases ht : sumVal kv t with
      | none =>
        simp only
        constructor
        · intro h; cases h
        · rintro ⟨h, _⟩
          have := (ih (fun d => sumOver t (fun k => ((kv k).getD (fun _ => 0)) d))).2
            ⟨fun k' hk' => h k' (Or.inr hk'), fun _ => rfl⟩
          rw [ht] at this; cases this
      | some g =>
        have hg := (ih g).1 ht
        simp only [Option.some.injEq, Option.getD_some]
        constructor
        · intro h
          refine ⟨?_, ?_⟩
          · rintro k' (rfl | hk')
            · exact ⟨f, hk⟩
            · exact hg.1 k' hk'
          · intro d; rw [← h]; show v * f d + g d = _; rw [hg.2 d]
        · rintro ⟨_, h⟩
          funext d; rw [h d, hg.2 d]

/-! ### fuel monotonicity -/

theorem foldItems_mono {σ : Type} {s1 s2 : String → Rat → σ → Except Err σ}
    (h : ∀ k e a r, s1 k e a = .ok r → s2 k e a = .ok r) :
    ∀ (u : UC) (a r : σ), foldItems s1 u a = .ok r → foldItems s2 u a = .ok r := by
  intro u
  induction u with
  | nil => intro a r hr; exact hr
  | cons p t ih =>
    intro a r hr
    obtain ⟨k, e⟩ := p
    simp only [foldItems] at hr ⊢
    cases h1 : s1 k e a with
    | error x => rw [h1] at hr; cases hr
    | ok a' =>
      rw [h1] at hr
      rw [h _ _ _ _ h1]
      exact ih a' r hr

theorem dimStep_mono (R : Registry) {rec1 rec2 : UC → Rat → UC → Except Err UC}
    (h : ∀ ref e a r, rec1 ref e a = .ok r → rec2 ref e a = .ok r)
    (exp : Rat) (k : String) (e : Rat) (a r : UC)
    (hr : R.dimStep rec1 exp k e a = .ok r) : R.dimStep rec2 exp k e a = .ok r := by
  unfold dimStep at hr ⊢
  by_cases hd : isDimName k
  · simp only [hd, if_true] at hr ⊢
    cases hf : R.dims.find? k with
    | none => rw [hf] at hr; cases hr
    | some dd =>
      obtain ⟨nm, rf⟩ := dd
      rw [hf] at hr
      cases rf with
      | none => exact hr
      | some r' => exact h _ _ _ _ hr
  · simp only [hd] at hr ⊢
    cases hres : R.resolve k with
    | error x => rw [hres] at hr; cases hr
    | ok pr =>
      obtain ⟨nm, od⟩ := pr
      rw [hres] at hr
      cases od with
      | none => cases hr
      | some dfn => exact h _ _ _ _ hr

/-- more fuel never changes a successful dimensionality expansion -/
theorem dimRec_mono (R : Registry) : ∀ (n : Nat) (ref : UC) (e : Rat) (acc r : UC),
    R.dimRec n ref e acc = .ok r → R.dimRec (n + 1) ref e acc = .ok r := by
  intro n
  induction n with
  | zero => intro ref e acc r h; cases h
  | succ n ih =>
    intro ref e acc r h
    show foldItems (R.dimStep (R.dimRec (n + 1)) e) ref acc = .ok r
    exact foldItems_mono (fun k v a r' => R.dimStep_mono ih e k v a r') ref acc r h

theorem dimRec_mono_le (R : Registry) {n m : Nat} (hnm : n ≤ m) (ref : UC) (e : Rat) (acc r : UC)
    (h : R.dimRec n ref e acc = .ok r) : R.dimRec m ref e acc = .ok r := by
  induction hnm with
  | refl => exact h
  | step _ ih => exact R.dimRec_mono _ _ _ _ _ ih

end Registry
end Pint
