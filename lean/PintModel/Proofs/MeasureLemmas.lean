/-
  Lemmas about the measurement model (`Model/Measure.lean`) used by `Props/C19.lean`.
  Core Lean only.
-/
import PintModel.Model.Measure

namespace Pint.Meas
open Pint Pint.Eval

/-! ### constructor forms -/

theorem mk_nums (toUnits : Rat → UC → UC → Except Err Rat) (n s : Rat) (u : UC) (h : ¬ s < 0) :
    mk toUnits (.num n) (some (.num s)) (some u) = .ok ⟨n, s, u⟩ := by
  simp [mk, h]

theorem mk_nums_neg (toUnits : Rat → UC → UC → Except Err Rat) (n s : Rat) (u : UC) (h : s < 0) :
    mk toUnits (.num n) (some (.num s)) (some u) = .error .value := by
  simp [mk, h]

theorem mk_qpair (toUnits : Rat → UC → UC → Except Err Rat) (n se s : Rat) (u eu : UC)
    (hc : toUnits se eu u = .ok s) :
    mk toUnits (.q n u) (some (.q se eu)) none = mk toUnits (.num n) (some (.num s)) (some u) := by
  simp [mk, hc]

theorem mk_qpair_incompatible (toUnits : Rat → UC → UC → Except Err Rat) (n se : Rat) (u eu : UC) (e : Err)
    (hc : toUnits se eu u = .error e) :
    mk toUnits (.q n u) (some (.q se eu)) none = .error e := by
  simp [mk, hc]

theorem mk_qnum (toUnits : Rat → UC → UC → Except Err Rat) (n s : Rat) (u : UC) :
    mk toUnits (.q n u) (some (.num s)) none = mk toUnits (.num n) (some (.num s)) (some u) := by
  simp [mk]

theorem mk_ufloat (toUnits : Rat → UC → UC → Except Err Rat) (n s x : Rat) (u : UC) :
    mk toUnits (.ufl n s) (some (.q x u)) none = .ok ⟨n, s, u⟩ := by
  simp [mk]

theorem pm_abs (toUnits : Rat → UC → UC → Except Err Rat) (n s : Rat) (u : UC) :
    plusMinus toUnits ⟨n, u⟩ (.num s) false = mk toUnits (.num n) (some (.num s)) (some u) := by
  simp [plusMinus]

theorem pm_rel (toUnits : Rat → UC → UC → Except Err Rat) (n r : Rat) (u : UC) :
    plusMinus toUnits ⟨n, u⟩ (.num r) true = mk toUnits (.num n) (some (.num (r * absR n))) (some u) := by
  simp [plusMinus]

theorem pm_quantity (toUnits : Rat → UC → UC → Except Err Rat) (n se s : Rat) (u eu : UC)
    (hc : toUnits se eu u = .ok s) :
    plusMinus toUnits ⟨n, u⟩ (.q se eu) false = mk toUnits (.num n) (some (.num s)) (some u) := by
  simp [plusMinus, hc]

theorem pm_quantity_relative (toUnits : Rat → UC → UC → Except Err Rat) (n se : Rat) (u eu : UC) :
    plusMinus toUnits ⟨n, u⟩ (.q se eu) true = .error .value := by
  simp [plusMinus]

/-! ### conversion -/

theorem absR_nonneg (x : Rat) : 0 ≤ absR x := by
  unfold absR; split <;> grind

theorem absR_mul (x y : Rat) : absR (x * y) = absR x * absR y := by
  unfold absR
  split <;> split <;> split
  · have := @Rat.mul_nonneg (-x) (-y) (by grind) (by grind); grind
  · grind
  · grind
  · have := @Rat.mul_nonneg x y (by grind) (by grind); grind
  · grind
  · have := @Rat.mul_nonneg (-x) y (by grind) (by grind); grind
  · have := @Rat.mul_nonneg x (-y) (by grind) (by grind); grind
  · grind

theorem absR_absR (x : Rat) : absR (absR x) = absR x := by
  unfold absR; split <;> grind

theorem absR_eq_zero {x : Rat} (h : absR x = 0) : x = 0 := by
  unfold absR at h; split at h <;> grind

theorem absR_inv (x : Rat) : absR x⁻¹ = (absR x)⁻¹ := by
  by_cases hx : x = 0
  · subst hx; simp [absR]
  · have h1 : absR x ≠ 0 := fun h => hx (absR_eq_zero h)
    have h2 : absR x⁻¹ * absR x = 1 := by
      rw [← absR_mul, Rat.inv_mul_cancel x hx]; decide
    have := Rat.inv_eq_of_mul_eq_one (a := absR x) (b := absR x⁻¹) (by rw [Rat.mul_comm]; exact h2)
    exact this.symm

/-- a multiplicative conversion (slope a ≠ 0, no offset) leaves the relative error unchanged -/
theorem rel_convert (m : M) (a : Rat) (dst : UC) (ha : a ≠ 0) (hn : m.nominal ≠ 0) :
    rel (convertAffine m a 0 dst) = rel m := by
  have h0 : a * m.nominal ≠ 0 := by
    intro h; rcases Rat.mul_eq_zero.mp h with h | h <;> contradiction
  have h1 : absR a ≠ 0 := fun h => ha (absR_eq_zero h)
  simp only [rel, convertAffine, Rat.add_zero, if_neg h0, if_neg hn]
  congr 1
  rw [Rat.div_def, Rat.div_def, absR_mul, absR_mul, absR_mul, absR_inv, absR_inv, absR_absR, absR_mul, Rat.inv_mul_rev]
  have : absR a * absR m.std * ((absR m.nominal)⁻¹ * (absR a)⁻¹) = (absR a * (absR a)⁻¹) * (absR m.std * (absR m.nominal)⁻¹) := by
    grind
  rw [this, Rat.mul_inv_cancel _ h1, Rat.one_mul]

/-! ### the tokenizer: one step on each notation -/

theorem isNumOrNan_of {n : Token} (hn : n.kind = .number) : isNumOrNan n = true := by
  simp [isNumOrNan, hn]

/-- `( n ± s )` not followed by an exponent -/
theorem tok_paren (fuel : Nat) (n s : Token) (rest : List Token)
    (hn : n.kind = .number) (hs : s.kind = .number) (hm : n.text ≠ "-")
    (he : possibleE rest = .ok none) :
    uncTokens (fuel + 1) (⟨.op, "("⟩ :: n :: ⟨.op, "+"⟩ :: ⟨.op, "/"⟩ :: ⟨.op, "-"⟩ :: s :: ⟨.op, ")"⟩ :: rest) =
      (match uncTokens fuel rest with | .ok r => .ok ([n, pmOp, s] ++ r) | .error e => .error e) := by
  conv => lhs; unfold uncTokens
  simp [hm, isNumOrNan_of hn, isNumOrNan_of hs, he]
  cases uncTokens fuel rest <;> rfl

/-- `( n ± s ) e…` : the exponent is appended to both numbers and its tokens are consumed -/
theorem tok_paren_e (fuel : Nat) (n s : Token) (rest : List Token) (e : String) (k : Nat)
    (hn : n.kind = .number) (hs : s.kind = .number) (hm : n.text ≠ "-")
    (he : possibleE rest = .ok (some (e, k))) :
    uncTokens (fuel + 1) (⟨.op, "("⟩ :: n :: ⟨.op, "+"⟩ :: ⟨.op, "/"⟩ :: ⟨.op, "-"⟩ :: s :: ⟨.op, ")"⟩ :: rest) =
      (match uncTokens fuel (rest.drop k) with | .ok r => .ok ([applyE n e, pmOp, applyE s e] ++ r) | .error e => .error e) := by
  conv => lhs; unfold uncTokens
  simp [hm, isNumOrNan_of hn, isNumOrNan_of hs, he, Nat.add_comm 6 k]
  cases uncTokens fuel (List.drop k rest) <;> rfl

/-- `( - n ± s )` : the sign stays in front -/
theorem tok_paren_minus (fuel : Nat) (n s : Token) (rest : List Token)
    (hn : n.kind = .number) (hs : s.kind = .number)
    (he : possibleE rest = .ok none) :
    uncTokens (fuel + 1) (⟨.op, "("⟩ :: ⟨.op, "-"⟩ :: n :: ⟨.op, "+"⟩ :: ⟨.op, "/"⟩ :: ⟨.op, "-"⟩ :: s :: ⟨.op, ")"⟩ :: rest) =
      (match uncTokens fuel rest with | .ok r => .ok ([⟨.op, "-"⟩, n, pmOp, s] ++ r) | .error e => .error e) := by
  conv => lhs; unfold uncTokens
  simp [isNumOrNan_of hn, isNumOrNan_of hs, he]
  cases uncTokens fuel rest <;> rfl

/-- `n ( s )` : the digits are aligned with the decimals of n -/
theorem tok_nparen (fuel : Nat) (n s : Token) (rest : List Token)
    (hn : n.kind = .number) (hs : s.kind = .number) (h1 : n.text ≠ "+") (h2 : n.text ≠ "(")
    (he : possibleE rest = .ok none) :
    uncTokens (fuel + 1) (n :: ⟨.op, "("⟩ :: s :: ⟨.op, ")"⟩ :: rest) =
      (match uncTokens fuel rest with | .ok r => .ok ([n, pmOp, ⟨s.kind, parenStd n.text s.text⟩] ++ r) | .error e => .error e) := by
  conv => lhs; unfold uncTokens
  simp [h1, h2, hn, hs, he]
  cases uncTokens fuel rest <;> rfl

/-- a bare `+ / -` sequence becomes the operator -/
theorem tok_pm (fuel : Nat) (rest : List Token) :
    uncTokens (fuel + 1) (⟨.op, "+"⟩ :: ⟨.op, "/"⟩ :: ⟨.op, "-"⟩ :: rest) =
      (match uncTokens fuel rest with | .ok r => .ok (pmOp :: r) | .error e => .error e) := by
  conv => lhs; unfold uncTokens
  simp
  cases uncTokens fuel rest <;> rfl

/-- any other token is passed through unchanged -/
theorem tok_other (fuel : Nat) (t : Token) (rest : List Token)
    (h1 : t.text ≠ "+") (h2 : t.text ≠ "(") (h3 : t.kind ≠ .number) :
    uncTokens (fuel + 1) (t :: rest) =
      (match uncTokens fuel rest with | .ok r => .ok (t :: r) | .error e => .error e) := by
  conv => lhs; unfold uncTokens
  simp [h1, h2, h3]
  cases uncTokens fuel rest <;> rfl

/-- the end of the input is "no exponent" (F14) -/
theorem possibleE_end (t : Token) (rest : List Token) (h : t.text = "") : possibleE (t :: rest) = .ok none := by
  unfold possibleE; simp [h]

/-! ### digit alignment of `n(s)` (F28) -/

theorem rjustZero_length_ge (l : List Char) (n : Nat) : n ≤ (rjustZero l n).length := by
  simp [rjustZero]; omega

theorem rjustZero_filter (l : List Char) (n : Nat) (h : l.contains '.' = false) :
    (rjustZero l n).filter (· != '.') = rjustZero l n := by
  rw [List.filter_eq_self]
  intro a ha
  simp only [rjustZero, List.mem_append, List.mem_replicate] at ha
  rcases ha with ha | ha
  · rw [ha.2]; decide
  · have : a ≠ '.' := by
      intro h'; subst h'
      simp at h; exact h ha
    simpa using this

/-- the digits are kept (with leading zeros), only a decimal point is inserted … -/
theorem parenMant_digits (nominal std : String) (h : std.toList.contains '.' = false) :
    (parenMant nominal std).toList.filter (· != '.') = rjustZero std.toList (decimalsOf nominal + 1) := by
  unfold parenMant
  simp only [h, Bool.false_eq_true, if_false]
  split
  · rw [String.toList_ofList]; exact rjustZero_filter _ _ h
  · rw [String.toList_ofList]
    have := rjustZero_filter std.toList (decimalsOf nominal + 1) h
    rw [List.filter_append, List.filter_append,
      show List.filter (fun x => x != '.') ['.'] = [] from by decide, List.append_nil,
      ← List.filter_append, List.take_append_drop]
    exact this

/-- … in front of exactly as many digits as the nominal value has decimals -/
theorem parenMant_point (nominal std : String) (h : std.toList.contains '.' = false) (hd : decimalsOf nominal ≠ 0) :
    ∃ ip fp, (parenMant nominal std).toList = ip ++ ['.'] ++ fp ∧ fp.length = decimalsOf nominal ∧ ip ≠ [] ∧
      ip ++ fp = rjustZero std.toList (decimalsOf nominal + 1) := by
  have hl := rjustZero_length_ge std.toList (decimalsOf nominal + 1)
  refine ⟨(rjustZero std.toList (decimalsOf nominal + 1)).take ((rjustZero std.toList (decimalsOf nominal + 1)).length - decimalsOf nominal),
    (rjustZero std.toList (decimalsOf nominal + 1)).drop ((rjustZero std.toList (decimalsOf nominal + 1)).length - decimalsOf nominal), ?_, ?_, ?_, ?_⟩
  · unfold parenMant
    simp only [h, Bool.false_eq_true, if_false, if_neg hd, String.toList_ofList]
  · rw [List.length_drop]; omega
  · intro h0
    have := congrArg List.length h0
    rw [List.length_take] at this
    simp at this; omega
  · exact List.take_append_drop _ _

theorem parenMant_explicit (nominal std : String) (h : std.toList.contains '.' = true) : parenMant nominal std = std := by
  unfold parenMant; simp only [h, if_true]

end Pint.Meas
