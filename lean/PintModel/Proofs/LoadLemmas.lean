/-
  Order independence of the model's real loader (`Registry.loadInto`, `Registry.load`).

  `Props/C10.lean` proves order independence for the abstraction "fold of `Dict.insert` over
  key/value pairs".  Here the tables built by `loadInto` are shown to BE such folds (projection
  lemmas through `addUnitKey`, `addUnitPlain`, `addUnit`, `addPrefix`, `addDefinition`), and the
  abstract statements are lifted to the loader: unit table, prefix table, base-unit list,
  dimension table.
-/
import PintModel.Model.Load
import PintModel.Props.C10

namespace Pint.LoadLemmas
open Pint Pint.Registry Pint.Props.C10

variable {α : Type}

/-! ### folds of `Dict.insert` over key/value pairs -/

/-- the fold the tables are built with -/
def insertAll (d : Dict α) (kvs : List (String × α)) : Dict α :=
  kvs.foldl (fun (acc : Dict α) p => Dict.insert acc p.1 p.2) d

theorem insertAll_nil (d : Dict α) : insertAll d [] = d := rfl
theorem insertAll_cons (d : Dict α) (p : String × α) (t : List (String × α)) :
    insertAll d (p :: t) = insertAll (d.insert p.1 p.2) t := rfl
theorem insertAll_append (d : Dict α) (a b : List (String × α)) :
    insertAll d (a ++ b) = insertAll (insertAll d a) b := by
  simp [insertAll, List.foldl_append]

/-- equal keys carry equal values (weaker than `Nodup` of the keys: a unit whose symbol repeats
    its name is allowed) -/
def KeyFunctional (kvs : List (String × α)) : Prop :=
  ∀ k v v', (k, v) ∈ kvs → (k, v') ∈ kvs → v = v'

theorem keyFunctional_of_nodup {kvs : List (String × α)} (hn : (kvs.map (·.1)).Nodup) :
    KeyFunctional kvs := by
  intro k v v' h h'
  have := (lookupKV_eq_some_iff hn k v).mpr h
  have h2 := (lookupKV_eq_some_iff hn k v').mpr h'
  rw [this] at h2
  exact Option.some.inj h2

theorem KeyFunctional.tail {p : String × α} {t : List (String × α)} (h : KeyFunctional (p :: t)) :
    KeyFunctional t :=
  fun k v v' a b => h k v v' (List.mem_cons_of_mem _ a) (List.mem_cons_of_mem _ b)

theorem KeyFunctional.perm {a b : List (String × α)} (h : KeyFunctional a) (hp : a.Perm b) :
    KeyFunctional b :=
  fun k v v' x y => h k v v' (hp.mem_iff.mpr x) (hp.mem_iff.mpr y)

theorem find_insertAll_not_mem {kvs : List (String × α)} {k : String}
    (h : k ∉ kvs.map (·.1)) (d : Dict α) : (insertAll d kvs).find? k = d.find? k := by
  induction kvs generalizing d with
  | nil => rfl
  | cons p t ih =>
    simp only [List.map_cons, List.mem_cons, not_or] at h
    rw [insertAll_cons, ih h.2, find_insert, if_neg (fun e => h.1 e.symm)]

theorem find_insertAll_mem {kvs : List (String × α)} (hf : KeyFunctional kvs) {k : String} {v : α}
    (hm : (k, v) ∈ kvs) (d : Dict α) : (insertAll d kvs).find? k = some v := by
  induction kvs generalizing d with
  | nil => cases hm
  | cons p t ih =>
    rw [insertAll_cons]
    by_cases hk : k ∈ t.map (·.1)
    · obtain ⟨q, hq, e⟩ := List.mem_map.mp hk
      obtain ⟨k1, v1⟩ := q
      simp only at e
      subst e
      have : v1 = v := hf k1 v1 v (List.mem_cons_of_mem _ hq) hm
      subst this
      exact ih hf.tail hq _
    · rw [find_insertAll_not_mem hk, find_insert]
      rcases List.mem_cons.mp hm with e | hm'
      · subst e; simp
      · exact absurd (List.mem_map_of_mem (f := Prod.fst) hm') hk

/-- permutation invariance of every lookup, from ANY starting table -/
theorem find_insertAll_perm {kvs kvs' : List (String × α)} (hf : KeyFunctional kvs)
    (hp : kvs.Perm kvs') (d : Dict α) (k : String) :
    (insertAll d kvs).find? k = (insertAll d kvs').find? k := by
  by_cases hk : k ∈ kvs.map (·.1)
  · obtain ⟨q, hq, e⟩ := List.mem_map.mp hk
    obtain ⟨k1, v1⟩ := q
    simp only at e
    subst e
    rw [find_insertAll_mem hf hq, find_insertAll_mem (hf.perm hp) (hp.mem_iff.mp hq)]
  · have hk' : k ∉ kvs'.map (·.1) := fun h => hk ((hp.map _).mem_iff.mpr h)
    rw [find_insertAll_not_mem hk, find_insertAll_not_mem hk']

/-! ### projections of the adders -/

@[simp] theorem addUnitKey_units (R : Registry) (k : String) (d : UnitDef) :
    (R.addUnitKey k d).units = R.units.insert k d := rfl
@[simp] theorem addUnitKey_prefixes (R : Registry) (k : String) (d : UnitDef) :
    (R.addUnitKey k d).prefixes = R.prefixes := rfl
@[simp] theorem addUnitKey_dims (R : Registry) (k : String) (d : UnitDef) :
    (R.addUnitKey k d).dims = R.dims := rfl
@[simp] theorem addUnitKey_baseUnits (R : Registry) (k : String) (d : UnitDef) :
    (R.addUnitKey k d).baseUnits = R.baseUnits := rfl

theorem foldl_addUnitKey_units (d : UnitDef) (ks : List String) (R : Registry) :
    (ks.foldl (fun R k => R.addUnitKey k d) R).units = insertAll R.units (ks.map (·, d)) := by
  induction ks generalizing R with
  | nil => rfl
  | cons k t ih => simp only [List.foldl_cons, List.map_cons, insertAll_cons, ih, addUnitKey_units]

theorem foldl_addUnitKey_other (d : UnitDef) (ks : List String) (R : Registry) :
    (ks.foldl (fun R k => R.addUnitKey k d) R).prefixes = R.prefixes ∧
    (ks.foldl (fun R k => R.addUnitKey k d) R).dims = R.dims ∧
    (ks.foldl (fun R k => R.addUnitKey k d) R).baseUnits = R.baseUnits := by
  induction ks generalizing R with
  | nil => exact ⟨rfl, rfl, rfl⟩
  | cons k t ih => simp only [List.foldl_cons]; exact ih _

/-- one step of `addMissingDims` on the dimension table -/
def weakAdd (t : Dict DimDef) (n : String) : Dict DimDef :=
  if t.contains n then t else t.insert n ⟨n, none⟩

theorem addMissingDims_proj (ref : UC) (R : Registry) :
    (addMissingDims R ref).units = R.units ∧ (addMissingDims R ref).prefixes = R.prefixes ∧
    (addMissingDims R ref).baseUnits = R.baseUnits ∧
    (addMissingDims R ref).dims = (ref.map (·.1)).foldl weakAdd R.dims := by
  unfold addMissingDims
  induction ref generalizing R with
  | nil => exact ⟨rfl, rfl, rfl, rfl⟩
  | cons p t ih =>
    simp only [List.foldl_cons, List.map_cons]
    obtain ⟨h1, h2, h3, h4⟩ := ih (if R.dims.contains p.1 then R else R.addDim p.1)
    rw [h1, h2, h3, h4]
    by_cases hc : R.dims.contains p.1 <;> simp [hc, weakAdd, addDim]


/-! ### dimension-table events -/

/-- an event on the dimension table: `(n, some v)` = `dims[n] = v`, `(n, none)` = add the base
    dimension `n` if it is missing (`addMissingDims`) -/
abbrev DimEv := String × Option DimDef

def dimStep (t : Dict DimDef) (e : DimEv) : Dict DimDef :=
  match e.2 with
  | some v => t.insert e.1 v
  | none => weakAdd t e.1

def applyEvs (t : Dict DimDef) (evs : List DimEv) : Dict DimDef := evs.foldl dimStep t

theorem applyEvs_append (t : Dict DimDef) (a b : List DimEv) :
    applyEvs t (a ++ b) = applyEvs (applyEvs t a) b := by
  simp [applyEvs, List.foldl_append]

theorem foldl_weakAdd_eq (t : Dict DimDef) (ns : List String) :
    ns.foldl weakAdd t = applyEvs t (ns.map (·, none)) := by
  induction ns generalizing t with
  | nil => rfl
  | cons n r ih => simp only [List.foldl_cons, List.map_cons, applyEvs, dimStep] at *; exact ih _

theorem find_weakAdd (t : Dict DimDef) (m n : String) :
    (weakAdd t m).find? n =
      match t.find? n with
      | some x => some x
      | none => if m = n then some ⟨n, none⟩ else none := by
  unfold weakAdd
  by_cases hc : t.contains m
  · rw [if_pos hc]
    cases h : t.find? n with
    | some x => rfl
    | none =>
      by_cases e : m = n
      · subst e; simp [Dict.contains, h] at hc
      · simp [e]
  · rw [if_neg hc, find_insert]
    by_cases e : m = n
    · subst e
      have : t.find? m = none := by
        cases h : t.find? m with
        | none => rfl
        | some x => simp [Dict.contains, h] at hc
      simp [this]
    · simp only [if_neg e]
      cases t.find? n <;> rfl

/-- no `dims[n] = …` event for `n`: the starting entry survives, otherwise a missing-dimension
    event creates the base dimension -/
theorem find_applyEvs_noSet {evs : List DimEv} {n : String} (hs : ∀ v, (n, some v) ∉ evs)
    (t : Dict DimDef) :
    (applyEvs t evs).find? n =
      match t.find? n with
      | some x => some x
      | none => if (n, none) ∈ evs then some ⟨n, none⟩ else none := by
  induction evs generalizing t with
  | nil => simp only [applyEvs, List.foldl_nil, List.not_mem_nil, if_false]; cases t.find? n <;> rfl
  | cons e r ih =>
    obtain ⟨m, o⟩ := e
    have hs' : ∀ v, (n, some v) ∉ r := fun v h => hs v (List.mem_cons_of_mem _ h)
    show (applyEvs (dimStep t (m, o)) r).find? n = _
    rw [ih hs']
    cases o with
    | some v =>
      have hmn : m ≠ n := fun e => hs v (by rw [e]; exact List.mem_cons_self)
      have hmem : ((n, (none : Option DimDef)) ∈ (m, some v) :: r) ↔ (n, none) ∈ r := by
        simp
      simp only [dimStep, find_insert, if_neg hmn, hmem]
    | none =>
      simp only [dimStep, find_weakAdd]
      cases h : t.find? n with
      | some x => rfl
      | none =>
        by_cases e : m = n
        · subst e; simp
        · have hmem : ((n, (none : Option DimDef)) ∈ (m, none) :: r) ↔ (n, none) ∈ r := by
            simp [Ne.symm e]
          simp only [if_neg e, hmem]

/-- a `dims[n] = v` event wins, when all such events for one name agree -/
theorem find_applyEvs_set {evs : List DimEv} (hf : KeyFunctional (evs.filterMap fun e => e.2.map (e.1, ·)))
    {n : String} {v : DimDef} (hm : (n, some v) ∈ evs) (t : Dict DimDef) :
    (applyEvs t evs).find? n = some v := by
  induction evs generalizing t with
  | nil => cases hm
  | cons e r ih =>
    obtain ⟨m, o⟩ := e
    have hf' : KeyFunctional (r.filterMap fun e => e.2.map (e.1, ·)) := by
      intro k a b ha hb
      apply hf k a b <;> (simp only [List.mem_filterMap] at *)
      · obtain ⟨x, hx, hx'⟩ := ha; exact ⟨x, List.mem_cons_of_mem _ hx, hx'⟩
      · obtain ⟨x, hx, hx'⟩ := hb; exact ⟨x, List.mem_cons_of_mem _ hx, hx'⟩
    show (applyEvs (dimStep t (m, o)) r).find? n = _
    by_cases hr : ∃ v', (n, some v') ∈ r
    · obtain ⟨v', hv'⟩ := hr
      have : v' = v := by
        apply hf n v' v <;> (simp only [List.mem_filterMap])
        · exact ⟨(n, some v'), List.mem_cons_of_mem _ hv', rfl⟩
        · exact ⟨(n, some v), hm, rfl⟩
      subst this
      exact ih hf' hv' _
    · have hs : ∀ v', (n, some v') ∉ r := fun v' h => hr ⟨v', h⟩
      rw [find_applyEvs_noSet hs]
      rcases List.mem_cons.mp hm with e | hm'
      · cases e
        simp [dimStep, find_insert]
      · exact absurd hm' (hs v)

theorem find_applyEvs_perm {evs evs' : List DimEv}
    (hf : KeyFunctional (evs.filterMap fun e => e.2.map (e.1, ·))) (hp : evs.Perm evs')
    (t : Dict DimDef) (n : String) :
    (applyEvs t evs).find? n = (applyEvs t evs').find? n := by
  by_cases hr : ∃ v, (n, some v) ∈ evs
  · obtain ⟨v, hv⟩ := hr
    rw [find_applyEvs_set hf hv, find_applyEvs_set (hf.perm (hp.filterMap _)) (hp.mem_iff.mp hv)]
  · have hs : ∀ v, (n, some v) ∉ evs := fun v h => hr ⟨v, h⟩
    have hs' : ∀ v, (n, some v) ∉ evs' := fun v h => hr ⟨v, hp.mem_iff.mpr h⟩
    rw [find_applyEvs_noSet hs, find_applyEvs_noSet hs']
    have : ((n, (none : Option DimDef)) ∈ evs) ↔ (n, none) ∈ evs' := hp.mem_iff
    simp only [this]

/-! ### effects: what a definition does to the four tables -/

structure Eff where
  ukvs : List (String × UnitDef) := []
  pkvs : List (String × PrefixDef) := []
  base : List String := []
  devs : List DimEv := []

def Eff.app (a b : Eff) : Eff :=
  ⟨a.ukvs ++ b.ukvs, a.pkvs ++ b.pkvs, a.base ++ b.base, a.devs ++ b.devs⟩

def Eff.join (l : List Eff) : Eff := l.foldr Eff.app {}

theorem Eff.join_proj (l : List Eff) :
    (Eff.join l).ukvs = l.flatMap (·.ukvs) ∧ (Eff.join l).pkvs = l.flatMap (·.pkvs) ∧
    (Eff.join l).base = l.flatMap (·.base) ∧ (Eff.join l).devs = l.flatMap (·.devs) := by
  induction l with
  | nil => exact ⟨rfl, rfl, rfl, rfl⟩
  | cons e r ih =>
    obtain ⟨h1, h2, h3, h4⟩ := ih
    simp only [Eff.join, List.foldr_cons, Eff.app, List.flatMap_cons] at *
    exact ⟨by rw [h1], by rw [h2], by rw [h3], by rw [h4]⟩

/-- `R'` is `R` with the effect applied to the four tables -/
def Applies (R R' : Registry) (e : Eff) : Prop :=
  R'.units = insertAll R.units e.ukvs ∧ R'.prefixes = insertAll R.prefixes e.pkvs ∧
  R'.baseUnits = R.baseUnits ++ e.base ∧ R'.dims = applyEvs R.dims e.devs

theorem Applies.refl (R : Registry) : Applies R R {} :=
  ⟨rfl, rfl, (List.append_nil _).symm, rfl⟩

theorem Applies.trans {R R' R'' : Registry} {a b : Eff} (h : Applies R R' a) (h' : Applies R' R'' b) :
    Applies R R'' (a.app b) := by
  obtain ⟨a1, a2, a3, a4⟩ := h
  obtain ⟨b1, b2, b3, b4⟩ := h'
  refine ⟨?_, ?_, ?_, ?_⟩
  · rw [b1, a1]; exact (insertAll_append _ _ _).symm
  · rw [b2, a2]; exact (insertAll_append _ _ _).symm
  · rw [b3, a3]; exact List.append_assoc _ _ _
  · rw [b4, a4]; exact (applyEvs_append _ _ _).symm

theorem applies_foldl {β : Type} (f : Registry → β → Registry) (e : β → Eff)
    (h : ∀ R x, Applies R (f R x) (e x)) (l : List β) (R : Registry) :
    Applies R (l.foldl f R) (Eff.join (l.map e)) := by
  induction l generalizing R with
  | nil => exact Applies.refl R
  | cons x r ih => exact (h R x).trans (ih (f R x))

/-- effect of the plain `_add_unit` -/
def plainEff (d : UnitDef) : Eff :=
  { ukvs := (unitKeys d).map (·, d),
    base := if d.isBase then [d.name] else [],
    devs := if d.isBase then d.ref.map (fun p => (p.1, none)) else [] }

theorem applies_addUnitPlain (R : Registry) (d : UnitDef) : Applies R (R.addUnitPlain d) (plainEff d) := by
  unfold addUnitPlain
  obtain ⟨o1, o2, o3⟩ := foldl_addUnitKey_other d (unitKeys d)
    (if d.isBase then addMissingDims { R with baseUnits := R.baseUnits ++ [d.name] } d.ref else R)
  refine ⟨?_, ?_, ?_, ?_⟩
  · rw [foldl_addUnitKey_units]
    by_cases hb : d.isBase
    · simp only [hb, if_true, (addMissingDims_proj _ _).1]; rfl
    · simp only [hb]; rfl
  · rw [o1]
    by_cases hb : d.isBase
    · simp only [hb, if_true, (addMissingDims_proj _ _).2.1]; rfl
    · simp only [hb]; rfl
  · rw [o3]
    by_cases hb : d.isBase
    · simp only [hb, if_true, (addMissingDims_proj _ _).2.2.1, plainEff]
    · simp [hb, plainEff]
  · rw [o2]
    by_cases hb : d.isBase
    · simp only [hb, if_true, (addMissingDims_proj _ _).2.2.2, plainEff, foldl_weakAdd_eq,
        List.map_map]; rfl
    · simp [hb, plainEff, applyEvs]

/-- the definitions `_add_unit` of the non-multiplicative registry registers: the unit and its
    automatic `delta_` companion -/
def unitParts (u : UnitDef) : List UnitDef := u :: (deltaOf u).toList

def unitEff (u : UnitDef) : Eff := Eff.join ((unitParts u).map plainEff)

theorem applies_addUnit (R : Registry) (u : UnitDef) : Applies R (R.addUnit u) (unitEff u) := by
  have : R.addUnit u = (unitParts u).foldl addUnitPlain R := by
    unfold addUnit unitParts
    cases deltaOf u <;> rfl
  rw [this]
  exact applies_foldl _ _ applies_addUnitPlain _ _

def prefixKVs (p : PrefixDef) : List (String × PrefixDef) := (prefixKeyList p).map (·, p)

theorem applies_addPrefix (R : Registry) (p : PrefixDef) :
    Applies R (R.addPrefix p) { pkvs := prefixKVs p } := by
  refine ⟨rfl, ?_, (List.append_nil _).symm, rfl⟩
  show (prefixKeyList p).foldl (fun ps k => ps.insert k p) R.prefixes = _
  generalize R.prefixes = t
  unfold prefixKVs
  induction prefixKeyList p generalizing t with
  | nil => rfl
  | cons k r ih => simp only [List.foldl_cons, List.map_cons, insertAll_cons, ih]

/-- effect of one definition of a definition file (`alias` lines are excluded below: their effect
    depends on the table they are applied to) -/
def defEff : Definition → Eff
  | .pfx p => { pkvs := prefixKVs p }
  | .unit u => unitEff u
  | .dim n => { devs := [(n, some ⟨n, none⟩)] }
  | .ddim n ref => { devs := ref.map (fun p => (p.1, none)) ++ [(n, some ⟨n, some ref⟩)] }
  | .group g => Eff.join (g.units.map unitEff)
  | _ => {}

def NoAlias : Definition → Prop
  | .alias _ _ => False
  | _ => True

theorem applies_addDefinition (R : Registry) (d : Definition) (h : NoAlias d) :
    ∃ R', R.addDefinition d = some R' ∧ Applies R R' (defEff d) := by
  cases d with
  | pfx p => exact ⟨_, rfl, applies_addPrefix R p⟩
  | unit u => exact ⟨_, rfl, applies_addUnit R u⟩
  | dim n => exact ⟨_, rfl, rfl, rfl, (List.append_nil _).symm, rfl⟩
  | ddim n ref =>
    refine ⟨_, rfl, ?_⟩
    obtain ⟨h1, h2, h3, h4⟩ := addMissingDims_proj ref R
    refine ⟨h1, h2, ?_, ?_⟩
    · show (addMissingDims R ref).baseUnits = _
      rw [h3]; exact (List.append_nil _).symm
    · show (addMissingDims R ref).dims.insert n ⟨n, some ref⟩ = _
      rw [h4, foldl_weakAdd_eq, List.map_map]
      simp only [defEff, applyEvs_append]; rfl
  | alias n a => exact absurd h id
  | group g => exact ⟨_, rfl, applies_foldl _ _ applies_addUnit _ _⟩
  | system s => exact ⟨_, rfl, Applies.refl R⟩
  | context c => exact ⟨_, rfl, Applies.refl R⟩
  | defaults a b => exact ⟨_, rfl, Applies.refl R⟩

/-- **the loader is a fold**: `loadInto` succeeds on alias-free lists, and its four tables are the
    starting tables with the concatenated effects applied -/
theorem loadInto_applies (ds : List Definition) (h : ∀ d ∈ ds, NoAlias d) (R : Registry) :
    ∃ R', loadInto R ds = some R' ∧ Applies R R' (Eff.join (ds.map defEff)) := by
  induction ds generalizing R with
  | nil => exact ⟨R, rfl, Applies.refl R⟩
  | cons d r ih =>
    obtain ⟨R1, e1, a1⟩ := applies_addDefinition R d (h d List.mem_cons_self)
    obtain ⟨R2, e2, a2⟩ := ih (fun x hx => h x (List.mem_cons_of_mem _ hx)) R1
    refine ⟨R2, ?_, a1.trans a2⟩
    simp only [loadInto, e1]; exact e2


/-! ### the flattened tables of a definition list -/

/-- all (spelling, definition) pairs of the list, in loading order: for every unit its name,
    symbol and aliases, followed by those of its automatic `delta_` companion -/
def allUnitKVs (ds : List Definition) : List (String × UnitDef) := ds.flatMap fun d => (defEff d).ukvs
def allPrefixKVs (ds : List Definition) : List (String × PrefixDef) := ds.flatMap fun d => (defEff d).pkvs
def allBase (ds : List Definition) : List String := ds.flatMap fun d => (defEff d).base
def allDimEvs (ds : List Definition) : List DimEv := ds.flatMap fun d => (defEff d).devs

/-- the `dims[n] = v` events of an event list as key/value pairs -/
def setEvs (evs : List DimEv) : List (String × DimDef) := evs.filterMap fun e => e.2.map (e.1, ·)

theorem join_map_defEff (ds : List Definition) :
    (Eff.join (ds.map defEff)).ukvs = allUnitKVs ds ∧ (Eff.join (ds.map defEff)).pkvs = allPrefixKVs ds ∧
    (Eff.join (ds.map defEff)).base = allBase ds ∧ (Eff.join (ds.map defEff)).devs = allDimEvs ds := by
  obtain ⟨h1, h2, h3, h4⟩ := Eff.join_proj (ds.map defEff)
  simp only [List.flatMap_map] at h1 h2 h3 h4
  exact ⟨h1, h2, h3, h4⟩

/-- **the loader is a fold** (user-facing form) -/
theorem loadInto_tables {ds : List Definition} (h : ∀ d ∈ ds, NoAlias d) (R : Registry) :
    ∃ R', loadInto R ds = some R' ∧
      R'.units = insertAll R.units (allUnitKVs ds) ∧
      R'.prefixes = insertAll R.prefixes (allPrefixKVs ds) ∧
      R'.baseUnits = R.baseUnits ++ allBase ds ∧
      R'.dims = applyEvs R.dims (allDimEvs ds) := by
  obtain ⟨R', hl, ha⟩ := loadInto_applies ds h R
  obtain ⟨j1, j2, j3, j4⟩ := join_map_defEff ds
  rw [← j1, ← j2, ← j3, ← j4]
  exact ⟨R', hl, ha⟩

/-- `loadInto` never fails on a list without `alias` lines -/
theorem loadInto_succeeds {ds : List Definition} (h : ∀ d ∈ ds, NoAlias d) (R : Registry) :
    ∃ R', loadInto R ds = some R' := by
  obtain ⟨R', hl, _⟩ := loadInto_tables h R
  exact ⟨R', hl⟩

theorem NoAlias.perm {ds ds' : List Definition} (h : ∀ d ∈ ds, NoAlias d) (hp : ds.Perm ds') :
    ∀ d ∈ ds', NoAlias d := fun d hd => h d (hp.mem_iff.mpr hd)

/-! ### explicit description of the flattened key lists -/

/-- the spellings under which `_add_unit` registers something for `u` -/
def unitAllKeys (u : UnitDef) : List String :=
  unitKeys u ++ (match deltaOf u with | some dd => unitKeys dd | none => [])

/-- the unit definitions written in the list (top level or inside a group block) -/
def declaredUnits (ds : List Definition) : List UnitDef :=
  ds.flatMap fun | .unit u => [u] | .group g => g.units | _ => []

def declaredPrefixes (ds : List Definition) : List PrefixDef :=
  ds.flatMap fun | .pfx p => [p] | _ => []

theorem plainEff_ukvs (d : UnitDef) : (plainEff d).ukvs = (unitKeys d).map (·, d) := rfl

theorem unitEff_ukvs (u : UnitDef) :
    (unitEff u).ukvs = (unitKeys u).map (·, u) ++
      (match deltaOf u with | some dd => (unitKeys dd).map (·, dd) | none => []) := by
  unfold unitEff unitParts
  rw [(Eff.join_proj _).1]
  cases deltaOf u <;> simp [plainEff_ukvs]

theorem unitEff_pkvs (u : UnitDef) : (unitEff u).pkvs = [] := by
  unfold unitEff unitParts
  rw [(Eff.join_proj _).2.1]
  cases deltaOf u <;> simp [plainEff]

theorem allUnitKVs_eq (ds : List Definition) :
    allUnitKVs ds = (declaredUnits ds).flatMap fun u => (unitEff u).ukvs := by
  unfold allUnitKVs declaredUnits
  induction ds with
  | nil => rfl
  | cons d r ih =>
    simp only [List.flatMap_cons, List.flatMap_append, ih]
    congr 1
    cases d <;> simp [defEff, (Eff.join_proj _).1, List.flatMap_map]

theorem allPrefixKVs_eq (ds : List Definition) :
    allPrefixKVs ds = (declaredPrefixes ds).flatMap prefixKVs := by
  unfold allPrefixKVs declaredPrefixes
  induction ds with
  | nil => rfl
  | cons d r ih =>
    simp only [List.flatMap_cons, List.flatMap_append, ih]
    congr 1
    cases d <;> simp [defEff, (Eff.join_proj _).2.1, List.flatMap_map, unitEff_pkvs]

/-- the keys of the flattened unit table are the declared spellings plus those of the `delta_`
    companions -/
theorem allUnitKVs_keys (ds : List Definition) :
    (allUnitKVs ds).map (·.1) = (declaredUnits ds).flatMap unitAllKeys := by
  rw [allUnitKVs_eq, List.map_flatMap]
  congr 1
  funext u
  rw [unitEff_ukvs]
  unfold unitAllKeys
  cases deltaOf u <;> simp [Function.comp_def]

theorem allPrefixKVs_keys (ds : List Definition) :
    (allPrefixKVs ds).map (·.1) = (declaredPrefixes ds).flatMap prefixKeyList := by
  rw [allPrefixKVs_eq, List.map_flatMap]
  congr 1
  funext p
  simp [prefixKVs, Function.comp_def]

/-- which pairs the flattened unit table holds -/
theorem mem_allUnitKVs {ds : List Definition} {k : String} {v : UnitDef} :
    (k, v) ∈ allUnitKVs ds ↔
      ∃ u ∈ declaredUnits ds, (k ∈ unitKeys u ∧ v = u) ∨
        (∃ dd, deltaOf u = some dd ∧ k ∈ unitKeys dd ∧ v = dd) := by
  rw [allUnitKVs_eq, List.mem_flatMap]
  constructor
  · rintro ⟨u, hu, hm⟩
    refine ⟨u, hu, ?_⟩
    rw [unitEff_ukvs, List.mem_append] at hm
    rcases hm with hm | hm
    · left
      obtain ⟨x, hx, e⟩ := List.mem_map.mp hm
      cases e; exact ⟨hx, rfl⟩
    · right
      cases hd : deltaOf u with
      | none => rw [hd] at hm; cases hm
      | some dd =>
        rw [hd] at hm
        obtain ⟨x, hx, e⟩ := List.mem_map.mp hm
        cases e; exact ⟨_, rfl, hx, rfl⟩
  · rintro ⟨u, hu, hm⟩
    refine ⟨u, hu, ?_⟩
    rw [unitEff_ukvs, List.mem_append]
    rcases hm with ⟨hk, e⟩ | ⟨dd, hd, hk, e⟩
    · left; subst e; exact List.mem_map.mpr ⟨k, hk, rfl⟩
    · right; subst e; rw [hd]; exact List.mem_map.mpr ⟨k, hk, rfl⟩

theorem mem_allPrefixKVs {ds : List Definition} {k : String} {v : PrefixDef} :
    (k, v) ∈ allPrefixKVs ds ↔ v ∈ declaredPrefixes ds ∧ k ∈ prefixKeyList v := by
  rw [allPrefixKVs_eq, List.mem_flatMap]
  constructor
  · rintro ⟨p, hp, hm⟩
    obtain ⟨x, hx, e⟩ := List.mem_map.mp hm
    cases e; exact ⟨hp, hx⟩
  · rintro ⟨hp, hk⟩
    exact ⟨v, hp, List.mem_map.mpr ⟨k, hk, rfl⟩⟩

/-! ### (C) what the unit and prefix tables contain after loading -/

/-- a spelling of the list finds its definition (equal spellings must carry equal definitions;
    implied by `Nodup` of the spellings) -/
theorem loadInto_units_find_mem {ds : List Definition} (h : ∀ d ∈ ds, NoAlias d)
    (hf : KeyFunctional (allUnitKVs ds)) {R R' : Registry} (hl : loadInto R ds = some R')
    {k : String} {v : UnitDef} (hm : (k, v) ∈ allUnitKVs ds) : R'.units.find? k = some v := by
  obtain ⟨R1, hl1, hu, _⟩ := loadInto_tables h R
  rw [hl] at hl1; cases hl1
  rw [hu]; exact find_insertAll_mem hf hm _

/-- a key that is no spelling of the list is answered as before loading -/
theorem loadInto_units_find_not_mem {ds : List Definition} (h : ∀ d ∈ ds, NoAlias d)
    {R R' : Registry} (hl : loadInto R ds = some R') {k : String}
    (hk : k ∉ (declaredUnits ds).flatMap unitAllKeys) : R'.units.find? k = R.units.find? k := by
  obtain ⟨R1, hl1, hu, _⟩ := loadInto_tables h R
  rw [hl] at hl1; cases hl1
  rw [hu]; exact find_insertAll_not_mem (by rw [allUnitKVs_keys]; exact hk) _

/-- **(C)** for a key the starting table does not hold: the loaded table answers `v` exactly when
    `k` is a spelling of the declared unit `v`, or a spelling of the `delta_` companion `v` of a
    declared unit -/
theorem loadInto_units_find_iff {ds : List Definition} (h : ∀ d ∈ ds, NoAlias d)
    (hf : KeyFunctional (allUnitKVs ds)) {R R' : Registry} (hl : loadInto R ds = some R')
    {k : String} (hR : R.units.find? k = none) (v : UnitDef) :
    R'.units.find? k = some v ↔
      ∃ u ∈ declaredUnits ds, (k ∈ unitKeys u ∧ v = u) ∨
        (∃ dd, deltaOf u = some dd ∧ k ∈ unitKeys dd ∧ v = dd) := by
  rw [← mem_allUnitKVs]
  constructor
  · intro hfind
    by_cases hk : k ∈ (allUnitKVs ds).map (·.1)
    · obtain ⟨q, hq, e⟩ := List.mem_map.mp hk
      obtain ⟨k1, v1⟩ := q
      simp only at e; subst e
      rw [loadInto_units_find_mem h hf hl hq] at hfind
      cases hfind; exact hq
    · rw [allUnitKVs_keys] at hk
      rw [loadInto_units_find_not_mem h hl hk, hR] at hfind
      cases hfind
  · exact loadInto_units_find_mem h hf hl

theorem loadInto_prefixes_find_mem {ds : List Definition} (h : ∀ d ∈ ds, NoAlias d)
    (hf : KeyFunctional (allPrefixKVs ds)) {R R' : Registry} (hl : loadInto R ds = some R')
    {k : String} {v : PrefixDef} (hm : (k, v) ∈ allPrefixKVs ds) : R'.prefixes.find? k = some v := by
  obtain ⟨R1, hl1, _, hp, _⟩ := loadInto_tables h R
  rw [hl] at hl1; cases hl1
  rw [hp]; exact find_insertAll_mem hf hm _

theorem loadInto_prefixes_find_not_mem {ds : List Definition} (h : ∀ d ∈ ds, NoAlias d)
    {R R' : Registry} (hl : loadInto R ds = some R') {k : String}
    (hk : k ∉ (declaredPrefixes ds).flatMap prefixKeyList) : R'.prefixes.find? k = R.prefixes.find? k := by
  obtain ⟨R1, hl1, _, hp, _⟩ := loadInto_tables h R
  rw [hl] at hl1; cases hl1
  rw [hp]; exact find_insertAll_not_mem (by rw [allPrefixKVs_keys]; exact hk) _

/-- **(C) for prefixes** -/
theorem loadInto_prefixes_find_iff {ds : List Definition} (h : ∀ d ∈ ds, NoAlias d)
    (hf : KeyFunctional (allPrefixKVs ds)) {R R' : Registry} (hl : loadInto R ds = some R')
    {k : String} (hR : R.prefixes.find? k = none) (v : PrefixDef) :
    R'.prefixes.find? k = some v ↔ v ∈ declaredPrefixes ds ∧ k ∈ prefixKeyList v := by
  rw [← mem_allPrefixKVs]
  constructor
  · intro hfind
    by_cases hk : k ∈ (allPrefixKVs ds).map (·.1)
    · obtain ⟨q, hq, e⟩ := List.mem_map.mp hk
      obtain ⟨k1, v1⟩ := q
      simp only at e; subst e
      rw [loadInto_prefixes_find_mem h hf hl hq] at hfind
      cases hfind; exact hq
    · rw [allPrefixKVs_keys] at hk
      rw [loadInto_prefixes_find_not_mem h hl hk, hR] at hfind
      cases hfind
  · exact loadInto_prefixes_find_mem h hf hl

/-! ### (A), (B), (D) permutation invariance -/

/-- **(A)** every lookup in the unit table is the same whatever the order of the lines, from any
    starting registry -/
theorem loadInto_units_perm {ds ds' : List Definition} (hp : ds.Perm ds') (h : ∀ d ∈ ds, NoAlias d)
    (hf : KeyFunctional (allUnitKVs ds)) (R : Registry) (k : String) :
    (loadInto R ds).map (·.units.find? k) = (loadInto R ds').map (·.units.find? k) := by
  obtain ⟨R1, hl1, hu1, _⟩ := loadInto_tables h R
  obtain ⟨R2, hl2, hu2, _⟩ := loadInto_tables (NoAlias.perm h hp) R
  rw [hl1, hl2, Option.map_some, Option.map_some, hu1, hu2]
  exact congrArg some (find_insertAll_perm hf (hp.flatMap_right _) _ _)

/-- **(B)** the same for the prefix table -/
theorem loadInto_prefixes_perm {ds ds' : List Definition} (hp : ds.Perm ds') (h : ∀ d ∈ ds, NoAlias d)
    (hf : KeyFunctional (allPrefixKVs ds)) (R : Registry) (k : String) :
    (loadInto R ds).map (·.prefixes.find? k) = (loadInto R ds').map (·.prefixes.find? k) := by
  obtain ⟨R1, hl1, _, hu1, _⟩ := loadInto_tables h R
  obtain ⟨R2, hl2, _, hu2, _⟩ := loadInto_tables (NoAlias.perm h hp) R
  rw [hl1, hl2, Option.map_some, Option.map_some, hu1, hu2]
  exact congrArg some (find_insertAll_perm hf (hp.flatMap_right _) _ _)

/-- **(D1)** the base-unit lists are permutations of each other -/
theorem loadInto_baseUnits_perm {ds ds' : List Definition} (hp : ds.Perm ds') (h : ∀ d ∈ ds, NoAlias d)
    (R : Registry) {R1 R2 : Registry} (h1 : loadInto R ds = some R1) (h2 : loadInto R ds' = some R2) :
    R1.baseUnits.Perm R2.baseUnits := by
  obtain ⟨R1', hl1, _, _, hb1, _⟩ := loadInto_tables h R
  obtain ⟨R2', hl2, _, _, hb2, _⟩ := loadInto_tables (NoAlias.perm h hp) R
  rw [h1] at hl1; cases hl1
  rw [h2] at hl2; cases hl2
  rw [hb1, hb2]
  exact (hp.flatMap_right _).append_left _

/-- **(D2)** every lookup in the dimension table is the same whatever the order of the lines,
    provided no dimension name is defined twice with different definitions -/
theorem loadInto_dims_perm {ds ds' : List Definition} (hp : ds.Perm ds') (h : ∀ d ∈ ds, NoAlias d)
    (hf : KeyFunctional (setEvs (allDimEvs ds))) (R : Registry) (n : String) :
    (loadInto R ds).map (·.dims.find? n) = (loadInto R ds').map (·.dims.find? n) := by
  obtain ⟨R1, hl1, _, _, _, hd1⟩ := loadInto_tables h R
  obtain ⟨R2, hl2, _, _, _, hd2⟩ := loadInto_tables (NoAlias.perm h hp) R
  rw [hl1, hl2, Option.map_some, Option.map_some, hd1, hd2]
  exact congrArg some (find_applyEvs_perm hf (hp.flatMap_right _) _ _)


/-! ### what the dimension table contains -/

theorem loadInto_dims_find_set {ds : List Definition} (h : ∀ d ∈ ds, NoAlias d)
    (hf : KeyFunctional (setEvs (allDimEvs ds))) {R R' : Registry} (hl : loadInto R ds = some R')
    {n : String} {v : DimDef} (hm : (n, some v) ∈ allDimEvs ds) : R'.dims.find? n = some v := by
  obtain ⟨R1, hl1, _, _, _, hd⟩ := loadInto_tables h R
  rw [hl] at hl1; cases hl1
  rw [hd]; exact find_applyEvs_set hf hm _

theorem loadInto_dims_find_noSet {ds : List Definition} (h : ∀ d ∈ ds, NoAlias d)
    {R R' : Registry} (hl : loadInto R ds = some R') {n : String}
    (hs : ∀ v, (n, some v) ∉ allDimEvs ds) :
    R'.dims.find? n =
      match R.dims.find? n with
      | some x => some x
      | none => if (n, none) ∈ allDimEvs ds then some ⟨n, none⟩ else none := by
  obtain ⟨R1, hl1, _, _, _, hd⟩ := loadInto_tables h R
  rw [hl] at hl1; cases hl1
  rw [hd]; exact find_applyEvs_noSet hs _

theorem unitEff_devs_none {u : UnitDef} {e : DimEv} (he : e ∈ (unitEff u).devs) : e.2 = none := by
  unfold unitEff at he
  rw [(Eff.join_proj _).2.2.2, List.mem_flatMap] at he
  obtain ⟨x, hx, hex⟩ := he
  obtain ⟨d, _, rfl⟩ := List.mem_map.mp hx
  unfold plainEff at hex
  by_cases hb : d.isBase
  · simp only [hb, if_true] at hex
    obtain ⟨p, _, rfl⟩ := List.mem_map.mp hex
    rfl
  · simp [hb] at hex

/-- which `dims[n] = v` events a definition list produces -/
theorem mem_setEvs_allDimEvs {ds : List Definition} {n : String} {v : DimDef}
    (hm : (n, v) ∈ setEvs (allDimEvs ds)) :
    (Definition.dim n ∈ ds ∧ v = ⟨n, none⟩) ∨ (∃ ref, Definition.ddim n ref ∈ ds ∧ v = ⟨n, some ref⟩) := by
  unfold setEvs at hm
  obtain ⟨e, he, hev⟩ := List.mem_filterMap.mp hm
  obtain ⟨m, o⟩ := e
  cases o with
  | none => cases hev
  | some w =>
    simp only [Option.map_some, Option.some.injEq, Prod.mk.injEq] at hev
    obtain ⟨rfl, rfl⟩ := hev
    unfold allDimEvs at he
    obtain ⟨d, hd, hed⟩ := List.mem_flatMap.mp he
    cases d with
    | pfx p => cases hed
    | unit u => exact absurd (unitEff_devs_none hed) (by simp)
    | dim n' =>
      simp only [defEff, List.mem_singleton, Prod.mk.injEq, Option.some.injEq] at hed
      obtain ⟨rfl, rfl⟩ := hed
      exact Or.inl ⟨hd, rfl⟩
    | ddim n' ref =>
      simp only [defEff, List.mem_append, List.mem_map, List.mem_singleton, Prod.mk.injEq,
        Option.some.injEq] at hed
      rcases hed with ⟨p, _, _, hp⟩ | ⟨rfl, rfl⟩
      · cases hp
      · exact Or.inr ⟨ref, hd, rfl⟩
    | alias a b => cases hed
    | group g =>
      simp only [defEff, (Eff.join_proj _).2.2.2, List.flatMap_map] at hed
      obtain ⟨u, _, hu⟩ := List.mem_flatMap.mp hed
      exact absurd (unitEff_devs_none hu) (by simp)
    | system s => cases hed
    | context c => cases hed
    | defaults a b => cases hed

/-- no derived dimension and no alias line -/
def NoDerived : Definition → Prop
  | .alias _ _ => False
  | .ddim _ _ => False
  | _ => True

theorem NoDerived.noAlias {d : Definition} (h : NoDerived d) : NoAlias d := by
  cases d <;> first | exact h | trivial

theorem setEvs_functional_of_noDerived {ds : List Definition} (h : ∀ d ∈ ds, NoDerived d) :
    KeyFunctional (setEvs (allDimEvs ds)) := by
  intro n v v' hv hv'
  rcases mem_setEvs_allDimEvs hv with ⟨_, rfl⟩ | ⟨ref, hr, _⟩
  · rcases mem_setEvs_allDimEvs hv' with ⟨_, rfl⟩ | ⟨ref, hr, _⟩
    · rfl
    · exact absurd (h _ hr) id
  · exact absurd (h _ hr) id

/-- **(D2), as asked**: without derived dimensions the dimension table lookups are permutation
    invariant -/
theorem loadInto_dims_perm_noDerived {ds ds' : List Definition} (hp : ds.Perm ds')
    (h : ∀ d ∈ ds, NoDerived d) (R : Registry) (n : String) :
    (loadInto R ds).map (·.dims.find? n) = (loadInto R ds').map (·.dims.find? n) :=
  loadInto_dims_perm hp (fun d hd => (h d hd).noAlias) (setEvs_functional_of_noDerived h) R n

/-! ### the statements in the requested shape: only `unit` and `prefix` lines, `Nodup` spellings -/

def UnitOrPfx : Definition → Prop
  | .unit _ => True
  | .pfx _ => True
  | _ => False

theorem UnitOrPfx.noAlias {d : Definition} (h : UnitOrPfx d) : NoAlias d := by
  cases d <;> first | exact h | trivial

theorem UnitOrPfx.noDerived {d : Definition} (h : UnitOrPfx d) : NoDerived d := by
  cases d <;> first | exact h | trivial

/-- all unit spellings of the list: `unitKeys u` of every unit line followed by the keys of its
    `delta_` companion -/
def unitKeyList (ds : List Definition) : List String :=
  ds.flatMap fun | .unit u => unitAllKeys u | _ => []

/-- all prefix spellings of the list -/
def prefixKeys (ds : List Definition) : List String :=
  ds.flatMap fun | .pfx p => prefixKeyList p | _ => []

theorem unitKeyList_eq {ds : List Definition} (h : ∀ d ∈ ds, UnitOrPfx d) :
    unitKeyList ds = (allUnitKVs ds).map (·.1) := by
  rw [allUnitKVs_keys]
  unfold unitKeyList declaredUnits
  induction ds with
  | nil => rfl
  | cons d r ih =>
    simp only [List.flatMap_cons, List.flatMap_append, ih (fun x hx => h x (List.mem_cons_of_mem _ hx))]
    congr 1
    have := h d List.mem_cons_self
    cases d <;> first | exact absurd this id | simp

theorem prefixKeys_eq (ds : List Definition) : prefixKeys ds = (allPrefixKVs ds).map (·.1) := by
  rw [allPrefixKVs_keys]
  unfold prefixKeys declaredPrefixes
  induction ds with
  | nil => rfl
  | cons d r ih =>
    simp only [List.flatMap_cons, List.flatMap_append, ih]
    congr 1
    cases d <;> simp

theorem mem_declaredUnits_of_unitOrPfx {ds : List Definition} (h : ∀ d ∈ ds, UnitOrPfx d) {u : UnitDef} :
    u ∈ declaredUnits ds ↔ Definition.unit u ∈ ds := by
  unfold declaredUnits
  rw [List.mem_flatMap]
  constructor
  · rintro ⟨d, hd, hu⟩
    have := h d hd
    cases d with
    | unit u' => simp only [List.mem_singleton] at hu; subst hu; exact hd
    | pfx p => cases hu
    | _ => exact absurd this id
  · intro hd
    exact ⟨_, hd, List.mem_singleton.mpr rfl⟩

theorem mem_declaredPrefixes {ds : List Definition} {p : PrefixDef} :
    p ∈ declaredPrefixes ds ↔ Definition.pfx p ∈ ds := by
  unfold declaredPrefixes
  rw [List.mem_flatMap]
  constructor
  · rintro ⟨d, hd, hu⟩
    cases d with
    | pfx p' => simp only [List.mem_singleton] at hu; subst hu; exact hd
    | _ => cases hu
  · intro hd
    exact ⟨_, hd, List.mem_singleton.mpr rfl⟩

/-- (A0) loading never fails on `unit`/`prefix` lists -/
theorem A_loadInto_succeeds {ds : List Definition} (hu : ∀ d ∈ ds, UnitOrPfx d) (R : Registry) :
    ∃ R', loadInto R ds = some R' :=
  loadInto_succeeds (fun d hd => (hu d hd).noAlias) R

/-- **(A)** -/
theorem A_units_perm {ds ds' : List Definition} (hp : ds.Perm ds') (hu : ∀ d ∈ ds, UnitOrPfx d)
    (hn : (unitKeyList ds).Nodup) (R : Registry) (k : String) :
    (loadInto R ds).map (·.units.find? k) = (loadInto R ds').map (·.units.find? k) :=
  loadInto_units_perm hp (fun d hd => (hu d hd).noAlias)
    (keyFunctional_of_nodup (by rw [← unitKeyList_eq hu]; exact hn)) R k

/-- **(A)** for `load` -/
theorem A_load_units_perm {ds ds' : List Definition} (hp : ds.Perm ds') (hu : ∀ d ∈ ds, UnitOrPfx d)
    (hn : (unitKeyList ds).Nodup) (lower : List (Char × Char)) (k : String) :
    (load ds lower).map (·.units.find? k) = (load ds' lower).map (·.units.find? k) :=
  A_units_perm hp hu hn _ k

/-- **(B)** -/
theorem B_prefixes_perm {ds ds' : List Definition} (hp : ds.Perm ds') (hu : ∀ d ∈ ds, UnitOrPfx d)
    (hn : (prefixKeys ds).Nodup) (R : Registry) (k : String) :
    (loadInto R ds).map (·.prefixes.find? k) = (loadInto R ds').map (·.prefixes.find? k) :=
  loadInto_prefixes_perm hp (fun d hd => (hu d hd).noAlias)
    (keyFunctional_of_nodup (by rw [← prefixKeys_eq]; exact hn)) R k

/-- **(C)**, units, for a key absent from the starting table -/
theorem C_units_find_iff {ds : List Definition} (hu : ∀ d ∈ ds, UnitOrPfx d)
    (hn : (unitKeyList ds).Nodup) {R R' : Registry} (hl : loadInto R ds = some R')
    {k : String} (hR : R.units.find? k = none) (v : UnitDef) :
    R'.units.find? k = some v ↔
      ∃ u, Definition.unit u ∈ ds ∧ ((k ∈ unitKeys u ∧ v = u) ∨
        (∃ dd, deltaOf u = some dd ∧ k ∈ unitKeys dd ∧ v = dd)) := by
  rw [loadInto_units_find_iff (fun d hd => (hu d hd).noAlias)
    (keyFunctional_of_nodup (by rw [← unitKeyList_eq hu]; exact hn)) hl hR v]
  constructor
  · rintro ⟨u, hm, hx⟩; exact ⟨u, (mem_declaredUnits_of_unitOrPfx hu).mp hm, hx⟩
  · rintro ⟨u, hm, hx⟩; exact ⟨u, (mem_declaredUnits_of_unitOrPfx hu).mpr hm, hx⟩

/-- **(C)**, units, keys not mentioned: answered as by the starting table (so `none` if it had none) -/
theorem C_units_find_other {ds : List Definition} (hu : ∀ d ∈ ds, UnitOrPfx d)
    {R R' : Registry} (hl : loadInto R ds = some R') {k : String} (hk : k ∉ unitKeyList ds) :
    R'.units.find? k = R.units.find? k :=
  loadInto_units_find_not_mem (fun d hd => (hu d hd).noAlias) hl
    (by rw [← allUnitKVs_keys, ← unitKeyList_eq hu]; exact hk)

/-- **(C)** for `load` (empty starting unit table): complete description of the unit table -/
theorem C_load_units_find_iff {ds : List Definition} (hu : ∀ d ∈ ds, UnitOrPfx d)
    (hn : (unitKeyList ds).Nodup) {lower : List (Char × Char)} {R' : Registry}
    (hl : load ds lower = some R') (k : String) (v : UnitDef) :
    R'.units.find? k = some v ↔
      ∃ u, Definition.unit u ∈ ds ∧ ((k ∈ unitKeys u ∧ v = u) ∨
        (∃ dd, deltaOf u = some dd ∧ k ∈ unitKeys dd ∧ v = dd)) :=
  C_units_find_iff hu hn hl rfl v

/-- **(C)**, prefixes -/
theorem C_prefixes_find_iff {ds : List Definition} (hu : ∀ d ∈ ds, UnitOrPfx d)
    (hn : (prefixKeys ds).Nodup) {R R' : Registry} (hl : loadInto R ds = some R')
    {k : String} (hR : R.prefixes.find? k = none) (v : PrefixDef) :
    R'.prefixes.find? k = some v ↔ Definition.pfx v ∈ ds ∧ k ∈ prefixKeyList v := by
  rw [loadInto_prefixes_find_iff (fun d hd => (hu d hd).noAlias)
    (keyFunctional_of_nodup (by rw [← prefixKeys_eq]; exact hn)) hl hR v, mem_declaredPrefixes]

theorem C_prefixes_find_other {ds : List Definition} (hu : ∀ d ∈ ds, UnitOrPfx d)
    {R R' : Registry} (hl : loadInto R ds = some R') {k : String} (hk : k ∉ prefixKeys ds) :
    R'.prefixes.find? k = R.prefixes.find? k :=
  loadInto_prefixes_find_not_mem (fun d hd => (hu d hd).noAlias) hl
    (by rw [← allPrefixKVs_keys, ← prefixKeys_eq]; exact hk)

/-- **(D1)** -/
theorem D_baseUnits_perm {ds ds' : List Definition} (hp : ds.Perm ds') (hu : ∀ d ∈ ds, UnitOrPfx d)
    (R : Registry) {R1 R2 : Registry} (h1 : loadInto R ds = some R1) (h2 : loadInto R ds' = some R2) :
    R1.baseUnits.Perm R2.baseUnits :=
  loadInto_baseUnits_perm hp (fun d hd => (hu d hd).noAlias) R h1 h2

/-- **(D2)** -/
theorem D_dims_perm {ds ds' : List Definition} (hp : ds.Perm ds') (hu : ∀ d ∈ ds, UnitOrPfx d)
    (R : Registry) (n : String) :
    (loadInto R ds).map (·.dims.find? n) = (loadInto R ds').map (·.dims.find? n) :=
  loadInto_dims_perm_noDerived hp (fun d hd => (hu d hd).noDerived) R n


/-! ### non-vacuity and counterexamples (why the hypotheses are there) -/

namespace Examples

def degC : UnitDef := ⟨"degC", some "°C", ["celsius"], .offset 1 273, [("kelvin", 1)], false⟩
def kel : UnitDef := ⟨"kelvin", some "K", [], .scale 1, [("[temperature]", 1)], true⟩
def kilo : PrefixDef := ⟨"kilo", 1000, some "k", []⟩

theorem deltaOf_degC : deltaOf degC =
    some ⟨"delta_degC", some "Δ°C", ["Δcelsius", "delta_celsius"], .scale 1, [("kelvin", 1)], false⟩ := by
  simp [deltaOf, degC, UnitDef.sym]
theorem deltaOf_kel : deltaOf kel = none := rfl

/-- the hypotheses of (A) hold for a list with an offset unit (delta companion), a prefix and a
    base unit -/
theorem nodup_example : (unitKeyList [.unit degC, .pfx kilo, .unit kel]).Nodup := by
  simp [unitKeyList, unitAllKeys, deltaOf_degC, deltaOf_kel, unitKeys]
  simp [degC, kel]

theorem perm_example :
    List.Perm [Definition.unit degC, .pfx kilo, .unit kel] [Definition.unit kel, .unit degC, .pfx kilo] :=
  List.perm_append_comm (l₁ := [Definition.unit degC, Definition.pfx kilo]) (l₂ := [Definition.unit kel])

/-- (A) instantiated -/
example (k : String) :
    (load [.unit degC, .pfx kilo, .unit kel]).map (·.units.find? k) =
    (load [.unit kel, .unit degC, .pfx kilo]).map (·.units.find? k) :=
  A_load_units_perm perm_example (by simp [UnitOrPfx]) nodup_example [] k

def degC' : UnitDef := ⟨"degC", none, [], .offset 1 273, [("kelvin", 1)], false⟩
def dC : UnitDef := ⟨"delta_degC", none, [], .scale 2, [("kelvin", 1)], false⟩
def meter : UnitDef := ⟨"meter", some "m", [], .scale 1, [("[length]", 1)], true⟩
def mile : UnitDef := ⟨"mile", some "m", [], .scale 1609, [("meter", 1)], false⟩
def second : UnitDef := ⟨"second", some "s", [], .scale 1, [("[time]", 1)], true⟩

/-- the keys of the automatic `delta_` companions must take part in the distinctness hypothesis:
    an explicitly written `delta_degC` and the companion of `degC` overwrite each other
    (`scale 2` one way round, `scale 1` the other) -/
theorem counterexample_delta_clash :
    (load [.unit degC', .unit dC]).map (fun R => (R.units.find? "delta_degC").map (·.conv)) = some (some (.scale 2)) ∧
    (load [.unit dC, .unit degC']).map (fun R => (R.units.find? "delta_degC").map (·.conv)) = some (some (.scale 1)) := by
  decide +kernel

/-- two units sharing a spelling: the later line wins -/
theorem counterexample_shared_symbol :
    (load [.unit meter, .unit mile]).map (fun R => (R.units.find? "m").map (·.name)) = some (some "mile") ∧
    (load [.unit mile, .unit meter]).map (fun R => (R.units.find? "m").map (·.name)) = some (some "meter") := by
  decide +kernel

/-- `alias` lines make success itself order dependent -/
theorem counterexample_alias :
    (load [.unit meter, .alias "meter" ["metre"]]).isSome = true ∧
    (load [.alias "meter" ["metre"], .unit meter]).isSome = false := by
  decide +kernel

/-- a dimension name defined both as base and as derived dimension: the later line wins -/
theorem counterexample_dim_redefined :
    (load [.dim "[a]", .ddim "[a]" [("[b]", 1)]]).map (fun R => (R.dims.find? "[a]").map (·.ref))
      = some (some (some [("[b]", 1)])) ∧
    (load [.ddim "[a]" [("[b]", 1)], .dim "[a]"]).map (fun R => (R.dims.find? "[a]").map (·.ref))
      = some (some none) := by
  decide +kernel

/-- only the lookups are order independent: the tables and the base-unit list keep the order of
    the lines -/
theorem counterexample_table_order :
    (load [.unit meter, .unit second]).map (·.baseUnits) = some ["meter", "second"] ∧
    (load [.unit second, .unit meter]).map (·.baseUnits) = some ["second", "meter"] ∧
    (load [.unit meter, .unit second]).map (·.units.map (·.1)) = some ["meter", "m", "second", "s"] ∧
    (load [.unit second, .unit meter]).map (·.units.map (·.1)) = some ["second", "s", "meter", "m"] := by
  decide +kernel

end Examples

end Pint.LoadLemmas
