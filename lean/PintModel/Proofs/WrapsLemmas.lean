/-
  Lemmas about the `wraps` / `check` model (`Model/Wraps.lean`) used by `Props/C17.lean`.
  Core Lean only.
-/
import PintModel.Model.Wraps

namespace Pint.Wraps
open Pint

variable (conv : Rat → UC → UC → Except Err Rat)

/-! ### packing keyword arguments after the positional ones -/

theorem packGo_ok {kw : List (String × Val)} : ∀ {ps : List Param} {extra : List Val},
    pack.go kw ps = .ok extra →
    extra.length = ps.length ∧ ∀ (j : Nat) p, ps[j]? = some p → extra[j]? = kwGet kw p.name := by
  intro ps
  induction ps with
  | nil =>
    intro extra h
    simp only [pack.go] at h
    cases h
    simp
  | cons p ps ih =>
    intro extra h
    simp only [pack.go] at h
    split at h
    · rename_i v r hk hg
      cases h
      have := ih hg
      refine ⟨by simp [this.1], ?_⟩
      intro j q hq
      cases j with
      | zero => simp at hq; subst hq; simp [hk]
      | succ j => simp at hq; simpa using this.2 j q hq
    · cases h
    · cases h

theorem packGo_missing {kw : List (String × Val)} : ∀ {ps : List Param} {p : Param},
    p ∈ ps → kwGet kw p.name = none → pack.go kw ps = .error .key := by
  intro ps
  induction ps with
  | nil => intro p hp; cases hp
  | cons q ps ih =>
    intro p hp hk
    simp only [pack.go]
    rcases List.mem_cons.1 hp with rfl | hp
    · rw [hk]
    · have := ih hp hk
      rw [this]
      cases kwGet kw q.name <;> rfl

theorem pack_ok {sig : Sig} {args values : List Val} {kw : List (String × Val)}
    (h : pack sig args kw = .ok values) :
    ∃ extra, pack.go kw (sig.drop args.length) = .ok extra ∧ values = args ++ extra := by
  simp only [pack] at h
  split at h
  · rename_i extra he
    cases h
    exact ⟨extra, he, rfl⟩
  · cases h

theorem pack_take {sig : Sig} {args values : List Val} {kw : List (String × Val)}
    (h : pack sig args kw = .ok values) : values.take args.length = args := by
  obtain ⟨extra, _, rfl⟩ := pack_ok h
  simp

theorem pack_length {sig : Sig} {args values : List Val} {kw : List (String × Val)}
    (h : pack sig args kw = .ok values) (hl : args.length ≤ sig.length) : values.length = sig.length := by
  obtain ⟨extra, he, rfl⟩ := pack_ok h
  have := (packGo_ok he).1
  simp [this]; omega

theorem pack_length' {sig : Sig} {args values : List Val} {kw : List (String × Val)}
    (h : pack sig args kw = .ok values) : values.length = args.length + (sig.drop args.length).length := by
  obtain ⟨extra, he, rfl⟩ := pack_ok h
  have := (packGo_ok he).1
  simp [this]

theorem pack_get {sig : Sig} {args values : List Val} {kw : List (String × Val)}
    (h : pack sig args kw = .ok values) {j : Nat} {p : Param} (hp : (sig.drop args.length)[j]? = some p) :
    values[args.length + j]? = kwGet kw p.name := by
  obtain ⟨extra, he, rfl⟩ := pack_ok h
  rw [List.getElem?_append_right (by omega)]
  simpa using (packGo_ok he).2 j p hp

theorem pack_missing {sig : Sig} {args : List Val} {kw : List (String × Val)} {p : Param}
    (hp : p ∈ sig.drop args.length) (hk : kwGet kw p.name = none) : pack sig args kw = .error .key := by
  simp only [pack]
  rw [packGo_missing hp hk]

/-! ### the conversion passes -/

theorem convertAll_length' {strict : Bool} {bn : List (String × Val)} : ∀ {tags : List Tag} {values : List Val},
    (convertAll conv strict bn tags values).length = values.length := by
  intro tags
  induction tags with
  | nil => intro values; simp [convertAll]
  | cons t ts ih =>
    intro values
    cases values with
    | nil => simp [convertAll]
    | cons v vs => simp [convertAll, ih]

theorem convertAll_length {strict : Bool} {bn : List (String × Val)} {tags : List Tag} {values : List Val}
    (h : tags.length ≤ values.length) : (convertAll conv strict bn tags values).length = values.length :=
  have _ := h; convertAll_length' conv

theorem convertAll_get {strict : Bool} {bn : List (String × Val)} {tags : List Tag} {values : List Val}
    {i : Nat} {t : Tag} {v r : Val} (ht : tags[i]? = some t) (hv : values[i]? = some v)
    (hr : convertOne conv strict bn t v = .ok r) :
    (convertAll conv strict bn tags values)[i]? = some r := by
  induction tags generalizing values i with
  | nil => simp at ht
  | cons t' ts ih =>
    cases values with
    | nil => simp at hv
    | cons v' vs =>
      cases i with
      | zero =>
        simp at ht hv; subst ht; subst hv
        simp [convertAll, hr]
      | succ i =>
        simp at ht hv
        simpa [convertAll] using ih ht hv

theorem convertAll_beyond {strict : Bool} {bn : List (String × Val)} {tags : List Tag} {values : List Val}
    {i : Nat} (hi : tags.length ≤ i) : (convertAll conv strict bn tags values)[i]? = values[i]? := by
  induction tags generalizing values i with
  | nil => simp [convertAll]
  | cons t' ts ih =>
    cases values with
    | nil => simp [convertAll]
    | cons v' vs =>
      cases i with
      | zero => simp at hi
      | succ i =>
        simp at hi
        simpa [convertAll] using ih hi

theorem passErr_none_iff {strict : Bool} {bn : List (String × Val)} {sel : Tag → Bool} {tags : List Tag} {values : List Val} :
    passErr conv strict bn sel tags values = none ↔
      ∀ (i : Nat) t v, tags[i]? = some t → values[i]? = some v → sel t = true → ∃ r, convertOne conv strict bn t v = .ok r := by
  induction tags generalizing values with
  | nil => simp [passErr]
  | cons t' ts ih =>
    cases values with
    | nil => simp [passErr]
    | cons v' vs =>
      simp only [passErr]
      constructor
      · intro h i t v ht hv hs
        cases i with
        | zero =>
          simp at ht hv; subst ht; subst hv
          rw [if_pos hs] at h
          split at h
          · cases h
          · rename_i r hr; exact ⟨r, hr⟩
        | succ i =>
          simp at ht hv
          have h' : passErr conv strict bn sel ts vs = none := by
            split at h
            · split at h
              · cases h
              · exact h
            · exact h
          exact ih.1 h' i t v ht hv hs
      · intro h
        have h' : passErr conv strict bn sel ts vs = none :=
          ih.2 (fun i t v ht hv hs => h (i+1) t v (by simpa using ht) (by simpa using hv) hs)
        split
        · rename_i hs
          obtain ⟨r, hr⟩ := h 0 t' v' (by simp) (by simp) hs
          rw [hr]; exact h'
        · exact h'

theorem passErr_some {strict : Bool} {bn : List (String × Val)} {sel : Tag → Bool} {tags : List Tag} {values : List Val} {e : Err}
    (h : passErr conv strict bn sel tags values = some e) :
    ∃ (i : Nat) (t : Tag) (v : Val), tags[i]? = some t ∧ values[i]? = some v ∧ sel t = true ∧ convertOne conv strict bn t v = .error e := by
  induction tags generalizing values with
  | nil => simp [passErr] at h
  | cons t' ts ih =>
    cases values with
    | nil => simp [passErr] at h
    | cons v' vs =>
      simp only [passErr] at h
      have lift : passErr conv strict bn sel ts vs = some e →
          ∃ (i : Nat) (t : Tag) (v : Val), (t' :: ts)[i]? = some t ∧ (v' :: vs)[i]? = some v ∧ sel t = true ∧ convertOne conv strict bn t v = .error e := fun h' => by
        obtain ⟨i, t, v, ht, hv, hs, hc⟩ := ih h'
        exact ⟨i+1, t, v, by simpa using ht, by simpa using hv, hs, hc⟩
      split at h
      · rename_i hs
        split at h
        · rename_i e' he
          cases h
          exact ⟨0, t', v', by simp, by simp, hs, he⟩
        · exact lift h
      · exact lift h

theorem convertOne_ok_of_not_sel {strict : Bool} {bn : List (String × Val)} {t : Tag} {v : Val}
    (h1 : isDep t = false) (h2 : isUnit t = false) : ∃ r, convertOne conv strict bn t v = .ok r := by
  cases t with
  | skip => exact ⟨_, rfl⟩
  | defn n => exact ⟨_, rfl⟩
  | dep u => simp [isDep] at h1
  | unit u => simp [isUnit] at h2

/-! ### `_converter` -/

/-- the unpacking step of `_converter` -/
def kwUpd (acc : List (String × Val)) (p : String × Val) : List (String × Val) :=
  if acc.any (·.1 == p.1) then acc.map (fun e => if e.1 == p.1 then (e.1, p.2) else e) else acc ++ [p]

theorem converter_unfold {tags : List Tag} {sig : Sig} {strict : Bool} {args values : List Val}
    {kw : List (String × Val)} (hp : pack sig args kw = .ok values) :
    converter conv tags sig strict args kw =
      match passErr conv strict (namedValues tags values) isDep tags values with
      | some e => .error e
      | none =>
        match passErr conv strict (namedValues tags values) isUnit tags values with
        | some e => .error e
        | none =>
          .ok ((convertAll conv strict (namedValues tags values) tags values).take args.length,
            ((((sig.drop args.length).map (·.name)).zip
              ((convertAll conv strict (namedValues tags values) tags values).drop args.length)).foldl kwUpd kw),
            namedValues tags values) := by
  simp only [converter, hp]
  rfl

theorem all_ok_of_passes {strict : Bool} {bn : List (String × Val)} {tags : List Tag} {values : List Val}
    (h1 : passErr conv strict bn isDep tags values = none)
    (h2 : passErr conv strict bn isUnit tags values = none)
    {i : Nat} {t : Tag} {v : Val} (ht : tags[i]? = some t) (hv : values[i]? = some v) :
    ∃ r, convertOne conv strict bn t v = .ok r := by
  cases hd : isDep t with
  | true => exact (passErr_none_iff conv).1 h1 i t v ht hv hd
  | false =>
    cases hu : isUnit t with
    | true => exact (passErr_none_iff conv).1 h2 i t v ht hv hu
    | false => exact convertOne_ok_of_not_sel conv hd hu

theorem converter_ok' {tags : List Tag} {sig : Sig} {strict : Bool} {args vals : List Val}
    {kw kw' bn : List (String × Val)}
    (h : converter conv tags sig strict args kw = .ok (vals, kw', bn)) :
    ∃ values, pack sig args kw = .ok values ∧ bn = namedValues tags values ∧
      passErr conv strict bn isDep tags values = none ∧
      passErr conv strict bn isUnit tags values = none ∧
      vals = (convertAll conv strict bn tags values).take args.length ∧
      kw' = ((((sig.drop args.length).map (·.name)).zip
              ((convertAll conv strict bn tags values).drop args.length)).foldl kwUpd kw) := by
  cases hp : pack sig args kw with
  | error e => simp [converter, hp] at h
  | ok values =>
    rw [converter_unfold conv hp] at h
    split at h
    · cases h
    · rename_i h1
      split at h
      · cases h
      · rename_i h2
        cases h
        exact ⟨values, rfl, rfl, h1, h2, rfl, rfl⟩

theorem converter_ok {tags : List Tag} {sig : Sig} {strict : Bool} {args vals : List Val}
    {kw kw' bn : List (String × Val)}
    (h : converter conv tags sig strict args kw = .ok (vals, kw', bn)) :
    ∃ values, pack sig args kw = .ok values ∧ bn = namedValues tags values ∧
      vals = (convertAll conv strict bn tags values).take args.length ∧
      (∀ (i : Nat) t v, tags[i]? = some t → values[i]? = some v →
        ∃ r, convertOne conv strict bn t v = .ok r ∧ (convertAll conv strict bn tags values)[i]? = some r) := by
  obtain ⟨values, hp, hb, h1, h2, hv, _⟩ := converter_ok' conv h
  refine ⟨values, hp, hb, hv, ?_⟩
  intro i t v ht hvi
  obtain ⟨r, hr⟩ := all_ok_of_passes conv h1 h2 ht hvi
  exact ⟨r, hr, convertAll_get conv ht hvi hr⟩

theorem converter_error {tags : List Tag} {sig : Sig} {strict : Bool} {args : List Val}
    {kw : List (String × Val)} {e : Err}
    (h : converter conv tags sig strict args kw = .error e) :
    pack sig args kw = .error e ∨
    ∃ values, pack sig args kw = .ok values ∧
      ∃ (i : Nat) (t : Tag) (v : Val), tags[i]? = some t ∧ values[i]? = some v ∧
        convertOne conv strict (namedValues tags values) t v = .error e := by
  cases hp : pack sig args kw with
  | error e' =>
    simp [converter, hp] at h
    left; rw [h]
  | ok values =>
    right
    refine ⟨values, rfl, ?_⟩
    rw [converter_unfold conv hp] at h
    split at h
    · rename_i e' h1
      cases h
      obtain ⟨i, t, v, ht, hv, _, hc⟩ := passErr_some conv h1
      exact ⟨i, t, v, ht, hv, hc⟩
    · split at h
      · rename_i e' h2
        cases h
        obtain ⟨i, t, v, ht, hv, _, hc⟩ := passErr_some conv h2
        exact ⟨i, t, v, ht, hv, hc⟩
      · cases h

theorem converter_fails {tags : List Tag} {sig : Sig} {strict : Bool} {args values : List Val}
    {kw : List (String × Val)} {i : Nat} {t : Tag} {v : Val} {e : Err}
    (hp : pack sig args kw = .ok values) (ht : tags[i]? = some t) (hv : values[i]? = some v)
    (he : convertOne conv strict (namedValues tags values) t v = .error e) :
    ∃ e', converter conv tags sig strict args kw = .error e' := by
  rw [converter_unfold conv hp]
  split
  · exact ⟨_, rfl⟩
  · rename_i h1
    split
    · exact ⟨_, rfl⟩
    · rename_i h2
      obtain ⟨r, hr⟩ := all_ok_of_passes conv h1 h2 ht hv
      rw [hr] at he; cases he

/-! ### unpacking: the fold that writes the converted values back into the keywords -/

theorem kwGet_nil (n : String) : kwGet [] n = none := rfl

theorem kwGet_cons (a : String × Val) (as : List (String × Val)) (n : String) :
    kwGet (a :: as) n = if a.1 = n then some a.2 else kwGet as n := by
  simp only [kwGet, List.find?_cons]
  by_cases h : a.1 = n
  · simp [h]
  · have : (a.1 == n) = false := by simpa using h
    simp [h, this]

theorem kwGet_map_upd (acc : List (String × Val)) (k : String) (v : Val) (n : String) :
    kwGet (acc.map (fun e => if e.1 == k then (e.1, v) else e)) n =
      if k = n then (kwGet acc n).map (fun _ => v) else kwGet acc n := by
  induction acc with
  | nil => simp [kwGet_nil]
  | cons a as ih =>
    simp only [List.map_cons, kwGet_cons, ih]
    by_cases hak : a.1 = k <;> by_cases hkn : k = n <;> by_cases han : a.1 = n <;> simp_all

theorem kwGet_append_single (acc : List (String × Val)) (p : String × Val) (n : String) :
    kwGet (acc ++ [p]) n = (kwGet acc n).or (if p.1 = n then some p.2 else none) := by
  induction acc with
  | nil => simp [kwGet_cons, kwGet_nil]
  | cons a as ih =>
    simp only [List.cons_append, kwGet_cons, ih]
    split <;> simp

theorem any_eq_kwGet (acc : List (String × Val)) (k : String) :
    acc.any (·.1 == k) = (kwGet acc k).isSome := by
  induction acc with
  | nil => simp [kwGet_nil]
  | cons a as ih =>
    simp only [List.any_cons, kwGet_cons, ih]
    by_cases h : a.1 = k <;> simp [h]

theorem kwGet_kwUpd (acc : List (String × Val)) (p : String × Val) (n : String) :
    kwGet (kwUpd acc p) n = if p.1 = n then some p.2 else kwGet acc n := by
  unfold kwUpd
  rw [any_eq_kwGet]
  split
  · rename_i hs
    rw [kwGet_map_upd]
    split
    · rename_i hn; subst hn
      cases hk : kwGet acc p.1 with
      | none => simp [hk] at hs
      | some x => simp
    · rfl
  · rename_i hs
    rw [kwGet_append_single]
    have hk : kwGet acc p.1 = none := by simpa using hs
    split
    · rename_i hn; subst hn; simp [hk]
    · simp

theorem kwGet_foldl_not_mem (l : List (String × Val)) (kw : List (String × Val)) (n : String)
    (h : n ∉ l.map (·.1)) : kwGet (l.foldl kwUpd kw) n = kwGet kw n := by
  induction l generalizing kw with
  | nil => rfl
  | cons a as ih =>
    simp only [List.map_cons, List.mem_cons, not_or] at h
    rw [List.foldl_cons, ih _ h.2, kwGet_kwUpd, if_neg (fun e => h.1 e.symm)]

theorem kwGet_foldl_mem (l : List (String × Val)) (kw : List (String × Val))
    (hn : (l.map (·.1)).Nodup) {j : Nat} {n : String} {v : Val} (hj : l[j]? = some (n, v)) :
    kwGet (l.foldl kwUpd kw) n = some v := by
  induction l generalizing kw j with
  | nil => simp at hj
  | cons a as ih =>
    simp only [List.map_cons, List.nodup_cons] at hn
    rw [List.foldl_cons]
    cases j with
    | zero =>
      simp at hj; subst hj
      rw [kwGet_foldl_not_mem _ _ _ hn.1, kwGet_kwUpd]; simp
    | succ j =>
      simp at hj
      exact ih _ hn.2 hj

theorem converter_kw {tags : List Tag} {sig : Sig} {strict : Bool} {args vals : List Val}
    {kw kw' bn : List (String × Val)}
    (hn : (sig.map (·.name)).Nodup)
    (h : converter conv tags sig strict args kw = .ok (vals, kw', bn))
    {values : List Val} (hp : pack sig args kw = .ok values)
    {j : Nat} {p : Param} (hj : (sig.drop args.length)[j]? = some p) :
    kwGet kw' p.name = (convertAll conv strict bn tags values)[args.length + j]? := by
  obtain ⟨values', hp', _, _, _, _, hk⟩ := converter_ok' conv h
  rw [hp] at hp'; cases hp'
  have hlen := pack_length' hp
  have hol : (convertAll conv strict bn tags values).length = values.length := convertAll_length' conv
  have hjlt : j < (sig.drop args.length).length := by
    rcases Nat.lt_or_ge j (sig.drop args.length).length with h | h
    · exact h
    · rw [List.getElem?_eq_none h] at hj; cases hj
  have hlt : args.length + j < (convertAll conv strict bn tags values).length := by omega
  rw [List.getElem?_eq_getElem hlt]
  subst hk
  apply kwGet_foldl_mem (j := j)
  case hn =>
    have hle : ((sig.drop args.length).map (·.name)).length ≤
        ((convertAll conv strict bn tags values).drop args.length).length := by
      simp only [List.length_map, List.length_drop] at *; omega
    have : (((sig.drop args.length).map (·.name)).zip
        ((convertAll conv strict bn tags values).drop args.length)).map (·.1) =
        (sig.drop args.length).map (·.name) := List.map_fst_zip hle
    rw [this, List.map_drop]
    exact hn.sublist (List.drop_sublist _ _)
  case hj =>
    rw [List.getElem?_zip_eq_some]
    refine ⟨?_, ?_⟩
    · rw [List.getElem?_map, hj]; rfl
    · simp [List.getElem?_drop, List.getElem?_eq_getElem hlt]

/-! ### classification -/

theorem classifyGo_length (specs : List Spec) (defs : List String) : (classifyGo specs defs).length = specs.length := by
  induction specs generalizing defs with
  | nil => simp [classifyGo]
  | cons s t ih =>
    cases s with
    | none => simp [classifyGo, ih]
    | unit u => simp [classifyGo, ih]
    | ref u =>
      simp only [classifyGo]
      split
      · split <;> simp [ih]
      · simp [ih]

theorem classifyGo_none {specs : List Spec} {defs : List String} {i : Nat} (h : specs[i]? = some .none) :
    (classifyGo specs defs)[i]? = some .skip := by
  induction specs generalizing defs i with
  | nil => simp at h
  | cons s t ih =>
    cases i with
    | zero =>
      simp at h; subst h; simp [classifyGo]
    | succ i =>
      simp at h
      cases s with
      | none => simpa [classifyGo] using ih h
      | unit u => simpa [classifyGo] using ih h
      | ref u =>
        simp only [classifyGo]
        split
        · split <;> simpa using ih h
        · simpa using ih h

theorem classifyGo_unit {specs : List Spec} {defs : List String} {i : Nat} {u : UC} (h : specs[i]? = some (.unit u)) :
    (classifyGo specs defs)[i]? = some (.unit u) := by
  induction specs generalizing defs i with
  | nil => simp at h
  | cons s t ih =>
    cases i with
    | zero =>
      simp at h; subst h; simp [classifyGo]
    | succ i =>
      simp at h
      cases s with
      | none => simpa [classifyGo] using ih h
      | unit u => simpa [classifyGo] using ih h
      | ref u =>
        simp only [classifyGo]
        split
        · split <;> simpa using ih h
        · simpa using ih h

theorem classifyGo_ref {specs : List Spec} {defs : List String} {i : Nat} {u : UC} (h : specs[i]? = some (.ref u)) :
    (∃ k, u = [(k, 1)] ∧ (classifyGo specs defs)[i]? = some (.defn k)) ∨ (classifyGo specs defs)[i]? = some (.dep u) := by
  induction specs generalizing defs i with
  | nil => simp at h
  | cons s t ih =>
    cases i with
    | zero =>
      simp at h; subst h
      simp only [classifyGo]
      split
      · rename_i k v
        split
        · rename_i hc
          left; exact ⟨k, by rw [hc.1], by simp⟩
        · right; simp
      · right; simp
    | succ i =>
      simp at h
      cases s with
      | none => simpa [classifyGo] using ih h
      | unit u => simpa [classifyGo] using ih h
      | ref u =>
        simp only [classifyGo]
        split
        · split <;> simpa using ih h
        · simpa using ih h

theorem classify_none {specs : List Spec} {i : Nat} (h : specs[i]? = some .none) : (classify specs)[i]? = some .skip :=
  classifyGo_none h

theorem classify_unit {specs : List Spec} {i : Nat} {u : UC} (h : specs[i]? = some (.unit u)) :
    (classify specs)[i]? = some (.unit u) := classifyGo_unit h

theorem classify_ref {specs : List Spec} {i : Nat} {u : UC} (h : specs[i]? = some (.ref u)) :
    (∃ k, u = [(k, 1)] ∧ (classify specs)[i]? = some (.defn k)) ∨ (classify specs)[i]? = some (.dep u) :=
  classifyGo_ref h

/-! ### `check` -/

theorem check_count {dimOf : Val → Except Err UC} {dims : List (Option UC)} {sig : Sig} {args : List Val}
    {kw : List (String × Val)} (h : dims.length ≠ sig.length) : checkCall dimOf dims sig args kw = .error .type := by
  simp [checkCall, h]

def Mismatch (dimOf : Val → Except Err UC) (dims : List (Option UC)) (values : List Val) : Prop :=
  ∃ (i : Nat) (d : UC) (v : Val) (dv : UC), dims[i]? = some (some d) ∧ values[i]? = some v ∧ dimOf v = .ok dv ∧ dv.beq d = false

theorem mismatch_cons {dimOf : Val → Except Err UC} {dims : List (Option UC)} {values : List Val}
    {o : Option UC} {v : Val} :
    Mismatch dimOf (o :: dims) (v :: values) ↔
      (∃ d dv, o = some d ∧ dimOf v = .ok dv ∧ dv.beq d = false) ∨ Mismatch dimOf dims values := by
  constructor
  · rintro ⟨i, d, v', dv, h1, h2, h3, h4⟩
    cases i with
    | zero =>
      simp at h1 h2; subst h1; subst h2
      exact Or.inl ⟨d, dv, rfl, h3, h4⟩
    | succ i =>
      simp at h1 h2
      exact Or.inr ⟨i, d, v', dv, h1, h2, h3, h4⟩
  · rintro (⟨d, dv, rfl, h3, h4⟩ | ⟨i, d, v', dv, h1, h2, h3, h4⟩)
    · exact ⟨0, d, v, dv, by simp, by simp, h3, h4⟩
    · exact ⟨i+1, d, v', dv, by simpa using h1, by simpa using h2, h3, h4⟩

theorem checkGo_spec {dimOf : Val → Except Err UC} {dims : List (Option UC)} {values : List Val}
    (hd : ∀ v ∈ values, ∃ d, dimOf v = .ok d) :
    (checkCall.go dimOf dims values = .ok () ∧ ¬ Mismatch dimOf dims values) ∨
    (checkCall.go dimOf dims values = .error .dimensionality ∧ Mismatch dimOf dims values) := by
  induction dims generalizing values with
  | nil =>
    left
    refine ⟨by simp [checkCall.go], ?_⟩
    rintro ⟨i, d, v, dv, h1, _⟩; simp at h1
  | cons o ds ih =>
    cases values with
    | nil =>
      left
      refine ⟨by cases o <;> simp [checkCall.go], ?_⟩
      rintro ⟨i, d, v, dv, _, h2, _⟩; simp at h2
    | cons v vs =>
      have hd' : ∀ v ∈ vs, ∃ d, dimOf v = .ok d := fun w hw => hd w (List.mem_cons_of_mem _ hw)
      rw [mismatch_cons]
      cases o with
      | none =>
        simp only [checkCall.go]
        rcases ih hd' with ⟨h1, h2⟩ | ⟨h1, h2⟩
        · left; refine ⟨h1, ?_⟩
          rintro (⟨d, dv, h, _⟩ | h)
          · cases h
          · exact h2 h
        · right; exact ⟨h1, Or.inr h2⟩
      | some d =>
        obtain ⟨dv, hdv⟩ := hd v List.mem_cons_self
        have hgo : checkCall.go dimOf (some d :: ds) (v :: vs) =
            if dv.beq d then checkCall.go dimOf ds vs else .error .dimensionality := by
          simp only [checkCall.go, hdv]
        rw [hgo]
        cases hb : dv.beq d with
        | false =>
          right
          exact ⟨by simp, Or.inl ⟨d, dv, rfl, hdv, hb⟩⟩
        | true =>
          simp only [if_true]
          rcases ih hd' with ⟨h1, h2⟩ | ⟨h1, h2⟩
          · left; refine ⟨h1, ?_⟩
            rintro (⟨d', dv', h, h3, h4⟩ | h)
            · cases h; rw [hdv] at h3; cases h3; rw [hb] at h4; cases h4
            · exact h2 h
          · right; exact ⟨h1, Or.inr h2⟩

theorem check_iff {dimOf : Val → Except Err UC} {dims : List (Option UC)} {sig : Sig} {args values : List Val}
    {kw : List (String × Val)} (hl : dims.length = sig.length)
    (hp : pack sig args (applyDefaults sig args.length kw) = .ok values)
    (hd : ∀ v ∈ values, ∃ d, dimOf v = .ok d) :
    checkCall dimOf dims sig args kw = .error .dimensionality ↔
      ∃ (i : Nat) (d : UC) (v : Val) (dv : UC), dims[i]? = some (some d) ∧ values[i]? = some v ∧ dimOf v = .ok dv ∧ dv.beq d = false := by
  show _ ↔ Mismatch dimOf dims values
  simp only [checkCall, hl, ne_eq, not_true_eq_false, if_false, hp]
  rcases checkGo_spec (dims := dims) hd with ⟨h1, h2⟩ | ⟨h1, h2⟩
  · rw [h1]
    constructor
    · intro h
      dsimp only at h
      split at h <;> cases h
    · intro h; exact absurd h h2
  · rw [h1]
    exact ⟨fun _ => h2, fun _ => rfl⟩
end Pint.Wraps
