/-
  Soundness of the inversion of a system rule `new : old` (`System.from_definition`, modelled by
  `GS.systemRule`): the expression written for the replaced root unit `old` — the new unit to the power 1/a
  times the other root units of the new unit's expansion to the powers -e/a — expands back to `old`.
-/
import PintModel.Model.GroupSys
import PintModel.Proofs.UCLemmas

namespace Pint.GS
open Pint

/-- exponent of the root unit `k` in the root expansion of `repl`, when the unit `new` expands to `exp`
    (a container of root units) and every other key of `repl` is a root unit itself -/
def expoIn (repl : UC) (new : String) (exp : UC) (k : String) : Rat :=
  (repl.map fun p => if p.1 = new then p.2 * exp.get k else if p.1 = k then p.2 else 0).foldl (· + ·) 0

/-- the inversion written by `systemRule` for the long form -/
def invertLong (exp : UC) (new old : String) : UC :=
  ((exp.filter (fun p => p.1 != old)).map fun p => (p.1, -p.2 / exp.get old)) ++ [(new, 1 / exp.get old)]

/-- plain sum of a list of rationals, written the way `expoIn` writes it -/
def sumL (l : List Rat) : Rat := l.foldl (· + ·) 0

theorem foldl_add_acc (l : List Rat) (acc : Rat) : l.foldl (· + ·) acc = acc + l.foldl (· + ·) 0 := by
  induction l generalizing acc with
  | nil => simp only [List.foldl_nil]; grind
  | cons x t ih =>
    simp only [List.foldl_cons]
    rw [ih (acc + x), ih (0 + x)]
    grind

theorem sumL_nil : sumL [] = 0 := rfl

theorem sumL_cons (x : Rat) (t : List Rat) : sumL (x :: t) = x + sumL t := by
  unfold sumL
  simp only [List.foldl_cons]
  rw [foldl_add_acc]
  grind

theorem sumL_append (a b : List Rat) : sumL (a ++ b) = sumL a + sumL b := by
  induction a with
  | nil => simp only [List.nil_append, sumL_nil]; grind
  | cons x t ih => simp only [List.cons_append, sumL_cons, ih]; grind

/-- the summand of `expoIn` -/
def expoTerm (new : String) (exp : UC) (k : String) (p : String × Rat) : Rat :=
  if p.1 = new then p.2 * exp.get k else if p.1 = k then p.2 else 0

theorem expoIn_eq_sumL (repl : UC) (new : String) (exp : UC) (k : String) :
    expoIn repl new exp k = sumL (repl.map (expoTerm new exp k)) := rfl

/-- the part of the inversion coming from the other root units sums to `-(l.get k) / a`, nothing for `old` -/
theorem sumL_others (exp : UC) (new old : String) (a : Rat) (k : String) (l : UC)
    (hn : (l.map (·.1)).Nodup) (hnew : new ∉ l.map (·.1)) :
    sumL (((l.filter (fun p => p.1 != old)).map fun p => (p.1, -p.2 / a)).map (expoTerm new exp k))
      = if k = old then 0 else -(l.get k) / a := by
  induction l with
  | nil => simp [sumL_nil, Rat.div_def]
  | cons p t ih =>
    obtain ⟨k0, v⟩ := p
    simp only [List.map_cons, List.nodup_cons, List.mem_cons, not_or] at hn hnew
    have ih2 := ih hn.2 hnew.2
    have hk0 : k0 ≠ new := fun e => hnew.1 e.symm
    by_cases h0 : k0 = old
    · have hf : ((k0, v) :: t).filter (fun p => p.1 != old) = t.filter (fun p => p.1 != old) := by
        simp [h0]
      rw [hf, ih2]
      by_cases hk : k = old
      · simp [hk]
      · have : ¬ k0 = k := fun e => hk (e ▸ h0)
        simp [hk, UC.get_cons, this]
    · have hf : ((k0, v) :: t).filter (fun p => p.1 != old)
          = (k0, v) :: t.filter (fun p => p.1 != old) := by
        simp [h0]
      rw [hf]
      simp only [List.map_cons, sumL_cons, ih2]
      by_cases hk : k0 = k
      · have hz : UC.get t k = 0 := UC.get_eq_zero_of_not_mem_keys (by subst hk; exact hn.1)
        have hko : ¬ k = old := fun e => h0 (hk.trans e)
        simp only [expoTerm, if_neg hk0, if_pos hk, if_neg hko, UC.get_cons, hz]
        grind
      · by_cases hko : k = old
        · simp only [expoTerm, if_neg hk0, if_neg hk, if_pos hko]; grind
        · simp only [expoTerm, if_neg hk0, if_neg hk, if_neg hko, UC.get_cons]; grind

/-- long form: for an expansion without duplicate keys, in which `old` occurs with a non-zero exponent and
    which does not mention `new` itself, the written expression expands to exactly `old` -/
theorem invertLong_sound (exp : UC) (new old : String) (hn : (exp.map (·.1)).Nodup)
    (ha : exp.get old ≠ 0) (hnew : new ∉ exp.map (·.1)) (k : String) :
    expoIn (invertLong exp new old) new exp k = if k = old then 1 else 0 := by
  rw [expoIn_eq_sumL, invertLong, List.map_append, sumL_append, sumL_others exp new old _ k exp hn hnew]
  simp only [List.map_cons, List.map_nil, sumL_cons, sumL_nil, expoTerm, if_pos]
  by_cases hk : k = old
  · subst hk
    simp only [if_pos]
    have := Rat.mul_inv_cancel _ ha
    simp [Rat.div_def]
    grind
  · simp only [if_neg hk]
    simp [Rat.div_def]
    grind

/-- short form (`old` omitted): `new` expands to `old ^ value`; the written expression `new ^ (1/value)`
    expands to exactly `old` -/
theorem invertShort_sound (new old : String) (value : Rat) (hv : value ≠ 0) (hne : new ≠ old) (k : String) :
    expoIn [(new, 1 / value)] new [(old, value)] k = if k = old then 1 else 0 := by
  rw [expoIn_eq_sumL]
  simp only [List.map_cons, List.map_nil, sumL_cons, sumL_nil, expoTerm, if_pos, UC.get_cons, UC.get_nil]
  by_cases hk : k = old
  · subst hk
    have := Rat.mul_inv_cancel _ hv
    simp [Rat.div_def]
    grind
  · have : ¬ old = k := fun e => hk e.symm
    simp only [if_neg hk, if_neg this]; grind

/-- what `systemRule` returns in the long form is `invertLong` of the root expansion of the new unit -/
theorem systemRule_long {R : Registry} {new old : String} {o : String} {repl : UC}
    (h : systemRule R (new, some old) = .ok (o, repl)) :
    ∃ exp, R.getRootUnitsOnly [(new, 1)] = .ok exp ∧ o = old ∧ repl = invertLong exp new old ∧ exp.has old = true := by
  unfold systemRule at h
  simp only at h
  split at h
  · cases h
  · rename_i exp hexp
    refine ⟨exp, hexp, ?_⟩
    split at h
    · cases h
    · split at h
      · cases h
      · split at h
        · cases h
        · rename_i hhas
          simp only [Except.ok.injEq, Prod.mk.injEq] at h
          refine ⟨h.1.symm, ?_, by simpa using hhas⟩
          rw [← h.2]; rfl

/-- and in the short form the single root unit of the expansion to the inverse power -/
theorem systemRule_short {R : Registry} {new : String} {o : String} {repl : UC}
    (h : systemRule R (new, none) = .ok (o, repl)) :
    ∃ value, R.getRootUnitsOnly [(new, 1)] = .ok [(o, value)] ∧ value ≠ 0 ∧ repl = [(new, 1 / value)] := by
  unfold systemRule at h
  simp only at h
  split at h
  · cases h
  · rename_i exp hexp
    split at h
    · rename_i old value
      split at h
      · cases h
      · rename_i hv
        simp only [Except.ok.injEq, Prod.mk.injEq] at h
        refine ⟨value, ?_, hv, h.2.symm⟩
        rw [hexp, ← h.1]
    · cases h

end Pint.GS
