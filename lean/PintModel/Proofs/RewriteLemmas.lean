/-
  Lemmas about the unit-rewriting helpers (`Model/Rewrite.lean`) used by `Props/C15.lean`.
  Core Lean only.
-/
import PintModel.Model.Rewrite
import PintModel.Proofs.QtyLemmas

namespace Pint.Rw
open Pint Pint.UC Pint.Registry

/-! ### conversions: value preservation and the shape of each helper -/

theorem to_value {R : Registry} {S : String → Prop} (hW : R.WFintOn S) (m : Mode)
    {q : Qty} {dst uq ud dq dd : UC} {fq fd x' : Rat}
    (hq : Good R S q fq uq dq) (hd : GoodU R S dst fd ud dd)
    (h : R.convertTo m q dst = .ok x') :
    dq.beq dd = true ∧ x' * fd = q.mag * fq := by
  unfold Registry.convertTo at h
  cases he : dq.beq dd with
  | false =>
    rw [convert_dim_error hq hd he] at h; cases h
  | true =>
    rw [convert_good hW hq hd he] at h
    injection h with h
    refine ⟨rfl, ?_⟩
    have hne := hd.factor_ne_zero hW
    rw [← h, Rat.div_def, Rat.mul_assoc, Rat.mul_assoc, Rat.inv_mul_cancel _ hne, Rat.mul_one]

theorem toRoot_shape {R : Registry} (m : Mode) {q q' : Qty} (h : R.toRoot m q = .ok q') :
    R.convertTo m q q'.units = .ok q'.mag := by
  unfold Registry.toRoot at h
  split at h
  · cases h
  · split at h
    · injection h with h; subst h; assumption
    · cases h

theorem toBase_shape {R : Registry} (gs : GS.State) (m : Mode) {q q' : Qty} (h : Rw.toBase R gs m q = .ok q') :
    R.convertTo m q q'.units = .ok q'.mag := by
  unfold Rw.toBase at h
  split at h
  · cases h
  · split at h
    · injection h with h; subst h; assumption
    · cases h

theorem toReduced_shape {R : Registry} (m : Mode) {q q' : Qty} (h : Rw.toReduced R m q = .ok q') :
    q' = q ∨ R.convertTo m q q'.units = .ok q'.mag := by
  unfold Rw.toReduced at h
  split at h
  · cases h
  · injection h with h; exact Or.inl h.symm
  · split at h
    · injection h with h; subst h; right; assumption
    · cases h

theorem toCompact_shape {R : Registry} (m : Mode) {q q' : Qty} (unit : Option UC)
    (h : Rw.toCompact R m q unit = .ok q') :
    q' = q ∨ (Rw.regKeys R q'.units).convertTo m q q'.units = .ok q'.mag := by
  unfold Rw.toCompact at h
  split at h
  · cases h
  · injection h with h; exact Or.inl h.symm
  · split at h
    · injection h with h; subst h; right; assumption
    · cases h

theorem value_self {R : Registry} {S : String → Prop}
    {q : Qty} {uq ud dq dd : UC} {fq fd : Rat}
    (hq : Good R S q fq uq dq) (hd : Good R S q fd ud dd) :
    dq.beq dd = true ∧ q.mag * fd = q.mag * fq := by
  have h1 := hq.root; rw [hd.root] at h1
  have h2 := hq.dim; rw [hd.dim] at h2
  injection h1 with h1; injection h2 with h2
  injection h1 with h1 _
  subst h1 h2
  exact ⟨beq_self hd.dim_canon, rfl⟩

theorem reduced_value {R : Registry} {S : String → Prop} (hW : R.WFintOn S) (m : Mode)
    {q q' : Qty} {uq ud dq dd : UC} {fq fd : Rat}
    (hq : Good R S q fq uq dq) (hd : Good R S q' fd ud dd) (h : Rw.toReduced R m q = .ok q') :
    dq.beq dd = true ∧ q'.mag * fd = q.mag * fq := by
  rcases toReduced_shape m h with h | h
  · subst h; exact value_self hq hd
  · exact to_value hW m hq hd h

theorem compact_value {R : Registry} {S : String → Prop} (m : Mode) (unit : Option UC)
    {q q' : Qty} {uq ud dq dd : UC} {fq fd : Rat}
    (hW : (Rw.regKeys R q'.units).WFintOn S)
    (hq : Good (Rw.regKeys R q'.units) S q fq uq dq) (hd : Good (Rw.regKeys R q'.units) S q' fd ud dd)
    (h : Rw.toCompact R m q unit = .ok q') :
    dq.beq dd = true ∧ q'.mag * fd = q.mag * fq := by
  rcases toCompact_shape m unit h with h | h
  · subst h; exact value_self hq hd
  · exact to_value hW m hq hd h

theorem ito_eq_to (R : Registry) (m : Mode) (q : Qty) (dst : UC) :
    Rw.ito R m q dst = Rw.to R m q dst := by
  unfold Rw.ito Rw.to
  split <;> rfl

theorem compact_passthrough {R : Registry} (m : Mode) (q r : Qty) (unit : Option UC)
    (hr : R.toRoot m q = .ok r) (h : r.units = [] ∨ q.mag = 0) :
    Rw.toCompact R m q unit = .ok q := by
  unfold Rw.toCompact Rw.compactTarget
  rw [hr]
  have : (r.units.isEmpty || decide (q.mag = 0)) = true := by
    rcases h with h | h
    · rw [h]; rfl
    · simp [h]
  simp only [this, if_true]

/-! ### `_get_reduced_units` -/

theorem has_iff_mem_keys (u : UC) (k : String) : u.has k = true ↔ k ∈ u.keys := by
  induction u with
  | nil => simp [UC.has, UC.keys]
  | cons p t ih =>
    obtain ⟨k0, v0⟩ := p
    by_cases h0 : k0 = k
    · simp [UC.has, UC.keys, h0]
    · have h0' : ¬ k = k0 := fun e => h0 e.symm
      simp only [UC.has, if_neg h0, ih, UC.keys, List.map_cons, List.mem_cons, h0', false_or]

theorem mem_keys_del {u : UC} {k x : String} : x ∈ (u.del k).keys ↔ x ∈ u.keys ∧ x ≠ k := by
  induction u with
  | nil => simp [UC.del, UC.keys]
  | cons p t ih =>
    obtain ⟨k0, v0⟩ := p
    have ih' : x ∈ List.map (·.1) (UC.del t k) ↔ x ∈ List.map (·.1) t ∧ x ≠ k := ih
    by_cases h0 : k0 = k
    · subst h0
      simp only [UC.del, if_true, UC.keys, List.map_cons, List.mem_cons, ih']
      constructor
      · intro h; exact ⟨Or.inr h.1, h.2⟩
      · rintro ⟨h1 | h1, h2⟩
        · exact absurd h1 h2
        · exact ⟨h1, h2⟩
    · simp only [UC.del, if_neg h0, UC.keys, List.map_cons, List.mem_cons, ih']
      constructor
      · rintro (h | h)
        · exact ⟨Or.inl h, fun e => h0 (h ▸ e)⟩
        · exact ⟨Or.inr h.1, h.2⟩
      · rintro ⟨h1 | h1, h2⟩
        · exact Or.inl h1
        · exact Or.inr ⟨h1, h2⟩

theorem mem_keys_set_of_mem {u : UC} {k : String} (hk : k ∈ u.keys) (v : Rat) (x : String) :
    x ∈ (u.set k v).keys ↔ x ∈ u.keys := by
  rw [keys_set, if_pos hk]

/-- one merge step: `add` on a present key always succeeds, `remove [u1]` deletes `u1` -/
theorem merge_step {units : UC} {u1 u2 : String} (h1 : u1 ∈ units.keys) (h2 : u2 ∈ units.keys)
    (hne : ¬ (u1 == u2) = true) (v : Rat) :
    ∃ added, units.add u2 v = some added ∧ added.remove [u1] = some (added.del u1) ∧
      ∀ x, x ∈ (added.del u1).keys → x ∈ units.keys ∧ x ≠ u1 := by
  have hne' : u1 ≠ u2 := fun e => hne (by simp [e])
  unfold UC.add
  simp only []
  split
  · rw [if_pos ((has_iff_mem_keys _ _).mpr h2)]
    refine ⟨_, rfl, ?_, ?_⟩
    · have : (units.del u2).has u1 = true :=
        (has_iff_mem_keys _ _).mpr (mem_keys_del.mpr ⟨h1, hne'⟩)
      simp [UC.remove, this]
    · intro x hx
      have := mem_keys_del.mp hx
      exact ⟨(mem_keys_del.mp this.1).1, this.2⟩
  · refine ⟨_, rfl, ?_, ?_⟩
    · have : (units.set u2 (units.get u2 + v)).has u1 = true :=
        (has_iff_mem_keys _ _).mpr ((mem_keys_set_of_mem h2 _ _).mpr h1)
      simp [UC.remove, this]
    · intro x hx
      have := mem_keys_del.mp hx
      exact ⟨(mem_keys_set_of_mem h2 _ _).mp this.1, this.2⟩

theorem reduceInner_spec (ratio : String → String → Option Rat) (units : UC) (u1 : String)
    (h1 : u1 ∈ units.keys) (l : List String) (hl : ∀ x ∈ l, x ∈ units.keys) :
    ((∀ x ∈ (reduceInner ratio units u1 l).keys, x ∈ units.keys) ∧
        u1 ∉ (reduceInner ratio units u1 l).keys) ∨
    (reduceInner ratio units u1 l = units ∧
        ∀ b ∈ l, b ≠ u1 → ratio u1 b = none ∨ ratio u1 b = some 0) := by
  induction l with
  | nil => right; exact ⟨rfl, fun _ h => by cases h⟩
  | cons u2 rest ih =>
    have ih' := ih (fun x hx => hl x (List.mem_cons_of_mem _ hx))
    unfold reduceInner
    split
    · rename_i heq
      have heq' : u1 = u2 := by simpa using heq
      rcases ih' with ih' | ih'
      · exact Or.inl ih'
      · right
        refine ⟨ih'.1, ?_⟩
        intro b hb hne
        rcases List.mem_cons.mp hb with hb | hb
        · exact absurd (hb.trans heq'.symm) hne
        · exact ih'.2 b hb hne
    · rename_i hne
      split
      · rename_i p hp
        split
        · rename_i hp0
          rcases ih' with ih' | ih'
          · exact Or.inl ih'
          · right
            refine ⟨ih'.1, ?_⟩
            intro b hb hne
            rcases List.mem_cons.mp hb with hb | hb
            · right; rw [hb, hp, hp0]
            · exact ih'.2 b hb hne
        · obtain ⟨added, ha, hr, hk⟩ :=
            merge_step h1 (hl u2 List.mem_cons_self) hne (units.get u1 / p)
          rw [ha]
          simp only [hr]
          left
          exact ⟨fun x hx => (hk x hx).1, fun hx => (hk u1 hx).2 rfl⟩
      · rename_i hp
        rcases ih' with ih' | ih'
        · exact Or.inl ih'
        · right
          refine ⟨ih'.1, ?_⟩
          intro b hb hne
          rcases List.mem_cons.mp hb with hb | hb
          · left; rw [hb, hp]
          · exact ih'.2 b hb hne

theorem reduceInner_keys (ratio : String → String → Option Rat) (units : UC) (u1 : String)
    (h1 : u1 ∈ units.keys) :
    ∀ x ∈ (reduceInner ratio units u1 units.keys).keys, x ∈ units.keys := by
  rcases reduceInner_spec ratio units u1 h1 units.keys (fun _ h => h) with h | h
  · exact h.1
  · rw [h.1]; exact fun _ h => h

theorem reduceOuter_spec (ratio : String → String → Option Rat) (rest : List String) (cur : UC) :
    (∀ x ∈ (reduceOuter ratio rest cur).keys, x ∈ cur.keys) ∧
    (∀ a ∈ rest, a ∈ (reduceOuter ratio rest cur).keys →
      ∀ b ∈ (reduceOuter ratio rest cur).keys, a ≠ b → ratio a b = none ∨ ratio a b = some 0) := by
  induction rest generalizing cur with
  | nil => exact ⟨fun _ h => h, fun _ h => by cases h⟩
  | cons u1 rest ih =>
    unfold reduceOuter
    split
    · rename_i hhas
      have hnot : u1 ∉ cur.keys := fun h => by
        rw [(has_iff_mem_keys _ _).mpr h] at hhas; simp at hhas
      obtain ⟨i1, i2⟩ := ih cur
      refine ⟨i1, ?_⟩
      intro a ha hfin
      rcases List.mem_cons.mp ha with ha | ha
      · exact absurd (i1 a hfin) (ha ▸ hnot)
      · exact i2 a ha hfin
    · rename_i hhas
      have h1 : u1 ∈ cur.keys := by
        apply (has_iff_mem_keys _ _).mp
        simpa using hhas
      obtain ⟨i1, i2⟩ := ih (reduceInner ratio cur u1 cur.keys)
      have hsub := reduceInner_keys ratio cur u1 h1
      refine ⟨fun x hx => hsub x (i1 x hx), ?_⟩
      intro a ha hfin
      rcases List.mem_cons.mp ha with ha | ha
      · subst ha
        rcases reduceInner_spec ratio cur a h1 cur.keys (fun _ h => h) with h | h
        · exact absurd (i1 a hfin) h.2
        · intro b hb hne
          exact h.2 b (hsub b (i1 b hb)) (Ne.symm hne)
      · exact i2 a ha hfin

theorem reduced_post (ratio : String → String → Option Rat) (u : UC) (hn : u.keys.Nodup) :
    ∀ a ∈ (Rw.reducedUnits ratio u).keys, ∀ b ∈ (Rw.reducedUnits ratio u).keys, a ≠ b →
      ratio a b = none ∨ ratio a b = some 0 := by
  have _ := hn  -- not needed: `del` removes every occurrence of a key
  intro a ha
  obtain ⟨i1, i2⟩ := reduceOuter_spec ratio u.keys u
  exact i2 a (i1 a ha) ha

theorem reduced_keys (ratio : String → String → Option Rat) (u : UC) :
    ∀ a ∈ (Rw.reducedUnits ratio u).keys, a ∈ u.keys :=
  (reduceOuter_spec ratio u.keys u).1

/-! ### exact logarithms -/

theorem natLog10_spec (n : Nat) (hn : 0 < n) : 10 ^ natLog10 n ≤ n ∧ n < 10 ^ (natLog10 n + 1) := by
  induction n using Nat.strongRecOn with
  | _ n ih =>
    rw [natLog10]
    split
    · simp; omega
    · have h := ih (n/10) (by omega) (by omega)
      have e1 : 10 ^ (natLog10 (n / 10) + 1) = 10 ^ natLog10 (n / 10) * 10 := Nat.pow_succ _ _
      have e2 : 10 ^ (natLog10 (n / 10) + 1 + 1) = 10 ^ natLog10 (n / 10) * 10 * 10 := by
        rw [Nat.pow_succ, Nat.pow_succ]
      rw [e1] at h
      rw [e2, e1]
      generalize 10 ^ natLog10 (n / 10) = P at *
      omega

theorem p10_pos (n : Nat) : (0:Rat) < ((10 ^ n : Nat) : Rat) :=
  Rat.natCast_pos.mpr (Nat.pow_pos (by decide))

theorem p10_ne (n : Nat) : ((10 ^ n : Nat) : Rat) ≠ 0 := fun h => by
  have := p10_pos n; rw [h] at this; exact Rat.lt_irrefl this

theorem pow10_sub (a b : Nat) : pow10 ((a:Int) - b) * ((10^b:Nat):Rat) = ((10^a:Nat):Rat) := by
  unfold pow10
  split
  · rename_i h
    have : ((a:Int) - b).toNat = a - b := by omega
    rw [this, ← Rat.natCast_mul, ← Nat.pow_add]; congr 2; omega
  · rename_i h
    have : (-((a:Int) - b)).toNat = b - a := by omega
    rw [this]
    have hb : 10 ^ b = 10 ^ (b - a) * 10 ^ a := by rw [← Nat.pow_add]; congr 1; omega
    rw [hb, Rat.natCast_mul, ← Rat.mul_assoc, Rat.div_mul_cancel (p10_ne _), Rat.one_mul]

theorem pow10_natCast (n : Nat) : pow10 (n : Int) = ((10^n:Nat):Rat) := by
  have := pow10_sub n 0
  simpa using this

theorem pow10_add_nat (e : Int) (n : Nat) : pow10 (e + n) = pow10 e * ((10^n:Nat):Rat) := by
  have he : e = ((e.toNat : Nat) : Int) - (((-e).toNat : Nat) : Int) := by omega
  generalize e.toNat = a at he
  generalize (-e).toNat = b at he
  subst he
  have h1 := pow10_sub (a + n) b
  have h2 := pow10_sub a b
  have e1 : ((a:Int) - b + n) = (((a + n : Nat) : Int) - b) := by omega
  rw [e1]
  apply (rat_mul_right_cancel_iff (p10_ne b)).mp
  rw [h1, Rat.mul_assoc, Rat.mul_comm ((10^n:Nat):Rat), ← Rat.mul_assoc, h2, Nat.pow_add, Rat.natCast_mul]

theorem pow10_pos (e : Int) : 0 < pow10 e := by
  have he : e = ((e.toNat : Nat) : Int) - (((-e).toNat : Nat) : Int) := by omega
  rw [he]
  have h := pow10_sub e.toNat (-e).toNat
  have := p10_pos e.toNat
  rw [← h] at this
  exact (Rat.mul_pos_iff_of_pos_right (p10_pos _)).mp this

theorem pow10_mono {e f : Int} (h : e ≤ f) : pow10 e ≤ pow10 f := by
  have : f = e + ((f - e).toNat : Nat) := by omega
  rw [this, pow10_add_nat]
  have h1 : (1:Rat) ≤ ((10 ^ (f - e).toNat : Nat) : Rat) := by
    have : 1 ≤ 10 ^ (f - e).toNat := Nat.pow_pos (by decide)
    exact_mod_cast this
  have := Rat.mul_le_mul_of_nonneg_left h1 (Rat.le_of_lt (pow10_pos e))
  rwa [Rat.mul_one] at this


theorem rat_mul_den (q : Rat) : q * (q.den : Rat) = (q.num : Rat) := by
  have h : q = (q.num : Rat) / (q.den : Rat) := by
    rw [← Rat.mkRat_eq_div, Rat.mkRat_self]
  have hd : (q.den : Rat) ≠ 0 := by
    have := q.den_nz
    exact_mod_cast this
  conv => lhs; lhs; rw [h]
  exact Rat.div_mul_cancel hd

theorem rat_num_pos {q : Rat} (h : 0 < q) : 0 < q.num := by
  have h1 : 0 ≤ q.num := Rat.num_nonneg.mpr (Rat.le_of_lt h)
  have h2 : q.num ≠ 0 := fun h0 => by
    rw [Rat.num_eq_zero.mp h0] at h; exact Rat.lt_irrefl h
  omega

theorem floorLog10_bounds {q : Rat} (h : 0 < q) :
    pow10 ((natLog10 q.num.natAbs : Int) - (natLog10 q.den : Int) - 1) < q ∧
    q < pow10 ((natLog10 q.num.natAbs : Int) - (natLog10 q.den : Int) + 1) := by
  have hnum : 0 < q.num := rat_num_pos h
  have hn : 0 < q.num.natAbs := by omega
  have hd : 0 < q.den := q.den_pos
  obtain ⟨n1, n2⟩ := natLog10_spec _ hn
  obtain ⟨d1, d2⟩ := natLog10_spec _ hd
  have hqd : q * (q.den : Rat) = ((q.num.natAbs : Nat) : Rat) := by
    rw [rat_mul_den, ← Rat.intCast_natCast]; congr 1; omega
  generalize q.num.natAbs = n at *
  generalize q.den = d at *
  generalize natLog10 n = a at *
  generalize natLog10 d = b at *
  have n1' : ((10 ^ a : Nat) : Rat) ≤ (n : Rat) := Rat.natCast_le_natCast.mpr n1
  have n2' : (n : Rat) < ((10 ^ (a+1) : Nat) : Rat) := Rat.natCast_lt_natCast.mpr n2
  have d1' : ((10 ^ b : Nat) : Rat) ≤ (d : Rat) := Rat.natCast_le_natCast.mpr d1
  have d2' : (d : Rat) < ((10 ^ (b+1) : Nat) : Rat) := Rat.natCast_lt_natCast.mpr d2
  constructor
  · have e1 : (a : Int) - (b : Int) - 1 = ((a : Int) - ((b + 1 : Nat) : Int)) := by omega
    have h1 := pow10_sub a (b+1)
    rw [← e1] at h1
    apply Rat.lt_of_mul_lt_mul_right (c := ((10 ^ (b+1) : Nat) : Rat)) _ (Rat.le_of_lt (p10_pos _))
    rw [h1]
    have := Rat.mul_lt_mul_of_pos_left d2' h
    grind
  · have e1 : (a : Int) - (b : Int) + 1 = (((a + 1 : Nat) : Int) - (b : Int)) := by omega
    have h1 := pow10_sub (a+1) b
    rw [← e1] at h1
    apply Rat.lt_of_mul_lt_mul_right (c := ((10 ^ b : Nat) : Rat)) _ (Rat.le_of_lt (p10_pos _))
    rw [h1]
    have := Rat.mul_le_mul_of_nonneg_left d1' (Rat.le_of_lt h)
    grind

theorem floorLog10_spec {q : Rat} (h : 0 < q) :
    Rw.pow10 (Rw.floorLog10 q) ≤ q ∧ q < Rw.pow10 (Rw.floorLog10 q + 1) := by
  obtain ⟨h1, h2⟩ := floorLog10_bounds h
  unfold floorLog10
  generalize ((natLog10 q.num.natAbs : Int) - (natLog10 q.den : Int)) = e at *
  simp only []
  split
  · split
    · rename_i h3; exact absurd h2 (Rat.not_lt.mpr h3)
    · rename_i h3 h4; exact ⟨h3, Rat.not_le.mp h4⟩
  · rename_i h3
    have : e - 1 + 1 = e := by omega
    rw [this]
    exact ⟨Rat.le_of_lt h1, Rat.not_le.mp h3⟩


theorem absR_pos {x : Rat} (h : x ≠ 0) : 0 < absR x := by
  unfold absR
  split
  · rename_i h1
    have := Rat.neg_lt_neg h1
    simpa using this
  · rename_i h1
    exact Rat.lt_of_le_of_ne (Rat.not_lt.mp h1) (Ne.symm h)

theorem compact_range {mag : Rat} (h : mag ≠ 0) :
    Rw.pow10 (Rw.compactPower mag 1) ≤ Rw.absR mag ∧ Rw.absR mag < Rw.pow10 (Rw.compactPower mag 1 + 3)
    ∧ Rw.compactPower mag 1 % 3 = 0 := by
  obtain ⟨h1, h2⟩ := floorLog10_spec (absR_pos h)
  have hc : compactPower mag 1 = (floorLog10 (absR mag) / 3) * 3 := by
    unfold compactPower
    simp
  rw [hc]
  generalize floorLog10 (absR mag) = L at *
  refine ⟨?_, ?_, by omega⟩
  · have := pow10_mono (e := L / 3 * 3) (f := L) (by omega)
    grind
  · have := pow10_mono (e := L + 1) (f := L / 3 * 3 + 3) (by omega)
    grind

/-! ### the prefix table, `to_compact` -/

theorem bisect_spec (table : List (Int × String)) (hs : (table.map (·.1)).Pairwise (· < ·))
    {k : Int} {n : String} (h : (k, n) ∈ table) :
    bisectLeft k (table.map (·.1)) < table.length ∧
      table[bisectLeft k (table.map (·.1))]? = some (k, n) := by
  induction table with
  | nil => cases h
  | cons p t ih =>
    rw [List.map_cons, List.pairwise_cons] at hs
    rcases List.mem_cons.mp h with h | h
    · subst h
      simp [bisectLeft]
    · have hlt : p.1 < k := hs.1 k (List.mem_map.mpr ⟨(k, n), h, rfl⟩)
      obtain ⟨i1, i2⟩ := ih hs.2 h
      simp only [List.map_cons, bisectLeft, if_pos hlt, List.length_cons]
      exact ⟨by omega, by simpa using i2⟩

theorem pick_exact (table : List (Int × String)) (hs : (table.map (·.1)).Pairwise (· < ·))
    {k : Int} {n : String} (h : (k, n) ∈ table) : Rw.pickPrefix table k = n := by
  obtain ⟨h1, h2⟩ := bisect_spec table hs h
  unfold pickPrefix
  simp only [ge_iff_le, if_neg (Nat.not_le.mpr h1), h2]

theorem mem_insertSorted {k : Int} {v : String} {t : List (Int × String)} {e : Int × String}
    (h : e ∈ insertSorted k v t) : e = (k, v) ∨ e ∈ t := by
  induction t with
  | nil => simp [insertSorted] at h; exact Or.inl h
  | cons p t ih =>
    unfold insertSorted at h
    split at h
    · rcases List.mem_cons.mp h with h | h
      · exact Or.inl h
      · exact Or.inr h
    · split at h
      · rcases List.mem_cons.mp h with h | h
        · exact Or.inl h
        · exact Or.inr (List.mem_cons_of_mem _ h)
      · rcases List.mem_cons.mp h with h | h
        · exact Or.inr (h ▸ List.mem_cons_self)
        · rcases ih h with h | h
          · exact Or.inl h
          · exact Or.inr (List.mem_cons_of_mem _ h)

theorem insertSorted_sorted (k : Int) (v : String) (t : List (Int × String))
    (hs : (t.map (·.1)).Pairwise (· < ·)) : ((insertSorted k v t).map (·.1)).Pairwise (· < ·) := by
  induction t with
  | nil => simp [insertSorted]
  | cons p t ih =>
    rw [List.map_cons, List.pairwise_cons] at hs
    unfold insertSorted
    split
    · rename_i hlt
      simp only [List.map_cons, List.pairwise_cons]
      refine ⟨?_, hs⟩
      intro x hx
      rcases List.mem_cons.mp hx with hx | hx
      · rw [hx]; exact hlt
      · exact Int.lt_trans hlt (hs.1 x hx)
    · split
      · rename_i heq
        simp only [List.map_cons, List.pairwise_cons]
        rw [heq]
        exact hs
      · rename_i h1 h2
        simp only [List.map_cons, List.pairwise_cons]
        refine ⟨?_, ih hs.2⟩
        intro x hx
        obtain ⟨e, he, rfl⟩ := List.mem_map.mp hx
        rcases mem_insertSorted he with he | he
        · rw [he]; show p.1 < k; omega
        · exact hs.1 _ (List.mem_map.mpr ⟨e, he, rfl⟩)

theorem siTable_sorted (R : Registry) : ((Rw.siTable R).map (·.1)).Pairwise (· < ·) := by
  unfold siTable
  generalize R.prefixes = l
  have : ∀ (acc : List (Int × String)), (acc.map (·.1)).Pairwise (· < ·) →
      ((l.foldl (fun acc kv =>
        let pd := kv.2
        if pd.value ≤ (0 : Rat) then insertSorted 0 "" acc else
        match exactLog10 pd.value with
        | some e => insertSorted e pd.name acc
        | none => acc) acc).map (·.1)).Pairwise (· < ·) := by
    induction l with
    | nil => intro acc h; exact h
    | cons kv l ih =>
      intro acc h
      rw [List.foldl_cons]
      apply ih
      simp only []
      split
      · exact insertSorted_sorted _ _ _ h
      · split
        · exact insertSorted_sorted _ _ _ h
        · exact h
  exact this [] (by simp)

theorem exactLog10_some {s : Rat} {e : Int} (h : exactLog10 s = some e) : pow10 e = s := by
  unfold exactLog10 at h
  split at h
  · cases h
  · simp only [] at h
    split at h
    · rename_i h1
      injection h with h
      rw [← h]
      exact eq_of_beq h1
    · cases h

theorem siTable_decimal (R : Registry) : ∀ e ∈ Rw.siTable R,
    e = (0, "") ∨ ∃ kv ∈ R.prefixes, kv.2.name = e.2 ∧ kv.2.value = Rw.pow10 e.1 := by
  unfold siTable
  have : ∀ (l : List (String × PrefixDef)) (acc : List (Int × String)), (∀ kv ∈ l, kv ∈ R.prefixes) →
      (∀ e ∈ acc, e = (0, "") ∨ ∃ kv ∈ R.prefixes, kv.2.name = e.2 ∧ kv.2.value = Rw.pow10 e.1) →
      ∀ e ∈ (l.foldl (fun acc kv =>
        let pd := kv.2
        if pd.value ≤ (0 : Rat) then insertSorted 0 "" acc else
        match exactLog10 pd.value with
        | some e => insertSorted e pd.name acc
        | none => acc) acc),
        e = (0, "") ∨ ∃ kv ∈ R.prefixes, kv.2.name = e.2 ∧ kv.2.value = Rw.pow10 e.1 := by
    intro l
    induction l with
    | nil => intro acc _ h; exact h
    | cons kv l ih =>
      intro acc hl h
      rw [List.foldl_cons]
      apply ih _ (fun x hx => hl x (List.mem_cons_of_mem _ hx))
      simp only []
      split
      · intro e he
        rcases mem_insertSorted he with he | he
        · exact Or.inl he
        · exact h e he
      · split
        · rename_i e' hlog
          intro e he
          rcases mem_insertSorted he with he | he
          · right
            refine ⟨kv, hl kv List.mem_cons_self, ?_, ?_⟩
            · rw [he]
            · rw [he]; exact (exactLog10_some hlog).symm
          · exact h e he
        · exact h
  exact this R.prefixes [] (fun _ h => h) (fun _ h => by cases h)

theorem pickPrefix_mem (table : List (Int × String)) (p : Int) :
    pickPrefix table p = "" ∨ ∃ e, (e, pickPrefix table p) ∈ table := by
  unfold pickPrefix
  simp only []
  split
  · rename_i e n h
    right
    exact ⟨e, List.mem_of_getElem? h⟩
  · exact Or.inl rfl

theorem compactTarget_rename {R : Registry} (m : Mode) {q : Qty} (unit : Option UC) {base dst : UC}
    (h : Rw.compactTarget R m q unit = .ok (some (base, dst))) :
    ∃ ustr pfx, base.rename ustr (pfx ++ ustr) = some dst ∧
      (pfx = "" ∨ ∃ e, (e, pfx) ∈ Rw.siTable R) := by
  unfold compactTarget at h
  split at h
  · cases h
  · split at h
    · cases h
    · split at h
      · cases h
      · split at h
        · cases h
        · split at h
          · cases h
          · split at h
            · cases h
            · split at h
              · cases h
              · simp only [] at h
                split at h
                · cases h
                · rename_i dst' hren
                  injection h with h
                  injection h with h
                  injection h with hb hd
                  subst hb hd
                  exact ⟨_, _, hren, pickPrefix_mem _ _⟩

end Pint.Rw
