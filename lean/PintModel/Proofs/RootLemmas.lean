/-
  The root-unit expansion `_get_root_units_recurse` (model: `Registry.rootRec`) computes, for
  integer exponents, `factor * φ(ref)^exp` and `units + exp • F(ref)`: characterisation by a
  pure denotation `rootVal`, and the homomorphism theorems for `getRootUnits` that follow
  (`mul`, `div`, integer `pow`), plus fuel monotonicity of `rootRec`.

  Core Lean only (no Mathlib): the few integer-power facts about `Rat` that core lacks
  (`zpow_mul`, `mul_zpow`, …) are proved here.
-/
import PintModel.Proofs.SumLemmas

namespace Pint
open UC

/-! ### integer powers of rationals -/

namespace RatPow

theorem exists_intCast_of_den {x : Rat} (h : x.den = 1) : ∃ z : Int, x = (z : Rat) :=
  ⟨x.num, by apply Rat.ext <;> simp [h]⟩

theorem num_mul_of_den {x y : Rat} (hx : x.den = 1) (hy : y.den = 1) :
    (x * y).num = x.num * y.num ∧ (x * y).den = 1 := by
  obtain ⟨a, rfl⟩ := exists_intCast_of_den hx
  obtain ⟨b, rfl⟩ := exists_intCast_of_den hy
  rw [← Rat.intCast_mul]
  exact ⟨rfl, rfl⟩

theorem num_add_of_den {x y : Rat} (hx : x.den = 1) (hy : y.den = 1) :
    (x + y).num = x.num + y.num ∧ (x + y).den = 1 := by
  obtain ⟨a, rfl⟩ := exists_intCast_of_den hx
  obtain ⟨b, rfl⟩ := exists_intCast_of_den hy
  rw [← Rat.intCast_add]
  exact ⟨rfl, rfl⟩

theorem num_sub_of_den {x y : Rat} (hx : x.den = 1) (hy : y.den = 1) :
    (x - y).num = x.num - y.num ∧ (x - y).den = 1 := by
  obtain ⟨a, rfl⟩ := exists_intCast_of_den hx
  obtain ⟨b, rfl⟩ := exists_intCast_of_den hy
  rw [← Rat.intCast_sub]
  exact ⟨rfl, rfl⟩

theorem den_mul {x y : Rat} (hx : x.den = 1) (hy : y.den = 1) : (x * y).den = 1 :=
  (num_mul_of_den hx hy).2
theorem den_add {x y : Rat} (hx : x.den = 1) (hy : y.den = 1) : (x + y).den = 1 :=
  (num_add_of_den hx hy).2
theorem den_sub {x y : Rat} (hx : x.den = 1) (hy : y.den = 1) : (x - y).den = 1 :=
  (num_sub_of_den hx hy).2

theorem mul_pow (a b : Rat) (n : Nat) : (a * b) ^ n = a ^ n * b ^ n := by
  induction n with
  | zero => simp
  | succ n ih => rw [Rat.pow_succ, Rat.pow_succ, Rat.pow_succ, ih]; grind

theorem mul_zpow (a b : Rat) (n : Int) : (a * b) ^ n = a ^ n * b ^ n := by
  rcases n with n | n
  · exact mul_pow a b n
  · show ((a * b) ^ (n + 1))⁻¹ = (a ^ (n + 1))⁻¹ * (b ^ (n + 1))⁻¹
    rw [mul_pow, Rat.inv_mul_rev, Rat.mul_comm]

theorem zpow_ne_zero {a : Rat} (h : a ≠ 0) (n : Int) : a ^ n ≠ 0 := by
  intro hz
  have := Rat.zpow_add h n (-n)
  rw [Int.add_right_neg, Rat.zpow_zero, hz, Rat.zero_mul] at this
  exact absurd this (by decide)

theorem zpow_mul_nat {a : Rat} (h : a ≠ 0) (m : Int) (n : Nat) :
    a ^ (m * (n : Int)) = (a ^ m) ^ (n : Int) := by
  induction n with
  | zero => simp
  | succ n ih =>
    rw [Int.natCast_succ, Int.mul_add, Int.mul_one, Rat.zpow_add h,
      Rat.zpow_add_one (zpow_ne_zero h m), ih]

theorem zpow_mul {a : Rat} (h : a ≠ 0) (m n : Int) : a ^ (m * n) = (a ^ m) ^ n := by
  obtain ⟨k, rfl | rfl⟩ := Int.eq_nat_or_neg n
  · exact zpow_mul_nat h m k
  · rw [Int.mul_neg, Rat.zpow_neg, Rat.zpow_neg, zpow_mul_nat h]

theorem one_zpow (n : Int) : (1 : Rat) ^ n = 1 := by
  have := zpow_mul (a := 1) (by decide) 0 n
  rw [Int.zero_mul, Rat.zpow_zero] at this
  exact this.symm

/-- `x ^ q` for an integer-valued rational exponent `q` -/
def zp (x q : Rat) : Rat := x ^ q.num

theorem zp_def (x q : Rat) : zp x q = x ^ q.num := rfl
@[simp] theorem zp_zero (x : Rat) : zp x 0 = 1 := Rat.zpow_zero x
@[simp] theorem zp_one (x : Rat) : zp x 1 = x := Rat.zpow_one x
@[simp] theorem one_zp (q : Rat) : zp 1 q = 1 := one_zpow _
theorem zp_intCast (x : Rat) (n : Int) : zp x (n : Rat) = x ^ n := rfl

theorem zp_ne_zero {x : Rat} (h : x ≠ 0) (q : Rat) : zp x q ≠ 0 := zpow_ne_zero h _

theorem zp_add {x : Rat} (hx : x ≠ 0) {a b : Rat} (ha : a.den = 1) (hb : b.den = 1) :
    zp x (a + b) = zp x a * zp x b := by
  unfold zp; rw [(num_add_of_den ha hb).1, Rat.zpow_add hx]

theorem zp_mul {x : Rat} (hx : x ≠ 0) {a b : Rat} (ha : a.den = 1) (hb : b.den = 1) :
    zp x (a * b) = zp (zp x a) b := by
  unfold zp; rw [(num_mul_of_den ha hb).1, zpow_mul hx]

theorem zp_mul' {x : Rat} (hx : x ≠ 0) {a b : Rat} (ha : a.den = 1) (hb : b.den = 1) :
    zp x (a * b) = zp (zp x b) a := by
  rw [Rat.mul_comm, zp_mul hx hb ha]

theorem mul_zp (x y q : Rat) : zp (x * y) q = zp x q * zp y q := mul_zpow _ _ _

theorem zp_neg_one (x : Rat) : zp x (-1) = x⁻¹ := by
  show x ^ (-1 : Int) = x⁻¹
  rw [Rat.zpow_neg, Rat.zpow_one]

/-- `powRat` on a nonzero base and an integer exponent -/
theorem powRat_int {s e : Rat} (hs : s ≠ 0) (he : e.den = 1) : Registry.powRat s e = some (zp s e) := by
  unfold Registry.powRat zp
  rw [if_pos he, if_neg (fun h => hs h.1)]

end RatPow

open RatPow

/-! ### integer containers -/

/-- all exponents are integers -/
def IntUC (u : UC) : Prop := ∀ p ∈ u, p.2.den = 1

/-- every key satisfies `S` -/
def KeysIn (S : String → Prop) (u : UC) : Prop := ∀ k ∈ u.keys, S k

theorem IntUC.nil : IntUC [] := fun _ h => by cases h
theorem IntUC.tail {p : String × Rat} {t : UC} (h : IntUC (p :: t)) : IntUC t :=
  fun q hq => h q (List.mem_cons_of_mem _ hq)
theorem IntUC.head {k : String} {v : Rat} {t : UC} (h : IntUC ((k, v) :: t)) : v.den = 1 :=
  h (k, v) List.mem_cons_self

theorem KeysIn.tail {S : String → Prop} {p : String × Rat} {t : UC} (h : KeysIn S (p :: t)) :
    KeysIn S t := fun k hk => h k (by simp [hk])
theorem KeysIn.head {S : String → Prop} {k : String} {v : Rat} {t : UC}
    (h : KeysIn S ((k, v) :: t)) : S k := h k (by simp)

theorem IntUC.get {u : UC} (h : IntUC u) (k : String) : (u.get k).den = 1 := by
  induction u with
  | nil => rfl
  | cons p t ih =>
    obtain ⟨k0, v0⟩ := p
    simp only [get_cons]
    split
    · exact h.head
    · exact ih h.tail

theorem IntUC.upd {u : UC} (h : IntUC u) (k : String) {nv : Rat} (hv : nv.den = 1) :
    IntUC (u.upd k nv) := by
  intro p hp
  unfold UC.upd at hp
  split at hp
  · exact h p (mem_del hp)
  · rcases mem_set hp with hp | hp
    · exact h p hp
    · subst hp; exact hv

theorem IntUC.merge {s : Rat} (hs : s.den = 1) {a b : UC} (ha : IntUC a) (hb : IntUC b) :
    IntUC (merge s a b) := by
  unfold UC.merge
  induction b generalizing a with
  | nil => exact ha
  | cons p t ih =>
    obtain ⟨k, v⟩ := p
    simp only [List.foldl_cons]
    exact ih (ha.upd k (den_add (ha.get k) (den_mul hs hb.head))) hb.tail

theorem IntUC.pow {a : UC} (ha : IntUC a) {r : Rat} (hr : r.den = 1) : IntUC (a.pow r) := by
  intro p hp
  unfold UC.pow at hp
  simp only [List.mem_filterMap] at hp
  obtain ⟨q, hq, hpq⟩ := hp
  split at hpq
  · cases hpq
  · simp only [Option.some.injEq] at hpq; subst hpq
    exact den_mul (ha q hq) hr

theorem KeysIn.merge {S : String → Prop} {s : Rat} {a b : UC} (ha : KeysIn S a) (hb : KeysIn S b) :
    KeysIn S (merge s a b) := by
  intro k hk
  rcases keys_merge_subset hk with h | h
  · exact ha k h
  · exact hb k h

theorem KeysIn.pow {S : String → Prop} {a : UC} (ha : KeysIn S a) (r : Rat) :
    KeysIn S (a.pow r) := fun k hk => ha k (keys_pow_subset hk)

/-! ### `prodOver` : `Π_{(k,v) ∈ u} g k ^ v` -/

def prodOver (u : UC) (g : String → Rat) : Rat :=
  match u with
  | [] => 1
  | (k, v) :: t => zp (g k) v * prodOver t g

@[simp] theorem prodOver_nil (g : String → Rat) : prodOver [] g = 1 := rfl
@[simp] theorem prodOver_cons (k : String) (v : Rat) (t : UC) (g : String → Rat) :
    prodOver ((k, v) :: t) g = zp (g k) v * prodOver t g := rfl

theorem prodOver_ne_zero {g : String → Rat} (hg : ∀ k, g k ≠ 0) (u : UC) : prodOver u g ≠ 0 := by
  induction u with
  | nil => simp
  | cons p t ih =>
    obtain ⟨k, v⟩ := p
    simp only [prodOver_cons]
    intro h
    rcases Rat.mul_eq_zero.1 h with h | h
    · exact zp_ne_zero (hg k) v h
    · exact ih h

theorem prodOver_congr {u : UC} {g g' : String → Rat} (h : ∀ k ∈ u.keys, g k = g' k) :
    prodOver u g = prodOver u g' := by
  induction u with
  | nil => rfl
  | cons p t ih =>
    obtain ⟨k, v⟩ := p
    simp only [prodOver_cons]
    rw [h k (by simp), ih (fun k' hk' => h k' (by simp [hk']))]

theorem prodOver_set {g : String → Rat} (hg : ∀ k, g k ≠ 0) {a : UC} (ha : IntUC a)
    (k : String) {v : Rat} (hv : v.den = 1) :
    prodOver (a.set k v) g = prodOver a g * zp (g k) (v - a.get k) := by
  induction a with
  | nil =>
    simp only [UC.set, prodOver_cons, prodOver_nil, get_nil]
    have : v - 0 = v := by grind
    rw [this]; grind
  | cons p t ih =>
    obtain ⟨k0, v0⟩ := p
    by_cases h0 : k0 = k
    · subst h0
      simp only [UC.set, if_true, prodOver_cons, get_cons]
      have : v = v0 + (v - v0) := by grind
      have e : zp (g k0) v = zp (g k0) v0 * zp (g k0) (v - v0) := by
        conv => lhs; rw [this]
        exact zp_add (hg k0) ha.head (den_sub hv ha.head)
      rw [e]; grind
    · simp only [UC.set, if_neg h0, prodOver_cons, get_cons, ih ha.tail]; grind

theorem prodOver_del (g : String → Rat) {a : UC} (h : a.keys.Nodup) (k : String) :
    prodOver (a.del k) g * zp (g k) (a.get k) = prodOver a g := by
  induction a with
  | nil => simp [UC.del, Rat.mul_one]
  | cons p t ih =>
    obtain ⟨k0, v0⟩ := p
    simp only [keys_cons, List.nodup_cons] at h
    have ih' := ih h.2
    by_cases h0 : k0 = k
    · subst h0
      rw [get_eq_zero_of_not_mem_keys h.1, zp_zero, Rat.mul_one] at ih'
      simp only [UC.del, if_true, prodOver_cons, get_cons, ih']; grind
    · simp only [UC.del, if_neg h0, prodOver_cons, get_cons]
      rw [← ih']; grind

theorem prodOver_upd {g : String → Rat} (hg : ∀ k, g k ≠ 0) {a : UC} (ha : IntUC a)
    (h : a.keys.Nodup) (k : String) {nv : Rat} (hv : nv.den = 1) :
    prodOver (a.upd k nv) g = prodOver a g * zp (g k) (nv - a.get k) := by
  unfold UC.upd
  by_cases hz : nv = 0
  · simp only [hz, if_true]
    have h1 := prodOver_del g h k
    have h2 : zp (g k) (a.get k) * zp (g k) (0 - a.get k) = 1 := by
      rw [← zp_add (hg k) (ha.get k) (den_sub (by rfl) (ha.get k))]
      have : a.get k + (0 - a.get k) = 0 := by grind
      rw [this, zp_zero]
    rw [← h1, Rat.mul_assoc, h2, Rat.mul_one]
  · simp only [hz, if_false]
    exact prodOver_set hg ha k hv

theorem prodOver_merge {g : String → Rat} (hg : ∀ k, g k ≠ 0) {s : Rat} (hs : s.den = 1)
    {a : UC} (ha : IntUC a) (h : a.keys.Nodup) {b : UC} (hb : IntUC b) :
    prodOver (merge s a b) g = prodOver a g * zp (prodOver b g) s := by
  unfold UC.merge
  induction b generalizing a with
  | nil => simp [Rat.mul_one]
  | cons p t ih =>
    obtain ⟨k, v⟩ := p
    have hv : v.den = 1 := hb.head
    have hnv : (a.get k + s * v).den = 1 := den_add (ha.get k) (den_mul hs hv)
    simp only [List.foldl_cons, prodOver_cons]
    rw [ih (ha.upd k hnv) (nodup_keys_upd h _ _) hb.tail, prodOver_upd hg ha h k hnv, mul_zp]
    have : a.get k + s * v - a.get k = s * v := by grind
    rw [this, zp_mul' (hg k) hs hv]; grind

theorem prodOver_pow {g : String → Rat} (hg : ∀ k, g k ≠ 0) {a : UC} (ha : IntUC a)
    {r : Rat} (hr : r.den = 1) :
    prodOver (a.pow r) g = zp (prodOver a g) r := by
  induction a with
  | nil => simp [UC.pow]
  | cons p t ih =>
    obtain ⟨k, v⟩ := p
    have ih' := ih ha.tail
    unfold UC.pow at ih' ⊢
    simp only [List.filterMap_cons, prodOver_cons, mul_zp]
    rw [← zp_mul (hg k) ha.head hr]
    by_cases hz : v * r = 0
    · simp only [hz, if_true, ih', zp_zero, Rat.one_mul]
    · simp only [hz, if_false, prodOver_cons, ih']

namespace Registry

/-! ### hypotheses -/

/-- Well-formedness relative to a set `S` of unit names closed under references: every
    non-base definition that `resolve` returns for a name in `S` has an integer reference
    whose keys are again in `S`, and a nonzero scale if it has a rational scale at all
    (a definition without rational scale, `Conv.irrational`, makes both the model and the
    denotation fail, so it needs no hypothesis).  Nothing is required of base units or of names
    outside `S`, so the default registry (which contains `planck_length = hbar^(1/2) …`)
    satisfies `WFintOn S` for suitable `S`. -/
def WFintOn (R : Registry) (S : String → Prop) : Prop :=
  ∀ k, S k → ∀ key d, R.resolve k = .ok (key, some d) → d.isBase = false →
    IntUC d.ref ∧ KeysIn S d.ref ∧ ∀ s, d.conv.scaleOf = some s → s ≠ 0

/-- the global version: `S` = all names -/
def WFint (R : Registry) : Prop := R.WFintOn (fun _ => True)

/-- the (stronger) formulation directly over all results of `resolve` implies `WFint` -/
theorem WFint_of_resolve (R : Registry)
    (h : ∀ k key d, R.resolve k = .ok (key, some d) →
      IntUC d.ref ∧ (d.isBase = false → ∃ s, d.conv.scaleOf = some s ∧ s ≠ 0)) : R.WFint := by
  intro k _ key d hr hb
  obtain ⟨h1, h2⟩ := h k key d hr
  refine ⟨h1, fun _ _ => trivial, ?_⟩
  intro s hs
  obtain ⟨s', hs', hne⟩ := h2 hb
  rw [hs] at hs'; cases hs'; exact hne

theorem keysIn_true (u : UC) : KeysIn (fun _ => True) u := fun _ _ => trivial

/-! ### the denotation -/

/-- what one key contributes per unit exponent: the factor and, as a function of the base
    unit, the exponent.  (`none` for a zero scale: the model then fails for negative
    exponents; excluded by `WFintOn`.) -/
def rootKeyVal (R : Registry) (rec : UC → Option (Rat × (String → Rat))) (k : String) :
    Option (Rat × (String → Rat)) :=
  match R.resolve k with
  | .ok (key, some d) =>
    if d.isBase then some (1, fun x => if key = x then 1 else 0)
    else
      match d.conv.scaleOf with
      | none => none
      | some s => if s = 0 then none else (rec d.ref).map (fun p => (s * p.1, p.2))
  | _ => none

/-- fold of a key valuation over the items of a container:
    `(Π ψ_k ^ v, fun d => Σ v * f_k d)` -/
def rootSum (kv : String → Option (Rat × (String → Rat))) : UC → Option (Rat × (String → Rat))
  | [] => some (1, fun _ => 0)
  | (k, v) :: t =>
    match kv k, rootSum kv t with
    | some p, some q => some (p.1 ^ v.num * q.1, fun d => v * p.2 d + q.2 d)
    | _, _ => none

/-- denotation of the root-unit expansion with fuel -/
def rootVal (R : Registry) : Nat → UC → Option (Rat × (String → Rat))
  | 0, _ => none
  | n + 1, ref => rootSum (R.rootKeyVal (rootVal R n)) ref

/-- factor component of a key valuation, totalised by `1` -/
def kvF (kv : String → Option (Rat × (String → Rat))) (k : String) : Rat :=
  match kv k with
  | some p => p.1
  | none => 1

/-- unit component of a key valuation, totalised by `0` -/
def kvG (kv : String → Option (Rat × (String → Rat))) (k : String) (d : String) : Rat :=
  match kv k with
  | some p => p.2 d
  | none => 0

theorem rootSum_isSome (kv : String → Option (Rat × (String → Rat))) (u : UC)
    (h : ∀ k ∈ u.keys, ∃ p, kv k = some p) : ∃ x, rootSum kv u = some x := by
  induction u with
  | nil => exact ⟨_, rfl⟩
  | cons p t ih =>
    obtain ⟨k, v⟩ := p
    obtain ⟨p, hp⟩ := h k (by simp)
    obtain ⟨q, hq⟩ := ih (fun k' hk' => h k' (by simp [hk']))
    refine ⟨(p.1 ^ v.num * q.1, fun d => v * p.2 d + q.2 d), ?_⟩
    simp only [rootSum, hp, hq]

theorem rootSum_eq (kv : String → Option (Rat × (String → Rat))) (u : UC)
    (x : Rat × (String → Rat)) (h : rootSum kv u = some x) :
    (∀ k ∈ u.keys, ∃ p, kv k = some p) ∧ x.1 = prodOver u (kvF kv) ∧
      ∀ d, x.2 d = sumOver u (fun k => kvG kv k d) := by
  induction u generalizing x with
  | nil =>
    simp only [rootSum, Option.some.injEq] at h
    subst h
    exact ⟨fun k hk => (by cases hk), rfl, fun _ => rfl⟩
  | cons p t ih =>
    obtain ⟨k, v⟩ := p
    simp only [rootSum] at h
    cases hk : kv k with
    | none => rw [hk] at h; cases h
    | some p =>
      cases ht : rootSum kv t with
      | none => rw [hk, ht] at h; cases h
      | some q =>
        rw [hk, ht] at h
        simp only [Option.some.injEq] at h
        subst h
        obtain ⟨h1, h2, h3⟩ := ih q ht
        refine ⟨?_, ?_, ?_⟩
        · intro k' hk'
          simp only [keys_cons, List.mem_cons] at hk'
          rcases hk' with rfl | hk'
          · exact ⟨p, hk⟩
          · exact h1 k' hk'
        · show p.1 ^ v.num * q.1 = zp (kvF kv k) v * prodOver t (kvF kv)
          rw [h2]; unfold kvF; rw [hk]; rfl
        · intro d
          show v * p.2 d + q.2 d = v * kvG kv k d + sumOver t (fun k => kvG kv k d)
          rw [h3 d]; unfold kvG; rw [hk]

theorem rootKeyVal_ne_zero (R : Registry) {rec : UC → Option (Rat × (String → Rat))}
    (hrec : ∀ ref x, rec ref = some x → x.1 ≠ 0) (k : String) (p : Rat × (String → Rat))
    (h : R.rootKeyVal rec k = some p) : p.1 ≠ 0 := by
  unfold rootKeyVal at h
  split at h
  · next key d hr =>
    split at h
    · simp only [Option.some.injEq] at h; subst h; show (1 : Rat) ≠ 0; decide
    · split at h
      · cases h
      · next s hs =>
        split at h
        · cases h
        · next hs0 =>
          cases hx : rec d.ref with
          | none => rw [hx] at h; cases h
          | some x =>
            rw [hx] at h
            simp only [Option.map_some, Option.some.injEq] at h; subst h
            intro h0
            rcases Rat.mul_eq_zero.1 h0 with h0 | h0
            · exact hs0 h0
            · exact hrec _ _ hx h0
  · cases h

theorem kvF_ne_zero {kv : String → Option (Rat × (String → Rat))}
    (h : ∀ k p, kv k = some p → p.1 ≠ 0) (k : String) : kvF kv k ≠ 0 := by
  unfold kvF
  cases hk : kv k with
  | none => decide
  | some p => exact h k p hk

/-- the factor of the denotation is never zero -/
theorem rootVal_ne_zero (R : Registry) : ∀ (n : Nat) (ref : UC) (x : Rat × (String → Rat)),
    R.rootVal n ref = some x → x.1 ≠ 0 := by
  intro n
  induction n with
  | zero => intro ref x h; cases h
  | succ n ih =>
    intro ref x h
    obtain ⟨_, h2, _⟩ := rootSum_eq _ ref x h
    rw [h2]
    exact prodOver_ne_zero (kvF_ne_zero (R.rootKeyVal_ne_zero ih)) ref

theorem rootKeyValF_ne_zero (R : Registry) (n : Nat) (k : String) :
    kvF (R.rootKeyVal (R.rootVal n)) k ≠ 0 :=
  kvF_ne_zero (R.rootKeyVal_ne_zero (R.rootVal_ne_zero n)) k

/-! ### characterisation of `rootRec` -/

/-- total characterisation of `rootRec` by `rootVal`, relative to a closed set `S` of names -/
theorem rootRec_spec_on (R : Registry) {S : String → Prop} (hW : R.WFintOn S) :
    ∀ (n : Nat) (ref : UC) (e : Rat) (acc : RootAcc), IntUC ref → KeysIn S ref → e.den = 1 →
    (∃ φ f r, R.rootVal n ref = some (φ, f) ∧ φ ≠ 0 ∧ R.rootRec n ref e acc = .ok r ∧
        r.factor = acc.factor * φ ^ e.num ∧
        (∀ d, r.units.get d = acc.units.get d + e * f d) ∧
        (acc.units.keys.Nodup → r.units.keys.Nodup)) ∨
    (R.rootVal n ref = none ∧ ∃ err, R.rootRec n ref e acc = .error err) := by
  intro n
  induction n with
  | zero => intro ref e acc _ _ _; right; exact ⟨rfl, _, rfl⟩
  | succ n ih =>
    intro ref
    induction ref with
    | nil =>
      intro e acc _ _ _; left
      refine ⟨1, fun _ => 0, acc, rfl, by decide, rfl, ?_, ?_, fun h => h⟩
      · show acc.factor = acc.factor * zp 1 e
        rw [one_zp, Rat.mul_one]
      · intro d; simp [Rat.mul_zero, Rat.add_zero]
    | cons p t iht =>
      intro e acc hI hS he
      obtain ⟨k, v⟩ := p
      have hv : v.den = 1 := hI.head
      have hev : (e * v).den = 1 := den_mul he hv
      -- the step on the head key
      have hstep : (∃ ψ f a', R.rootKeyVal (R.rootVal n) k = some (ψ, f) ∧ ψ ≠ 0 ∧
            R.rootStep (R.rootRec n) e k v acc = .ok a' ∧
            a'.factor = acc.factor * zp ψ (e * v) ∧
            (∀ d, a'.units.get d = acc.units.get d + (e * v) * f d) ∧
            (acc.units.keys.Nodup → a'.units.keys.Nodup)) ∨
          (R.rootKeyVal (R.rootVal n) k = none ∧ ∃ err,
            R.rootStep (R.rootRec n) e k v acc = .error err) := by
        unfold rootKeyVal rootStep
        cases hr : R.resolve k with
        | error x => right; exact ⟨rfl, _, rfl⟩
        | ok pr =>
          obtain ⟨key, od⟩ := pr
          cases od with
          | none => right; exact ⟨rfl, _, rfl⟩
          | some dfn =>
            by_cases hb : dfn.isBase = true
            · simp only [hb, if_true]
              left
              refine ⟨1, _, _, rfl, by decide, rfl, ?_, ?_, fun h => nodup_acc h _ _⟩
              · show acc.factor = acc.factor * zp 1 (e * v)
                rw [one_zp, Rat.mul_one]
              · intro d; exact get_acc acc.units key (e * v) d
            · have hb' : dfn.isBase = false := by simpa using hb
              simp only [hb', Bool.false_eq_true, if_false]
              obtain ⟨hI', hK', hs⟩ := hW k hS.head key dfn hr hb'
              cases hc : dfn.conv.scaleOf with
              | none => right; exact ⟨rfl, _, rfl⟩
              | some s =>
                have hs0 : s ≠ 0 := hs s hc
                simp only [powRat_int hs0 hev, if_neg hs0]
                rcases ih dfn.ref (e * v) { acc with factor := acc.factor * zp s (e * v) }
                    hI' hK' hev with ⟨φ, f, r, h1, h2, h3, h4, h5, h6⟩ | ⟨h1, err, h2⟩
                · left
                  refine ⟨s * φ, f, r, ?_, ?_, h3, ?_, h5, h6⟩
                  · rw [h1]; rfl
                  · intro h0
                    rcases Rat.mul_eq_zero.1 h0 with h0 | h0
                    · exact hs0 h0
                    · exact h2 h0
                  · rw [h4, mul_zp]
                    show acc.factor * zp s (e * v) * zp φ (e * v) = _
                    rw [Rat.mul_assoc]
                · right
                  exact ⟨by rw [h1]; rfl, err, h2⟩
      rcases hstep with ⟨ψ, f, a', hk, hψ, hs, hfa, hg, hn⟩ | ⟨hk, err, hs⟩
      · rcases iht e a' hI.tail hS.tail he with ⟨Φ, g, r, h1, h1', h2, h3f, h3, h4⟩ | ⟨h1, err, h2⟩
        · left
          refine ⟨zp ψ v * Φ, fun d => v * f d + g d, r, ?_, ?_, ?_, ?_, ?_, fun h => h4 (hn h)⟩
          · show rootSum _ ((k, v) :: t) = _
            simp only [rootSum, hk]
            have : R.rootVal (n + 1) t = rootSum (R.rootKeyVal (R.rootVal n)) t := rfl
            rw [← this, h1]
            rfl
          · intro h0
            rcases Rat.mul_eq_zero.1 h0 with h0 | h0
            · exact zp_ne_zero hψ v h0
            · exact h1' h0
          · show R.rootRec (n + 1) ((k, v) :: t) e acc = _
            simp only [rootRec, foldItems]
            rw [hs]
            exact h2
          · show r.factor = acc.factor * zp (zp ψ v * Φ) e
            have h3f' : r.factor = a'.factor * zp Φ e := h3f
            rw [h3f', hfa, mul_zp, zp_mul' hψ he hv, Rat.mul_assoc]
          · intro d; rw [h3, hg]; grind
        · right
          refine ⟨?_, err, ?_⟩
          · show rootSum _ ((k, v) :: t) = _
            simp only [rootSum, hk]
            have : R.rootVal (n + 1) t = rootSum (R.rootKeyVal (R.rootVal n)) t := rfl
            rw [← this, h1]
          · show R.rootRec (n + 1) ((k, v) :: t) e acc = _
            simp only [rootRec, foldItems]
            rw [hs]
            exact h2
      · right
        refine ⟨?_, err, ?_⟩
        · show rootSum _ ((k, v) :: t) = _
          simp only [rootSum, hk]
        · show R.rootRec (n + 1) ((k, v) :: t) e acc = _
          simp only [rootRec, foldItems]
          rw [hs]

/-- total characterisation of `rootRec` by `rootVal` (global hypotheses) -/
theorem rootRec_spec (R : Registry) (hW : R.WFint) (n : Nat) (ref : UC) (e : Rat) (acc : RootAcc)
    (hI : IntUC ref) (he : e.den = 1) :
    (∃ φ f r, R.rootVal n ref = some (φ, f) ∧ φ ≠ 0 ∧ R.rootRec n ref e acc = .ok r ∧
        r.factor = acc.factor * φ ^ e.num ∧
        (∀ d, r.units.get d = acc.units.get d + e * f d) ∧
        (acc.units.keys.Nodup → r.units.keys.Nodup)) ∨
    (R.rootVal n ref = none ∧ ∃ err, R.rootRec n ref e acc = .error err) :=
  R.rootRec_spec_on hW n ref e acc hI (keysIn_true ref) he

/-! ### the denotation is a homomorphism -/

theorem rootVal_merge (R : Registry) (n : Nat) {s : Rat} (hs : s.den = 1) {a b : UC}
    (ha : IntUC a) (hb : IntUC b) (hn : a.keys.Nodup)
    {φa φb : Rat} {Fa Fb : String → Rat}
    (h1 : R.rootVal n a = some (φa, Fa)) (h2 : R.rootVal n b = some (φb, Fb)) :
    ∃ F, R.rootVal n (merge s a b) = some (φa * φb ^ s.num, F) ∧ ∀ d, F d = Fa d + s * Fb d := by
  cases n with
  | zero => cases h1
  | succ m =>
    obtain ⟨ka, pa, sa⟩ := rootSum_eq _ a _ h1
    obtain ⟨kb, pb, sb⟩ := rootSum_eq _ b _ h2
    have hkeys : ∀ k ∈ (merge s a b).keys, ∃ p, R.rootKeyVal (R.rootVal m) k = some p := by
      intro k hk
      rcases keys_merge_subset hk with h | h
      · exact ka k h
      · exact kb k h
    obtain ⟨x, hx⟩ := rootSum_isSome _ _ hkeys
    obtain ⟨_, px, sx⟩ := rootSum_eq _ _ _ hx
    have hg := R.rootKeyValF_ne_zero m
    refine ⟨x.2, ?_, ?_⟩
    · show rootSum _ _ = _
      rw [hx]
      have : x.1 = φa * φb ^ s.num := by
        rw [px, prodOver_merge hg hs ha hn hb]
        show _ = φa * zp φb s
        rw [← pa, ← pb]
      rw [← this]
    · intro d
      rw [sx d, sumOver_merge s hn, ← sa d, ← sb d]

theorem rootVal_pow (R : Registry) (n : Nat) {r : Rat} (hr : r.den = 1) {a : UC}
    (ha : IntUC a) {φa : Rat} {Fa : String → Rat}
    (h1 : R.rootVal n a = some (φa, Fa)) :
    ∃ F, R.rootVal n (a.pow r) = some (φa ^ r.num, F) ∧ ∀ d, F d = r * Fa d := by
  cases n with
  | zero => cases h1
  | succ m =>
    obtain ⟨ka, pa, sa⟩ := rootSum_eq _ a _ h1
    have hkeys : ∀ k ∈ (a.pow r).keys, ∃ p, R.rootKeyVal (R.rootVal m) k = some p :=
      fun k hk => ka k (keys_pow_subset hk)
    obtain ⟨x, hx⟩ := rootSum_isSome _ _ hkeys
    obtain ⟨_, px, sx⟩ := rootSum_eq _ _ _ hx
    have hg := R.rootKeyValF_ne_zero m
    refine ⟨x.2, ?_, ?_⟩
    · show rootSum _ _ = _
      rw [hx]
      have : x.1 = φa ^ r.num := by
        rw [px, prodOver_pow hg ha hr]
        show _ = zp φa r
        rw [← pa]
      rw [← this]
    · intro d
      rw [sx d, sumOver_pow, ← sa d]

/-! ### `getRootUnits` -/

/-- total characterisation of `getRootUnits` by `rootVal` -/
theorem getRootUnits_char (R : Registry) {S : String → Prop} (hW : R.WFintOn S) {u : UC}
    (hI : IntUC u) (hK : KeysIn S u) :
    (∃ φ F us, R.rootVal R.fuelOf u = some (φ, F) ∧ φ ≠ 0 ∧ R.getRootUnits u = .ok (φ, us) ∧
        ∀ d, us.get d = F d) ∨
    (R.rootVal R.fuelOf u = none ∧ ∃ err, R.getRootUnits u = .error err) := by
  cases u with
  | nil =>
    left
    exact ⟨1, fun _ => 0, [], rfl, by decide, rfl, fun _ => rfl⟩
  | cons p t =>
    unfold getRootUnits
    have he : UC.isEmpty (p :: t) = false := rfl
    simp only [he, Bool.false_eq_true, if_false]
    rcases R.rootRec_spec_on hW R.fuelOf (p :: t) 1 {} hI hK rfl with
      ⟨φ, F, r, h1, h2, h3, h4, h5, h6⟩ | ⟨h1, err, h2⟩
    · left
      refine ⟨φ, F, r.units.dropZeros, h1, h2, ?_, ?_⟩
      · rw [h3]
        have : r.factor = φ := by
          rw [h4]
          show (1 : Rat) * zp φ 1 = φ
          rw [zp_one, Rat.one_mul]
        simp only [this]
      · intro d
        rw [get_dropZeros (h6 List.nodup_nil), h5 d]
        show (0 : Rat) + 1 * F d = F d
        rw [Rat.zero_add, Rat.one_mul]
    · right
      exact ⟨h1, err, by rw [h2]⟩

theorem getRootUnits_factor_ne_zero_on (R : Registry) {S : String → Prop} (hW : R.WFintOn S)
    {u : UC} (hI : IntUC u) (hK : KeysIn S u) {f : Rat} {us : UC}
    (h : R.getRootUnits u = .ok (f, us)) : f ≠ 0 := by
  rcases R.getRootUnits_char hW hI hK with ⟨φ, F, us', _, h2, h3, _⟩ | ⟨_, err, h2⟩
  · rw [h3] at h; cases h; exact h2
  · rw [h2] at h; cases h

/-- common core of `mul` / `div` -/
theorem getRootUnits_merge_on (R : Registry) {S : String → Prop} (hW : R.WFintOn S)
    {s : Rat} (hs : s.den = 1) {a b : UC}
    (ha : IntUC a) (hb : IntUC b) (hKa : KeysIn S a) (hKb : KeysIn S b) (hn : a.keys.Nodup)
    {fa fb : Rat} {ua ub : UC}
    (h1 : R.getRootUnits a = .ok (fa, ua)) (h2 : R.getRootUnits b = .ok (fb, ub)) :
    ∃ f u, R.getRootUnits (merge s a b) = .ok (f, u) ∧ f = fa * fb ^ s.num ∧
      ∀ d, u.get d = ua.get d + s * ub.get d := by
  rcases R.getRootUnits_char hW ha hKa with ⟨φa, Fa, ua', va, _, ga, ea⟩ | ⟨_, err, ga⟩
  · rcases R.getRootUnits_char hW hb hKb with ⟨φb, Fb, ub', vb, _, gb, eb⟩ | ⟨_, err, gb⟩
    · rw [ga] at h1; cases h1
      rw [gb] at h2; cases h2
      obtain ⟨F, hF, hFd⟩ := R.rootVal_merge R.fuelOf hs ha hb hn va vb
      rcases R.getRootUnits_char hW (ha.merge hs hb) (hKa.merge (s := s) hKb) with
        ⟨φ, F', us, v, _, g, e⟩ | ⟨v, _, _⟩
      · rw [hF] at v
        simp only [Option.some.injEq, Prod.mk.injEq] at v
        obtain ⟨v1, v2⟩ := v
        subst v1; subst v2
        refine ⟨_, us, g, rfl, ?_⟩
        intro d; rw [e d, hFd d, ea d, eb d]
      · rw [hF] at v; cases v
    · rw [gb] at h2; cases h2
  · rw [ga] at h1; cases h1

theorem getRootUnits_mul_on (R : Registry) {S : String → Prop} (hW : R.WFintOn S) {a b : UC}
    (ha : IntUC a) (hb : IntUC b) (hKa : KeysIn S a) (hKb : KeysIn S b) (hn : a.keys.Nodup)
    {fa fb : Rat} {ua ub : UC}
    (h1 : R.getRootUnits a = .ok (fa, ua)) (h2 : R.getRootUnits b = .ok (fb, ub)) :
    ∃ f u, R.getRootUnits (a.mul b) = .ok (f, u) ∧ f = fa * fb ∧
      ∀ d, u.get d = ua.get d + ub.get d := by
  obtain ⟨f, u, g1, g2, g3⟩ :=
    R.getRootUnits_merge_on hW (s := 1) rfl ha hb hKa hKb hn h1 h2
  rw [mul_eq_merge]
  refine ⟨f, u, g1, ?_, ?_⟩
  · rw [g2]; show fa * zp fb 1 = _; rw [zp_one]
  · intro d; rw [g3 d, Rat.one_mul]

theorem getRootUnits_div_on (R : Registry) {S : String → Prop} (hW : R.WFintOn S) {a b : UC}
    (ha : IntUC a) (hb : IntUC b) (hKa : KeysIn S a) (hKb : KeysIn S b) (hn : a.keys.Nodup)
    {fa fb : Rat} {ua ub : UC}
    (h1 : R.getRootUnits a = .ok (fa, ua)) (h2 : R.getRootUnits b = .ok (fb, ub)) :
    ∃ f u, R.getRootUnits (a.div b) = .ok (f, u) ∧ f = fa / fb ∧
      ∀ d, u.get d = ua.get d - ub.get d := by
  obtain ⟨f, u, g1, g2, g3⟩ :=
    R.getRootUnits_merge_on hW (s := -1) rfl ha hb hKa hKb hn h1 h2
  rw [div_eq_merge]
  refine ⟨f, u, g1, ?_, ?_⟩
  · rw [g2]; show fa * zp fb (-1) = _; rw [zp_neg_one, Rat.div_def]
  · intro d; rw [g3 d]; grind

theorem getRootUnits_pow_on (R : Registry) {S : String → Prop} (hW : R.WFintOn S) {a : UC}
    (ha : IntUC a) (hKa : KeysIn S a) (n : Int) {fa : Rat} {ua : UC}
    (h1 : R.getRootUnits a = .ok (fa, ua)) :
    ∃ u, R.getRootUnits (a.pow (n : Rat)) = .ok (fa ^ n, u) ∧
      ∀ d, u.get d = (n : Rat) * ua.get d := by
  have hr : ((n : Rat)).den = 1 := rfl
  rcases R.getRootUnits_char hW ha hKa with ⟨φa, Fa, ua', va, _, ga, ea⟩ | ⟨_, err, ga⟩
  · rw [ga] at h1; cases h1
    obtain ⟨F, hF, hFd⟩ := R.rootVal_pow R.fuelOf hr ha va
    rcases R.getRootUnits_char hW (ha.pow hr) (hKa.pow (n : Rat)) with
      ⟨φ, F', us, v, _, g, e⟩ | ⟨v, _, _⟩
    · rw [hF] at v
      simp only [Option.some.injEq, Prod.mk.injEq] at v
      obtain ⟨v1, v2⟩ := v
      subst v1; subst v2
      refine ⟨us, g, ?_⟩
      intro d; rw [e d, hFd d, ea d]
    · rw [hF] at v; cases v
  · rw [ga] at h1; cases h1

/-! #### the same under the global hypothesis `WFint` -/

/-- Root-unit expansion is multiplicative.  (`b.keys.Nodup` is not needed.) -/
theorem getRootUnits_mul (R : Registry) (hW : R.WFint) {a b : UC}
    (ha : IntUC a) (hb : IntUC b) (hn : a.keys.Nodup) {fa fb : Rat} {ua ub : UC}
    (h1 : R.getRootUnits a = .ok (fa, ua)) (h2 : R.getRootUnits b = .ok (fb, ub)) :
    ∃ f u, R.getRootUnits (a.mul b) = .ok (f, u) ∧ f = fa * fb ∧
      ∀ d, u.get d = ua.get d + ub.get d :=
  R.getRootUnits_mul_on hW ha hb (keysIn_true a) (keysIn_true b) hn h1 h2

theorem getRootUnits_div (R : Registry) (hW : R.WFint) {a b : UC}
    (ha : IntUC a) (hb : IntUC b) (hn : a.keys.Nodup) {fa fb : Rat} {ua ub : UC}
    (h1 : R.getRootUnits a = .ok (fa, ua)) (h2 : R.getRootUnits b = .ok (fb, ub)) :
    ∃ f u, R.getRootUnits (a.div b) = .ok (f, u) ∧ f = fa / fb ∧
      ∀ d, u.get d = ua.get d - ub.get d :=
  R.getRootUnits_div_on hW ha hb (keysIn_true a) (keysIn_true b) hn h1 h2

/-- (`a.keys.Nodup` is not needed.) -/
theorem getRootUnits_pow (R : Registry) (hW : R.WFint) {a : UC} (ha : IntUC a) (n : Int)
    {fa : Rat} {ua : UC} (h1 : R.getRootUnits a = .ok (fa, ua)) :
    ∃ u, R.getRootUnits (a.pow (n : Rat)) = .ok (fa ^ n, u) ∧
      ∀ d, u.get d = (n : Rat) * ua.get d :=
  R.getRootUnits_pow_on hW ha (keysIn_true a) n h1

theorem getRootUnits_factor_ne_zero (R : Registry) (hW : R.WFint) {u : UC} (hI : IntUC u)
    {f : Rat} {us : UC} (h : R.getRootUnits u = .ok (f, us)) : f ≠ 0 :=
  R.getRootUnits_factor_ne_zero_on hW hI (keysIn_true u) h

/-! ### fuel monotonicity -/

theorem rootStep_mono (R : Registry) {rec1 rec2 : UC → Rat → RootAcc → Except Err RootAcc}
    (h : ∀ ref e a r, rec1 ref e a = .ok r → rec2 ref e a = .ok r)
    (exp : Rat) (k : String) (e : Rat) (a r : RootAcc)
    (hr : R.rootStep rec1 exp k e a = .ok r) : R.rootStep rec2 exp k e a = .ok r := by
  unfold rootStep at hr ⊢
  cases hres : R.resolve k with
  | error x => rw [hres] at hr; cases hr
  | ok pr =>
    obtain ⟨key, od⟩ := pr
    rw [hres] at hr
    cases od with
    | none => cases hr
    | some d =>
      simp only at hr ⊢
      by_cases hb : d.isBase = true
      · simp only [hb, if_true] at hr ⊢; exact hr
      · have hb' : d.isBase = false := by simpa using hb
        simp only [hb', Bool.false_eq_true, if_false] at hr ⊢
        cases hc : d.conv.scaleOf with
        | none => rw [hc] at hr; cases hr
        | some s =>
          rw [hc] at hr
          simp only at hr ⊢
          cases hp : powRat s (exp * e) with
          | none => rw [hp] at hr; cases hr
          | some f => rw [hp] at hr; exact h _ _ _ _ hr

/-- more fuel never changes a successful root-unit expansion -/
theorem rootRec_mono (R : Registry) : ∀ (n : Nat) (ref : UC) (e : Rat) (acc r : RootAcc),
    R.rootRec n ref e acc = .ok r → R.rootRec (n + 1) ref e acc = .ok r := by
  intro n
  induction n with
  | zero => intro ref e acc r h; cases h
  | succ n ih =>
    intro ref e acc r h
    show foldItems (R.rootStep (R.rootRec (n + 1)) e) ref acc = .ok r
    exact foldItems_mono (fun k v a r' => R.rootStep_mono ih e k v a r') ref acc r h

theorem rootRec_mono_le (R : Registry) {n m : Nat} (hnm : n ≤ m) (ref : UC) (e : Rat)
    (acc r : RootAcc) (h : R.rootRec n ref e acc = .ok r) : R.rootRec m ref e acc = .ok r := by
  induction hnm with
  | refl => exact h
  | step _ ih => exact R.rootRec_mono _ _ _ _ _ ih

end Registry
end Pint
