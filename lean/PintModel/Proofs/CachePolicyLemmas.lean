import PintModel.Model.CachePolicy
/-! Transparency of a memo architecture that follows a covering policy (C13). -/
namespace Pint.CachePolicy

variable {κ ν : Type}

theorem covers_of_coversB {p : Policy} {dep : Comp → Table → Bool} (h : coversB p dep = true) : Covers p dep := by
  intro c t hd
  unfold coversB allComps memoTables at h
  simp only [List.all_cons, List.all_nil, Bool.and_true, Bool.and_eq_true, List.cons_append, List.nil_append] at h
  cases c <;> cases t <;> simp_all

theorem keyProj_eq {p : Policy} {t : Table} {s0 s : St} (h : keyProj p t s0 = keyProj p t s) :
    ∀ c, p.keyedBy c t = true → s0 c = s c := by
  intro c hk
  unfold keyProj allComps at h
  simp only [List.map_cons, List.map_nil, List.cons.injEq, and_true] at h
  cases c <;> simp_all

/-- every stored answer was computed in a state that agrees with the current one on all components the table depends on
    without being keyed by them -/
def Inv (p : Policy) (spec : Table → St → κ → ν) (dep : Comp → Table → Bool) (s : St) (m : Memos κ ν) : Prop :=
  ∀ t, ∀ e ∈ m t, ∃ s0 : St, e.v = spec t s0 e.k ∧ e.kp = keyProj p t s0 ∧
    ∀ c, dep c t = true → p.keyedBy c t = false → s0 c = s c

theorem inv_empty (p : Policy) (spec : Table → St → κ → ν) (dep) (s : St) : Inv p spec dep s (fun _ => []) := by
  intro t e he; cases he

theorem lookup_sound [DecidableEq κ] {p : Policy} {spec : Table → St → κ → ν} {dep} (hl : Local spec dep) {s : St} {m : Memos κ ν}
    (hi : Inv p spec dep s m) {t : Table} {k : κ} {v : ν} (h : lookup (m t) (keyProj p t s) k = some v) : v = spec t s k := by
  unfold lookup at h
  cases hx : (m t).find? (fun e => decide (e.kp = keyProj p t s) && decide (e.k = k)) with
  | none => simp [hx] at h
  | some e =>
    simp only [hx, Option.map_some, Option.some.injEq] at h
    have hm := List.mem_of_find?_eq_some hx
    have hk := List.find?_some hx
    simp only [Bool.and_eq_true, decide_eq_true_eq] at hk
    obtain ⟨s0, hv, hkp, hag⟩ := hi t e hm
    have hkeyed := keyProj_eq (p := p) (t := t) (s0 := s0) (s := s) (by rw [← hkp, hk.1])
    rw [← h, hv, hk.2]
    apply hl
    intro c hd
    cases hkc : p.keyedBy c t with
    | true => exact hkeyed c hkc
    | false => exact hag c hd hkc

theorem inv_store {p : Policy} {spec : Table → St → κ → ν} {dep} {s : St} {m : Memos κ ν}
    (hi : Inv p spec dep s m) (t : Table) (k : κ) : Inv p spec dep s (store m t ⟨keyProj p t s, k, spec t s k⟩) := by
  intro t' e he
  unfold store at he
  by_cases htt : t' = t
  · subst htt
    simp only [if_true, List.mem_cons] at he
    rcases he with rfl | he
    · exact ⟨s, rfl, rfl, fun _ _ _ => rfl⟩
    · exact hi t' e he
  · simp only [htt, if_false] at he
    exact hi t' e he

theorem inv_change {p : Policy} {spec : Table → St → κ → ν} {dep} (hc : Covers p dep) {s : St} {m : Memos κ ν}
    (hi : Inv p spec dep s m) (c : Comp) (v : Nat) : Inv p spec dep (s.set c v) (clear p c m) := by
  intro t e he
  unfold clear at he
  cases hcl : p.clearedBy c t with
  | true => simp [hcl] at he
  | false =>
    simp only [hcl] at he
    obtain ⟨s0, hv, hkp, hag⟩ := hi t e (by simpa using he)
    refine ⟨s0, hv, hkp, ?_⟩
    intro c' hd hk
    unfold St.set
    by_cases hcc : c' = c
    · subst hcc
      rcases hc c' t hd with h1 | h1
      · rw [hcl] at h1; cases h1
      · rw [hk] at h1; cases h1
    · simp only [hcc, if_false]
      exact hag c' hd hk

/-- **any history, any covering policy**: every answer is the one the current declarative state implies -/
theorem run_transparent [DecidableEq κ] {p : Policy} {spec : Table → St → κ → ν} {dep : Comp → Table → Bool}
    (hc : Covers p dep) (hl : Local spec dep) (s : St) (m : Memos κ ν) (hi : Inv p spec dep s m) (ops : List (Op κ)) :
    run p spec s m ops = runSpec spec s ops := by
  induction ops generalizing s m with
  | nil => rfl
  | cons o ops ih =>
    cases o with
    | query t k =>
      simp only [run, runSpec]
      cases hlk : lookup (m t) (keyProj p t s) k with
      | some v =>
        simp only
        rw [lookup_sound hl hi hlk, ih s m hi]
      | none =>
        simp only
        rw [ih s _ (inv_store hi t k)]
    | change c v =>
      simp only [run, runSpec]
      exact ih _ _ (inv_change hc hi c v)

end Pint.CachePolicy
