/-
  The fuel bound `(|es|+2)^2+2` of `findShortestPath` does not cover the worst case of the
  Python loop (nodes are marked visited when popped, so a layered graph makes the queue grow
  exponentially): a reachable target for which the model returns `none`.
-/
import PintModel.Proofs.BfsLemmas

namespace Pint.Ctx.FuelCex
open Pint Pint.Ctx

def nd (i : Nat) : UC := [("x", (i : Rat))]

/-- layers `{2j-1, 2j}`, `j = 1..d`, fully connected to the next layer; `0` is the start and
    `2d+1` the target -/
def layered (d : Nat) : List (UC × UC) :=
  [(nd 0, nd 1), (nd 0, nd 2)] ++
  (List.range (d - 1)).flatMap (fun j =>
    [(nd (2*j+1), nd (2*j+3)), (nd (2*j+1), nd (2*j+4)), (nd (2*j+2), nd (2*j+3)), (nd (2*j+2), nd (2*j+4))]) ++
  [(nd (2*d-1), nd (2*d+1)), (nd (2*d), nd (2*d+1))]

def chain (d : Nat) : List UC := (List.range (d + 1)).map (fun j => nd (2*j - 1)) ++ [nd (2*d+1)]

/-- The model answers `none` (about 4 minutes of kernel evaluation) ... -/
theorem model_none : findShortestPath (layered 12) (nd 0) (nd 25) = none := by
  decide +kernel

/-- ... although `chain 12` is a walk from the start to the target -/
theorem walk_exists :
    isPath (layered 12) (chain 12) = true ∧ (chain 12).head? = some (nd 0) ∧
    (chain 12).getLast? = some (nd 25) ∧ (nd 25).beq (nd 25) = true := by
  decide +kernel

theorem edgeRefl_layered : EdgeRefl (layered 12) := by
  unfold EdgeRefl; decide +kernel

/-- hence the loop ran out of fuel: `(2)` cannot hold without the "fuel not exhausted"
    hypothesis, and the fuel bound of the model is not an upper bound of the Python loop. -/
theorem fuel_insufficient :
    findShortestPath (layered 12) (nd 0) (nd 25) = none ∧
    bfsExhausts (layered 12) (nd 25) (((layered 12).length + 2) * ((layered 12).length + 2) + 2)
      [(nd 0, [nd 0])] [] = true ∧
    ∃ p, isPath (layered 12) p = true ∧ p.head? = some (nd 0) ∧
      (∃ l, p.getLast? = some l ∧ l.beq (nd 25) = true) := by
  have hw : ∃ p, isPath (layered 12) p = true ∧ p.head? = some (nd 0) ∧
      (∃ l, p.getLast? = some l ∧ l.beq (nd 25) = true) :=
    ⟨chain 12, walk_exists.1, walk_exists.2.1, nd 25, walk_exists.2.2.1, walk_exists.2.2.2⟩
  refine ⟨model_none, ?_, hw⟩
  rcases (bfs_none_cases edgeRefl_layered (by decide +kernel) model_none).2 with h | h
  · exact h
  · exact absurd hw h

end Pint.Ctx.FuelCex

#print axioms Pint.Ctx.FuelCex.fuel_insufficient
