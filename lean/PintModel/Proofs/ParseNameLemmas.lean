/-
  Lemmas about name parsing in the registry model (`Model/Registry.lean`):
  (A) soundness (and completeness) of the candidate readings of `_yield_unit_triplets`,
  (B) `parse_unit_name` returns a subset of them,
  (C) what `_dedup_candidates` keeps and removes,
  (D) `get_name` uses the first reading.
  Core Lean only.
-/
import PintModel.Model.Registry

namespace Pint.Proofs.ParseName
open Pint Pint.Registry

/-- the middle part that `_yield_unit_triplets` cuts out of the character list `cl` for the
    prefix spelling `p` and the suffix spelling `x` -/
def middle (cl p x : List Char) : List Char :=
  if x.isEmpty then cl.drop p.length
  else (cl.drop p.length).take ((cl.drop p.length).length - x.length)

/-- a successful `find?` returns an entry of the association list -/
theorem Dict.mem_of_find? {α : Type} {d : Dict α} {k : String} {v : α}
    (h : d.find? k = some v) : (k, v) ∈ d := by
  induction d with
  | nil => simp [Dict.find?] at h
  | cons e t ih =>
    obtain ⟨k', v'⟩ := e
    simp only [Dict.find?] at h
    by_cases hk : k' = k
    · simp only [hk, if_true, Option.some.injEq] at h
      subst hk; subst h; exact List.mem_cons_self
    · simp only [hk, if_false] at h
      exact List.mem_cons_of_mem _ (ih h)

/-- unfolding of the case-sensitive branch of `_yield_unit_triplets` -/
theorem mem_yieldTriplets_true_iff {R : Registry} {s : String} {t : String × String × String} :
    t ∈ R.yieldTriplets s true ↔
      ∃ sf ∈ R.suffixes, ∃ pf ∈ R.prefixes,
        pf.1.toList.isPrefixOf s.toList = true ∧ sf.1.toList.isSuffixOf s.toList = true ∧
        ¬ (sf.1.toList.isEmpty = false ∧ (middle s.toList pf.1.toList sf.1.toList).length = 1) ∧
        ¬ (pf.1.toList.isEmpty = false ∧
            R.prefixed.contains (String.ofList (middle s.toList pf.1.toList sf.1.toList)) = true) ∧
        ∃ d, R.units.find? (String.ofList (middle s.toList pf.1.toList sf.1.toList)) = some d ∧
          t = (pf.2.name, d.name, sf.2) := by
  unfold yieldTriplets
  simp only [List.mem_flatMap]
  constructor
  · rintro ⟨sf, hsf, pf, hpf, h⟩
    refine ⟨sf, hsf, pf, hpf, ?_⟩
    by_cases hps : (pf.1.toList.isPrefixOf s.toList && sf.1.toList.isSuffixOf s.toList) = true
    · simp only [hps, if_true] at h
      simp only [Bool.and_eq_true] at hps
      refine ⟨hps.1, hps.2, ?_⟩
      simp only [middle]
      generalize (if sf.1.toList.isEmpty = true then List.drop pf.1.toList.length s.toList
        else List.take ((List.drop pf.1.toList.length s.toList).length - sf.1.toList.length)
          (List.drop pf.1.toList.length s.toList)) = nm at h ⊢
      by_cases c1 : (!sf.1.toList.isEmpty && nm.length == 1) = true
      · rw [if_pos c1] at h; cases h
      · rw [if_neg c1] at h
        by_cases c2 : (!pf.1.toList.isEmpty && R.prefixed.contains (String.ofList nm)) = true
        · rw [if_pos c2] at h; cases h
        · rw [if_neg c2] at h
          cases hd : R.units.find? (String.ofList nm) with
          | none => rw [hd] at h; cases h
          | some d =>
            rw [hd] at h
            refine ⟨?_, ?_, d, rfl, List.mem_singleton.mp h⟩
            · intro hc; apply c1; rw [hc.1, hc.2]; rfl
            · intro hc; apply c2; rw [hc.1, hc.2]; rfl
    · simp [hps] at h
  · rintro ⟨sf, hsf, pf, hpf, h1, h2, h3, h4, d, hd, rfl⟩
    refine ⟨sf, hsf, pf, hpf, ?_⟩
    simp only [h1, h2, Bool.and_self, if_true]
    simp only [middle] at h3 h4 hd
    generalize (if sf.1.toList.isEmpty = true then List.drop pf.1.toList.length s.toList
      else List.take ((List.drop pf.1.toList.length s.toList).length - sf.1.toList.length)
        (List.drop pf.1.toList.length s.toList)) = nm at h3 h4 hd ⊢
    have c1 : ¬ (!sf.1.toList.isEmpty && nm.length == 1) = true := by
      intro hc; apply h3
      simp only [Bool.and_eq_true, Bool.not_eq_true', beq_iff_eq] at hc; exact hc
    have c2 : ¬ (!pf.1.toList.isEmpty && R.prefixed.contains (String.ofList nm)) = true := by
      intro hc; apply h4
      simp only [Bool.and_eq_true, Bool.not_eq_true'] at hc; exact hc
    rw [if_neg c1, if_neg c2, hd]; exact List.mem_singleton.mpr rfl

/-! ### the middle part -/

/-- if `p` is a prefix and `x` a suffix of `cl`, the middle part is what is between them;
    the only other possibility is that prefix and suffix overlap, and then the middle is empty -/
theorem middle_spec {cl p x : List Char} (hp : p <+: cl) (hx : x <:+ cl) :
    cl = p ++ middle cl p x ++ x ∨ (middle cl p x = [] ∧ cl.length < p.length + x.length) := by
  have hcl : p ++ cl.drop p.length = cl := List.prefix_iff_eq_append.mp hp
  have hpl := hp.length_le
  unfold middle
  by_cases hle : p.length + x.length ≤ cl.length
  · left
    have hxr : x <:+ cl.drop p.length := by
      apply List.suffix_of_suffix_length_le hx (List.drop_suffix _ _)
      rw [List.length_drop]; omega
    have hr := List.suffix_iff_eq_append.mp hxr
    split
    · rename_i he
      have hx0 : x = [] := List.isEmpty_iff.mp he
      subst hx0
      rw [List.append_nil, hcl]
    · rw [List.append_assoc, hr, hcl]
  · right
    refine ⟨?_, by omega⟩
    split
    · rename_i he
      have hx0 : x = [] := List.isEmpty_iff.mp he
      subst hx0
      simp only [List.length_nil] at hle
      omega
    · have h0 : (List.drop p.length cl).length - x.length = 0 := by
        rw [List.length_drop]; omega
      rw [h0]; rfl

/-- the middle part of a literal concatenation -/
theorem middle_append (p m x : List Char) : middle (p ++ m ++ x) p x = m := by
  unfold middle
  have hd : List.drop p.length (p ++ m ++ x) = m ++ x := by
    rw [List.append_assoc, List.drop_left]
  rw [hd]
  split
  · rename_i he
    have hx0 : x = [] := List.isEmpty_iff.mp he
    subst hx0
    exact List.append_nil _
  · have hl : (m ++ x).length - x.length = m.length := by
      rw [List.length_append]; omega
    rw [hl, List.take_left]

/-! ### (A) soundness of the case-sensitive candidate readings -/

/-- (A) every reading `(p, u, x)` produced by `_yield_unit_triplets` in case-sensitive mode comes
    from a prefix key `pk`, a unit key `uk` and a suffix key `sk` of the registry whose
    concatenation is literally the input, except in the degenerate case where prefix and suffix
    spellings overlap in the input (then the unit key is the empty string).  The two guards of
    the loop are recorded as they appear in the model. -/
theorem yieldTriplets_sound {R : Registry} {s p u x : String}
    (h : (p, u, x) ∈ R.yieldTriplets s true) :
    ∃ (pk : String) (pd : PrefixDef) (uk : String) (ud : UnitDef) (sk : String),
      (pk, pd) ∈ R.prefixes ∧ pd.name = p ∧
      R.units.find? uk = some ud ∧ (uk, ud) ∈ R.units ∧ ud.name = u ∧
      (sk, x) ∈ R.suffixes ∧
      pk.toList <+: s.toList ∧ sk.toList <:+ s.toList ∧
      (s = pk ++ uk ++ sk ∨ (uk = "" ∧ s.length < pk.length + sk.length)) ∧
      (sk ≠ "" → uk.length ≠ 1) ∧
      (pk ≠ "" → R.prefixed.contains uk = false) := by
  obtain ⟨sf, hsf, pf, hpf, h1, h2, h3, h4, d, hd, ht⟩ := mem_yieldTriplets_true_iff.mp h
  obtain ⟨sk, x'⟩ := sf
  obtain ⟨pk, pd⟩ := pf
  simp only [Prod.mk.injEq] at ht
  obtain ⟨hp, hu, hx⟩ := ht
  subst hx
  have hpre := List.isPrefixOf_iff_prefix.mp h1
  have hsuf := List.isSuffixOf_iff_suffix.mp h2
  refine ⟨pk, pd, String.ofList (middle s.toList pk.toList sk.toList), d, sk,
    hpf, hp.symm, hd, Dict.mem_of_find? hd, hu.symm, hsf, hpre, hsuf, ?_, ?_, ?_⟩
  · rcases middle_spec hpre hsuf with hm | ⟨hm, hl⟩
    · left
      apply String.toList_inj.mp
      rw [String.toList_append, String.toList_append, String.toList_ofList]
      exact hm
    · right
      refine ⟨?_, ?_⟩
      · rw [hm]
      · rw [← String.length_toList, ← String.length_toList (s := pk), ← String.length_toList (s := sk)]
        exact hl
  · intro hne hlen
    apply h3
    refine ⟨?_, ?_⟩
    · cases he : sk.toList.isEmpty with
      | false => rfl
      | true => exact absurd (String.toList_eq_nil_iff.mp (List.isEmpty_iff.mp he)) hne
    · rw [← hlen, String.length_ofList]
  · intro hne
    cases hc : R.prefixed.contains (String.ofList (middle s.toList pk.toList sk.toList)) with
    | false => rfl
    | true =>
      exfalso
      apply h4
      refine ⟨?_, hc⟩
      cases he : pk.toList.isEmpty with
      | false => rfl
      | true => exact absurd (String.toList_eq_nil_iff.mp (List.isEmpty_iff.mp he)) hne

/-- (A), clean form: when the empty string is not a unit key (as in every registry pint builds),
    the input is literally prefix key ++ unit key ++ suffix key -/
theorem yieldTriplets_sound_concat {R : Registry} {s p u x : String}
    (hempty : R.units.find? "" = none)
    (h : (p, u, x) ∈ R.yieldTriplets s true) :
    ∃ (pk : String) (pd : PrefixDef) (uk : String) (ud : UnitDef) (sk : String),
      (pk, pd) ∈ R.prefixes ∧ pd.name = p ∧
      R.units.find? uk = some ud ∧ (uk, ud) ∈ R.units ∧ ud.name = u ∧
      (sk, x) ∈ R.suffixes ∧
      s = pk ++ uk ++ sk ∧
      s.toList = pk.toList ++ uk.toList ++ sk.toList ∧
      (sk ≠ "" → uk.length ≠ 1) ∧
      (pk ≠ "" → R.prefixed.contains uk = false) := by
  obtain ⟨pk, pd, uk, ud, sk, a1, a2, a3, a4, a5, a6, _, _, a7, a8, a9⟩ := yieldTriplets_sound h
  have hcat : s = pk ++ uk ++ sk := by
    rcases a7 with h7 | ⟨h7, _⟩
    · exact h7
    · subst h7; rw [hempty] at a3; cases a3
  refine ⟨pk, pd, uk, ud, sk, a1, a2, a3, a4, a5, a6, hcat, ?_, a8, a9⟩
  rw [← String.toList_append, ← String.toList_append, ← hcat]

/-- converse of (A): a literal decomposition that passes the two guards is a candidate reading -/
theorem yieldTriplets_complete {R : Registry} {s pk uk sk x : String} {pd : PrefixDef} {ud : UnitDef}
    (hp : (pk, pd) ∈ R.prefixes) (hs : (sk, x) ∈ R.suffixes) (hu : R.units.find? uk = some ud)
    (hcat : s = pk ++ uk ++ sk)
    (hg1 : sk ≠ "" → uk.length ≠ 1)
    (hg2 : pk ≠ "" → R.prefixed.contains uk = false) :
    (pd.name, ud.name, x) ∈ R.yieldTriplets s true := by
  have hl : s.toList = pk.toList ++ uk.toList ++ sk.toList := by
    rw [hcat, String.toList_append, String.toList_append]
  have hmid : String.ofList (middle s.toList pk.toList sk.toList) = uk := by
    rw [hl, middle_append, String.ofList_toList]
  refine mem_yieldTriplets_true_iff.mpr ⟨(sk, x), hs, (pk, pd), hp, ?_, ?_, ?_, ?_, ud, ?_, rfl⟩
  · apply List.isPrefixOf_iff_prefix.mpr
    rw [hl, List.append_assoc]; exact List.prefix_append _ _
  · apply List.isSuffixOf_iff_suffix.mpr
    rw [hl]; exact List.suffix_append _ _
  · rintro ⟨he, hlen⟩
    apply hg1
    · intro h0; subst h0; simp at he
    · rw [← hmid, String.length_ofList]; exact hlen
  · rintro ⟨he, hc⟩
    rw [hmid] at hc
    have : pk ≠ "" := by intro h0; subst h0; simp at he
    rw [hg2 this] at hc; cases hc
  · rw [hmid]; exact hu

/-- case-insensitive mode: the same decomposition, with the middle part `nm` looked up in the
    lower-cased table `_units_casei`; the reading's unit is one of the real spellings `real`
    recorded there (the F4 guard is not applied in this mode) -/
theorem yieldTriplets_sound_casei {R : Registry} {s p u x : String}
    (h : (p, u, x) ∈ R.yieldTriplets s false) :
    ∃ (pk : String) (pd : PrefixDef) (nm real : String) (ud : UnitDef) (sk : String),
      (pk, pd) ∈ R.prefixes ∧ pd.name = p ∧
      real ∈ (R.casei.find? (lowerStr R.lower nm)).getD [] ∧
      (nm ∈ (R.casei.find? (lowerStr R.lower nm)).getD [] → real = nm) ∧
      R.units.find? real = some ud ∧ ud.name = u ∧
      (sk, x) ∈ R.suffixes ∧
      pk.toList <+: s.toList ∧ sk.toList <:+ s.toList ∧
      (s = pk ++ nm ++ sk ∨ (nm = "" ∧ s.length < pk.length + sk.length)) ∧
      (sk ≠ "" → nm.length ≠ 1) := by
  unfold yieldTriplets at h
  simp only [List.mem_flatMap] at h
  obtain ⟨⟨sk, x'⟩, hsf, ⟨pk, pd⟩, hpf, h⟩ := h
  by_cases hps : (pk.toList.isPrefixOf s.toList && sk.toList.isSuffixOf s.toList) = true
  · simp only [hps, if_true] at h
    simp only [Bool.and_eq_true] at hps
    have hpre := List.isPrefixOf_iff_prefix.mp hps.1
    have hsuf := List.isSuffixOf_iff_suffix.mp hps.2
    have hms := middle_spec hpre hsuf
    simp only [middle] at hms
    generalize (if sk.toList.isEmpty = true then List.drop pk.toList.length s.toList
      else List.take ((List.drop pk.toList.length s.toList).length - sk.toList.length)
        (List.drop pk.toList.length s.toList)) = nm at h hms
    by_cases c1 : (!sk.toList.isEmpty && nm.length == 1) = true
    · rw [if_pos c1] at h; cases h
    · rw [if_neg c1] at h
      simp only [Bool.false_eq_true, if_false, List.mem_filterMap, Option.map_eq_some_iff,
        Prod.mk.injEq] at h
      obtain ⟨real, hreal, d, hd, hp, hu, hx⟩ := h
      subst hx
      refine ⟨pk, pd, String.ofList nm, real, d, sk, hpf, hp, ?_, ?_, hd, hu, hsf, hpre, hsuf, ?_, ?_⟩
      · by_cases hc : ((R.casei.find? (lowerStr R.lower (String.ofList nm))).getD []).contains
            (String.ofList nm) = true
        · rw [if_pos hc] at hreal
          rw [List.mem_singleton.mp hreal]
          exact List.contains_iff_mem.mp hc
        · rw [if_neg hc] at hreal
          exact List.mem_mergeSort.mp hreal
      · intro hin
        rw [if_pos (List.contains_iff_mem.mpr hin)] at hreal
        exact List.mem_singleton.mp hreal
      · rcases hms with hm | ⟨hm, hl⟩
        · left
          apply String.toList_inj.mp
          rw [String.toList_append, String.toList_append, String.toList_ofList]
          exact hm
        · right
          refine ⟨by rw [hm], ?_⟩
          rw [← String.length_toList, ← String.length_toList (s := pk), ← String.length_toList (s := sk)]
          exact hl
      · intro hne hlen
        apply c1
        have he : sk.toList.isEmpty = false := by
          cases he : sk.toList.isEmpty with
          | false => rfl
          | true => exact absurd (String.toList_eq_nil_iff.mp (List.isEmpty_iff.mp he)) hne
        rw [String.length_ofList] at hlen
        rw [he, hlen]; rfl
  · simp [hps] at h

/-- the hypothesis of `yieldTriplets_sound_concat` is needed: with the empty string as a unit key,
    the prefix key "ms" and a suffix key "s", the input "ms" has the reading
    `("milli-s", "nothing", "plural")` although "ms" is not "ms" ++ uk ++ "s" for any `uk` (the
    prefix and the suffix overlap in the input; Python slices the same way) -/
def overlapRegistry : Registry :=
  { units := [("", ⟨"nothing", none, [], .scale 1, [], false⟩)],
    prefixes := [("", ⟨"", 1, none, []⟩), ("ms", ⟨"milli-s", 1, none, []⟩)],
    suffixes := [("", ""), ("s", "plural")] }

theorem overlap_counterexample :
    overlapRegistry.yieldTriplets "ms" true
      = [("milli-s", "nothing", ""), ("milli-s", "nothing", "plural")] ∧
    ¬ ∃ (pk : String) (pd : PrefixDef) (uk sk : String),
        (pk, pd) ∈ overlapRegistry.prefixes ∧ pd.name = "milli-s" ∧
        (sk, "plural") ∈ overlapRegistry.suffixes ∧ "ms" = pk ++ uk ++ sk := by
  refine ⟨by decide, ?_⟩
  rintro ⟨pk, pd, uk, sk, hp, hn, hs, hcat⟩
  have hsk : sk = "s" := by
    simp [overlapRegistry] at hs; exact hs
  have hpk : pk = "ms" := by
    simp only [overlapRegistry, List.mem_cons, Prod.mk.injEq, List.not_mem_nil, or_false] at hp
    rcases hp with ⟨_, h2⟩ | ⟨h1, _⟩
    · subst h2; simp at hn
    · exact h1
  subst hsk; subst hpk
  have hlen := congrArg String.length hcat
  simp only [String.length_append] at hlen
  have h1 : "ms".length = 2 := by decide
  have h2 : "s".length = 1 := by decide
  omega

/-! ### (B), (C) `_dedup_candidates` -/

/-- `dict.fromkeys` keeps exactly the members -/
theorem mem_orderedDedup_iff {α : Type} [BEq α] [LawfulBEq α] {a : α} {l : List α} :
    a ∈ orderedDedup l ↔ a ∈ l := by
  induction l with
  | nil => simp [orderedDedup]
  | cons y ys ih =>
    simp only [orderedDedup, List.mem_cons, List.mem_filter, ih]
    constructor
    · rintro (h | ⟨h, _⟩)
      · exact Or.inl h
      · exact Or.inr h
    · rintro (h | h)
      · exact Or.inl h
      · by_cases hay : a = y
        · exact Or.inl hay
        · exact Or.inr ⟨h, by simpa using hay⟩

/-- the removal loop of `_dedup_candidates`: an element survives iff it was there and no
    prefixed reading spells it as a plain unit name -/
theorem mem_foldl_dedupStep_iff {a : String × String × String} (l acc : List (String × String × String)) :
    a ∈ l.foldl (fun acc t => if t.1 != "" then acc.filter (· != ("", t.1 ++ t.2.1, "")) else acc) acc ↔
      a ∈ acc ∧ ∀ t ∈ l, t.1 ≠ "" → a ≠ ("", t.1 ++ t.2.1, "") := by
  induction l generalizing acc with
  | nil => simp
  | cons t ts ih =>
    rw [List.foldl_cons, ih]
    by_cases ht : t.1 = ""
    · simp [ht]
    · have ht' : (t.1 != "") = true := by simpa using ht
      simp only [ht', if_true, List.mem_filter, List.mem_cons, forall_eq_or_imp]
      constructor
      · rintro ⟨⟨h1, h2⟩, h3⟩
        exact ⟨h1, fun _ => by simpa using h2, h3⟩
      · rintro ⟨h1, h2, h3⟩
        exact ⟨⟨h1, by simpa using h2 ht⟩, h3⟩

/-- membership in the result of `_dedup_candidates` -/
theorem mem_dedupCandidates_iff {a : String × String × String} {c : List (String × String × String)} :
    a ∈ dedupCandidates c ↔ a ∈ c ∧ ∀ t ∈ c, t.1 ≠ "" → a ≠ ("", t.1 ++ t.2.1, "") := by
  unfold dedupCandidates
  rw [mem_foldl_dedupStep_iff]
  simp only [mem_orderedDedup_iff]

/-- `_dedup_candidates` only removes -/
theorem dedupCandidates_subset {a : String × String × String} {c : List (String × String × String)}
    (h : a ∈ dedupCandidates c) : a ∈ c :=
  (mem_dedupCandidates_iff.mp h).1

/-- (B) every reading returned by `parse_unit_name` is a reading of `_yield_unit_triplets` -/
theorem parseUnitName_subset {R : Registry} {s : String} {cs : Option Bool} {t : String × String × String}
    (h : t ∈ R.parseUnitName s cs) : t ∈ R.yieldTriplets s (cs.getD R.caseSensitive) :=
  dedupCandidates_subset h

/-- (C1) `_dedup_candidates` keeps every reading with a non-empty prefix -/
theorem dedupCandidates_keeps_prefixed {p u x : String} {c : List (String × String × String)}
    (hp : p ≠ "") (h : (p, u, x) ∈ c) : (p, u, x) ∈ dedupCandidates c := by
  refine mem_dedupCandidates_iff.mpr ⟨h, ?_⟩
  intro t _ _ heq
  exact hp (congrArg Prod.fst heq)

/-- (C1') more generally, every reading that is not of the shape `("", n, "")` is kept -/
theorem dedupCandidates_keeps_of_ne {p u x : String} {c : List (String × String × String)}
    (hne : p ≠ "" ∨ x ≠ "") (h : (p, u, x) ∈ c) : (p, u, x) ∈ dedupCandidates c := by
  refine mem_dedupCandidates_iff.mpr ⟨h, ?_⟩
  intro t _ _ heq
  rcases hne with hp | hx
  · exact hp (congrArg Prod.fst heq)
  · exact hx (congrArg (fun z => z.2.2) heq)

/-- (C2) a plain reading `("", n, "")` is removed exactly when some prefixed reading `(p, u, _)`
    with `p ++ u = n` is among the candidates -/
theorem dedupCandidates_plain_removed_iff {n : String} {c : List (String × String × String)}
    (h : ("", n, "") ∈ c) :
    ("", n, "") ∉ dedupCandidates c ↔ ∃ p u x, (p, u, x) ∈ c ∧ p ≠ "" ∧ p ++ u = n := by
  rw [mem_dedupCandidates_iff]
  constructor
  · intro hnot
    apply Classical.byContradiction
    intro hex
    apply hnot
    refine ⟨h, ?_⟩
    rintro ⟨p, u, x⟩ ht hp heq
    apply hex
    refine ⟨p, u, x, ht, hp, ?_⟩
    have := congrArg (fun z => z.2.1) heq
    exact this.symm
  · rintro ⟨p, u, x, ht, hp, rfl⟩ ⟨_, hall⟩
    exact hall (p, u, x) ht hp rfl

/-- (C2), as asked: if a plain reading of the input list is missing from the output, a prefixed
    reading with the same spelling is present (in the input and in the output) -/
theorem dedupCandidates_plain_removed {n : String} {c : List (String × String × String)}
    (h : ("", n, "") ∈ c) (hrem : ("", n, "") ∉ dedupCandidates c) :
    ∃ p u x, p ≠ "" ∧ p ++ u = n ∧ (p, u, x) ∈ c ∧ (p, u, x) ∈ dedupCandidates c := by
  obtain ⟨p, u, x, ht, hp, heq⟩ := (dedupCandidates_plain_removed_iff h).mp hrem
  exact ⟨p, u, x, hp, heq, ht, dedupCandidates_keeps_prefixed hp ht⟩

/-! ### (D) `get_name` returns the first reading -/

/-- (D1) first reading without prefix: its unit name, and nothing is registered -/
theorem getName_first_plain {R : Registry} {s u x : String} {cs : Option Bool}
    {rest : List (String × String × String)}
    (hf : R.units.find? s = none) (hs : s ≠ "dimensionless")
    (hp : R.parseUnitName s cs = ("", u, x) :: rest) :
    R.getName s cs = .ok (u, R) := by
  unfold getName
  simp [hs, hf, hp]

/-- (D2) first reading with a prefix whose on-the-fly definition succeeds: prefix ++ unit, and the
    definition is registered under that name and recorded in `_prefixed_units` -/
theorem getName_first_prefixed {R : Registry} {s p u x : String} {cs : Option Bool}
    {rest : List (String × String × String)} {d : UnitDef}
    (hf : R.units.find? s = none) (hs : s ≠ "dimensionless")
    (hp : R.parseUnitName s cs = (p, u, x) :: rest) (hpne : p ≠ "")
    (hd : R.prefixedDef p u cs = .ok d) :
    R.getName s cs =
      .ok (p ++ u, { R with units := R.units.insert (p ++ u) d,
                            prefixed := if R.prefixed.contains (p ++ u) then R.prefixed
                                        else R.prefixed ++ [p ++ u] }) := by
  unfold getName
  simp [hs, hf, hp, hpne, hd]

/-- (D3) first reading with a prefix whose on-the-fly definition fails: that error -/
theorem getName_first_prefixed_error {R : Registry} {s p u x : String} {cs : Option Bool}
    {rest : List (String × String × String)} {e : Err}
    (hf : R.units.find? s = none) (hs : s ≠ "dimensionless")
    (hp : R.parseUnitName s cs = (p, u, x) :: rest) (hpne : p ≠ "")
    (hd : R.prefixedDef p u cs = .error e) :
    R.getName s cs = .error e := by
  unfold getName
  simp [hs, hf, hp, hpne, hd]

/-- (D) in one statement -/
theorem getName_first {R : Registry} {s p u x : String} {cs : Option Bool}
    {rest : List (String × String × String)}
    (hf : R.units.find? s = none) (hs : s ≠ "dimensionless")
    (hp : R.parseUnitName s cs = (p, u, x) :: rest) :
    R.getName s cs =
      if p = "" then .ok (u, R)
      else match R.prefixedDef p u cs with
        | .error e => .error e
        | .ok d => .ok (p ++ u, { R with units := R.units.insert (p ++ u) d,
                                          prefixed := if R.prefixed.contains (p ++ u) then R.prefixed
                                                      else R.prefixed ++ [p ++ u] }) := by
  by_cases hpe : p = ""
  · subst hpe; rw [getName_first_plain hf hs hp]; simp
  · rw [if_neg hpe]
    cases hd : R.prefixedDef p u cs with
    | error e => exact getName_first_prefixed_error hf hs hp hpe hd
    | ok d => exact getName_first_prefixed hf hs hp hpe hd

/-- (D) + (B) + (A): in case-sensitive mode the reading `get_name` uses is a literal decomposition
    of the input into registry keys -/
theorem getName_reading_sound {R : Registry} {s p u x : String} {cs : Option Bool}
    {rest : List (String × String × String)}
    (hcs : cs.getD R.caseSensitive = true)
    (hp : R.parseUnitName s cs = (p, u, x) :: rest) :
    (p, u, x) ∈ R.yieldTriplets s true := by
  have hmem : (p, u, x) ∈ R.parseUnitName s cs := by rw [hp]; exact List.mem_cons_self
  have := parseUnitName_subset hmem
  rw [hcs] at this
  exact this

end Pint.Proofs.ParseName
