/-
  Lemmas on `mergeKw`, `fromContext` and `enable` (parameters of contexts) used by `Props/C11Params.lean`.
  `getKV l k` is `dict.get` on an association list (first entry wins).
-/
import PintModel.Model.Context

namespace Pint.Ctx

/-- `d.get(k)` on an association list -/
def getKV (l : List (String × Rat)) (k : String) : Option Rat := (l.find? (·.1 == k)).map (·.2)

/-- the keys of an association list -/
abbrev keysOf (l : List (String × Rat)) : List String := l.map (·.1)

/-- one step of `mergeKw` (the function folded over the keyword list) -/
def kwStep (acc : List (String × Rat)) (p : String × Rat) : List (String × Rat) :=
  if acc.any (·.1 == p.1) then acc.map (fun q => if q.1 == p.1 then p else q) else acc ++ [p]

theorem mergeKw_eq_foldl (base kw : List (String × Rat)) : mergeKw base kw = kw.foldl kwStep base := rfl

theorem mergeKw_nil (base : List (String × Rat)) : mergeKw base [] = base := rfl

theorem mergeKw_cons (base : List (String × Rat)) (p : String × Rat) (kw : List (String × Rat)) :
    mergeKw base (p :: kw) = mergeKw (kwStep base p) kw := rfl

/-- the parameters handed to `from_context` by `enable_contexts` -/
def enableKw (st : State) (kw : List (String × Rat)) : List (String × Rat) :=
  if (chainDefaults st).isEmpty then kw else mergeKw (chainDefaults st) kw

/-! ### `getKV` -/

@[simp] theorem getKV_nil (k : String) : getKV [] k = none := rfl

theorem getKV_cons (p : String × Rat) (l : List (String × Rat)) (k : String) :
    getKV (p :: l) k = if p.1 = k then some p.2 else getKV l k := by
  unfold getKV
  simp only [List.find?_cons]
  by_cases h : p.1 = k
  · simp [h]
  · have : (p.1 == k) = false := by simpa using h
    simp [this, h]

theorem getKV_append (a b : List (String × Rat)) (k : String) :
    getKV (a ++ b) k = (getKV a k).orElse fun _ => getKV b k := by
  induction a with
  | nil => simp
  | cons p t ih =>
    simp only [List.cons_append, getKV_cons]
    by_cases h : p.1 = k
    · simp [h]
    · simp [h, ih]

theorem getKV_eq_none_of_not_any (acc : List (String × Rat)) (k : String)
    (h : acc.any (·.1 == k) = false) : getKV acc k = none := by
  induction acc with
  | nil => rfl
  | cons p t ih =>
    simp only [List.any_cons, Bool.or_eq_false_iff] at h
    rw [getKV_cons]
    have : ¬ p.1 = k := by simpa using h.1
    simp [this, ih h.2]

theorem getKV_eq_none_of_not_mem (l : List (String × Rat)) (k : String)
    (h : k ∉ keysOf l) : getKV l k = none := by
  induction l with
  | nil => rfl
  | cons p t ih =>
    simp only [keysOf, List.map_cons, List.mem_cons, not_or] at h
    rw [getKV_cons]
    have : ¬ p.1 = k := fun e => h.1 e.symm
    simp [this, ih h.2]

/-- replacing every entry of key `p.1` by `p` -/
def replaceKey (p : String × Rat) (q : String × Rat) : String × Rat := if q.1 == p.1 then p else q

theorem replaceKey_fst (p q : String × Rat) : (replaceKey p q).1 = q.1 := by
  unfold replaceKey
  by_cases h : (q.1 == p.1) = true
  · simp only [h, if_true]; exact (beq_iff_eq.mp h).symm
  · simp [h]

theorem keysOf_map_replaceKey (p : String × Rat) (acc : List (String × Rat)) :
    keysOf (acc.map (replaceKey p)) = keysOf acc := by
  induction acc with
  | nil => rfl
  | cons q t ih =>
    simp only [keysOf, List.map_cons, replaceKey_fst, List.cons.injEq, true_and]
    exact ih

theorem getKV_map_replaceKey (p : String × Rat) (acc : List (String × Rat)) (k : String) :
    getKV (acc.map (replaceKey p)) k =
      if p.1 = k then (if acc.any (·.1 == p.1) then some p.2 else none) else getKV acc k := by
  induction acc with
  | nil => simp
  | cons q t ih =>
    simp only [List.map_cons, getKV_cons, replaceKey_fst, ih, List.any_cons]
    by_cases hqp : q.1 = p.1
    · simp only [replaceKey, hqp]
      by_cases hp : p.1 = k <;> simp [hp]
    · have hb : (q.1 == p.1) = false := by simpa using hqp
      simp only [replaceKey, hb, Bool.false_eq_true, if_false, Bool.false_or]
      by_cases hp : p.1 = k
      · have : ¬ q.1 = k := fun e => hqp (e.trans hp.symm)
        simp [hp, this]
      · simp [hp]

theorem kwStep_eq (acc : List (String × Rat)) (p : String × Rat) :
    kwStep acc p = if acc.any (·.1 == p.1) then acc.map (replaceKey p) else acc ++ [p] := rfl

/-- one keyword: its key now maps to its value, every other key is untouched -/
theorem getKV_kwStep (acc : List (String × Rat)) (p : String × Rat) (k : String) :
    getKV (kwStep acc p) k = if p.1 = k then some p.2 else getKV acc k := by
  rw [kwStep_eq]
  cases h : acc.any (·.1 == p.1)
  · simp only [Bool.false_eq_true, if_false, getKV_append, getKV_cons, getKV_nil]
    by_cases hp : p.1 = k
    · subst hp
      simp [getKV_eq_none_of_not_any acc p.1 h]
    · simp only [hp, if_false]
      cases getKV acc k <;> rfl
  · simp only [if_true, getKV_map_replaceKey, h]

/-- `dict(base, **kw)` : a key of `kw` wins, every other key keeps the value of `base` -/
theorem getKV_mergeKw (base kw : List (String × Rat)) (hkw : (keysOf kw).Nodup) (k : String) :
    getKV (mergeKw base kw) k = (getKV kw k).orElse fun _ => getKV base k := by
  induction kw generalizing base with
  | nil => simp [mergeKw_nil]
  | cons p t ih =>
    simp only [keysOf, List.map_cons, List.nodup_cons] at hkw
    rw [mergeKw_cons, ih _ hkw.2, getKV_kwStep, getKV_cons]
    by_cases hp : p.1 = k
    · subst hp
      simp [getKV_eq_none_of_not_mem t p.1 hkw.1]
    · simp [hp]

/-! ### keys stay unique -/

theorem keysOf_kwStep_nodup (acc : List (String × Rat)) (p : String × Rat) (h : (keysOf acc).Nodup) :
    (keysOf (kwStep acc p)).Nodup := by
  rw [kwStep_eq]
  cases ha : acc.any (·.1 == p.1)
  · simp only [Bool.false_eq_true, if_false, keysOf, List.map_append, List.map_cons, List.map_nil]
    rw [List.nodup_append]
    refine ⟨h, by simp, ?_⟩
    intro a hac b hb
    simp only [List.mem_singleton] at hb
    subst hb
    intro e
    subst e
    obtain ⟨q, hq, hqa⟩ := List.mem_map.mp hac
    have : acc.any (·.1 == p.1) = true := List.any_eq_true.mpr ⟨q, hq, by simp [hqa]⟩
    rw [ha] at this
    cases this
  · simp only [if_true]
    rw [keysOf_map_replaceKey]
    exact h

theorem keysOf_mergeKw_nodup (base kw : List (String × Rat)) (h : (keysOf base).Nodup) :
    (keysOf (mergeKw base kw)).Nodup := by
  induction kw generalizing base with
  | nil => exact h
  | cons p t ih => rw [mergeKw_cons]; exact ih _ (keysOf_kwStep_nodup base p h)

theorem keysOf_fromContext_nodup (c : Context) (kw : List (String × Rat)) (h : (keysOf c.defaults).Nodup) :
    (keysOf (fromContext c kw).defaults).Nodup := by
  unfold fromContext
  split
  · exact h
  · exact keysOf_mergeKw_nodup _ _ h

theorem keysOf_enableKw_nodup (st : State) (kw : List (String × Rat))
    (hkw : (keysOf kw).Nodup) (hd : (keysOf (chainDefaults st)).Nodup) : (keysOf (enableKw st kw)).Nodup := by
  unfold enableKw
  split
  · exact hkw
  · exact keysOf_mergeKw_nodup _ _ hd

/-! ### `fromContext` and the keywords of `enable` -/

theorem fromContext_name (c : Context) (kw : List (String × Rat)) : (fromContext c kw).name = c.name := by
  unfold fromContext; split <;> rfl

theorem fromContext_rules (c : Context) (kw : List (String × Rat)) : (fromContext c kw).rules = c.rules := by
  unfold fromContext; split <;> rfl

theorem getKV_fromContext (c : Context) (kw : List (String × Rat)) (hkw : (keysOf kw).Nodup) (k : String) :
    getKV (fromContext c kw).defaults k = (getKV kw k).orElse fun _ => getKV c.defaults k := by
  unfold fromContext
  cases kw with
  | nil => simp
  | cons p t => simp only [List.isEmpty_cons, Bool.false_eq_true, if_false]; exact getKV_mergeKw _ _ hkw k

theorem getKV_enableKw (st : State) (kw : List (String × Rat)) (hkw : (keysOf kw).Nodup) (k : String) :
    getKV (enableKw st kw) k = (getKV kw k).orElse fun _ => getKV (chainDefaults st) k := by
  unfold enableKw
  cases hd : chainDefaults st with
  | nil => simp only [List.isEmpty_nil, if_true, getKV_nil]; cases getKV kw k <;> rfl
  | cons p t =>
    simp only [List.isEmpty_cons, Bool.false_eq_true, if_false]
    exact getKV_mergeKw _ _ hkw k

/-- keyword arguments, else the innermost active context's parameters, else the declared defaults -/
theorem getKV_instance (st : State) (c : Context) (kw : List (String × Rat))
    (hkw : (keysOf kw).Nodup) (hd : (keysOf (chainDefaults st)).Nodup) (k : String) :
    getKV (fromContext c (enableKw st kw)).defaults k =
      (getKV kw k).orElse fun _ => (getKV (chainDefaults st) k).orElse fun _ => getKV c.defaults k := by
  rw [getKV_fromContext _ _ (keysOf_enableKw_nodup st kw hkw hd), getKV_enableKw _ _ hkw]
  cases getKV kw k <;> rfl

/-! ### `enable` -/

theorem enable_eq (st : State) (names : List String) (kw : List (String × Rat)) :
    enable st names kw =
      match enable.resolve st names with
      | .error e => .error e
      | .ok cs => .ok { st with active := (cs.map (fun c => fromContext c (enableKw st kw))).reverse ++ st.active } := rfl

theorem enable_ok {st st' : State} {names : List String} {kw : List (String × Rat)}
    (h : enable st names kw = .ok st') :
    ∃ cs, enable.resolve st names = .ok cs ∧
      st' = { st with active := (cs.map (fun c => fromContext c (enableKw st kw))).reverse ++ st.active } := by
  rw [enable_eq] at h
  cases hres : enable.resolve st names with
  | error e => rw [hres] at h; cases h
  | ok cs => rw [hres] at h; simp only [Except.ok.injEq] at h; exact ⟨cs, rfl, h.symm⟩

theorem resolve_cons_ok {st : State} {n : String} {ns : List String} {cs : List Context}
    (h : enable.resolve st (n :: ns) = .ok cs) :
    ∃ key c cs', st.contexts.find? (·.1 == n) = some (key, c) ∧ enable.resolve st ns = .ok cs' ∧ cs = c :: cs' := by
  simp only [enable.resolve] at h
  split at h
  · cases h
  · next key c hc =>
    split at h
    · next cs' hcs => simp only [Except.ok.injEq] at h; exact ⟨key, c, cs', hc, hcs, h.symm⟩
    · cases h

/-- `resolve` returns, in order, the registered context of every name -/
theorem resolve_ok {st : State} {ns : List String} {cs : List Context} (h : enable.resolve st ns = .ok cs) :
    cs.length = ns.length ∧
    ∀ i (hi : i < ns.length) (hc : i < cs.length), ∃ key, st.contexts.find? (·.1 == ns[i]) = some (key, cs[i]) := by
  induction ns generalizing cs with
  | nil =>
    simp only [enable.resolve, Except.ok.injEq] at h
    subst h
    exact ⟨rfl, fun i hi => absurd hi (Nat.not_lt_zero _)⟩
  | cons n t ih =>
    obtain ⟨key, c, cs', hc, hcs, rfl⟩ := resolve_cons_ok h
    obtain ⟨hl, hall⟩ := ih hcs
    refine ⟨by simp [hl], ?_⟩
    intro i hi hci
    cases i with
    | zero => exact ⟨key, hc⟩
    | succ j =>
      simp only [List.getElem_cons_succ]
      exact hall j (by simpa using hi) (by simpa using hci)

theorem resolve_mem {st : State} {ns : List String} {cs : List Context} (h : enable.resolve st ns = .ok cs) :
    ∀ c ∈ cs, ∃ p ∈ st.contexts, p.2 = c := by
  induction ns generalizing cs with
  | nil =>
    simp only [enable.resolve, Except.ok.injEq] at h
    subst h
    intro c hc; cases hc
  | cons n t ih =>
    obtain ⟨key, c, cs', hc, hcs, rfl⟩ := resolve_cons_ok h
    intro x hx
    rcases List.mem_cons.mp hx with rfl | hx
    · exact ⟨(key, x), List.mem_of_find?_eq_some hc, rfl⟩
    · exact ih hcs x hx

theorem resolve_unknown (st : State) (names : List String) (n : String)
    (hn : n ∈ names) (hu : st.contexts.find? (·.1 == n) = none) :
    ∃ m, enable.resolve st names = .error (.unknown m) := by
  induction names with
  | nil => cases hn
  | cons a t ih =>
    simp only [enable.resolve]
    cases ha : st.contexts.find? (·.1 == a) with
    | none => exact ⟨a, rfl⟩
    | some p =>
      have hnt : n ∈ t := by
        rcases List.mem_cons.mp hn with rfl | h
        · rw [hu] at ha; cases ha
        · exact h
      obtain ⟨m, hm⟩ := ih hnt
      exact ⟨m, by simp only [hm]⟩

theorem chainDefaults_nodup (st : State) (h : ∀ c ∈ st.active, (keysOf c.defaults).Nodup) :
    (keysOf (chainDefaults st)).Nodup := by
  unfold chainDefaults
  cases ha : st.active with
  | nil => exact List.nodup_nil
  | cons c t => exact h c (by rw [ha]; exact List.mem_cons_self)

end Pint.Ctx
