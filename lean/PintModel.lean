import PintModel.Model.UC
import PintModel.Model.Registry
import PintModel.Model.Load
import PintModel.Gen.DefaultRegistry
import PintModel.DriverOps
import PintModel.Model.Quantity
import PintModel.Model.Pi
import PintModel.Model.EvalTree
