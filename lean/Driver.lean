/-
  Line protocol driver: one JSON object per input line, one JSON object per output line.
  Runs the executable model (`PintModel.Model.*`) on the tables regenerated from /repo
  (`PintModel.Gen.*`) or on a registry sent with `load`.
-/
import Lean.Data.Json
import PintModel.Model.UC
import PintModel.Model.Registry
import PintModel.Model.Load
import PintModel.Gen.DefaultRegistry
import PintModel.DriverOps

open Lean Pint

partial def loop (h : IO.FS.Stream) (out : IO.FS.Stream) (st : DriverState) : IO Unit := do
  let line ← h.getLine
  if line.isEmpty then return ()
  let l := line.trimAscii.toString
  if l.isEmpty then loop h out st else
  match Json.parse l with
  | .error e =>
    out.putStrLn (Json.compress (Json.mkObj [("bad", Json.str e)]))
    loop h out st
  | .ok j =>
    let (st', r) := step st j
    out.putStrLn (Json.compress r)
    loop h out st'

def main : IO Unit := do
  let stdin ← IO.getStdin
  let stdout ← IO.getStdout
  loop stdin stdout { reg := Gen.defaultRegistry }
  stdout.flush
