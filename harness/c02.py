"""C02 — conversion factors equal the exact ratio implied by the written definitions."""
from __future__ import annotations

import math
from decimal import Decimal
from fractions import Fraction

from . import regs
from .core import Property, capture, frac_s, canon
from .regs import uc_list, uc_dict, pint_uc


class Check(Property):
    ID = "C02"
    PROPS_FILE = "PintModel/Props/C02.lean"
    MODULE = "PintModel.Props.C02All"
    EXTRA_PROPS_FILES = ["PintModel/Props/C02All.lean"] + [f"PintModel/Props/C02W{i}.lean" for i in range(6)]
    EXTRA_LEAN_FILES = ["PintModel/Proofs/RootLemmas.lean", "PintModel/Proofs/SumLemmas.lean",
                        "PintModel/Proofs/DimLemmas.lean", "PintModel/Proofs/UCLemmas.lean"]
    RULE = ("same-dimension triples (a,b,c) of multiplicative units in random accepted spellings (names, aliases, "
            "symbols, prefixed, plural) and same-dimension compound units; Fraction registry compared exactly with "
            "the model and with the independent reader's ratio, Decimal to 25 digits, float within 8 ulp; "
            "non-trivial = distinct (a,b) with a != b; thorough adds every ordered same-dimension pair of rational "
            "canonical units and every prefix x spelling x plural string resolved to root units")
    PARTIAL = ["units defined with a non-integer power (29 of the default registry) and non-integer exponents on "
               "scaled units: pint computes them in float even in a Fraction registry; compared within 1e-12 only",
               "float registry: |pint - exact| <= 8 ulp is a numeric comparison, not a theorem"]

    def cases(self):
        P = regs.pools()
        rng = self.rng
        out = []
        dims = [d for d, l in P.by_dim.items() if len(l) > 1]

        def mk(kind, a, b, c):
            x = rng.choice(["1/1", "3/1", "-7/2", "5/4", "1000000007/3"])
            A, B, C = uc_list(a), uc_list(b), uc_list(c)
            self.bump(kind)
            ops = [{"op": "convert", "x": x, "src": A, "dst": B, "spelled": True},
                   {"op": "convert", "x": x, "src": B, "dst": A, "spelled": True},
                   {"op": "convert", "x": x, "src": A, "dst": C, "spelled": True},
                   {"op": "root", "u": A}]
            return {"kind": kind, "a": A, "b": B, "c": C, "x": x, "ops": ops}

        n = 2000 if self.tier == "quick" else 6000
        for i in range(n):
            l = P.by_dim[rng.choice(dims)]
            a, b, c = rng.choice(l), rng.choice(l), rng.choice(l)
            out.append(mk("triple", {P.spelling(rng, a): Fraction(1)}, {P.spelling(rng, b): Fraction(1)},
                          {P.spelling(rng, c): Fraction(1)}))
        m = 600 if self.tier == "quick" else 3000
        for i in range(m):
            a = P.compound(rng, P.rational, nmax=3)

            def respell():
                b = {}
                for k, e in a.items():
                    pf, uu = P.proj.resolve(k)
                    d = tuple(sorted(P.proj.dimensionality({uu["name"]: Fraction(1)}).items()))
                    alts = [z for z in P.by_dim.get(d, []) if z in P.rational] or [uu["name"]]
                    s = P.spelling(rng, rng.choice(alts))
                    b[s] = b.get(s, Fraction(0)) + e
                return {k: v for k, v in b.items() if v != 0}
            out.append(mk("compound triple", a, respell(), respell()))
        # cache-key twins: CPython has hash(-1) == hash(-2), so containers that differ only in -1 / -2
        # exponents collide in any hash-keyed memo; both members are converted in the same registry
        for i in range(150 if self.tier == "quick" else 1500):
            n_ = rng.randint(1, 2)
            base_units = rng.sample(P.rational, n_)
            exps = [Fraction(rng.choice([-1, -2])) for _ in base_units]

            def build(es):
                a_ = {P.spelling(rng, u_, allow_prefix=False, allow_plural=False): e for u_, e in zip(base_units, es)}
                b_ = {}
                for u_, e in zip(base_units, es):
                    d = tuple(sorted(P.proj.dimensionality({u_: Fraction(1)}).items()))
                    alt = rng.choice([z for z in P.by_dim.get(d, []) if z in P.rational] or [u_])
                    b_[alt] = b_.get(alt, Fraction(0)) + e
                return a_, {k: v for k, v in b_.items() if v != 0}
            st = rng.getstate()
            a1, b1 = build(exps)
            rng.setstate(st)
            a2, b2 = build([Fraction(-3) - e for e in exps])     # -1 <-> -2, same units
            if b1 and b2 and len(a1) == len(base_units):
                out.append(mk("hash twin", a1, b1, a1))
                out.append(mk("hash twin", a2, b2, a2))
        if self.tier == "thorough":
            for d, l in P.by_dim.items():
                l = [n_ for n_ in l if n_ in P.rational]
                for a in l:
                    for b in l:
                        out.append(mk("canonical same-dim pair", {a: Fraction(1)}, {b: Fraction(1)}, {a: Fraction(1)}))
            # every prefix x spelling x plural
            p = P.proj
            for pk in P.prefix_keys:
                for key, uu in p.unit_by_key.items():
                    if uu["conv"] != "scale":
                        continue
                    for suf in ("", "s"):
                        s = pk + key + suf
                        try:
                            pf, u2 = p.resolve(s)
                        except regs.D.DefError:
                            continue
                        if u2["conv"] != "scale":
                            continue
                        out.append(mk("prefixed spelling", {s: Fraction(1)}, {u2["name"]: Fraction(1)}, {s: Fraction(1)}))
        return out

    # ------------------------------------------------------------------ implementation side
    def impl(self, c):
        u = regs.ureg("fraction")
        x = Fraction(c["x"])

        def conv(src, dst):
            def run():
                r = u.convert(x, pint_uc(u, src, canonical=True), pint_uc(u, dst, canonical=True))
                if isinstance(r, float):
                    return {"float": r}
                if not isinstance(r, Fraction):
                    return {"type": type(r).__name__}
                return frac_s(r)
            return capture(run)

        def root():
            f, b = u.get_root_units(pint_uc(u, c["a"]), check_nonmult=False)
            if isinstance(f, float):
                return {"float": f}
            return [frac_s(Fraction(f)), sorted(uc_list({k: regs.to_frac(v) for k, v in b._units.items()}))]
        return [conv(c["a"], c["b"]), conv(c["b"], c["a"]), conv(c["a"], c["c"]), capture(root)]

    def same(self, c, io, mo):
        for i, m in zip(io, mo):
            if m.get("err") == "Inexact":
                self.bump("inexact (model makes no exact claim)")
                if "err" in i:
                    return False
                continue
            if canon(i) != canon(m):
                return False
        return True

    def nontrivial(self, c, io):
        return canon([c["a"], c["b"]]) if c["a"] != c["b"] else None

    # ------------------------------------------------------------------ oracle
    @staticmethod
    def float_excursion(reg, units):
        """smallest and largest magnitude the running product of _get_root_units_recurse takes for `units` (same order)"""
        lo, hi, acc = [1.0], [1.0], [1.0]

        def rec(ref, exp):
            for key in ref:
                e2 = exp * ref[key]
                d = reg._units[reg.get_name(key)]
                if not d.is_base:
                    try:
                        acc[0] *= float(d.converter.scale) ** float(e2)
                    except OverflowError:
                        acc[0] = float("inf")
                    a_ = abs(acc[0])
                    if a_ != 0:
                        lo[0], hi[0] = min(lo[0], a_), max(hi[0], a_)
                    else:
                        lo[0] = 0.0
                    if d.reference is not None:
                        rec(d.reference, e2)
        rec(units, 1)
        return lo[0], hi[0]

    def written_definitions_probe(self):
        """the ratio is the one implied by the definitions as they are written NOW: after a unit is defined again, every unit
        defined through it (directly, through a chain, or a bundled unit through a bundled one) converts by the new text - whether or
        not the units had been used before.  Exact, in a Fraction registry; each history also in a float registry."""
        v = []
        logging_disable = __import__("logging").disable
        logging_disable(50)
        try:
            for kind in ("fraction", "float"):
                for asked_first in (False, True):
                    u = regs.fresh(kind)
                    num = (lambda x: Fraction(x)) if kind == "fraction" else float
                    u.define("c02span_a = 3 * meter")
                    u.define("c02span_b = 7 * c02span_a")
                    u.define("c02span_c = c02span_b / 2")
                    if asked_first:
                        u.convert(num(1), "c02span_b", "meter"), u.convert(num(1), "mile", "meter"), u.get_root_units("c02span_c")
                    u.define("c02span_a = 5 * meter")
                    u.define("yard = 0.9 * meter = yd")
                    for src, dst, want in (("c02span_b", "meter", Fraction(35)), ("c02span_c", "meter", Fraction(35, 2)),
                                           ("meter", "c02span_b", Fraction(1, 35)), ("mile", "meter", Fraction(1584)),
                                           ("c02span_b", "yard", Fraction(350, 9)), ("mile", "c02span_a", Fraction(1584, 5))):
                        try:
                            got = u.convert(num(1), src, dst)
                            bad = (Fraction(got) != want) if kind == "fraction" else abs(float(got) - float(want)) > 1e-12 * float(want)
                            if kind == "fraction" and not isinstance(got, (Fraction, int)):
                                bad = True
                        except Exception as exc:  # noqa: BLE001
                            got, bad = type(exc).__name__, True
                        if bad:
                            v.append(f"C02 [{kind}] after c02span_a and yard were defined again ({'units used before' if asked_first else 'nothing asked before'}): "
                                     f"1 {src} -> {dst} = {got!r}, the written definitions give {want}")
                        try:
                            f_, _ = u.get_root_units(src)
                            r_, _ = u.get_root_units(dst)
                            if kind == "fraction" and Fraction(f_) / Fraction(r_) != want:
                                v.append(f"C02 [{kind}] after the redefinitions get_root_units({src}) / get_root_units({dst}) = {Fraction(f_) / Fraction(r_)}, "
                                         f"the written definitions give {want}")
                        except Exception:  # noqa: BLE001
                            pass
        finally:
            logging_disable(0)
        return v

    def case_insensitive_probe(self):
        """a registry asked to ignore letter case in UNIT spellings still reads an exactly written prefixed symbol by its written
        prefix: MW is mega, mW is milli, PJ peta, pJ pico - the same factor as the case-sensitive registry gives"""
        import pint
        v = []
        __import__("logging").disable(50)
        try:
            ci = pint.UnitRegistry(case_sensitive=False)
            cs = regs.ureg("float")
            for unit in ("W", "Hz", "Pa", "J", "m", "s", "g", "V"):
                for pre in ("M", "m", "k", "G", "P", "p", "T", "Y", "y", "Z", "z", "E", "n", "h", "c", "d", "da", "µ", "f", "a"):
                    sym = pre + unit
                    try:
                        want = cs.convert(1.0, sym, unit)
                    except Exception:  # noqa: BLE001
                        continue
                    try:
                        got = ci.convert(1.0, sym, unit)
                    except Exception as exc:  # noqa: BLE001
                        got = type(exc).__name__
                    if got != want:
                        known = ""
                        try:
                            other = ci.get_name(sym)
                            if other != cs.get_name(sym) and other.lower() != cs.get_name(sym).lower() and other in cs._units:
                                known = f" [known finding F90] (read as {other}, a case variant of another unit's symbol)"
                        except Exception:  # noqa: BLE001
                            pass
                        v.append(f"C02 case-insensitive registry: 1 {sym} -> {unit} = {got}, the written prefix gives {want}{known}")
        finally:
            __import__("logging").disable(0)
        return v

    def oracle(self, c):
        P = regs.pools()
        proj = P.proj
        v = []
        if not getattr(self, "_written_probe_done", False):
            self._written_probe_done = True
            v += self.written_definitions_probe()
            v += self.case_insensitive_probe()
        a, b, cc = uc_dict(c["a"]), uc_dict(c["b"]), uc_dict(c["c"])
        try:
            fa, ba = proj.root(a)
            fb, bb = proj.root(b)
            fc, bc = proj.root(cc)
        except regs.D.DefError:
            return v
        if not (proj.dimensionality(a) == proj.dimensionality(b) == proj.dimensionality(cc)):
            return v
        inexact = any(isinstance(f, regs.D.Irr) for f in (fa, fb, fc)) or any(
            P.uses_fractional_power(proj.resolve(k)[1]["name"]) for k in list(a) + list(b) + list(cc))
        x = Fraction(c["x"])
        tag = f"C02 {c['a']} -> {c['b']} (-> {c['c']})"
        ap = lambda f: f.approx if isinstance(f, regs.D.Irr) else float(f)  # noqa: E731

        # Fraction registry: exact, stays Fraction
        u = regs.ureg("fraction")
        A, B, C = (pint_uc(u, z, canonical=True) for z in (c["a"], c["b"], c["c"]))
        try:
            r_ab = u.convert(x, A, B)
            r_ba = u.convert(x, B, A)
            r_ac = u.convert(x, A, C)
            r_bc = u.convert(r_ab, B, C)
            r_aa = u.convert(x, A, A)
        except Exception as exc:  # noqa: BLE001
            if inexact and type(exc).__name__ in ("OverflowError", "ValueError"):
                return v      # float overflow in the units pint evaluates in float (PARTIAL)
            return [f"{tag}: conversion between same-dimension units raised {type(exc).__name__}: {exc}"]
        if not inexact:
            want = x * fa / fb
            if not isinstance(r_ab, Fraction) or r_ab != want:
                v.append(f"{tag} [fraction]: got {r_ab!r} expected exactly {want}")
            if not isinstance(r_ac, Fraction) or r_ac != x * fa / fc:
                v.append(f"{tag} [fraction]: a->c gives {r_ac!r}, the definitions give exactly {x * fa / fc}")
            if not isinstance(r_ac, Fraction) or r_bc != r_ac:
                v.append(f"{tag} [fraction]: path dependence: a->b->c = {r_bc!r}, a->c = {r_ac!r}")
            if r_ab * r_ba != x * x:
                v.append(f"{tag} [fraction]: not invertible: f(a,b)*f(b,a) != 1")
            if r_aa != x:
                v.append(f"{tag} [fraction]: identity conversion changed the value")
        else:
            want = float(x) * ap(fa) / ap(fb)
            if not math.isclose(float(r_ab), want, rel_tol=1e-11):
                v.append(f"{tag} [fraction/inexact]: got {float(r_ab)!r} expected about {want!r}")
        # Decimal registry
        if not inexact:
            ud = regs.ureg("decimal")
            try:
                r = ud.convert(Decimal(x.numerator) / Decimal(x.denominator), pint_uc(ud, c["a"], "decimal", canonical=True),
                               pint_uc(ud, c["b"], "decimal", canonical=True))
                if not isinstance(r, Decimal):
                    v.append(f"{tag} [decimal]: result type {type(r).__name__}")
                else:
                    want = x * fa / fb
                    if want != 0 and abs(Fraction(r) / want - 1) > Fraction(1, 10 ** 22):
                        v.append(f"{tag} [decimal]: got {r} expected {float(want)!r} to working precision")
            except Exception as exc:  # noqa: BLE001
                v.append(f"{tag} [decimal]: raised {type(exc).__name__}: {exc}")
            # float registry: a few ulp
            uf = regs.ureg("float")
            try:
                r = uf.convert(float(x), pint_uc(uf, c["a"], "float", canonical=True), pint_uc(uf, c["b"], "float", canonical=True))
                want = x * fa / fb
                if want != 0 and not math.isinf(r) and r != 0 and 1e-290 < abs(float(want)) < 1e290:
                    rel = abs(Fraction(r) / want - 1)
                    if rel > Fraction(64, 2 ** 53):
                        known = ""
                        lo, hi = self.float_excursion(uf, pint_uc(uf, c["a"], "float", canonical=True) / pint_uc(uf, c["b"], "float", canonical=True))
                        if lo < 1e-290 or hi > 1e290:
                            known = (f" [known finding F61] (the running product of the factors leaves the normal float range on the way: "
                                     f"{lo:.3g} .. {hi:.3g})")
                        v.append(f"{tag} [float]: got {r!r}, exact {float(want)!r}, relative error {float(rel):.3g}{known}")
            except Exception as exc:  # noqa: BLE001
                v.append(f"{tag} [float]: raised {type(exc).__name__}: {exc}")
            # ndarray magnitudes, converted functionally and in place (float and integer dtype): x * ratio, or a refusal
            import numpy as np
            ratio = float(fa / fb) if fb != 0 else None
            if ratio and 1e-6 < abs(ratio) < 1e6:      # (fixed-width integers overflow silently for huge integer factors: NumPy's)
                A_, B_ = pint_uc(uf, c["a"], "float", canonical=True), pint_uc(uf, c["b"], "float", canonical=True)
                for arr in (np.array([1.0, 7.0, 1500.0]), np.array([1, 7, 1500]), np.array([-999, 2500], dtype=np.int64)):
                    want_arr = np.asarray(arr, dtype=float) * ratio
                    for inplace in (False, True):
                        work = arr.copy()
                        try:
                            got = uf.convert(work, A_, B_, inplace=inplace)
                        except Exception:  # noqa: BLE001
                            continue          # refusing (casting error for an integer array in place) is acceptable
                        if not np.allclose(np.asarray(got, dtype=float), want_arr, rtol=1e-12, atol=0):
                            v.append(f"{tag} [float, {arr.dtype} array, inplace={inplace}]: {arr.tolist()} converts to {np.asarray(got).tolist()}, "
                                     f"x * ratio is {want_arr.tolist()}")
                        if not inplace and work.tolist() != arr.tolist():
                            v.append(f"{tag} [float, {arr.dtype} array]: the functional conversion modified its input")
            # arrays of exact numbers (dtype=object, Fraction elements) in the Fraction registry, functionally and in place: every
            # element is x times the exact ratio and stays an exact number
            try:
                ufr = regs.ureg("fraction")
                Af, Bf = pint_uc(ufr, c["a"], "fraction", canonical=True), pint_uc(ufr, c["b"], "fraction", canonical=True)
                one = ufr.convert(Fraction(1), Af, Bf)
            except Exception:  # noqa: BLE001
                one = None
            if isinstance(one, Fraction) and fb != 0 and one == fa / fb:
                xs = [Fraction(1), Fraction(7, 3), Fraction(-1500)]
                for inplace in (False, True):
                    work = np.array(xs, dtype=object)
                    try:
                        got = ufr.convert(work, Af, Bf, inplace=inplace)
                        els = list(np.asarray(got, dtype=object).tolist())
                    except Exception as exc:  # noqa: BLE001
                        v.append(f"{tag} [fraction, object array, inplace={inplace}]: raised {type(exc).__name__}: {exc}")
                        continue
                    bad = [(x, e) for x, e in zip(xs, els) if isinstance(e, float) or e != x * fa / fb]
                    if bad:
                        v.append(f"{tag} [fraction, object array of Fractions, inplace={inplace}]: {bad[0][0]} converts to {bad[0][1]!r}, the exact "
                                 f"ratio gives {bad[0][0] * fa / fb}")
        return v
