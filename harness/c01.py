"""C01 — conversion succeeds exactly between units of identical dimensionality."""
from __future__ import annotations

from fractions import Fraction

from . import regs
from .core import Property, capture, frac_s, canon, err_name
from .regs import uc_list, uc_dict, pint_uc

CONFIGS = [
    ("fraction", {}), ("float", {}), ("decimal", {}),
    ("float", {"case_sensitive": False}), ("float", {"auto_reduce_dimensions": True}),
    ("fraction", {"auto_reduce_dimensions": True}),
]


def is_ident(s):
    return s.isidentifier() and s.isascii()


def expr(items):
    """unit expression string for a container whose spellings are identifiers"""
    parts = []
    for k, v in items:
        q = Fraction(v)
        if q == 1:
            parts.append(k)
        elif q.denominator == 1:
            parts.append(f"{k}**({q.numerator})")
        else:
            parts.append(f"{k}**({q.numerator}/{q.denominator})")
    return " * ".join(parts) if parts else "dimensionless"


class Check(Property):
    ID = "C01"
    PROPS_FILE = "PintModel/Props/C01.lean"
    MODULE = "PintModel.Props.C01"
    EXTRA_LEAN_FILES = ["PintModel/Proofs/DimLemmas.lean", "PintModel/Proofs/SumLemmas.lean", "PintModel/Proofs/UCLemmas.lean"]
    RULE = ("ordered pairs of multiplicative units of the default registry in random accepted spellings (name, alias, "
            "symbol, prefixed, plural) and random compound units (1-4 factors, integer and half-integer exponents); "
            "half of the pairs are built to be dimensionally equal; non-trivial = distinct ordered (src,dst) with "
            "src != dst; thorough adds every ordered pair of canonical units")
    PARTIAL = ["units defined through irrational scales or fractional powers are compared for success/failure and "
               "dimensionality only (value: see C02)"]

    def cases(self):
        P = regs.pools()
        rng = self.rng
        out = []

        def mk(kind, src, dst):
            x = rng.choice(["1/1", "3/1", "-7/2", "5/4"])
            s, d = uc_list(src), uc_list(dst)
            self.bump(kind)
            return {"kind": kind, "src": s, "dst": d, "x": x,
                    "ops": [{"op": "dim", "u": s}, {"op": "dim", "u": d}, {"op": "convert", "x": x, "src": s, "dst": d, "spelled": True}]}

        dims = [d for d, l in P.by_dim.items() if len(l) > 1]
        n_pairs = 2500 if self.tier == "quick" else 8000
        for i in range(n_pairs):
            if i % 2 == 0:
                l = P.by_dim[rng.choice(dims)]
                a, b = rng.choice(l), rng.choice(l)
                kind = "same-dim pair"
            else:
                a, b = rng.choice(P.mult), rng.choice(P.mult)
                kind = "random pair"
            out.append(mk(kind, {P.spelling(rng, a): Fraction(1)}, {P.spelling(rng, b): Fraction(1)}))
        n_comp = 800 if self.tier == "quick" else 4000
        for i in range(n_comp):
            a = P.compound(rng, P.mult, frac_prob=0.1)
            if i % 2 == 0:
                # re-express every factor in another unit of the same dimension
                b = {}
                for k, e in a.items():
                    pf, uu = P.proj.resolve(k)
                    d = tuple(sorted(P.proj.dimensionality({uu["name"]: Fraction(1)}).items()))
                    alt = rng.choice(P.by_dim.get(d, [uu["name"]]))
                    s = P.spelling(rng, alt)
                    b[s] = b.get(s, Fraction(0)) + e
                b = {k: v for k, v in b.items() if v != 0}
                kind = "same-dim compound"
            else:
                b = P.compound(rng, P.mult, frac_prob=0.1)
                kind = "random compound"
            # a unit with a negative scale (electron_g_factor) to a fractional power has no real value: not a unit expression
            def degenerate(items):
                for k, e in items.items():
                    if e.denominator != 1:
                        try:
                            pf, uu = P.proj.resolve(k)
                            f, _ = P.proj.root({uu["name"]: Fraction(1)})
                            if not isinstance(f, regs.D.Irr) and f < 0:
                                return True
                        except Exception:  # noqa: BLE001
                            pass
                return False
            if degenerate(a) or degenerate(b):
                continue
            out.append(mk(kind, a, b))
        # dimension expressions (derived dimension names) as accepted by Quantity.check / ureg.check
        dim_names = [d["name"] for d in P.proj.dims] + list({k for u_ in P.proj.units if u_["is_base"] for k in u_["ref"]})
        dim_names = [d for d in dim_names if d != "[]"]
        for i in range(400 if self.tier == "quick" else 3000):
            n = rng.randint(1, 3)
            de = {}
            for _ in range(n):
                de[rng.choice(dim_names)] = Fraction(rng.choice([-2, -1, 1, 1, 2]))
            # a unit container to check against it: half of the time one that has exactly this dimensionality
            target = P.proj.dim_of_dims(de)
            cands = [d_ for d_ in P.by_dim if dict(d_) == target]
            if i % 2 == 0 and cands:
                un = {rng.choice(P.by_dim[cands[0]]): Fraction(1)}
            else:
                un = P.compound(rng, P.mult, nmax=2)
            self.bump("dimension expression")
            out.append({"kind": "dimexpr", "src": uc_list(un), "dst": uc_list(de), "x": "1/1",
                        "ops": [{"op": "dim", "u": uc_list(un)}, {"op": "dim", "u": uc_list(de)}]})
        if self.tier == "thorough":
            names = P.mult
            for a in names:
                for b in names:
                    out.append(mk("canonical pair", {a: Fraction(1)}, {b: Fraction(1)}))
        return out

    # ------------------------------------------------------------------ implementation side
    def impl(self, c):
        u = regs.ureg("fraction")
        s, d = pint_uc(u, c["src"]), pint_uc(u, c["dst"])
        if c["kind"] == "dimexpr":
            def dim_(uc):
                return sorted(uc_list({k: regs.to_frac(v) for k, v in u.get_dimensionality(uc).items()}))
            return [capture(lambda: dim_(s)), capture(lambda: dim_(d))]

        def dim(uc):
            return sorted(uc_list({k: regs.to_frac(v) for k, v in u.get_dimensionality(uc).items()}))

        def conv():
            r = u.convert(Fraction(c["x"]), pint_uc(u, c["src"], canonical=True), pint_uc(u, c["dst"], canonical=True))
            if isinstance(r, float):
                return {"float": True}
            return frac_s(r)
        return [capture(lambda: dim(s)), capture(lambda: dim(d)), capture(conv)]

    def same(self, c, io, mo):
        for i, m in zip(io, mo):
            if "OverflowError" in str(i.get("err", "")):
                self.bump("float overflow (not compared)")
                continue
            if m.get("err") == "Inexact":
                self.bump("inexact (not compared)")     # float path of the implementation: judged by the oracle
                continue
            if isinstance(i.get("ok"), dict) and i["ok"].get("float"):
                # float result in a Fraction registry although the model has an exact value
                return False
            if canon(i) != canon(m):
                return False
        return True

    def nontrivial(self, c, io):
        if c["src"] != c["dst"]:
            return canon([c["src"], c["dst"]])
        return None

    # ------------------------------------------------------------------ oracle
    def oracle_dimexpr(self, c):
        P = regs.pools()
        proj = P.proj
        v = []
        un, de = uc_dict(c["src"]), uc_dict(c["dst"])
        want = proj.dimensionality(un) == proj.dim_of_dims(de)
        es = " * ".join(f"{k}**({e.numerator})" for k, e in de.items())
        tag = f"C01 {c['src']} check {es!r}"
        for tname in ("fraction", "float"):
            u = regs.ureg(tname)
            try:
                q = u.Quantity(1, u.Unit(pint_uc(u, c["src"], tname, canonical=True)))
                got = q.check(es)
                if got is not want:
                    v.append(f"{tag} [{tname}]: Quantity.check gives {got} but the dimensionalities are "
                             f"{'equal' if want else 'different'}")
                try:
                    u.check(es)(lambda a: a)(q)
                    dec = True
                except Exception as exc:  # noqa: BLE001
                    dec = False if type(exc).__name__ == "DimensionalityError" else repr(exc)
                if dec is not want:
                    v.append(f"{tag} [{tname}]: ureg.check decorator gives {dec!r} but the dimensionalities are "
                             f"{'equal' if want else 'different'}")
                gd = {k: regs.to_frac(x) for k, x in u.get_dimensionality(es).items()}
                if gd != proj.dim_of_dims(de):
                    v.append(f"{tag} [{tname}]: get_dimensionality({es!r}) = {gd}, expected {proj.dim_of_dims(de)}")
            except Exception as exc:  # noqa: BLE001
                v.append(f"{tag} [{tname}]: raised {type(exc).__name__}: {exc}")
        return v

    def loaded_definitions_probe(self):
        """the relation follows the definitions that are loaded NOW: a spelling that was read as prefix + unit and is then
        defined as a unit of another dimension is compatible with what the definition says"""
        v = []
        u = regs.fresh("float")
        for nm, olddim_unit in (("ab", "meter**2"), ("fm", "meter"), ("mt", "kilogram")):
            try:
                u.get_dimensionality(nm)
                u.Quantity(1.0, nm).is_compatible_with(olddim_unit)
                u.define(f"{nm} = 2 * second")
                q = u.Quantity(3.0, nm)
                obs = {"get_dimensionality": dict(u.get_dimensionality(nm)) == {"[time]": 1},
                       "is_compatible_with(second)": bool(q.is_compatible_with("second")),
                       "not is_compatible_with(old)": not q.is_compatible_with(olddim_unit),
                       "check([time])": bool(q.check("[time]")),
                       "to(second)": abs(q.to("second").magnitude - 6.0) < 1e-12}
                try:
                    q.to(olddim_unit)
                    obs["to(old) raises"] = False
                except Exception as exc:  # noqa: BLE001
                    obs["to(old) raises"] = type(exc).__name__ == "DimensionalityError"
                bad = [k for k, ok in obs.items() if not ok]
                if bad:
                    v.append(f"C01 after define('{nm} = 2 * second') (the spelling had been read as a prefixed unit before): {bad} do not follow the definition")
            except Exception as exc:  # noqa: BLE001
                v.append(f"C01 loaded-definitions probe for {nm!r} raised {type(exc).__name__}: {exc}")
        return v

    def converted_object_probe(self):
        """the predicates judge the units an object HAS: a quantity obtained by a conversion (plain, to base / root units, or
        through a context, which changes the dimensionality) answers like a fresh quantity with the same units - whether or not
        the source object had been asked about its dimensionality before"""
        v = []
        u = regs.fresh("float")
        targets = ["meter", "hertz", "second", "joule", "kelvin", "1 / centimeter"]
        for asked_first in (False, True):
            for (x, src), dst, ctx in (((500.0, "nanometer"), "terahertz", "sp"), ((1.0, "terahertz"), "nanometer", "sp"),
                                       ((2.0, "electron_volt"), "1 / centimeter", "sp"), ((300.0, "kelvin"), "joule", "boltzmann"),
                                       ((3.0, "mile"), "kilometer", None), ((1.0, "newton"), None, None)):
                q = u.Quantity(x, src)
                if asked_first:
                    q.check("[length]"), q.dimensionality, q.is_compatible_with("meter")
                try:
                    if dst is None:
                        f = q.to_base_units()
                    elif ctx:
                        f = q.to(dst, ctx)
                    else:
                        f = q.to(dst)
                except Exception as exc:  # noqa: BLE001
                    v.append(f"C01 converted-object probe {x} {src} -> {dst} ({ctx}) raised {type(exc).__name__}")
                    continue
                fresh = u.Quantity(f.magnitude, f.units)
                tag = f"C01 {x} {src} -> {dst or 'base units'}{' through ' + ctx if ctx else ''} ({'source asked before' if asked_first else 'nothing asked'})"
                if f.dimensionality != fresh.dimensionality:
                    v.append(f"{tag}: the result reports the dimensionality {dict(f.dimensionality)}, its units have {dict(fresh.dimensionality)}")
                for t in targets:
                    got = (f.is_compatible_with(t), u.is_compatible_with(f, t), u.Unit(t).is_compatible_with(f), f.check(u.get_dimensionality(t)))
                    want = (fresh.is_compatible_with(t), u.is_compatible_with(fresh, t), u.Unit(t).is_compatible_with(fresh), fresh.check(u.get_dimensionality(t)))
                    if got != want:
                        v.append(f"{tag}: predicates against {t!r} give {got}, a fresh quantity with the same units gives {want}")
                        break
        return v[:6]

    def oracle(self, c):
        if not getattr(self, "_probe_done", False):
            self._probe_done = True
            pv = self.loaded_definitions_probe() + self.converted_object_probe()
            if pv:
                return pv
        if c["kind"] == "dimexpr":
            return self.oracle_dimexpr(c)
        P = regs.pools()
        proj = P.proj
        v = []
        src, dst = uc_dict(c["src"]), uc_dict(c["dst"])
        try:
            ds, dd = proj.dimensionality(src), proj.dimensionality(dst)
        except regs.D.DefError:
            return v
        same = ds == dd
        tag = f"C01 {c['src']} -> {c['dst']}"
        cfgs = [CONFIGS[0], self.rng.choice(CONFIGS[1:])] if self.tier == "quick" else CONFIGS
        for tname, kw in cfgs:
            u = regs.ureg(tname, **kw)
            src_items, dst_items = c["src"], c["dst"]
            if kw.get("case_sensitive") is False:
                # case-insensitive resolution of arbitrary spellings is C08's subject: use canonical names here
                def cn(items):
                    out = []
                    for k, e in items:
                        pf, uu = proj.resolve(k)
                        out.append([(pf["name"] if pf else "") + uu["name"], e])
                    return out
                src_items, dst_items = cn(src_items), cn(dst_items)
            s, d = pint_uc(u, src_items, tname, canonical=True), pint_uc(u, dst_items, tname, canonical=True)
            x = regs.num(tname, Fraction(c["x"]))
            try:
                r = u.convert(x, s, d)
                ok, ename = True, None
            except Exception as exc:  # noqa: BLE001
                ok, ename = False, type(exc).__name__
                if ename == "ValueError" and ("'inf'" in str(exc) or "'nan'" in str(exc) or "'-inf'" in str(exc)):
                    ename = "OverflowError"          # the float factor overflowed silently
            overflow = ename in ("OverflowError", "ZeroDivisionError")     # float range of an inexact factor: inconclusive
            if overflow:
                self.bump("float overflow (inconclusive)")
                continue
            if ok != same:
                v.append(f"{tag} [{tname},{kw}]: conversion {'succeeds' if ok else 'raises ' + str(ename)} but "
                         f"dimensionalities are {'equal' if same else 'different'} ({ds} vs {dd})")
            if not ok and not same and ename != "DimensionalityError":
                v.append(f"{tag} [{tname},{kw}]: raises {ename}, not DimensionalityError")
            # predicates (string route needs identifier spellings)
            if all(is_ident(k) for k, _ in c["src"] + c["dst"]) and c["src"] and c["dst"]:
                es, ed = expr(c["src"]), expr(c["dst"])
                try:
                    q = u.Quantity(x, u.Unit(s))
                    preds = {
                        "Quantity.is_compatible_with": q.is_compatible_with(u.Unit(d)),
                        "Unit.is_compatible_with": u.Unit(s).is_compatible_with(u.Unit(d)),
                        "ureg.is_compatible_with": u.is_compatible_with(q, u.Unit(d)),
                        "Quantity.check": q.check(u.Unit(d).dimensionality),
                    }
                    try:
                        u.check(u.Unit(d).dimensionality)(lambda a: a)(q)
                        preds["ureg.check"] = True
                    except Exception as exc:  # noqa: BLE001
                        preds["ureg.check"] = False if type(exc).__name__ == "DimensionalityError" else repr(exc)
                    # the decorator with the checked argument given by keyword, out of signature order, next to a defaulted one
                    try:
                        u.check(None, u.Unit(d).dimensionality, None)(lambda a, b, c=3: b)(b=q, a=u.Quantity(1, "second"))
                        preds["ureg.check (keywords)"] = True
                    except Exception as exc:  # noqa: BLE001
                        preds["ureg.check (keywords)"] = False if type(exc).__name__ == "DimensionalityError" else repr(exc)
                    try:
                        q.to(ed if kw.get("case_sensitive", True) else u.Unit(d))
                        preds["Quantity.to"] = True
                    except Exception as exc:  # noqa: BLE001
                        preds["Quantity.to"] = False if type(exc).__name__ == "DimensionalityError" else repr(exc)
                    for name, val in preds.items():
                        if val is not same:
                            v.append(f"{tag} [{tname},{kw}]: {name} gives {val!r} but dimensionalities are "
                                     f"{'equal' if same else 'different'}")
                except Exception as exc:  # noqa: BLE001
                    v.append(f"{tag} [{tname},{kw}]: predicate raised {type(exc).__name__}: {exc}")
        # compatible-unit listing (single canonical multiplicative units, no default system)
        if len(c["src"]) == 1 and c["src"][0][1] == "1/1" and c["src"][0][0] in P.root and self.rng.random() < 0.05:
            v += self.compat_listing(c["src"][0][0])
        return v

    _listing_reg = []

    def compat_listing(self, name):
        P = regs.pools()
        proj = P.proj
        if not self._listing_reg:
            u = regs.fresh("float")
            u.default_system = None
            self._listing_reg.append(u)
        u = self._listing_reg[0]
        got = {str(x) for x in u.get_compatible_units(name)}
        dim = proj.dimensionality({name: Fraction(1)})
        want = set()
        for uu in proj.units:
            if proj.dimensionality({uu["name"]: Fraction(1)}) == dim:
                want.add(uu["name"])
                if uu["conv"] == "offset":
                    want.add("delta_" + uu["name"])
        if got != want:
            return [f"C01 get_compatible_units({name}) differs from the same-dimension units: "
                    f"extra={sorted(got - want)[:5]} missing={sorted(want - got)[:5]}"]
        return []
