"""C05 — equality, ordering and hashing agree with physical value."""
from __future__ import annotations

from fractions import Fraction

from . import regs
from .core import Property, capture, frac_s, canon, err_name
from .regs import uc_list

TEMP = ["kelvin", "degree_Celsius", "degree_Fahrenheit", "degree_Rankine", "degree_Reaumur"]
DELTA = ["delta_degree_Celsius", "delta_degree_Fahrenheit", "delta_degree_Reaumur", "kelvin", "degree_Rankine"]
DIMLESS = ["radian", "count", "bit", "percent", "ppm", "degree", "byte"]


class Check(Property):
    ID = "C05"
    PROPS_FILE = "PintModel/Props/C05.lean"
    MODULE = "PintModel.Props.C05"
    EXTRA_LEAN_FILES = ["PintModel/Proofs/QtyLemmas.lean"]
    RULE = ("pairs and triples of exact quantities: a unit, the same physical value re-expressed in another "
            "compatible unit, a near miss, zero magnitudes, temperature scales (offset, delta, absolute), "
            "dimensionless units with distinct roots, bare numbers; operations == != < <= > >= hash bool; "
            "non-trivial = distinct (a, b) in different units")
    PARTIAL = ["float registry order checks are numeric; NaN is outside the exact model"]

    def value_in(self, name):
        """(scale to root, offset) of a single unit through the independent reader"""
        P = regs.pools()
        f, b = P.proj.root({name.replace("delta_", ""): Fraction(1)}) if name.startswith("delta_") else P.proj.root({name: Fraction(1)})
        u = P.proj.unit_by_key[name.replace("delta_", "")] if name.startswith("delta_") else P.proj.unit_by_key[name]
        off = Fraction(0)
        if not name.startswith("delta_") and u["conv"] == "offset":
            off = u["modifiers"]["offset"]
        return f, off

    def cases(self):
        P = regs.pools()
        rng = self.rng
        out = []
        dims = [d for d, l in P.by_dim.items() if len([n for n in l if n in P.positive]) > 1]

        def mk(kind, a, b, auto=False):
            ops = [{"op": "q", "f": f, "a": a, "b": b, "auto": auto} for f in ("eq", "lt", "le", "gt", "ge")]
            ops.append({"op": "q", "f": "hash", "a": a, "auto": auto})
            if "u" in b:
                ops.append({"op": "q", "f": "hash", "a": b, "auto": auto})
            ops.append({"op": "q", "f": "bool", "a": a})
            self.bump(kind)
            return {"kind": kind, "a": a, "b": b, "auto": auto, "ops": ops}

        mags = [Fraction(0), Fraction(1), Fraction(-1), Fraction(5, 2), Fraction(100), Fraction(-7, 3)]
        n = 1200 if self.tier == "quick" else 10000
        for i in range(n):
            l = [x for x in P.by_dim[rng.choice(dims)] if x in P.positive]
            ua, ub = rng.choice(l), rng.choice(l)
            fa, fb = P.root[ua][0], P.root[ub][0]
            am = rng.choice(mags)
            r = rng.random()
            if r < 0.45:
                bm = am * fa / fb          # physically equal
                kind = "equal value"
            elif r < 0.7:
                bm = am * fa / fb + Fraction(rng.choice([1, -1]), 10 ** 12)
                kind = "near miss"
            elif r < 0.8:
                bm, am = Fraction(0), Fraction(0)
                kind = "both zero"
            else:
                bm = rng.choice(mags)
                kind = "random"
            out.append(mk(kind, {"m": frac_s(am), "u": [[ua, "1/1"]]}, {"m": frac_s(bm), "u": [[ub, "1/1"]]}))
        # cross dimension
        for i in range(150 if self.tier == "quick" else 1500):
            ua, ub = rng.choice(P.positive), rng.choice(P.positive)
            out.append(mk("random dims", {"m": frac_s(rng.choice(mags)), "u": [[ua, "1/1"]]},
                          {"m": frac_s(rng.choice(mags)), "u": [[ub, "1/1"]]}))
        # temperatures: offset vs absolute vs delta
        for i in range(400 if self.tier == "quick" else 3000):
            ua = rng.choice(TEMP)
            ub = rng.choice(TEMP + DELTA)
            sa, oa = self.value_in(ua)
            sb, ob = self.value_in(ub)
            am = rng.choice(mags + [Fraction(27315, 100), Fraction(-27315, 100), Fraction(32), Fraction(45967, 100)])
            if rng.random() < 0.6:
                bm = (am * sa + oa - ob) / sb
                kind = "temperature equal"
            else:
                bm = rng.choice(mags)
                kind = "temperature random"
            out.append(mk(kind, {"m": frac_s(am), "u": [[ua, "1/1"]]}, {"m": frac_s(bm), "u": [[ub, "1/1"]]},
                          auto=rng.random() < 0.3))
        # dimensionless units and bare numbers
        for i in range(300 if self.tier == "quick" else 3000):
            ua = rng.choice(DIMLESS)
            am = rng.choice(mags)
            fa = P.root[ua][0]
            if rng.random() < 0.5:
                ub = rng.choice(DIMLESS)
                bm = am * fa / P.root[ub][0] if rng.random() < 0.6 else rng.choice(mags)
                out.append(mk("dimensionless", {"m": frac_s(am), "u": [[ua, "1/1"]]}, {"m": frac_s(bm), "u": [[ub, "1/1"]]}))
            else:
                x = am * fa if rng.random() < 0.5 else rng.choice(mags)
                a_u = [[ua, "1/1"]] if rng.random() < 0.7 else [[rng.choice(P.positive), "1/1"]]
                out.append(mk("bare number", {"m": frac_s(am), "u": a_u}, {"num": frac_s(x)}))
        return out

    # ------------------------------------------------------------------ implementation
    def mkq(self, u, j, auto=False):
        return u.Quantity(Fraction(j["m"]), u.Unit(regs.pint_uc(u, j["u"], canonical=True)))

    def reg(self, auto):
        return regs.ureg("fraction", autoconvert_offset_to_baseunit=True) if auto else regs.ureg("fraction")

    def impl(self, c):
        import operator
        u = self.reg(c["auto"])
        a = self.mkq(u, c["a"])
        b = self.mkq(u, c["b"]) if "u" in c["b"] else (lambda x: int(x) if x.denominator == 1 else x)(Fraction(c["b"]["num"]))
        outs = []
        for f in (operator.eq, operator.lt, operator.le, operator.gt, operator.ge):
            outs.append(capture(lambda f=f: bool(f(a, b))))
        ha = capture(lambda: hash(a))
        outs.append(ha)
        if "u" in c["b"]:
            outs.append(capture(lambda: hash(b)))
        outs.append(capture(lambda: bool(a)))
        return outs

    def same(self, c, io, mo):
        # hashes: only the relation "equal hashes" is comparable
        n = 5
        for i in range(n):
            if mo[i].get("err") == "Inexact":
                continue
            if canon(io[i]) != canon(mo[i]):
                return False
        if "u" in c["b"]:
            ih = ("ok" in io[5] and "ok" in io[6] and io[5]["ok"] == io[6]["ok"])
            mh = ("ok" in mo[5] and "ok" in mo[6] and canon(mo[5]["ok"]) == canon(mo[6]["ok"]))
            if "ok" in io[5] and "ok" in io[6] and "ok" in mo[5] and "ok" in mo[6] and ih != mh:
                return False
            if ("err" in io[5]) != ("err" in mo[5]) and mo[5].get("err") != "Inexact":
                return False
        return canon(io[-1]) == canon(mo[-1])

    def nontrivial(self, c, io):
        if c["a"].get("u") != c["b"].get("u"):
            return canon([c["a"], c["b"]])
        return None

    # ------------------------------------------------------------------ oracle
    def phys(self, j):
        """(dimensionality, value in root units with offset applied) by the independent reader"""
        P = regs.pools()
        (name, e), = j["u"]
        f, off = self.value_in(name)
        base = name.replace("delta_", "") if name.startswith("delta_") else name
        dim = tuple(sorted(P.proj.dimensionality({base: Fraction(1)}).items()))
        return dim, Fraction(j["m"]) * f + off, f

    def fixed_probes(self):
        """quantities of different dimensionality are unequal also when an active context could convert one into the other"""
        v = []
        u = regs.fresh("float")
        for ctx, a, b in (("sp", (299792458.0, "meter"), (1.0, "hertz")), ("sp", (500.0, "nanometer"), (599.584916, "terahertz")),
                          ("boltzmann", (1.0, "kelvin"), (1.380649e-23, "joule"))):
            qa, qb = u.Quantity(*a), u.Quantity(*b)
            with u.context(ctx):
                try:
                    e1, e2 = bool(qa == qb), bool(qb == qa)
                except Exception as exc:  # noqa: BLE001
                    v.append(f"C05 inside the context {ctx!r}: {qa!r} == {qb!r} raised {type(exc).__name__}")
                    continue
            if e1 or e2:
                v.append(f"C05 inside the active context {ctx!r}: {qa!r} == {qb!r} is {e1} / {e2} although the dimensionalities differ "
                         f"(ordering them raises DimensionalityError, the hashes differ)")
            # ... and ordering them is refused inside the context exactly as outside it
            import operator as _op
            for name, op in (("<", _op.lt), ("<=", _op.le), (">", _op.gt), (">=", _op.ge)):
                for x_, y_ in ((qa, qb), (qb, qa)):
                    with u.context(ctx):
                        try:
                            got = ("ok", bool(op(x_, y_)))
                        except Exception as exc:  # noqa: BLE001
                            got = ("err", type(exc).__name__)
                    if got != ("err", "DimensionalityError"):
                        v.append(f"C05 inside the active context {ctx!r}: {x_!r} {name} {y_!r} gives {got}; quantities of different dimensionality "
                                 f"are not ordered (DimensionalityError)")
        # two quantities in the SAME unit are ordered like their magnitudes, however close (no detour through another unit)
        import math
        for unit in ("inch", "percent", "mile", "pound", "hour", "degree"):
            for x, y in ((630.5737240698489, math.nextafter(630.5737240698489, math.inf)), (2 ** 53, 2 ** 53 + 1), (0.1, math.nextafter(0.1, 1.0))):
                qa, qb = u.Quantity(x, unit), u.Quantity(y, unit)
                got = (bool(qa < qb), bool(qa == qb), bool(qa > qb), bool(qa <= qb), bool(qa >= qb))
                if got != (True, False, False, True, False):
                    v.append(f"C05 {qa!r} vs {qb!r} (same unit, magnitudes {x!r} < {y!r}): (<, ==, >, <=, >=) = {got}")
        # ordering two Unit objects is ordering the quantities 1 * unit: the same answer, or the same DimensionalityError
        import operator
        names = ["meter", "kilometer", "inch", "second", "hour", "hertz", "gram", "pound", "newton", "joule", "liter", "radian", "percent"]
        for na in names:
            for nb in names:
                for opn, op in (("<", operator.lt), ("<=", operator.le), (">", operator.gt), (">=", operator.ge)):
                    def run(f):
                        try:
                            return ("ok", bool(f()))
                        except Exception as exc:  # noqa: BLE001
                            return ("err", type(exc).__name__)
                    got = run(lambda: op(getattr(u, na), getattr(u, nb)))
                    want = run(lambda: op(u.Quantity(1, na), u.Quantity(1, nb)))
                    if got != want:
                        v.append(f"C05 Unit({na}) {opn} Unit({nb}) gives {got}, the quantities 1 {na} {opn} 1 {nb} give {want}")
                        break
            if len(v) > 10:
                break
        # equal quantities have equal hashes - also when one of them was hashed before the registry's state changed (default
        # system switched, a context with a unit redefinition entered or left)
        import pint
        r = regs.fresh("float")
        ctx = pint.Context("c05half")
        ctx.redefine("pound = 0.5 * kilogram")
        r.add_context(ctx)
        old = [r.Quantity(1, "meter"), r.Quantity(100, "centimeter"), r.Quantity(2, "pound"), r.Quantity(1, "inch")]
        for q in old:
            hash(q)

        def pairs_now(label):
            for q in old:
                twin = r.Quantity(q.magnitude, q.units)
                try:
                    if q == twin and hash(q) != hash(twin):
                        v.append(f"C05 {label}: {q!r} (hashed earlier) == {twin!r} (built now) but their hashes differ")
                except Exception as exc:  # noqa: BLE001
                    v.append(f"C05 {label}: comparing / hashing {q!r} raised {type(exc).__name__}")
        for system in ("cgs", "imperial", "mks"):
            r.default_system = system
            pairs_now(f"after default_system = {system!r}")
        with r.context("c05half"):
            pairs_now("inside a context that redefines pound")
            inside = r.Quantity(2, "pound")
            hash(inside)
            if inside == r.Quantity(1, "kilogram") and hash(inside) != hash(r.Quantity(1, "kilogram")):
                v.append("C05 inside the context (pound = 0.5 kg): 2 pound == 1 kilogram but the hashes differ")
        pairs_now("after leaving the context")
        twin = r.Quantity(2, "pound")
        if inside == twin and hash(inside) != hash(twin):
            v.append("C05 after leaving the context: 2 pound hashed inside the context == 2 pound built now but the hashes differ")
        # ... and when read-only questions about OTHER unit systems were put to the registry before (base units under an explicitly
        # named system): equal quantities written in different units still hash alike and find each other in sets / dict keys
        from fractions import Fraction as Fr
        for tname, mk in (("fraction", Fr), ("float", float)):
            for sysname in ("cgs", "imperial", "US", "mks"):
                r = regs.fresh(tname)
                prs = [(("inch", Fr(1)), ("centimeter", Fr(127, 50))), (("pound", Fr(1)), ("gram", Fr(45359237, 100000))),
                       (("hour", Fr(1)), ("second", Fr(3600))), (("yard", Fr(1)), ("foot", Fr(3)))]
                if tname == "float":
                    prs = [prs[2]]      # exactly representable factors only: float rounding is not what is probed
                for (ua, _), (ub, _) in prs:
                    try:
                        r.get_base_units(ua, system=sysname)       # asked for ONE unit of each pair only
                    except Exception:  # noqa: BLE001
                        pass
                for (ua, ma), (ub, mb) in prs:
                    a_, b_ = r.Quantity(mk(ma), ua), r.Quantity(mk(mb), ub)
                    try:
                        if a_ == b_ and (hash(a_) != hash(b_) or b_ not in {a_}):
                            v.append(f"C05 after get_base_units(..., system={sysname!r}) ({tname} registry): {a_!r} == {b_!r} but the hashes differ / "
                                     f"one is not found in a set holding the other")
                    except Exception as exc:  # noqa: BLE001
                        v.append(f"C05 after get_base_units(..., system={sysname!r}): comparing / hashing {a_!r} and {b_!r} raised {type(exc).__name__}")
        return v[:12]

    def oracle(self, c):
        import operator
        v = []
        if not getattr(self, "_fixed_done", False):
            self._fixed_done = True
            v += self.fixed_probes()
        if "u" not in c["b"]:
            return self.oracle_number(c)
        if len(c["a"]["u"]) != 1 or len(c["b"]["u"]) != 1:
            return v
        u = self.reg(c["auto"])
        a, b = self.mkq(u, c["a"]), self.mkq(u, c["b"])
        da, va, fa = self.phys(c["a"])
        db, vb, fb = self.phys(c["b"])
        tag = f"C05 a={a!r} b={b!r}"
        mixing = (c["a"]["u"][0][0].startswith("delta_") != c["b"]["u"][0][0].startswith("delta_")) and \
                 (c["a"]["u"][0][0] in TEMP[1:] or c["b"]["u"][0][0] in TEMP[1:])
        try:
            eq = bool(a == b)
        except Exception as exc:  # noqa: BLE001
            return [f"{tag}: == raised {type(exc).__name__}: {exc}"]
        want = (da == db and va == vb)
        if not mixing and eq != want:
            v.append(f"{tag}: == gives {eq} but physically {'equal' if want else 'different'} "
                     f"(values in root units {va} vs {vb}, dims equal: {da == db})")
        if bool(b == a) != eq:
            v.append(f"{tag}: == is not symmetric")
        if not bool(a == a):
            v.append(f"{tag}: == is not reflexive")
        if eq:
            try:
                if hash(a) != hash(b):
                    v.append(f"{tag}: equal quantities hash differently")
            except Exception as exc:  # noqa: BLE001
                v.append(f"{tag}: hash raised {type(exc).__name__}: {exc}")
        # ordering
        if da != db:
            for f in (operator.lt, operator.ge):
                try:
                    f(a, b)
                    v.append(f"{tag}: ordering across dimensions returned a value")
                except Exception as exc:  # noqa: BLE001
                    if type(exc).__name__ != "DimensionalityError":
                        v.append(f"{tag}: ordering across dimensions raised {type(exc).__name__}")
        elif fa > 0 and fb > 0 and not mixing:
            try:
                lt, gt = bool(a < b), bool(a > b)
                if [lt, eq, gt].count(True) != 1:
                    v.append(f"{tag}: trichotomy fails: < {lt}, == {eq}, > {gt}")
                if lt != (va < vb) or gt != (va > vb):
                    v.append(f"{tag}: order disagrees with the base-unit magnitudes {va} vs {vb}: < {lt}, > {gt}")
                if bool(a <= b) != (va <= vb) or bool(a >= b) != (va >= vb):
                    v.append(f"{tag}: <= / >= disagree with the base-unit magnitudes")
            except Exception as exc:  # noqa: BLE001
                v.append(f"{tag}: ordering of comparable quantities raised {type(exc).__name__}: {exc}")
            # the same comparison with int / float magnitudes (other code paths), when the values are clearly apart
            if va != vb and abs(va - vb) > Fraction(1, 10 ** 6) * max(abs(va), abs(vb)):
                for conv_ in (float, int):
                    ma, mb = Fraction(c["a"]["m"]), Fraction(c["b"]["m"])
                    if conv_ is int and (ma.denominator != 1 or mb.denominator != 1):
                        continue
                    try:
                        af, bf = u.Quantity(conv_(ma), a.units), u.Quantity(conv_(mb), b.units)
                        res = (bool(af < bf), bool(af > bf), bool(af <= bf), bool(af >= bf), bool(af == bf))
                        want_ = (va < vb, va > vb, va <= vb, va >= vb, False)
                        if res != want_:
                            v.append(f"{tag}: with {conv_.__name__} magnitudes (<, >, <=, >=, ==) = {res}, the base-unit magnitudes "
                                     f"{float(va)} vs {float(vb)} give {want_}")
                    except Exception as exc:  # noqa: BLE001
                        v.append(f"{tag}: comparison with {conv_.__name__} magnitudes raised {type(exc).__name__}: {exc}")
        # transitivity through a third spelling of a
        if eq and not mixing:
            P = regs.pools()
            name = c["a"]["u"][0][0]
            if name in P.positive:
                d = tuple(sorted(P.proj.dimensionality({name: Fraction(1)}).items()))
                alt = self.rng.choice([x for x in P.by_dim[d] if x in P.positive])
                cq = u.Quantity(Fraction(c["a"]["m"]) * fa / P.root[alt][0], u.Unit(u.UnitsContainer({alt: 1})))
                if not (bool(a == cq) and bool(b == cq)):
                    v.append(f"{tag}: == is not transitive through {cq!r}")
        return v

    def oracle_number(self, c):
        v = []
        u = self.reg(c["auto"])
        a = self.mkq(u, c["a"])
        x = Fraction(c["b"]["num"])
        x = int(x) if x.denominator == 1 else x
        tag = f"C05 a={a!r} number={x}"
        if len(c["a"]["u"]) != 1:
            return v
        da, va, fa = self.phys(c["a"])
        if not da:      # dimensionless
            if bool(a == x) != (va == x):
                v.append(f"{tag}: == gives {bool(a == x)} but the dimensionless value is {va}")
            if fa > 0 and bool(a < x) != (va < x):
                v.append(f"{tag}: < disagrees with the dimensionless value {va}")
        elif x != 0:
            if bool(a == x):
                v.append(f"{tag}: a dimensional quantity compares equal to a non-zero number")
            try:
                a < x
                v.append(f"{tag}: ordering a dimensional quantity against a non-zero number returned a value")
            except Exception as exc:  # noqa: BLE001
                if type(exc).__name__ not in ("ValueError", "DimensionalityError"):
                    v.append(f"{tag}: raised {type(exc).__name__}")
        return v
