"""C09 — every textual format denotes the unit exactly; plain-text formats round-trip."""
from __future__ import annotations
import logging

import random

import re
from decimal import Decimal
from fractions import Fraction

from . import regs
from .core import Property, capture, frac_s, canon, err_name

SPECS = ["", "D", "C", "P", "H", "L"]
SUP = str.maketrans("⁰¹²³⁴⁵⁶⁷⁸⁹⁻⋅", "0123456789-.")


def read_plain(s, product, division, power):
    """independent reader of 'a <p> b <d> c <pow> 2 <d> d' renderings -> {name: exponent}"""
    out = {}
    if s in ("", "dimensionless"):
        return out
    PW = "\x00"
    s = s.replace(power, PW)
    parts = s.split(division)
    for i, part in enumerate(parts):
        sign = 1 if i == 0 else -1
        for term in part.split(product):
            term = term.strip().strip("()")
            if term in ("1", ""):
                continue
            if PW in term:
                name, e = term.split(PW)
                e = Fraction(e.strip())
            else:
                name, e = term, Fraction(1)
            name = name.strip()
            out[name] = out.get(name, Fraction(0)) + sign * e
    return out


def read_pretty(s):
    out = {}
    if s in ("", "dimensionless"):
        return out
    parts = s.split("/")
    for i, part in enumerate(parts):
        sign = 1 if i == 0 else -1
        for term in part.split("·"):
            if term in ("1", ""):
                continue
            m = re.match(r"^(.*?)([⁰¹²³⁴⁵⁶⁷⁸⁹⁻⋅]*)$", term)
            name, e = m.group(1), m.group(2)
            ev = Fraction(e.translate(SUP)) if e else Fraction(1)
            out[name] = out.get(name, Fraction(0)) + sign * ev
    return out


def read_html(s):
    out = {}
    if s in ("", "dimensionless"):
        return out
    s = s.replace("</sup>", "<E>")
    num, _, den = s.partition("/")
    for sign, part in ((1, num), (-1, den)):
        part = part.strip()
        if part.startswith("(") and part.endswith(")"):
            part = part[1:-1]
        for term in part.split(" "):
            if term in ("1", ""):
                continue
            m = re.match(r"^(.*?)(?:<sup>(.*)<E>)?$", term)
            out[m.group(1)] = out.get(m.group(1), Fraction(0)) + sign * (Fraction(m.group(2)) if m.group(2) else Fraction(1))
    return out


def read_latex(s):
    out = {}
    if s in ("", r"\mathrm{dimensionless}"):
        return out
    m = re.match(r"^\\frac\{(.*)\}\{(.*)\}$", s)
    if m:
        # split at the matching brace of the first group
        depth, i = 0, len("\\frac")
        start = i
        for j in range(i, len(s)):
            if s[j] == "{":
                depth += 1
            elif s[j] == "}":
                depth -= 1
                if depth == 0:
                    num, den = s[start + 1:j], s[j + 2:-1]
                    break
    else:
        num, den = s, ""
    for sign, part in ((1, num), (-1, den)):
        part = part.strip()
        if part.startswith("\\left(") and part.endswith("\\right)"):
            part = part[len("\\left("):-len("\\right)")]
        for term in part.split(" \\cdot "):
            if term in ("1", ""):
                continue
            mm = re.match(r"^\\mathrm\{(.*?)\}(?:\^\{(.*)\})?$", term)
            if not mm:
                raise ValueError(f"cannot read latex term {term!r}")
            name = mm.group(1).replace("\\_", "_").replace("\\%", "%").replace("\\textasciicircum ", "^")
            out[name] = out.get(name, Fraction(0)) + sign * (Fraction(mm.group(2)) if mm.group(2) else Fraction(1))
    return out


def read_siunitx(s, names):
    """{unit: exponent} of a \\si[]{...} rendering; `names` = the long names that may occur (prefix macros are joined to them).
    None when the rendering uses something this reader does not know."""
    import re
    m = re.fullmatch(r"\\si\[\]\{(.*)\}", s)
    if not m:
        return None
    out, acc, per = {}, "", False
    last = None
    for macro, arg in re.findall(r"\\([A-Za-z_0-9]+)(?:\{([^}]*)\})?", m.group(1)):
        if macro == "per":
            if acc:
                return None
            per = True
        elif macro in ("squared", "cubed", "tothe"):
            if last is None or acc:
                return None
            e = {"squared": Fraction(2), "cubed": Fraction(3)}.get(macro) or Fraction(arg)
            out[last] = out[last] * e
        else:
            acc += macro
            if acc in names:
                out[acc] = out.get(acc, Fraction(0)) + (Fraction(-1) if per else Fraction(1))
                last, acc, per = acc, "", False
    if acc:
        return None
    return out


class Check(Property):
    ID = "C09"
    PROPS_FILE = "PintModel/Props/C09.lean"
    MODULE = "PintModel.Props.C09Denote"
    EXTRA_PROPS_FILES = ["PintModel/Props/C09Denote.lean"]
    EXTRA_LEAN_FILES = ["PintModel/Proofs/FormatDenoteLemmas.lean"]
    RULE = ("every canonical unit x spec in {'', D, C, P, H, L} x {'', ~} (exhaustive) and random compound units "
            "(1-5 factors, integer and decimal-fraction exponents) rendered string-exactly by the model; "
            "split_format on generated specs; oracle: parse-back of the plain formats, independent readers for "
            "pretty/HTML/LaTeX, Quantity(str(q)) == q for int/float/Fraction/Decimal magnitudes, formatting never "
            "fails nor alters; non-trivial = distinct (unit, spec) with at least two factors or an exponent != 1")
    PARTIAL = ["magnitude text is Python's format(): runtime; siunitx (Lx) and raw are checked by the oracle only",
               "locale (babel) rendering is not modelled"]

    def cases(self):
        P = regs.pools()
        rng = self.rng
        out = []

        def mk(kind, items, spec, tname="float"):
            u = [[k, frac_s(v)] for k, v in items.items()]
            self.bump(kind)
            self.bump("spec." + (spec or "''"))
            return {"kind": kind, "u": u, "spec": spec, "t": tname,
                    "ops": [{"op": "format", "f": "unit", "u": u, "spec": spec}]}
        names = [u["name"] for u in P.proj.units]
        for n in names:
            for sp in SPECS:
                for short in ("", "~"):
                    if self.tier == "quick" and rng.random() < 0.6:
                        continue
                    out.append(mk("canonical", {n: Fraction(1)}, short + sp))
        exps = [1, 1, 2, 3, -1, -2, -3, Fraction(1, 2), Fraction(-1, 2), Fraction(3, 2), Fraction(1, 4), Fraction(-5, 2)]
        for _ in range(2500 if self.tier == "quick" else 25000):
            k = rng.randint(1, 5)
            items = {}
            for n in rng.sample(names, k):
                if rng.random() < 0.25 and P.proj.unit_by_key[n]["conv"] == "scale":
                    n = rng.choice(["kilo", "milli", "micro", "mega"]) + n
                    if n in P.proj.unit_by_key:
                        continue
                items[n] = Fraction(rng.choice(exps))
            if not items:
                continue
            out.append(mk("compound", items, rng.choice(["", "~"]) + rng.choice(SPECS),
                          tname=rng.choice(["float", "float", "fraction", "decimal"])))
        out.append(mk("dimensionless", {}, ""))
        out.append(mk("dimensionless", {}, "~P"))
        # magnitude + unit joining (join_mu) on real unit renderings, negative-only exponents included
        for _ in range(600 if self.tier == "quick" else 6000):
            k = rng.randint(1, 3)
            neg_only = rng.random() < 0.5
            items = {n: Fraction(rng.choice([-1, -2, -1]) if neg_only else rng.choice([1, 2, -1, -2])) for n in rng.sample(names, k)}
            spec = rng.choice(["", "~"]) + rng.choice(["D", "C", "P", "H", ""])
            c = mk("join", items, spec)
            uu = regs.ureg("float")
            try:
                ustr = format(uu.Unit(regs.pint_uc(uu, c["u"], "float", canonical=True)), spec)
            except Exception:  # noqa: BLE001
                continue
            c["m"] = rng.choice(["3", "2.5", "-1", "1e-05"])
            c["ustr"] = ustr
            c["ops"] = [{"op": "format", "f": "join_mu", "joint": "{} {}", "m": c["m"], "u": ustr}]
            out.append(c)
        # split_format
        mspecs = ["", ".3f", "e", "g", "n", ".2e", "08.3f", "+.1f", "d", ",.2f", "#.3g"]
        flags = ["", "D", "C", "P", "H", "L", "Lx", "~", "~P", "~C", "~L", "#~P", "~#D"]
        for _ in range(400 if self.tier == "quick" else 4000):
            spec = rng.choice(mspecs) + rng.choice(flags)
            if rng.random() < 0.3:
                spec = rng.choice(flags) + rng.choice(mspecs)
            dflt = rng.choice(["", ".3f~P", "~", "C", ".2e"])
            sep = rng.choice([True, False, None])
            self.bump("split_format")
            out.append({"kind": "split", "spec": spec, "default": dflt, "sep": sep,
                        "ops": [{"op": "format", "f": "split", "spec": spec, "default": dflt, "separate": sep}]})
        return out

    # ------------------------------------------------------------------ implementation
    def unit(self, c):
        u = regs.ureg(c["t"])
        return u, u.Unit(regs.pint_uc(u, c["u"], c["t"], canonical=True))

    def impl(self, c):
        if c["kind"] == "split":
            import warnings
            from pint.delegates.formatter._spec_helpers import split_format

            def run():
                with warnings.catch_warnings():
                    warnings.simplefilter("ignore")
                    return list(split_format(c["spec"], c["default"], c["sep"]))
            return [capture(run)]
        if c["kind"] == "join":
            from pint.delegates.formatter._format_helpers import join_mu
            return [capture(lambda: join_mu("{} {}", c["m"], c["ustr"]))]
        u, un = self.unit(c)
        return [capture(lambda: format(un, c["spec"]))]

    def same(self, c, io, mo):
        if mo and mo[0].get("err") == "Inexact":
            self.bump("inexact exponent text (not compared)")
            return "ok" in io[0]
        return canon(io) == canon(mo)

    _coll = []

    def known_collisions(self):
        if not self._coll:
            from .core import load_known
            s_ = set()
            for k in load_known():
                if k.get("id") == "F9":
                    s_ |= {tuple(x) for x in k.get("inputs", [])}
            self._coll.append(s_)
        return self._coll[0]

    def nontrivial(self, c, io):
        if c["kind"] == "split":
            return canon([c["spec"], c["default"], c["sep"]])
        if len(c["u"]) > 1 or (c["u"] and c["u"][0][1] != "1/1"):
            return canon([c["u"], c["spec"]])
        return None

    # ------------------------------------------------------------------ oracle
    SUP = str.maketrans("⁰¹²³⁴⁵⁶⁷⁸⁹⁻⁺", "0123456789-+")

    def magnitude_oracle(self, u, un, spec, key, unit_text, tag):
        import re
        import numpy as np
        v = []
        rng = random.Random(hash((spec, unit_text)) & 0xFFFFFFFF)
        mspec = rng.choice([".2e", ".3e", ".3g", ".1f", "e", ".4g"])
        e1, e2 = rng.sample([10, 20, -5, 3, -12, 0, 7], 2)
        vals = [rng.choice([1.0, 2.0, 1.5, -2.5, 7.25]) * 10.0 ** e1, rng.choice([2.0, 3.0, -1.5, 6.5]) * 10.0 ** e2]
        for m in (vals[0], np.array(vals), np.array([vals[1], vals[0], 1.0]), np.array([1, 2, 1500]), np.array([-7, 40], dtype=np.int64)):
            q = u.Quantity(m, un)
            try:
                fq = format(q, mspec + spec)
            except Exception as exc:  # noqa: BLE001
                v.append(f"{tag}: formatting {q!r} with {mspec + spec!r} raised {type(exc).__name__}: {exc}")
                continue
            tail = unit_text[2:] if unit_text.startswith("1 / ") else unit_text
            if key == "H" and "<pre>" in fq:
                txt = fq[fq.index("<pre>") + 5: fq.index("</pre>")]        # arrays are laid out as a table
            elif not fq.endswith(tail):
                continue
            else:
                txt = fq[: len(fq) - len(tail)]
            txt = re.sub(r"×10<sup>([-+]?\d+)</sup>", r"e\1", txt)
            txt = re.sub(r"\\times 10\^\{([-+]?\d+)\}", r"e\1", txt)
            txt = re.sub(r"×10([⁰¹²³⁴⁵⁶⁷⁸⁹⁻⁺]+)", lambda mm: "e" + mm.group(1).translate(self.SUP), txt)
            txt = re.sub(r"<[^>]*>", " ", txt)
            got = [float(x) for x in re.findall(r"[-+]?(?:\d+\.?\d*|\.\d+)(?:e[-+]?\d+)?", txt)]
            want = [float(format(float(x), mspec)) for x in np.atleast_1d(m)]
            if got != want:
                v.append(f"{tag}: magnitude {m!r} with the numeric format {mspec!r} renders as {fq!r}, which reads as {got}; "
                         f"Python's format gives {want}")
        return v

    def default_format_probe(self):
        """a format taken from the registry's default_format means what the same text means when written in the call:
        str(q), f"{q}" and format(q, "") equal format(q, default) - including the compact modifier #"""
        v = []
        for default in ("#~P", "#.3f~P", "#C", "#~", "~P", ".2f~", "#.2f", "C", "~L", "#~H"):
            r = regs.fresh("float")
            r.formatter.default_format = default
            for x, un in ((1500.0, "meter"), (2.5e-7, "second"), (0.02, "kilogram"), (3.0e6, "gram")):
                q = r.Quantity(x, un)
                try:
                    want = format(q, default)
                    got = (str(q), f"{q}", format(q, ""))
                except Exception as exc:  # noqa: BLE001
                    v.append(f"C09 default_format = {default!r}: formatting {x} {un} raised {type(exc).__name__}: {exc}")
                    continue
                if any(g != want for g in got):
                    v.append(f"C09 default_format = {default!r}: str / f-string / format(q, '') of {x} {un} give {got}, format(q, {default!r}) gives {want!r}")
        return v[:6]

    def small_exponent_probe(self):
        """plain-text formats round-trip: non-integral exponents written with up to six significant digits parse back to the
        same unit, whatever their size (0.5, 1.5, 0.0625, 0.0123456, 0.000271828 ...) - long and short names, with a magnitude"""
        v = []
        r = regs.ureg("float")
        exps = [0.5, 1.5, 2.25, 0.0625, 0.0123456, 0.00123456, 0.0833333, 0.000271828, -0.0123456, 0.333333, 12.3456, 0.1, 0.015625]
        for e in exps:
            for base, other in (("meter", None), ("meter", "second"), ("kilogram", "kelvin")):
                un = r.meter ** e if base == "meter" else r.kilogram ** e
                if other:
                    un = un / getattr(r, other)
                for spec in ("", "D", "C", "~", "~C"):
                    try:
                        text = format(un, spec)
                        back = r.parse_units(text)
                        qtext = format(r.Quantity(2.5, un), spec)
                        qback = r.Quantity(qtext)
                        ok = back == un and qback.units == un and qback.magnitude == 2.5
                    except Exception as exc:  # noqa: BLE001
                        ok, text = False, f"{type(exc).__name__}: {exc}"
                    if not ok:
                        v.append(f"C09 format({dict(un._units)}, {spec!r}) = {text!r} does not parse back to the unit")
                        break
        return v[:6]

    def symbol_source_probe(self):
        """the ~ formats write the symbol the unit has in THIS registry NOW: two registries that give one name different symbols,
        and a unit defined again with another symbol, each render their own current symbol (in every style)"""
        v = []
        logging.disable(logging.CRITICAL)
        try:
            lab, shop = regs.fresh("float"), regs.fresh("float")
            lab.define("smoot09 = 1.7018 * meter = smt")
            lab.define("jiffy09 = 0.01 * second = jf")
            shop.define("smoot09 = 1.7018 * meter = sm9")
            shop.define("jiffy09 = 0.01 * second = jy")
            for spec in ("~", "~D", "~C", "~P", "~H", "~L"):
                for order in ((lab, shop), (shop, lab), (lab, shop)):
                    for r in order:
                        text = format(r.Quantity(3, "smoot09 / jiffy09").units, spec)
                        s1, s2 = r.get_symbol("smoot09"), r.get_symbol("jiffy09")
                        if s1 not in text or s2 not in text:
                            v.append(f"C09 format(smoot09 / jiffy09, {spec!r}) = {text!r} in the registry whose symbols are {s1!r} and {s2!r}")
            one = regs.fresh("float")
            one.define("parcel09 = [] = pcl")
            a = format(one.Quantity(2, "parcel09"), "~")
            one.define("parcel09 = [] = pc9")
            b = format(one.Quantity(2, "parcel09"), "~")
            if not a.endswith("pcl") or not b.endswith("pc9"):
                v.append(f"C09 parcel09 defined with the symbol pcl renders {a!r}; defined again with the symbol pc9 it renders {b!r}")
        except Exception as exc:  # noqa: BLE001
            v.append(f"C09 symbol-source probe raised {type(exc).__name__}: {exc}")
        finally:
            logging.disable(logging.NOTSET)
        return v[:6]

    def compact_modifier_probe(self):
        """the # modifier names the compacted unit with the prefixes of the quantity's OWN registry: a registry written from scratch
        with other prefix names, formatted after the bundled registry has used # (and the other way round), renders its own names and
        the text parses back to an equal quantity"""
        import pint
        v = []
        try:
            for first in ("bundled", "own"):
                a = pint.UnitRegistry()
                b = pint.UnitRegistry(None)
                for line in ("thousand- = 1e3 = k-", "thousandth- = 1e-3 = m-", "million- = 1e6 = M-", "meter = [length] = m", "second = [time] = s"):
                    b.define(line)
                order = [("bundled", a, "kilometer / second", "km / s", "millimeter"), ("own", b, "thousandmeter / second", "km / s", "thousandthmeter")]
                if first == "own":
                    order.reverse()
                for label, r, long_, short_, small in order:
                    q = r.Quantity(1500, "meter / second")
                    for spec, want in (("#", "1.5 " + long_), ("#~", "1.5 " + short_), (".2f#", "1.50 " + long_)):
                        try:
                            got = format(q, spec)
                        except Exception as exc:  # noqa: BLE001
                            got = type(exc).__name__ + ": " + str(exc)
                        if got != want:
                            v.append(f"C09 format(1500 meter / second, {spec!r}) in the {label} registry ({first} registry formatted first) = {got!r}, "
                                     f"expected {want!r}")
                        else:
                            try:
                                if r.Quantity(got) != q:
                                    v.append(f"C09 {got!r} ({label} registry, spec {spec!r}) does not parse back to 1500 meter / second")
                            except Exception as exc:  # noqa: BLE001
                                v.append(f"C09 {got!r} ({label} registry, spec {spec!r}) does not parse back: {type(exc).__name__}")
                    try:
                        got = format(r.Quantity(0.0025, "meter"), ".2f#")
                    except Exception as exc:  # noqa: BLE001
                        got = type(exc).__name__ + ": " + str(exc)
                    if got != "2.50 " + small:
                        v.append(f"C09 format(0.0025 meter, '.2f#') in the {label} registry = {got!r}, expected {'2.50 ' + small!r}")
        except Exception as exc:  # noqa: BLE001
            v.append(f"C09 compact-modifier probe raised {type(exc).__name__}: {exc}")
        return v[:6]

    def oracle(self, c):
        if not getattr(self, "_symsrc_done", False):
            self._symsrc_done = True
            sv = self.symbol_source_probe() + self.small_exponent_probe() + self.default_format_probe() + self.compact_modifier_probe()
            if sv:
                return sv
        if c["kind"] == "split":
            return []
        v = []
        u, un = self.unit(c)
        spec = c["spec"]
        before = dict(un._units)
        tag = f"C09 format({dict(before)!r}, {spec!r}) [{c['t']}]"
        outs = {}
        for sp in {spec, "~" + spec.replace("~", ""), spec.replace("~", ""), "Lx", "raw", "~Lx"}:
            try:
                outs[sp] = format(un, sp)
            except Exception as exc:  # noqa: BLE001
                v.append(f"{tag}: formatting with {sp!r} raised {type(exc).__name__}: {exc}")
        if dict(un._units) != before:
            v.append(f"{tag}: formatting altered the unit")
        if spec not in outs:
            return v
        s = outs[spec]
        short = "~" in spec
        want = {}
        for k, e in before.items():
            disp = u._get_symbol(k) if short else k
            want[disp] = want.get(disp, Fraction(0)) + regs.to_frac(e)
        exact = all(Fraction(str(float(e))) == e if e.denominator != 1 else True for e in want.values())
        key = next((k for k in ["raw", "D", "H", "P", "Lx", "L", "C"] if k in spec), "D")
        try:
            if key == "D":
                got = read_plain(s, " * ", " / ", " ** ")
            elif key == "C":
                got = read_plain(s, "*", "/", "**")
            elif key == "P":
                got = read_pretty(s)
            elif key == "H":
                got = read_html(s)
            else:
                got = read_latex(s)
            if len(set(want)) == len(before) and got != {k: x for k, x in want.items()}:
                v.append(f"{tag}: {s!r} reads as {got}, the unit is {want}")
        except Exception as exc:  # noqa: BLE001
            v.append(f"{tag}: rendering {s!r} is not readable: {type(exc).__name__}: {exc}")
        # the siunitx rendering, read with siunitx's default semantics (\\per inverts the NEXT unit only)
        lx = outs.get("Lx")
        if lx is not None and before and len(set(before)) == len(before):
            try:
                got_lx = read_siunitx(lx, set(before))
                want_lx = {k: regs.to_frac(e) for k, e in before.items()}
                if got_lx is None:
                    split = [k for k in before if "\\" + k not in lx]
                    if split:
                        v.append(f"{tag}: [known finding F57] the siunitx rendering {lx!r} does not spell {split[0]!r} (a leading "
                                 f"prefix-like part of the name is turned into a prefix macro and the rest is not a unit macro)")
                elif {k: round(float(x), 3) for k, x in got_lx.items()} != {k: round(float(x), 3) for k, x in want_lx.items()}:
                    v.append(f"{tag}: the siunitx rendering {lx!r} reads as {got_lx}, the unit is {want_lx}")
            except Exception as exc:  # noqa: BLE001
                v.append(f"{tag}: siunitx rendering {lx!r} is not readable: {type(exc).__name__}: {exc}")
        # plain-text formats parse back to an equal unit (long names; symbols when they resolve back)
        all_mult = all(u._units[k].is_multiplicative for k in before)
        simple = len(before) == 1 and all(regs.to_frac(e) == 1 for e in before.values())
        ints = all(regs.to_frac(e).denominator == 1 for e in before.values())
        # fractional exponents round-trip in the default and compact formats only; offset/log units in a
        # compound expression are read back as their delta counterparts by design (C08)
        if key in ("D", "C", "P") and exact and before and (ints or key != "P") and (all_mult or simple):
            known = ""
            if short:
                coll = self.known_collisions()
                hit = [k for k in before if (k, u._get_symbol(k)) in coll]
                if hit:
                    known = f" [known symbol collision F9] ({hit[0]} -> {u._get_symbol(hit[0])!r})"
            if all(k.isidentifier() and k.isascii() for k in want):
                try:
                    back = u.parse_units(s)
                    if back != un:
                        # physically the same unit spelled through an alias (fm = fermi = femtometer) is an equal unit
                        q1, q2 = u.Quantity(1, un), u.Quantity(1, back)
                        same = False
                        try:
                            same = q1.dimensionality == q2.dimensionality and q1.to(back).magnitude == 1
                        except Exception:  # noqa: BLE001
                            pass
                        if not same:
                            v.append(f"{tag}: {s!r} parses back to {back!r}{known}")
                except Exception as exc:  # noqa: BLE001
                    v.append(f"{tag}: {s!r} does not parse back: {type(exc).__name__}: {exc}{known}")
        # a quantity renders as its magnitude followed by the whole unit rendering (a leading "1" of "1 / x" may go)
        if key in ("D", "C", "P", "H") and before:
            for m in (3, 2.5):
                q = u.Quantity(m, un)
                try:
                    fq = format(q, spec)
                except Exception as exc:  # noqa: BLE001
                    v.append(f"{tag}: formatting the quantity {q!r} raised {type(exc).__name__}: {exc}")
                    continue
                tail = s[2:] if s.startswith("1 / ") else s
                if not (fq.endswith(" " + tail) and fq.startswith(str(m))):
                    v.append(f"{tag}: quantity {m} renders as {fq!r}, the unit alone as {s!r}")
                elif key in ("D", "C") and exact and all_mult and (not short) and all(k.isidentifier() and k.isascii() for k in want):
                    try:
                        q2 = u.Quantity(fq)
                        if not (q2.units == q.units and q2.magnitude == q.magnitude):
                            v.append(f"{tag}: {fq!r} parses back to {q2!r}, not {q!r}")
                    except Exception as exc:  # noqa: BLE001
                        v.append(f"{tag}: {fq!r} does not parse back: {type(exc).__name__}: {exc}")
        # the magnitude is rendered in the requested numeric format: scalars and arrays, every notation read back
        if c["t"] == "float" and key in ("D", "C", "P", "H", "L") and before:
            v += self.magnitude_oracle(u, un, spec, key, s, tag)
        # str(q) round trip
        mult = all(u._units[k].is_multiplicative for k in before)   # "3 degC" is a refused product by design (C06)
        if key == "D" and not short and spec == "" and before and mult and all(k.isidentifier() and k.isascii() for k in before) and exact:
            T = {"float": float, "fraction": Fraction, "decimal": Decimal}[c["t"]]
            for m in (3, T("2.5") if T is not Fraction else Fraction(5, 2), T(-1) / T(8)):
                q = u.Quantity(m, un)
                try:
                    q2 = u.Quantity(str(q))
                    if not (q2 == q and q2.units == q.units):
                        v.append(f"{tag}: Quantity(str(q)) = {q2!r} differs from {q!r}")
                except Exception as exc:  # noqa: BLE001
                    v.append(f"{tag}: str(q) = {str(q)!r} does not parse back: {type(exc).__name__}: {exc}")
        return v
