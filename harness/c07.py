"""C07 — string expressions evaluate like ordinary arithmetic on quantities."""
from __future__ import annotations

import itertools
import json
import operator
import os
import sys
import token as tokenlib
from decimal import Decimal
from fractions import Fraction

from . import regs, core
from .core import Property, capture, frac_s, canon, err_name, BUILD

# Python precedence levels for rendering
PREC = {"+": 1, "-": 1, "*": 2, "/": 2, "//": 2, "%": 2, "": 2, "neg": 3, "**": 4}
BIN = ["+", "-", "*", "/", "//", "**", ""]
PYOP = {"+": operator.add, "-": operator.sub, "*": operator.mul, "": operator.mul, "/": operator.truediv,
        "//": operator.floordiv, "%": operator.mod, "**": operator.pow}

AUDIT = {"on": False, "events": []}
_BAD_EVENTS = ("exec", "compile", "import", "open", "os.system", "os.exec", "os.posix_spawn", "os.spawn", "subprocess.Popen",
               "socket.", "ctypes.", "os.remove", "os.rename", "shutil.", "pty.spawn", "os.fork")


def _hook(event, args):
    if AUDIT["on"] and event.startswith(_BAD_EVENTS):
        if event == "open":
            # the interpreter itself reads .py sources (linecache) when it displays a warning or traceback
            path, mode = (list(args) + [None, None])[:2]
            if path in ("<string>", "<stdin>", "<unknown>"):
                return      # CPython's tokenizer looks for the "file" of the text to decorate its SyntaxError
            if isinstance(path, str) and path.endswith(".py") and (mode is None or not set(str(mode)) & set("wa+x")):
                return
            AUDIT["events"].append(f"open({path!r}, {mode!r})")
            return
        AUDIT["events"].append(event)


_hook_installed = []


def render(t, variant, rng, parent_prec=0, right_side=False, parent_op=None):
    """expression tree -> string with minimal parentheses under Python's precedence"""
    kind = t[0]
    if kind == "leaf":
        return t[1]
    if kind == "neg":
        inner = render(t[1], variant, rng, PREC["neg"], False, "neg")
        s = "-" + inner
        # -x ** y parses as -(x**y): parenthesise a negation used as the base of a power
        need = parent_prec > PREC["neg"] or (parent_op == "**" and not right_side)
        return f"({s})" if need else s
    op, l, r = t[1], t[2], t[3]
    p = PREC[op]
    if op == "**":
        ls = render(l, variant, rng, p + 1, False, "**")       # right associative
        rs = render(r, variant, rng, p, True, "**")
    else:
        ls = render(l, variant, rng, p, False, op)
        rs = render(r, variant, rng, p + 1, True, op)
    if op == "":
        # juxtaposition: a space, or nothing before a parenthesised group
        if variant == "tight" and (rs.startswith("(") or (ls.endswith(")") and not rs.startswith("-"))):
            s = ls + rs                      # "a(b+c)", "(a+b)c": no blank, the implicit operator survives the preprocessor
        else:
            if rs.startswith("-"):
                rs = f"({rs})"
            s = ls + " " + rs
    else:
        o = "^" if (op == "**" and variant == "caret") else op
        sp = "" if variant == "tight" and op in ("*", "/", "**") else " "
        s = f"{ls}{sp}{o}{sp}{rs}"
    need = parent_prec > p
    if variant == "redundant" and rng.random() < 0.3:
        need = True
    return f"({s})" if need else s


def to_tree_str(t):
    """the tree pint must build (to_string format)"""
    if t[0] == "leaf":
        return t[1]
    if t[0] == "neg":
        return f"(- {to_tree_str(t[1])})"
    op = t[1]
    if op == "":
        return f"({to_tree_str(t[2])} {to_tree_str(t[3])})"
    return f"({to_tree_str(t[2])} {op} {to_tree_str(t[3])})"


def gen_tree(rng, leaves, depth):
    if depth == 0 or rng.random() < 0.25:
        return ("leaf", rng.choice(leaves))
    r = rng.random()
    if r < 0.12:
        return ("neg", gen_tree(rng, leaves, depth - 1))
    op = rng.choice(BIN)
    l = gen_tree(rng, leaves, depth - 1)
    rr = gen_tree(rng, leaves, depth - 1)
    if op == "":
        # a juxtaposed right operand must start with a name/number/group and the left must not end in a number
        # followed by a number (tokenizer would merge); keep the right operand a name or a group
        if rr[0] == "leaf" and rr[1][0].isdigit():
            rr = ("leaf", rng.choice([x for x in leaves if not x[0].isdigit()]))
    return ("bin", op, l, rr)


def all_trees(leaves, nleaves):
    """every tree with exactly nleaves leaves over the 8 binary forms (no unary)"""
    if nleaves == 1:
        for x in leaves:
            yield ("leaf", x)
        return
    for k in range(1, nleaves):
        for l in all_trees(leaves, k):
            for r in all_trees(leaves, nleaves - k):
                for op in BIN:
                    if op == "" and r[0] == "leaf" and r[1][0].isdigit():
                        continue
                    yield ("bin", op, l, r)


def tok_json(tokens):
    out = []
    for t in tokens:
        if t.type == tokenlib.OP:
            k = "op"
        elif t.type == tokenlib.NUMBER:
            k = "number"
        elif t.type == tokenlib.NAME:
            k = "name"
        elif t.type == tokenlib.ENDMARKER:
            k = "end"
        elif t.type == tokenlib.STRING or tokenlib.tok_name[t.type].startswith("FSTRING"):
            k = "string"       # (Python 3.12 tokenizes an f-string as FSTRING_START / _MIDDLE / _END)
        else:
            k = "other"
        out.append([k, t.string])
    return out


MALFORMED = [
    "(", ")", "((2)", "(2))", "2 *", "* 2", "2 +", "2 **", "/", "a /", "(a + ) b", "2 (", ") 2 (", "a ** ** b",
    "__import__('os').system('true')", "().__class__", "a.b", "a.__class__", "open('/etc/passwd')", "x := 3",
    "lambda: 1", "[1, 2]", "{1: 2}", "'abc'", "\"abc\" * 2", "a[0]", "exec('1')", "eval('1')", "a; b", "a = 3",
    "2 if a else 3", "import os", "os.system('x')", "a @ b", "~a", "a << 2", "not a", "a and b", "1 < 2", "a == b",
    "\\x00", "2 ** (", "((((((((((2", "2))))))))))", "§", "a $ b", "`a`", "2 ** (3", "meter /", "/ second", "3 +/-",
    "(3 +/- )", "+/- 3", "f(x)", "f(2)(3)", "2(3", "2)3(", "a,b", "a, b", "{}", "[]", "()", "(())", "2 ()", "() 2",
    "2 a f'x' 3", "f'x' a", "2 f\"{a}\" 3", "a rb'x'",
]


class Check(Property):
    ID = "C07"
    PROPS_FILE = "PintModel/Props/C07.lean"
    MODULE = "PintModel.Props.C07"
    EXTRA_LEAN_FILES = ["PintModel/Proofs/EvalTreeLemmas.lean"]
    RULE = ("expression trees over numbers, variables and unit names with + - * / // % ** ^, unary minus and "
            "juxtaposition, rendered with minimal parentheses under Python's precedence in several spelling "
            "variants (spaced, tight, caret, redundant parentheses); quick: all trees with <= 3 leaves over 4 "
            "leaves + random trees; thorough: all trees with <= 4 leaves; plus a malformed/hostile stream under "
            "an audit hook; non-trivial = distinct strings with at least one operator")
    PARTIAL = ["Python's tokenize and the regex preprocessor are glue: compared through pint's own token stream",
               "the no-execution clause is supported by the audit hook and the AST obligation NoDynamicEval, not by a theorem",
               "word forms (per, squared, cubed, sq, cubic) and unicode exponents are checked by the value oracle only"]

    def table_obligations(self):
        try:
            info = json.load(open(os.path.join(BUILD, "gen.json")))
        except Exception:  # noqa: BLE001
            return [("NoDynamicEval", False, "gen.json missing")]
        hits = info.get("dynamic_eval_hits", [])
        return [("NoDynamicEval", not hits, "; ".join(hits))]

    def cases(self):
        rng = self.rng
        out = []
        leaves = ["2", "3", "a", "b"]

        def mk(kind, tree, variant):
            s = render(tree, variant, rng)
            self.bump(kind)
            self.bump("variant." + variant)
            return self.with_ops({"kind": kind, "s": s, "tree": to_tree_str(tree), "t": tree, "variant": variant})
        maxn = 3 if self.tier == "quick" else 4
        for n in range(1, maxn + 1):
            for t in all_trees(leaves, n):
                for variant in (("spaced", "tight") if n == maxn and self.tier != "quick" else ("spaced", "tight", "caret")):
                    out.append(mk(f"all trees {n} leaves", t, variant))
        rich = ["2", "3.5", "10", "a", "b", "x", "meter", "second", "kilogram", "1e3", "0.25"]
        for _ in range(2500 if self.tier == "quick" else 30000):
            t = gen_tree(rng, rich, rng.randint(1, 4))
            out.append(mk("random tree", t, rng.choice(["spaced", "tight", "caret", "redundant"])))
        for s in MALFORMED:
            self.bump("malformed")
            out.append(self.with_ops({"kind": "malformed", "s": s}))
        for _ in range(300 if self.tier == "quick" else 5000):
            base = render(gen_tree(rng, rich, 3), "spaced", rng)
            i = rng.randrange(len(base) + 1)
            s = base[:i] + rng.choice(["(", ")", "*", "**", "/", "+", ".", "__", "'", ",", "[", "=", ":", " @ ", " < ", " == ", " >> ", " 'x' ", "@", "<"]) + base[i:]
            self.bump("mutated")
            out.append(self.with_ops({"kind": "malformed", "s": s}))
        # word forms and unicode
        for s, eq in [("meter squared", "meter**2"), ("cubic meter", "meter**3"), ("square meter", "meter**2"),
                      ("sq meter", "meter**2"), ("meter cubed", "meter**3"), ("meter per second", "meter/second"),
                      ("meter²", "meter**2"), ("meter⁻¹", "meter**-1"), ("kilogram·meter", "kilogram*meter"),
                      ("3 meter per second squared", "3*meter/second**2"), ("1,000 meter", "1000*meter"),
                      ("1_000 meter", "1000*meter"), ("9_007_199_254_740_993 meter", "9007199254740993*meter"),
                      ("7_000 // 2_000", "7000//2000"), ("2 ** 1_0", "2**10"), ("1_0.5 meter", "10.5*meter")]:
            self.bump("word forms")
            out.append(self.with_ops({"kind": "word", "s": s, "eq": eq}))
        # word forms next to parentheses, numbers ending in a point, chains
        names = ["meter", "second", "kilogram", "kelvin", "ampere", "mole", "joule", "watt", "newton", "hour"]
        for _ in range(60 if self.tier == "quick" else 1500):
            A, B, C = rng.sample(names, 3)
            n1, n2 = rng.randint(2, 9), rng.randint(2, 9)
            s, eq = rng.choice([
                (f"{A} per ({B} {C})", f"{A}/({B}*{C})"), (f"({A} {B}) per {C}", f"({A}*{B})/{C}"),
                (f"({n1} {A}) per ({n2} {B})", f"({n1}*{A})/({n2}*{B})"), (f"{n1}. per {B}", f"{n1}./{B}"),
                (f"{A} per {B} per {C}", f"{A}/{B}/{C}"), (f"{A} squared per ({B} cubed)", f"{A}**2/({B}**3)"),
                (f"({A} {B} squared) per ({C} cubed)", f"({A}*{B}**2)/({C}**3)"), (f"cubic {A} per {B}", f"{A}**3/{B}"),
                (f"{A}² per ({B} {C})", f"{A}**2/({B}*{C})"), (f"{n1} {A} per ({B} squared)", f"{n1}*{A}/({B}**2)"),
                (f"sq {A} per ({n2} {B})", f"{A}**2/({n2}*{B})")])
            self.bump("word forms")
            out.append(self.with_ops({"kind": "word", "s": s, "eq": eq}))
        return out

    # ------------------------------------------------------------------ token stream + tree
    def tokens(self, s):
        from pint import pint_eval
        from pint.util import string_preprocessor
        return list(pint_eval.tokenizer(string_preprocessor(s)))

    def with_ops(self, c):
        """the model starts at pint's own token stream for the string"""
        try:
            c["ops"] = [{"op": "tree", "tokens": tok_json(self.tokens(c["s"]))}]
        except Exception:  # noqa: BLE001
            c["ops"] = []
        return c

    def impl(self, c):
        from pint.pint_eval import build_eval_tree
        if not c["ops"]:
            return []
        toks = self.tokens(c["s"])

        def run():
            return build_eval_tree(toks).to_string()
        return [capture(run)]

    def expect(self, c, mo):
        return mo

    def same(self, c, io, mo):
        if not mo:
            return True
        i, m = io[0], mo[0]
        if "err" in i and "err" in m:
            return True if {i["err"], m["err"]} <= {"DefinitionSyntaxError", "Other:AssertionError", "AssertionError",
                                                    "Other:IndexError", "IndexError"} and \
                (i["err"].split(":")[-1] == m["err"]) else canon(i) == canon(m)
        return canon(i) == canon(m)

    def nontrivial(self, c, io):
        return c["s"] if any(ch in c["s"] for ch in "+-*/%^( ") else None

    # ------------------------------------------------------------------ oracle
    VALUES = {"a": Fraction(7, 2), "b": Fraction(3), "x": Fraction(2)}

    def eval_tree(self, u, t):
        if t[0] == "leaf":
            s = t[1]
            if s in self.VALUES:
                return u.Quantity(self.VALUES[s])
            if s[0].isdigit():
                return Fraction(s)      # the oracle runs on the Fraction registry, which reads every literal as Fraction
            return u.Quantity(1, s)
        if t[0] == "neg":
            return self.eval_tree(u, t[1]) * -1
        return PYOP[t[1]](self.eval_tree(u, t[2]), self.eval_tree(u, t[3]))

    def cheap(self, t):
        """float shadow evaluation: is exact arithmetic on this tree cheap (no huge or deeply fractional powers)?"""
        def ev(t):
            if t[0] == "leaf":
                s = t[1]
                if s in self.VALUES:
                    return float(self.VALUES[s])
                return float(s) if s[0].isdigit() else 1.0
            if t[0] == "neg":
                return -ev(t[1])
            a, b = ev(t[2]), ev(t[3])
            if t[1] in ("**", "^"):
                if abs(b) > 40 or abs(a) > 1e6 or (a != 0 and abs(a) < 1e-6):
                    raise OverflowError
                return abs(a) ** b if a else 0.0
            if t[1] in ("/", "//", "%"):
                return a / b if b else 1.0
            return {"+": a + b, "-": a - b, "*": a * b}.get(t[1], a * b)
        try:
            return abs(ev(t)) < 1e60
        except (OverflowError, ZeroDivisionError, ValueError):
            return False

    def oracle(self, c):
        if not _hook_installed:
            sys.addaudithook(_hook)
            _hook_installed.append(1)
        u = regs.ureg("fraction")
        v = []
        s = c["s"]
        if not getattr(self, "_reparse_done", False):
            self._reparse_done = True
            rv = self.reparse_probe() + self.optimized_mode_probe() + self.uncertainty_probe()
            if rv:
                return rv
        if c["kind"] == "malformed":
            return self.oracle_malformed(u, c)
        if c["kind"] == "word":
            for u in (u, regs.ureg("float")):
                try:
                    a, b = u.parse_expression(s), u.parse_expression(c["eq"])
                    if not (a == b and getattr(a, "units", None) == getattr(b, "units", None)):
                        v.append(f"C07 {s!r} parses to {a!r}, expected {b!r}")
                    elif type(getattr(a, "magnitude", a)) is not type(getattr(b, "magnitude", b)):
                        v.append(f"C07 {s!r} parses to {a!r} with a magnitude of type {type(getattr(a, 'magnitude', a)).__name__}, "
                                 f"{c['eq']!r} gives {type(getattr(b, 'magnitude', b)).__name__} (numeric literals keep their type)")
                except Exception as exc:  # noqa: BLE001
                    v.append(f"C07 {s!r}: raised {type(exc).__name__}: {exc}")
            return v
        # structure: pint's tree must be the Python reading of the rendering
        from pint.pint_eval import build_eval_tree
        try:
            got_tree = build_eval_tree(self.tokens(s)).to_string()
        except Exception as exc:  # noqa: BLE001
            got_tree = "ERR " + type(exc).__name__
        want_tree = c["tree"].replace("^", "**")
        norm = lambda z: z.replace("^", "**").replace(" * ", " ")  # noqa: E731  (juxtaposition == *)
        if norm(got_tree) != norm(want_tree):
            v.append(f"C07 {s!r}: parsed as {got_tree}, Python reading is {want_tree}")
        # value
        if not self.cheap(c["t"]):
            self.bump("value comparison skipped (huge power)")
            return v

        def run(fn):
            try:
                return ("ok", fn())
            except Exception as exc:  # noqa: BLE001
                return ("err", err_name(exc))
        AUDIT["events"].clear()
        AUDIT["on"] = True
        try:
            r1 = run(lambda: u.parse_expression(s, **self.VALUES))
        finally:
            AUDIT["on"] = False
        if AUDIT["events"]:
            v.append(f"C07 {s!r}: parsing triggered {sorted(set(AUDIT['events']))}")
        r2 = run(lambda: self.eval_tree(u, c["t"]))
        if r2 == ("err", "Other:OverflowError") or r2 == ("err", "Other:MemoryError"):
            pass        # the oracle's own arithmetic overflowed: inconclusive, the structure was compared above
        elif r1[0] != r2[0]:
            if not (r1[0] == "err" and r2[0] == "err"):
                v.append(f"C07 {s!r}: parse_expression gives {r1}, Python operators on the tree give {r2}")
        elif r1[0] == "ok":
            a, b = r1[1], r2[1]
            try:
                qa = a if hasattr(a, "_units") else u.Quantity(a)
                qb = b if hasattr(b, "_units") else u.Quantity(b)
                if isinstance(qa.magnitude, float) or isinstance(qb.magnitude, float):
                    import math
                    ok = qa.units == qb.units and math.isclose(qa.magnitude, qb.magnitude, rel_tol=1e-12)
                else:
                    ok = qa.units == qb.units and qa.magnitude == qb.magnitude
                if not ok:
                    v.append(f"C07 {s!r}: value {a!r} but Python's reading gives {b!r}")
            except Exception as exc:  # noqa: BLE001
                v.append(f"C07 {s!r}: comparing values raised {type(exc).__name__}")
        elif r1[1] != r2[1] and not {r1[1], r2[1]} <= {"TypeError", "ValueError", "DimensionalityError", "ZeroDivisionError",
                                                       "OffsetUnitCalculusError", "Other:OverflowError"}:
            v.append(f"C07 {s!r}: error {r1[1]} vs {r2[1]}")
        # literals keep the registry's numeric type
        if c["t"][0] == "leaf" and c["t"][1][0].isdigit():
            for tname, T in (("float", float), ("fraction", Fraction), ("decimal", Decimal)):
                r = regs.ureg(tname).parse_expression(s)
                isint = "." not in s and "e" not in s
                # float registry: integers stay int; Decimal/Fraction registries read every literal in that type
                want = (int,) if (isint and tname == "float") else ((int, T) if isint else (T,))
                if type(r) not in want and type(getattr(r, "magnitude", None)) not in want:
                    v.append(f"C07 literal {s!r} in a {tname} registry has type {type(r).__name__}")
        return v

    def optimized_mode_probe(self):
        """unbalanced parentheses or a dangling operator never yield a value - also when Python runs with -O (assert statements
        are stripped there, so a guard written as an assert is no guard)"""
        import json
        import subprocess
        dangling = ["3 -", "2 a +", "2 *", "* 2", "2 a /", "(", ")", "((2)", "(2))", "2 **", "- ", "+", "()", "2 ()", "a b -", "(a +) b", "2 ** -"]
        code = ("import sys, json; sys.path.insert(0, %r); import pint; u = pint.UnitRegistry(non_int_type=__import__('fractions').Fraction); out = {}\n"
                "for s in json.loads(sys.argv[1]):\n"
                "    try:\n        out[s] = 'value ' + repr(u.parse_expression(s, a=u.Quantity(7, 'm'), b=u.Quantity(3, 's')))\n"
                "    except BaseException as exc:\n        out[s] = 'error ' + type(exc).__name__\n"
                "print(json.dumps(out))") % core.REPO
        v = []
        try:
            r = subprocess.run([sys.executable, "-O", "-c", code, json.dumps(dangling)], capture_output=True, text=True, timeout=300)
            out = json.loads(r.stdout.strip().splitlines()[-1])
        except Exception as exc:  # noqa: BLE001
            return [f"C07 optimized-mode probe could not run: {type(exc).__name__}: {exc}"]
        for s_, res in out.items():
            if res.startswith("value"):
                v.append(f"C07 under `python -O` the malformed expression {s_!r} yields a {res}")
        return v

    def uncertainty_probe(self):
        """+/- uncertainties inside expressions: value(uncertainty) with and without a decimal point or an exponent, (n +/- s),
        the unicode sign - each against the nominal value and standard deviation the notation denotes, alone and in a product"""
        v = []
        r = regs.ureg("float")
        cases = [("100(5)", 100, 5), ("7(2)", 7, 2), ("1200(50)", 1200, 50), ("15e2(3)", 1500, 300), ("100(5)e3", 100000, 5000),
                 ("8.0(4)", 8.0, 0.4), ("12.3(45)", 12.3, 4.5), ("1.50e3(2)", 1500, 20), ("6.62607015(81)e-34", 6.62607015e-34, 8.1e-41),
                 ("(3 +/- 1)", 3, 1), ("(2.50 ± 0.25)", 2.5, 0.25), ("(4 +/- 2)e2", 400, 200), ("0.5(1)", 0.5, 0.1)]
        for text, n, sd in cases:
            for expr_, scale, unit in ((text + " m", 1, "meter"), ("2 * " + text + " m", 2, "meter"), (text + " m / s", 1, "meter / second")):
                try:
                    q = r(expr_)
                    m = q.magnitude
                    ok = (abs(m.nominal_value - n * scale) <= 1e-12 * abs(n * scale) and abs(m.std_dev - sd * scale) <= 1e-9 * abs(sd * scale)
                          and str(q.units) == unit)
                    got = f"{m.nominal_value} +/- {m.std_dev} {q.units}"
                except Exception as exc:  # noqa: BLE001
                    ok, got = False, type(exc).__name__
                if not ok:
                    v.append(f"C07 {expr_!r} evaluates to {got}; the notation denotes {n * scale} +/- {sd * scale} {unit}")
                    break
        # an uncertain value is ONE operand: an exponent or a division applies to the whole of it (first-order propagation)
        from uncertainties import ufloat
        for expr_, want, unit in (("(2.0 +/- 0.1)**2 m", ufloat(2.0, 0.1) ** 2, "meter"), ("2.0(1)**2 m", ufloat(2.0, 0.1) ** 2, "meter"),
                                  ("(2.0 ± 0.1)^2 m", ufloat(2.0, 0.1) ** 2, "meter"), ("(3.0 +/- 0.3)**-1 s", ufloat(3.0, 0.3) ** -1, "second"),
                                  ("m / (2.0 +/- 0.1)**2", 1 / ufloat(2.0, 0.1) ** 2, "meter"), ("2 ** (1.0 +/- 0.1) m", 2 ** ufloat(1.0, 0.1), "meter"),
                                  ("(2.0 +/- 0.1) ** 2 * (1.0 +/- 0.5) m", ufloat(2.0, 0.1) ** 2 * ufloat(1.0, 0.5), "meter")):
            try:
                q = r(expr_)
                m = q.magnitude
                ok = (abs(m.nominal_value - want.nominal_value) <= 1e-9 * abs(want.nominal_value) and abs(m.std_dev - want.std_dev) <= 1e-9 * want.std_dev
                      and str(q.units) == unit)
                got = f"{m.nominal_value} +/- {m.std_dev} {q.units}"
            except Exception as exc:  # noqa: BLE001
                ok, got = False, type(exc).__name__
            if not ok:
                v.append(f"C07 {expr_!r} evaluates to {got}; Python's operators on the uncertain operands give {want.nominal_value} +/- {want.std_dev} {unit}")
        return v[:8]

    def reparse_probe(self):
        """parsing a string gives the quantity the string denotes - every time: what is done to an earlier result (in-place
        conversion, in-place arithmetic) does not change what the same text parses to afterwards"""
        import numpy as np
        v = []
        texts = ["2 m", "degC", "3 km per hour squared + 1 km/hour**2", "5 meter / second", "1.5 inch", "2 ** 3 gram", "7"]
        for kind, kw in (("float", {}), ("fraction", {}), ("float", {"force_ndarray": True})):
            r = regs.fresh(kind, **kw)
            for text in texts:
                def snap(q):
                    m = getattr(q, "magnitude", q)
                    return (type(m).__name__, np.asarray(m, dtype=float).tolist(), str(getattr(q, "units", "")))
                try:
                    first = r(text)
                    s0 = snap(first)
                    for mutate in (lambda q: q.ito_base_units(), lambda q: q.ito_root_units(), lambda q: q.__iadd__(q), lambda q: q.__imul__(3)):
                        if hasattr(first, "magnitude"):
                            try:
                                mutate(first)
                            except Exception:  # noqa: BLE001
                                pass
                    again = r(text)
                    s1 = snap(again)
                except Exception as exc:  # noqa: BLE001
                    v.append(f"C07 re-parse probe {text!r} [{kind} {kw}] raised {type(exc).__name__}: {exc}")
                    continue
                if s0 != s1:
                    v.append(f"C07 {text!r} [{kind} {kw}] parsed to {s0}; after in-place operations on that result the same text parses to {s1}")
        return v

    def oracle_malformed(self, u, c):
        v = []
        s = c["s"]
        AUDIT["events"].clear()
        AUDIT["on"] = True
        try:
            try:
                r = ("ok", u.parse_expression(s, **self.VALUES))
            except BaseException as exc:  # noqa: BLE001
                r = ("err", type(exc).__name__)
        finally:
            AUDIT["on"] = False
        if AUDIT["events"]:
            v.append(f"C07 hostile input {s!r}: parsing triggered {sorted(set(AUDIT['events']))}")
        depth, bad = 0, False
        for ch in s:
            if ch == "(":
                depth += 1
            elif ch == ")":
                depth -= 1
                if depth < 0:
                    bad = True
        if depth != 0:
            bad = True
        stripped = s.strip()
        dangling = stripped.endswith(("*", "/", "+", "-", "**", "%", "//")) and not stripped.endswith("+/-")
        if (bad or dangling) and r[0] == "ok" and "'" not in s and '"' not in s:
            v.append(f"C07 {s!r}: unbalanced/dangling input yields the value {r[1]!r}")
        # an operator outside the grammar (or a string literal) never yields a value: it is not silently skipped
        import re
        foreign = re.search(r"(@|<|>|==|!=|:=|&|\||~|;|=|'[^']*'|\"[^\"]*\")", s)
        if foreign and r[0] == "ok":
            v.append(f"C07 {s!r}: contains {foreign.group(1)!r}, which the expression grammar does not know, and yields the value {r[1]!r}")
        return v
