"""C04 — units form a commutative group under *, /, ** with a canonical representation."""
from __future__ import annotations

import itertools
from decimal import Decimal
from fractions import Fraction

from . import core
from .core import Property, capture, frac_s, uc_j, canon

NAMES = ["meter", "second", "gram"]
_REGS = {}


def reg(tname):
    import pint
    if tname not in _REGS:
        T = {"int": float, "float": float, "fraction": Fraction, "decimal": Decimal}[tname]
        _REGS[tname] = pint.UnitRegistry(non_int_type=T)
    return _REGS[tname]


def conv_exp(tname, q: Fraction):
    if q.denominator == 1:
        return int(q)
    if tname in ("int", "float"):
        return float(q)
    if tname == "fraction":
        return q
    return Decimal(q.numerator) / Decimal(q.denominator)


def to_frac(v):
    if isinstance(v, float):
        return Fraction(v)
    if isinstance(v, Decimal):
        return Fraction(v)
    return Fraction(v)


def pyd(items, tname):
    return {k: conv_exp(tname, Fraction(v)) for k, v in items}


def build(layer, items, tname):
    from pint.util import UnitsContainer, ParserHelper
    T = {"int": float, "float": float, "fraction": Fraction, "decimal": Decimal}[tname]
    d = pyd(items, tname)
    if layer == "uc":
        return UnitsContainer(d, non_int_type=T)
    if layer == "ph":
        return ParserHelper(1, d, non_int_type=T)
    u = reg(tname)
    if layer == "unit":
        return u.Unit(u.UnitsContainer(d))
    if layer == "quantity":
        return u.Quantity(1, u.UnitsContainer(d))
    raise ValueError(layer)


def items_of(obj):
    from pint.util import UnitsContainer
    if isinstance(obj, UnitsContainer):
        d = obj._d
    else:
        d = obj._units._d
    return [[k, frac_s(to_frac(v))] for k, v in d.items()]


def snapshot(obj):
    return canon(items_of(obj))


class Check(Property):
    ID = "C04"
    PROPS_FILE = "PintModel/Props/C04.lean"
    MODULE = "PintModel.Props.C04"
    EXTRA_LEAN_FILES = ["PintModel/Proofs/UCLemmas.lean", "PintModel/Proofs/PiLemmas.lean"]
    RULE = ("containers over 3 unit names with exponents in {-2..2} (quick: all ordered pairs for * / == on "
            "UnitsContainer, sampled for the other layers and exponent types; thorough: all pairs on all 4 layers "
            "x 4 exponent types, sampled triples); non-trivial = distinct (layer, type, op, operands) whose result "
            "is not one of the operands")
    PARTIAL = ["float exponent rounding (non-dyadic floats) is outside the exact model",
               "CPython's hash function itself is not modelled (hash is a function of the item set)"]
    TRUSTED = ["Python dict insertion-order semantics as modelled by association lists"]

    def containers(self):
        out = []
        for exps in itertools.product([-2, -1, 0, 1, 2], repeat=3):
            order = list(range(3))
            self.rng.shuffle(order)
            out.append([[NAMES[i], f"{exps[i]}/1"] for i in order if exps[i] != 0])
        return out

    def frac_containers(self, n):
        vals = [Fraction(1, 2), Fraction(-3, 2), Fraction(1), Fraction(-1), Fraction(2), Fraction(3, 4), Fraction(-1, 4)]
        out = []
        for _ in range(n):
            k = self.rng.randint(1, 3)
            names = self.rng.sample(NAMES, k)
            out.append([[nm, frac_s(self.rng.choice(vals))] for nm in names])
        return out

    def mk(self, layer, tname, f, a, b=None, r=None, k=None, k2=None, ks=None):
        op = {"op": "uc", "f": f, "a": a}
        c = {"layer": layer, "t": tname, "f": f, "a": a}
        if b is not None:
            op["b"] = b
            c["b"] = b
        if r is not None:
            op["r"] = r
            c["r"] = r
        if k is not None:
            op["k"] = k
            c["k"] = k
        if k2 is not None:
            op["k2"] = k2
            c["k2"] = k2
        if ks is not None:
            op["ks"] = ks
            c["ks"] = ks
        c["ops"] = [op]
        self.bump(f"{layer}.{f}")
        self.bump(f"type.{tname}")
        return c

    def cases(self):
        rng = self.rng
        cs = []
        conts = self.containers()
        thorough = self.tier == "thorough"
        layers = ["uc", "ph", "unit", "quantity"]
        types = ["int", "float", "fraction", "decimal"]
        # exhaustive pairs on UnitsContainer (all layers/types in the thorough tier)
        combos = [("uc", "int")]
        if thorough:
            combos = [(l, t) for l in layers for t in types]
        for layer, t in combos:
            for a in conts:
                for b in conts:
                    for f in ("mul", "div", "eq"):
                        cs.append(self.mk(layer, t, f, a, b))
        # sampled: other layers, fractional exponents, unary/structural operations
        n = 6000 if thorough else 1500
        fr = self.frac_containers(200)
        rs = ["0/1", "1/1", "-1/1", "2/1", "-2/1", "3/1", "1/2", "-1/2", "3/2", "1/4"]
        for _ in range(n):
            layer = rng.choice(layers)
            t = rng.choice(types)
            pool = conts if t == "int" or rng.random() < 0.5 else fr
            a, b = rng.choice(pool), rng.choice(pool)
            f = rng.choice(["mul", "div", "eq", "pow", "pow", "inv", "add", "remove", "rename"])
            if f in ("mul", "div", "eq"):
                cs.append(self.mk(layer, t, f, a, b))
            elif f == "pow":
                r = rng.choice(rs)
                if t == "int" and "/1" not in r:
                    t = "float"
                cs.append(self.mk(layer, t, f, a, r=r))
            elif f == "inv":
                cs.append(self.mk(layer, t, f, a))
            elif layer in ("uc", "ph"):
                if f == "add":
                    k = rng.choice(NAMES)
                    r = rng.choice(["1/1", "-1/1", "2/1", "-2/1"])
                    cs.append(self.mk(layer, t, f, a, k=k, r=r))
                elif f == "remove":
                    ks = rng.sample(NAMES, rng.randint(0, 2))
                    cs.append(self.mk(layer, t, f, a, ks=ks))
                elif f == "rename":
                    cs.append(self.mk(layer, t, f, a, k=rng.choice(NAMES), k2=rng.choice(NAMES + ["candela"])))
        # column echelon form and Buckingham pi
        npi = 250 if not thorough else 3000
        for _ in range(npi):
            nq, nd = rng.randint(1, 5), rng.randint(1, 4)
            m = [[frac_s(Fraction(rng.choice([0, 0, 1, -1, 2, -2, 3]), rng.choice([1, 1, 1, 2, 3]))) for _ in range(nq)]
                 for _ in range(nd)]
            self.bump("cef")
            cs.append({"layer": "cef", "t": "fraction", "f": "cef", "a": [], "matrix": m,
                       "ops": [{"op": "pi", "f": "cef", "matrix": m}]})
        base = ["meter", "second", "gram", "ampere", "kelvin"]
        for _ in range(npi):
            nq = rng.randint(2, 5)
            quants = {}
            for i in range(nq):
                k = rng.randint(1, 3)
                us = rng.sample(base[:rng.randint(2, 5)], min(k, 2))
                quants[f"Q{i}"] = {u_: frac_s(Fraction(rng.choice([1, -1, 2, -2, 3, 1, 1]), rng.choice([1, 1, 1, 2]))) for u_ in us}
            if rng.random() < 0.1:
                quants = {}         # every input dimensionless: each is a group by itself
            if rng.random() < 0.35 or not quants:
                # dimensionless inputs (an angle, a count, a ratio) are groups of their own
                for j in range(rng.randint(1, 2)):
                    quants[f"D{j}"] = {rng.choice(["radian", "count", "degree", "percent"]): frac_s(Fraction(rng.choice([1, 2, -1])))}
                self.bump("pi with dimensionless inputs")
            self.bump("pi")
            cs.append({"layer": "pi", "t": "float", "f": "pi", "a": [], "quants": quants, "ops": []})
        return cs

    # ---------------------------------------------------------------- pi theorem helpers
    @staticmethod
    def unit_str(d):
        return " * ".join(f"{k}**({Fraction(v).numerator}/{Fraction(v).denominator})" for k, v in d.items())

    def pi_setup(self, c):
        """replicates pi_theorem's preprocessing to obtain its dimension (row) order"""
        u = reg("float")
        quant, dimensions = [], set()
        for name, d in c["quants"].items():
            dims = u.get_dimensionality(u.parse_units(self.unit_str(d)))
            quant.append((name, dims))
            dimensions = dimensions.union(dims.keys())
        dimensions = list(dimensions)
        matrix = [[Fraction(dim_[d]).limit_denominator(1000) if d in dim_ else Fraction(0) for _, dim_ in quant] for d in dimensions]
        return u, quant, dimensions, matrix

    # ---------------------------------------------------------------- implementation side
    def apply(self, c):
        layer, t, f = c["layer"], c["t"], c["f"]
        a = build(layer, c["a"], t)
        b = build(layer, c["b"], t) if "b" in c else None
        if f == "mul":
            return a * b
        if f == "div":
            return a / b
        if f == "eq":
            return a == b
        if f == "pow":
            return a ** conv_exp(t, Fraction(c["r"]))
        if f == "inv":
            return 1 / a
        if f == "add":
            return a.add(c["k"], conv_exp(t, Fraction(c["r"])))
        if f == "remove":
            return a.remove(c["ks"])
        if f == "rename":
            return a.rename(c["k"], c["k2"])
        raise ValueError(f)

    def impl(self, c):
        if c["layer"] == "cef":
            from pint.util import column_echelon_form

            def run_cef():
                m = [[Fraction(x) for x in row] for row in c["matrix"]]
                e, i, sw = column_echelon_form(m, ntype=Fraction)
                return [[[frac_s(x) for x in r] for r in e], [[frac_s(x) for x in r] for r in i], list(sw)]
            return [capture(run_cef)]
        if c["layer"] == "pi":
            return []

        def run():
            r = self.apply(c)
            if isinstance(r, bool):
                return r
            it = items_of(r)
            return it if c["layer"] == "uc" else sorted(it)
        return [capture(run)]

    def expect(self, c, model_outs):
        if c["layer"] in ("cef", "pi"):
            return model_outs
        o = model_outs[0]
        if "ok" in o and isinstance(o["ok"], list) and c["layer"] != "uc":
            return [{"ok": sorted(o["ok"])}]
        if c["layer"] == "quantity" and c["f"] == "pow" and "ok" in o:
            return [o]
        return [o]

    def same(self, c, io, mo):
        # rename onto an existing key etc.: the model mirrors dict semantics; KeyError kinds must agree
        return canon(io) == canon(mo)

    def nontrivial(self, c, io):
        if c["layer"] in ("cef", "pi"):
            return canon(c.get("matrix") or c.get("quants"))
        o = io[0] if isinstance(io, list) else io
        if "ok" in o and o["ok"] not in (c["a"], c.get("b"), True, False, []):
            return canon([c["layer"], c["t"], c["f"], c["a"], c.get("b"), c.get("r"), c.get("k"), c.get("ks")])
        if "ok" in o and c["f"] == "eq" and c["a"] and c["a"] != c.get("b") and sorted(c["a"]) == sorted(c.get("b") or []):
            return canon(["eq-perm", c["layer"], c["t"], c["a"], c["b"]])
        return None

    # ---------------------------------------------------------------- oracle: the property itself
    @staticmethod
    def rank(rows):
        m = [list(r) for r in rows]
        rk, col, ncol = 0, 0, len(m[0]) if m else 0
        while rk < len(m) and col < ncol:
            piv = next((i for i in range(rk, len(m)) if m[i][col] != 0), None)
            if piv is None:
                col += 1
                continue
            m[rk], m[piv] = m[piv], m[rk]
            for i in range(len(m)):
                if i != rk and m[i][col] != 0:
                    fct = m[i][col] / m[rk][col]
                    m[i] = [a_ - fct * b_ for a_, b_ in zip(m[i], m[rk])]
            rk += 1
            col += 1
        return rk

    def oracle_pi(self, c):
        """Buckingham pi: the result is exactly a basis of the dimensionless monomials; plus the
        model's exact rows (same dimension order) against pint's floats"""
        v = []
        u, quant, dimensions, matrix = self.pi_setup(c)
        strs = {n: self.unit_str(d) for n, d in c["quants"].items()}
        tag = f"C04 pi_theorem {strs}"
        try:
            res = u.pi_theorem(strs)
        except Exception as exc:  # noqa: BLE001
            return [f"{tag}: raised {type(exc).__name__}: {exc}"]
        names = [n for n, _ in quant]
        vecs = []
        for r in res:
            vec = [Fraction(r.get(n, 0)).limit_denominator(10 ** 6) for n in names]
            vecs.append(vec)
            for drow, dname in zip(matrix, dimensions):
                tot = sum(a_ * b_ for a_, b_ in zip(drow, vec))
                if tot != 0:
                    v.append(f"{tag}: returned group {r} is not dimensionless ({dname} exponent {tot})")
                    break
            if any(x == 0 for x in r.values()):
                v.append(f"{tag}: zero exponent kept in {r}")
        nullity = len(names) - self.rank(matrix) if matrix else len(names)
        if len(res) != nullity:
            v.append(f"{tag}: {len(res)} groups returned, the space of dimensionless monomials has dimension {nullity}")
        elif vecs and self.rank(vecs) != len(vecs):
            v.append(f"{tag}: returned groups are not independent")
        # model rows for the same matrix
        try:
            mo = core.Driver().run([{"op": "pi", "f": "pi", "matrix": [[frac_s(x) for x in row] for row in matrix]}])[0]
            rows = [[Fraction(x) for x in r] for r in mo.get("ok", [])]
            if len(rows) == len(vecs):
                for mr, r in zip(rows, res):
                    for n, x in zip(names, mr):
                        got = r.get(n, 0)
                        if abs(float(x) - float(got)) > 1e-9 * max(1.0, abs(float(x))):
                            v.append(f"{tag}: group {r} differs from the exact elimination result "
                                     f"{dict(zip(names, map(str, mr)))}")
                            break
        except core.Infra:
            pass
        return v

    def operands_untouched_probe(self):
        """none of *, /, ** (plain and reflected, with numbers, units and quantities) changes an operand: value and units of every
        operand read the same afterwards - scaled, offset and logarithmic units, with and without autoconvert_offset_to_baseunit"""
        import operator
        import pint
        v = []
        for auto in (False, True):
            r = pint.UnitRegistry(autoconvert_offset_to_baseunit=auto)
            for un in ("meter", "degC", "degF", "kelvin", "decibel", "kilometer / hour", "percent"):
                for name, fn in (("2 / q", lambda q: 2 / q), ("2 * q", lambda q: 2 * q), ("q * 2", lambda q: q * 2), ("q / 2", lambda q: q / 2),
                                 ("q ** 2", lambda q: q ** 2), ("q ** -1", lambda q: q ** -1), ("1 / q", lambda q: 1 / q),
                                 ("q * q", lambda q: q * q), ("q / unit", lambda q: q / r.second), ("unit * q", lambda q: r.second * q),
                                 ("q * Q(3, s)", lambda q: q * r.Quantity(3.0, "second")), ("Q(3, s) / q", lambda q: r.Quantity(3.0, "second") / q)):
                    q = r.Quantity(10.0, un)
                    before = (q.magnitude, dict(q._units), hash(q._units))
                    try:
                        fn(q)
                    except Exception:  # noqa: BLE001
                        pass
                    after = (q.magnitude, dict(q._units), hash(q._units))
                    if before != after:
                        v.append(f"C04 {name} with q = 10 {un} (autoconvert={auto}) changed its operand: {before[0]} {before[1]} -> {after[0]} {after[1]}")
        # the same on the container layers, with scale factors other than 1 and with operands that carry no unit at all (a bare
        # number read from a string, the quotient u / u): the operands read the same afterwards, and so does an equal container
        # obtained from the string cache
        from pint.util import ParserHelper, UnitsContainer
        for T in (float, Fraction, Decimal):
            def mk():
                return [("PH(1, m s^-2)", ParserHelper(1, {"meter": 1, "second": -2}, non_int_type=T)),
                        ("PH(3, m)", ParserHelper(3, {"meter": 1}, non_int_type=T)),
                        ("PH(2)", ParserHelper(2, non_int_type=T)), ("PH(1)", ParserHelper(1, non_int_type=T)),
                        ("PH(6 m) / PH(3 m)", ParserHelper(6, {"meter": 1}, non_int_type=T) / ParserHelper(3, {"meter": 1}, non_int_type=T)),
                        ("from_string('3')", ParserHelper.from_string("3", T)), ("from_string('meter')", ParserHelper.from_string("meter", T)),
                        ("UC(m)", UnitsContainer({"meter": 1}, non_int_type=T)), ("UC()", UnitsContainer({}, non_int_type=T))]

            def snap(o):
                return (getattr(o, "scale", None), dict(o._d))
            n = len(mk())
            for i in range(n):
                for j in range(n):
                    for opname, op in (("*", operator.mul), ("/", operator.truediv)):
                        xs, ys = mk(), mk()
                        (na, a), (nb, b) = xs[i], ys[j]
                        sa, sb = snap(a), snap(b)
                        try:
                            op(a, b)
                        except Exception:  # noqa: BLE001
                            pass
                        if snap(a) != sa:
                            v.append(f"C04 {na} {opname} {nb} ({T.__name__}) changed its left operand: {sa} -> {snap(a)}")
                        if snap(b) != sb:
                            v.append(f"C04 {na} {opname} {nb} ({T.__name__}) changed its right operand: {sb} -> {snap(b)}")
            for text, want in (("meter", (1, {"meter": 1})), ("3", (3, {})), ("2 * second", (2, {"second": 1}))):
                got = ParserHelper.from_string(text, T)
                if (got.scale, dict(got._d)) != want:
                    v.append(f"C04 ParserHelper.from_string({text!r}, {T.__name__}) now reads {got.scale} {dict(got._d)} after earlier products / quotients")
        return v[:8]

    def dim_hom_probe(self):
        """the dimensionality of a product, quotient or power is the product, quotient or power of the dimensionalities: for
        unit names AND for derived dimension names ([area], [speed], ...), with integer and rational exponents"""
        import random
        v = []
        u = reg("fraction")
        rng = random.Random(4)
        dims = [k for k in u._dimensions if k not in ("[]",)]
        units = ["meter", "inch", "newton", "liter", "hertz", "joule", "volt", "acre", "knot", "pascal", "weber", "degree_Celsius", "radian"]
        pool = [(d, True) for d in dims] + [(x, False) for x in units]

        def dim_of(items):
            return u.get_dimensionality(u.UnitsContainer(dict(items)))
        for _ in range(400):
            a, a_is_dim = rng.choice(pool)
            cand = [p_ for p_ in pool if p_[1] == a_is_dim and p_[0] != a]
            b, _b = rng.choice(cand)
            e1 = rng.choice([1, 2, 3, -1, -2, Fraction(1, 2), Fraction(-3, 2)])
            e2 = rng.choice([1, 2, -1, -3, Fraction(1, 3)])
            try:
                da, db = dim_of({a: 1}), dim_of({b: 1})
                want_pow = da ** e1
                got_pow = dim_of({a: e1})
                if got_pow != want_pow:
                    v.append(f"C04 get_dimensionality({a} ** {e1}) = {dict(got_pow)}, get_dimensionality({a}) ** {e1} = {dict(want_pow)}")
                want_prod = (da ** e1) * (db ** e2)
                got_prod = dim_of({a: e1, b: e2})
                if got_prod != want_prod:
                    v.append(f"C04 get_dimensionality({a} ** {e1} * {b} ** {e2}) = {dict(got_prod)}, the product of the dimensionalities is {dict(want_prod)}")
            except Exception as exc:  # noqa: BLE001
                v.append(f"C04 get_dimensionality of {a} ** {e1} * {b} ** {e2} raised {type(exc).__name__}: {exc}")
            if len(v) > 8:
                break
        return v

    def oracle(self, c):
        if not getattr(self, "_dim_hom_done", False):
            self._dim_hom_done = True
            dv = self.dim_hom_probe()
            # unit expressions compare and hash equal exactly when the exponents are equal - also for containers that were hashed
            # in another interpreter and arrived here through pickle
            from .c18 import Check as C18
            dv += C18.cross_process_probe(self)
            dv += self.operands_untouched_probe()
            if dv:
                return dv
        if c["layer"] == "pi":
            return self.oracle_pi(c)
        if c["layer"] == "cef":
            return []
        layer, t, f = c["layer"], c["t"], c["f"]
        v = []
        A = {k: Fraction(x) for k, x in c["a"]}
        B = {k: Fraction(x) for k, x in c.get("b", [])}
        a = build(layer, c["a"], t)
        b = build(layer, c["b"], t) if "b" in c else None
        ha = hash(a) if layer != "ph" else None
        sa, sb = snapshot(a), (snapshot(b) if b is not None else None)
        tag = f"C04 {layer}/{t} {f} a={c['a']} b={c.get('b')} r={c.get('r')}"

        def exps(o):
            return {k: Fraction(x) for k, x in items_of(o)}

        def expect_obj(d):
            o = build(layer, [[k, frac_s(x)] for k, x in d.items()], t)
            return o.units if layer == "quantity" else o

        def U(o):
            # the unit part of a result (1/unit and every quantity operation return a Quantity)
            return o.units if hasattr(o, "magnitude") else o

        try:
            if f in ("mul", "div"):
                sgn = 1 if f == "mul" else -1
                want = {k: A.get(k, 0) + sgn * B.get(k, 0) for k in set(A) | set(B)}
                want = {k: x for k, x in want.items() if x != 0}
                r = U(a * b if f == "mul" else a / b)
                got = exps(r)
                if got != want:
                    v.append(f"{tag}: exponents {got} != {want}")
                if any(x == 0 for x in got.values()) or len(items_of(r)) != len(got):
                    v.append(f"{tag}: zero or duplicate entry survives: {items_of(r)}")
                e = expect_obj(want)
                if not (r == e) or (layer != "ph" and hash(r) != hash(e)):
                    v.append(f"{tag}: result does not compare/hash equal to the unit with the same exponents")
                if f == "mul":
                    r2 = U(b * a)
                    if not (r == r2) or (layer != "ph" and hash(r) != hash(r2)):
                        v.append(f"{tag}: not commutative")
                if f == "div" and A == B and exps(r):
                    v.append(f"{tag}: u/u is not dimensionless: {items_of(r)}")
            elif f == "eq":
                r = U(a) == U(b)
                if bool(r) != (A == B):
                    v.append(f"{tag}: == gives {r} but exponents equal is {A == B}")
                if A == B and layer != "ph" and hash(U(a)) != hash(U(b)):
                    v.append(f"{tag}: equal units hash differently")
            elif f in ("pow", "inv"):
                rr = Fraction(c["r"]) if f == "pow" else Fraction(-1)
                r = U(a ** conv_exp(t, rr) if f == "pow" else 1 / a)
                want = {k: x * rr for k, x in A.items() if x * rr != 0}
                got = exps(r)
                if got != want:
                    v.append(f"{tag}: exponents {got} != {want}")
                if len(items_of(r)) != len(want):
                    v.append(f"{tag}: zero entry survives: {items_of(r)}")
                e = expect_obj(want)
                if not (r == e) or (layer != "ph" and hash(r) != hash(e)):
                    v.append(f"{tag}: power does not compare/hash equal to the unit with the scaled exponents")
                if f == "pow" and layer != "quantity":
                    for s in (Fraction(2), Fraction(-1), Fraction(0)):
                        r2 = r ** conv_exp(t, s)
                        if exps(r2) != {k: x * rr * s for k, x in A.items() if x * rr * s != 0}:
                            v.append(f"{tag}: (u**a)**b != u**(a*b) for b={s}")
                    if all(x.denominator == 1 for x in A.values()) and A and layer != "ph" and t in ("float", "int"):
                        # exact rational exponents stay exact whatever the container's own numeric type
                        for fa_, fb_ in ((Fraction(1, 10), 3), (Fraction(1, 3), 2), (Fraction(2, 7), 5)):
                            try:
                                p1, p2 = U(a ** fa_) ** fb_, U(a ** (fa_ * fb_))
                            except Exception as exc:  # noqa: BLE001
                                v.append(f"{tag}: Fraction exponent raised {type(exc).__name__}: {exc}")
                                break
                            if not (p1 == p2) or (layer != "ph" and hash(p1) != hash(p2)) or \
                                    exps(p2) != {k: x * fa_ * fb_ for k, x in A.items()}:
                                v.append(f"{tag}: (u**{fa_})**{fb_} = {items_of(p1)} but u**{fa_ * fb_} = {items_of(p2)}")
            elif f in ("add", "remove", "rename") and layer in ("uc", "ph"):
                # the operand's hash has been computed above (ha): a result must not inherit a stale cached hash
                hash(a)
                want = dict(A)
                ok = True
                if f == "add":
                    want[c["k"]] = want.get(c["k"], Fraction(0)) + Fraction(c["r"])
                    if c["k"] not in A and want[c["k"]] == 0:
                        ok = False          # popping an absent key: KeyError, as for a dict
                elif f == "remove":
                    ok = all(k in A for k in c["ks"])
                    for k in c["ks"]:
                        want.pop(k, None)
                else:
                    ok = c["k"] in A
                    if ok:
                        want[c["k2"]] = want.pop(c["k"])
                want = {k: x for k, x in want.items() if x != 0}
                try:
                    if f == "add":
                        r = a.add(c["k"], conv_exp(t, Fraction(c["r"])))
                    elif f == "remove":
                        r = a.remove(c["ks"])
                    else:
                        r = a.rename(c["k"], c["k2"])
                except KeyError:
                    r = None
                    if ok:
                        v.append(f"{tag}: raised KeyError")
                if r is not None:
                    if not ok:
                        pass
                    else:
                        if exps(r) != want:
                            v.append(f"{tag}: exponents {exps(r)} != {want}")
                        e = expect_obj(want)
                        if layer == "ph":
                            e = build(layer, [[k, frac_s(x)] for k, x in want.items()], t)
                        if not (r == e) or not (e == r) or (layer != "ph" and hash(r) != hash(e)):
                            v.append(f"{tag}: the result {r!r} does not compare/hash equal to a container built from the same exponents")
        except Exception as exc:  # noqa: BLE001
            if f in ("mul", "div", "eq", "pow", "inv", "add", "remove", "rename"):
                v.append(f"{tag}: raised {type(exc).__name__}: {exc}")
        if snapshot(a) != sa or (b is not None and snapshot(b) != sb):
            v.append(f"{tag}: operand mutated")
        if ha is not None and hash(a) != ha:
            v.append(f"{tag}: operand hash changed")
        return v

    def search_cases(self):
        return []
