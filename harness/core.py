"""Shared machinery of all checks: translator run, Lean build + axiom audit, line-protocol
driver, correspondence, failing-input search, known findings, evidence, verdict.

Verdict protocol (DESIGN.md §3.3):
  gen -> lake build Props.Cxx (+driver) -> audit
  correspondence model vs implementation
  on any break: failing-input search with the property ORACLE on the real code
     -> VIOLATION property=Cxx replay=<file>            (oracle found an input)
     -> VIOLATION property=Cxx replay=<file> no-failing-input-found
  no break: replay known findings -> KNOWN-FINDING lines, exit 0
  infrastructure failure / timeout -> exit 2
"""
from __future__ import annotations

import fcntl
import hashlib
import json
import os
import random
import re
import subprocess
import sys
import time
import traceback

VERIF = os.path.dirname(os.path.dirname(os.path.abspath(__file__)))
LEAN = os.path.join(VERIF, "lean")
BUILD = os.path.join(VERIF, "build")
REPO = os.environ.get("PINT_REPO", "/repo")
ALLOWED_AXIOMS = {"propext", "Classical.choice", "Quot.sound"}
FORBIDDEN = re.compile(r"\b(sorry|admit|native_decide|bv_decide|implemented_by|unsafe)\b|^\s*axiom\s|maxHeartbeats\s+0\b", re.M)

sys.path.insert(0, os.path.join(VERIF, "tools"))


def log(*a):
    print("[check]", *a, file=sys.stderr, flush=True)


class Infra(Exception):
    """infrastructure problem: no verdict (exit 2)"""


# --------------------------------------------------------------------------- lean side

def _strip_comments(text: str) -> str:
    text = re.sub(r"/-.*?-/", "", text, flags=re.S)
    return re.sub(r"--.*", "", text)


class LeanSide:
    def __init__(self):
        os.makedirs(BUILD, exist_ok=True)
        self.lock = open(os.path.join(BUILD, "lake.lock"), "w")
        self.gen_info = {}

    def gen(self):
        r = subprocess.run([sys.executable if sys.executable else "python3", os.path.join(VERIF, "tools", "gen.py"), REPO],
                           capture_output=True, text=True)
        if r.returncode != 0:
            return False, (r.stdout + r.stderr)[-4000:]
        try:
            self.gen_info = json.load(open(os.path.join(BUILD, "gen.json")))
        except Exception:
            pass
        return True, r.stdout.strip()

    def lake(self, *targets, timeout=3000):
        fcntl.flock(self.lock, fcntl.LOCK_EX)
        try:
            t0 = time.time()
            r = subprocess.run(["lake", "build", *targets], cwd=LEAN, capture_output=True, text=True, timeout=timeout)
            return r.returncode == 0, (r.stdout + r.stderr), time.time() - t0
        finally:
            fcntl.flock(self.lock, fcntl.LOCK_UN)

    def theorems_of(self, relpath):
        """names of the property theorems in a Props file (with their namespace)"""
        text = open(os.path.join(LEAN, relpath), encoding="utf-8").read()
        body = _strip_comments(text)
        ns = re.findall(r"^namespace\s+(\S+)", body, flags=re.M)
        prefix = ".".join(ns) + "." if ns else ""
        return [prefix + m for m in re.findall(r"^theorem\s+([^\s:({\[]+)", body, flags=re.M)]

    def forbidden_hits(self, relpaths):
        hits = []
        for rp in relpaths:
            p = os.path.join(LEAN, rp)
            if not os.path.exists(p):
                continue
            body = _strip_comments(open(p, encoding="utf-8").read())
            for m in FORBIDDEN.finditer(body):
                hits.append(f"{rp}: {m.group(0).strip()}")
        return hits

    def audit(self, pid, module, theorems):
        """#print axioms on every theorem; returns {theorem: [axioms]} (None = not found)"""
        path = os.path.join(BUILD, f"Audit{pid}.lean")
        with open(path, "w", encoding="utf-8") as fh:
            fh.write(f"import {module}\n")
            for t in theorems:
                fh.write(f"#print axioms {t}\n")
        fcntl.flock(self.lock, fcntl.LOCK_SH)
        try:
            r = subprocess.run(["lake", "env", "lean", path], cwd=LEAN, capture_output=True, text=True, timeout=1200)
        finally:
            fcntl.flock(self.lock, fcntl.LOCK_UN)
        out = r.stdout + r.stderr
        res = {t: None for t in theorems}
        for m in re.finditer(r"'([^']+)' depends on axioms: \[([^\]]*)\]", out, flags=re.S):
            res[m.group(1)] = [a.strip() for a in m.group(2).replace("\n", " ").split(",") if a.strip()]
        for m in re.finditer(r"'([^']+)' does not depend on any axioms", out):
            res[m.group(1)] = []
        return res, out


class Driver:
    """the compiled model driver (lean_exe); falls back to `lake env lean --run`"""

    def __init__(self):
        exe = os.path.join(LEAN, ".lake", "build", "bin", "driver")
        if os.path.exists(exe):
            self.cmd = [exe]
        else:
            self.cmd = ["lake", "env", "lean", "--run", "Driver.lean"]

    def run(self, lines, timeout=3000):
        data = "\n".join(json.dumps(l, ensure_ascii=False) for l in lines) + "\n"
        r = subprocess.run(self.cmd, cwd=LEAN, input=data.encode("utf-8"), capture_output=True, timeout=timeout)
        if r.returncode != 0:
            raise Infra("driver failed: " + r.stderr.decode("utf-8", "replace")[-2000:])
        outs = [json.loads(x) for x in r.stdout.decode("utf-8").splitlines() if x.strip()]
        if len(outs) != len(lines):
            raise Infra(f"driver returned {len(outs)} lines for {len(lines)} inputs")
        return outs


# --------------------------------------------------------------------------- helpers

def frac_s(x):
    from fractions import Fraction
    x = Fraction(x)
    return f"{x.numerator}/{x.denominator}"


def uc_j(d, sort=False):
    items = [[k, frac_s(v)] for k, v in d.items()]
    return sorted(items) if sort else items


ERR_ENUM = {
    "DimensionalityError": "DimensionalityError", "OffsetUnitCalculusError": "OffsetUnitCalculusError",
    "LogarithmicUnitCalculusError": "OffsetUnitCalculusError",
    "UndefinedUnitError": "UndefinedUnitError", "DefinitionSyntaxError": "DefinitionSyntaxError",
    "ValueError": "ValueError", "TypeError": "TypeError", "KeyError": "KeyError",
    "RecursionError": "RecursionError", "RedefinitionError": "RedefinitionError",
    "ZeroDivisionError": "ZeroDivisionError",
}


def err_name(exc):
    return ERR_ENUM.get(type(exc).__name__, "Other:" + type(exc).__name__)


def capture(fn, conv=lambda v: v):
    try:
        return {"ok": conv(fn())}
    except Exception as exc:  # noqa: BLE001
        return {"err": err_name(exc)}


def canon(x):
    return json.dumps(x, sort_keys=True, ensure_ascii=False)


# --------------------------------------------------------------------------- property base class

class Property:
    ID = "C00"
    PROPS_FILE = None          # e.g. "PintModel/Props/C04.lean"
    MODULE = None              # e.g. "PintModel.Props.C04"
    EXTRA_LEAN_FILES = []      # helper proof files scanned for forbidden constructs
    PARTIAL = []               # clauses compared only (runtime part)
    TRUSTED = []
    RULE = ""

    def __init__(self, tier, seed):
        self.tier = tier
        self.seed = seed
        self.rng = random.Random(seed * 7919 + 17)
        self.stats = {}

    def bump(self, k, n=1):
        self.stats[k] = self.stats.get(k, 0) + n

    # -- to override
    def cases(self):
        """list of cases: dict with at least 'ops' (driver lines); anything JSON-able"""
        return []

    def impl(self, case):
        """outputs of the real implementation, comparable with self.expect(case, model_outs)"""
        raise NotImplementedError

    def expect(self, case, model_outs):
        return model_outs

    def same(self, case, impl_out, model_out):
        return canon(impl_out) == canon(model_out)

    def oracle(self, case):
        """direct statement of the property on the real code; list of violation descriptions"""
        return []

    def nontrivial(self, case, impl_out):
        """hashable key when the case is non-trivial, else None"""
        return canon(case.get("ops"))

    def search_cases(self):
        """extra cases for the failing-input search (thorough generator)"""
        return []

    def table_obligations(self):
        """extra non-Lean obligations derived from the source, [(name, ok, detail)]"""
        return []


# --------------------------------------------------------------------------- known findings

def load_known():
    p = os.path.join(VERIF, "known_findings.json")
    if not os.path.exists(p):
        return []
    return json.load(open(p, encoding="utf-8")).get("findings", [])


def write_replay(pid, payload):
    os.makedirs(os.path.join(VERIF, "replays"), exist_ok=True)
    h = hashlib.sha256(canon(payload).encode()).hexdigest()[:12]
    path = os.path.join("replays", f"{pid}-{h}.json")
    with open(os.path.join(VERIF, path), "w", encoding="utf-8") as fh:
        json.dump(payload, fh, indent=1, ensure_ascii=False, sort_keys=True)
    return path


# --------------------------------------------------------------------------- main flow

def run(prop_cls, tier, seed, replay=None):
    t0 = time.time()
    pid = prop_cls.ID
    prop = prop_cls(tier, seed)
    known = [k for k in load_known() if k.get("property") == pid]
    known_open = [k for k in known if k.get("status") == "known"]
    lean = LeanSide()
    breaks = []          # (kind, name, detail)
    evidence_extra = {}

    if replay:
        payload = json.load(open(replay if os.path.isabs(replay) else os.path.join(VERIF, replay)))
        viol = []
        for c in payload.get("cases", []):
            viol += prop.oracle(c)
        if viol:
            print(f"VIOLATION property={pid} replay={replay}")
            for v in viol[:10]:
                print("  ", v)
            return 1
        print(f"replay {replay}: property holds on the recorded cases")
        return 0

    # 1. translator
    ok, out = lean.gen()
    if not ok:
        breaks.append(("BROKEN-PROOF", "translator", out))
    log("gen:", out[:200])

    # 2. build proofs + driver
    theorems = lean.theorems_of(prop.PROPS_FILE) if prop.PROPS_FILE else []
    for extra in getattr(prop, "EXTRA_PROPS_FILES", []):
        theorems += lean.theorems_of(extra)
    bok, bout, bsec = lean.lake(prop.MODULE, "driver")
    log(f"lake build {prop.MODULE} driver: ok={bok} {bsec:.1f}s")
    discharged = 0
    axioms_seen = set()
    if not bok:
        failing = sorted(set(re.findall(r"error: ([^\n]*)", bout)))[:20]
        files = sorted(set(re.findall(r"(PintModel/[\w/]+\.lean):\d+", bout)))
        breaks.append(("BROKEN-PROOF", ",".join(files) or "lake build", "\n".join(failing)[:3000]))
    else:
        hits = lean.forbidden_hits([prop.PROPS_FILE] + list(prop.EXTRA_LEAN_FILES) + list(getattr(prop, "EXTRA_PROPS_FILES", [])))
        if hits:
            breaks.append(("BROKEN-PROOF", "forbidden-construct", "; ".join(hits)))
        res, aout = lean.audit(pid, prop.MODULE, theorems)
        for t, ax in res.items():
            if ax is None:
                breaks.append(("BROKEN-PROOF", t, "theorem not found by #print axioms: " + aout[-500:]))
            elif not set(ax) <= ALLOWED_AXIOMS:
                breaks.append(("BROKEN-PROOF", t, f"axioms {ax}"))
            else:
                discharged += 1
                axioms_seen |= set(ax)
    extra_obl = prop.table_obligations()
    for name, ok_, detail in extra_obl:
        if not ok_:
            breaks.append(("BROKEN-PROOF", name, detail))

    # 3. correspondence
    cases = prop.cases()
    log(f"{len(cases)} cases")
    disagreements = []
    distinct = set()
    samples = []
    evaluations = 0
    model_ok = True
    model_outs = None
    if bok or os.path.exists(os.path.join(LEAN, ".lake", "build", "bin", "driver")):
        try:
            drv = Driver()
            flat, spans = [], []
            for c in cases:
                ops = c.get("ops", [])
                spans.append((len(flat), len(flat) + len(ops)))
                flat.extend(ops)
            outs = drv.run(flat) if flat else []
            model_outs = [outs[a:b] for a, b in spans]
        except Infra as e:
            model_ok = False
            breaks.append(("BROKEN-CORRESPONDENCE", "driver", str(e)))
    else:
        model_ok = False
    impl_outs = []
    for i, c in enumerate(cases):
        try:
            io = prop.impl(c)
        except Exception as exc:  # noqa: BLE001
            io = {"harness-exception": repr(exc), "tb": traceback.format_exc()[-800:]}
        impl_outs.append(io)
        evaluations += 1
        key = prop.nontrivial(c, io)
        if key is not None:
            distinct.add(key)
        if model_ok and model_outs is not None:
            mo = prop.expect(c, model_outs[i])
            if not prop.same(c, io, mo):
                disagreements.append({"case": c, "impl": io, "model": mo})
        if len(samples) < 5 and i % max(1, len(cases) // 5) == 0:
            samples.append({"case": {k: v for k, v in c.items() if k != "ops"} or c, "impl": io})
    if disagreements:
        breaks.append(("BROKEN-CORRESPONDENCE", f"{len(disagreements)} disagreement(s)", canon(disagreements[0])[:2000]))

    # 4. failing-input search (only when something broke) + always-on oracle on the cases
    violations = []
    oracle_runs = 0

    def is_known(v):
        return any(k.get("match") and k["match"] in v for k in known_open)

    known_hit = set()
    oracle_exceptions = []
    pool = list(cases)
    if breaks:
        pool = [d["case"] for d in disagreements] + pool + list(prop.search_cases())
    seen = set()
    for c in pool:
        ck = canon(c)
        if ck in seen:
            continue
        seen.add(ck)
        oracle_runs += 1
        try:
            vs = prop.oracle(c)
        except Exception as exc:  # noqa: BLE001
            vs = []
            oracle_exceptions.append(repr(exc)[:300])
            log("oracle exception", repr(exc), traceback.format_exc()[-600:])
        for v in vs:
            if is_known(v):
                known_hit.add(next(k["id"] for k in known_open if k.get("match") and k["match"] in v))
            else:
                violations.append({"what": v, "case": c})
        if len(violations) >= 20:
            break

    # 5. known findings replay
    known_lines = []
    for k in known_open:
        still = False
        try:
            for c in k.get("cases", []):
                if prop.oracle(c):
                    still = True
        except Exception:  # noqa: BLE001
            still = True
        if still or k["id"] in known_hit:
            known_lines.append(f"KNOWN-FINDING: property={pid} {k['id']} {k['what']}")

    # 6. verdict
    rc = 0
    replay_path = None
    if violations:
        replay_path = write_replay(pid, {"property": pid, "kind": "failing-input", "seed": seed, "tier": tier,
                                        "violations": [v["what"] for v in violations[:20]],
                                        "cases": [v["case"] for v in violations[:20]],
                                        "breaks": [list(b) for b in breaks][:10]})
        print(f"VIOLATION property={pid} replay={replay_path}")
        for v in violations[:5]:
            print("  ", v["what"][:400])
        rc = 1
    elif breaks:
        replay_path = write_replay(pid, {"property": pid, "kind": "no-failing-input-found", "seed": seed, "tier": tier,
                                        "breaks": [list(b) for b in breaks][:20],
                                        "cases": [d["case"] for d in disagreements[:20]],
                                        "disagreements": disagreements[:20]})
        print(f"VIOLATION property={pid} replay={replay_path} no-failing-input-found")
        for b in breaks[:5]:
            print("  ", b[0], b[1], str(b[2])[:600].replace("\n", " | "))
        rc = 1
    for l in known_lines:
        print(l)

    # 7. evidence
    obligations = len(theorems) + len(extra_obl)
    disch = discharged + sum(1 for _, ok_, _ in extra_obl if ok_)
    ev = {
        "property_id": pid, "tier": tier, "seed": seed, "level": "proof",
        "coverage": {
            "obligations": max(obligations, 1), "discharged": disch if obligations else 0,
            "checker_cmd": f"cd lean && lake build {prop.MODULE} && lake env lean ../build/Audit{pid}.lean  (#print axioms)",
            "trusted_base": ["Lean 4.33.0 kernel", "axioms: " + ", ".join(sorted(axioms_seen) or ["none"]),
                             "tools/gen.py + tools/defreader.py (translator)", "harness correspondence + oracle"] + list(prop.TRUSTED),
            "theorems": theorems,
            "evaluations": evaluations, "distinct_nontrivial": len(distinct), "rule": prop.RULE,
            "samples": samples[:5] or [{"note": "no cases"}],
            "disagreements_checked": len(disagreements), "oracle_runs": oracle_runs,
            "generated_tables": {k: v.get("sha256", "")[:16] for k, v in lean.gen_info.get("files", {}).items()},
            "distribution": prop.stats, "partial": list(prop.PARTIAL),
            "known_findings_replayed": [k["id"] for k in known_open],
            "breaks": [[b[0], b[1]] for b in breaks],
        },
        "assumptions": list(prop.TRUSTED),
        "wall_s": round(time.time() - t0, 2),
        "violations": len(violations) if violations else (1 if breaks else 0),
    }
    ev["coverage"].update(evidence_extra)
    os.makedirs(os.path.join(VERIF, "evidence"), exist_ok=True)
    with open(os.path.join(VERIF, "evidence", f"{pid}.json"), "w", encoding="utf-8") as fh:
        json.dump(ev, fh, indent=1, ensure_ascii=False)
    if oracle_exceptions and rc == 0:
        # an oracle that could not decide its case has not shown the property to hold there: no verdict (infrastructure)
        print(f"INFRA: {len(oracle_exceptions)} oracle call(s) raised instead of deciding, first: {oracle_exceptions[0]}")
        rc = 2
    log(f"{pid} {tier} seed={seed}: rc={rc} obligations={obligations} discharged={disch} cases={evaluations} "
        f"distinct={len(distinct)} disagreements={len(disagreements)} wall={time.time()-t0:.1f}s")
    return rc
