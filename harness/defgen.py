"""Random definition files (text) for generated registries: a DAG of units with rational factors,
prefixes, aliases, symbols, derived dimensions, offset units, groups and systems."""
from __future__ import annotations

from fractions import Fraction


def frac_txt(q: Fraction, rng) -> str:
    """a literal or small expression whose exact value is q"""
    q = Fraction(q)
    if q.denominator == 1:
        return str(q.numerator)
    r = rng.random()
    # finite decimal?
    d = q.denominator
    while d % 2 == 0:
        d //= 2
    while d % 5 == 0:
        d //= 5
    if d == 1 and r < 0.6:
        # exact decimal string
        n, den = q.numerator, q.denominator
        k = 0
        while den != 1:
            n *= 10
            k += 1
            g = _gcd(n, den)
            n //= g
            den //= g
        s = str(abs(n)).rjust(k + 1, "0")
        s = s[:-k] + "." + s[-k:] if k else s
        return ("-" if q < 0 else "") + s
    return f"{q.numerator} / {q.denominator}"


def _gcd(a, b):
    while b:
        a, b = b, a % b
    return abs(a)


class GenFile:
    def __init__(self, rng, n_units=12, with_groups=True, with_offset=True):
        self.rng = rng
        self.lines = []          # logical definition lines in canonical order
        self.unit_names = []
        self.base = []
        self.offset_units = []
        self.groups = {}
        self.systems = {}
        self.context = None
        self.defaults = None
        self.build(n_units, with_groups, with_offset)

    def build(self, n_units, with_groups, with_offset):
        rng = self.rng
        L = self.lines
        pref = [("kilo", "k", Fraction(1000)), ("milli", "m", Fraction(1, 1000)), ("mega", "M", Fraction(10 ** 6)),
                ("demi", None, Fraction(1, 2))]
        for name, sym, val in rng.sample(pref, rng.randint(2, 4)):
            parts = [f"{name}- = {frac_txt(val, rng)}"]
            if sym:
                parts.append(f"{sym}-")
            L.append(("prefix", " = ".join(parts)))
        dims = ["[length]", "[time]", "[mass]", "[temperature]"]
        bases = [("metre", "m", ["meter"]), ("second", "s", ["sec"]), ("gram", "g", []), ("kelvin", "K", [])]
        nb = rng.randint(2, 4)
        for (name, sym, aliases), dim in list(zip(bases, dims))[:nb]:
            L.append(("unit", " = ".join([name, dim, sym] + aliases)))
            self.unit_names.append(name)
            self.base.append(name)
        if rng.random() < 0.5:
            L.append(("unit", "cnt = []"))
            self.unit_names.append("cnt")
        derived = [("[area]", "[length] ** 2"), ("[speed]", "[length] / [time]"), ("[accel]", "[speed] / [time]"),
                   ("[force]", "[mass] * [accel]")]
        for d, e in derived[: rng.randint(0, 4)]:
            if all(x in [dd for _, dd in zip(bases, dims)][:nb] or x in [dn for dn, _ in derived] for x in
                   [t for t in e.replace("*", " ").replace("/", " ").split() if t.startswith("[")]):
                L.append(("dim", f"{d} = {e}"))
        syll = ["ba", "ko", "mi", "zu", "ter", "lon", "vek", "pra", "nul", "dex", "qua", "fi"]
        names = set(self.unit_names) | {"m", "s", "g", "K", "meter", "sec"}
        for i in range(n_units):
            while True:
                nm = rng.choice(syll) + rng.choice(syll) + (rng.choice(syll) if rng.random() < 0.3 else "")
                if nm not in names and not nm.endswith("s"):
                    break
            names.add(nm)
            k = rng.randint(1, 2)
            refs = rng.sample(self.unit_names, min(k, len(self.unit_names)))
            scale = Fraction(rng.choice([1, 2, 3, 5, 7, 12, 60, 254, 1000]), rng.choice([1, 1, 2, 3, 10, 100]))
            expr = frac_txt(scale, rng)
            for j, r in enumerate(refs):
                e = rng.choice([1, 1, 1, 2, -1, -2])
                spell = r
                if rng.random() < 0.2:
                    spell = "kilo" + r if any(p[1].startswith("kilo-") for p in L if p[0] == "prefix") else r
                term = spell if e == 1 else f"{spell} ** {e}"
                expr += (" * " if e > 0 or rng.random() < 0.5 else " * ") + term
            parts = [nm, expr]
            sym = None
            if rng.random() < 0.5:
                sym = nm[:2].upper() + str(i)
                parts.append(sym)
            elif rng.random() < 0.3:
                parts.append("_")
                sym = "_"
            if sym is not None:
                for _ in range(rng.randint(0, 2)):
                    al = nm + rng.choice(["_alt", "_x", "ish"]) + str(rng.randint(0, 9))
                    if al not in names:
                        names.add(al)
                        parts.append(al)
            L.append(("unit", " = ".join(parts)))
            self.unit_names.append(nm)
        if with_offset and "kelvin" in self.unit_names:
            for nm, s, o in [("degA", Fraction(1), Fraction(27315, 100)), ("degB", Fraction(5, 9), Fraction(45967, 180))][: rng.randint(1, 2)]:
                L.append(("unit", f"{nm} = {frac_txt(s, rng)} * kelvin; offset: {frac_txt(o, rng)} = {nm}sym"))
                self.unit_names.append(nm)
                self.offset_units.append(nm)
        if with_groups and len(self.unit_names) > 4:
            # units defined inside group blocks (a group's members are the units defined in it)
            refs = [u for u in self.unit_names if u not in self.offset_units]
            self.groups = {}
            for g, using in (("G1", []), ("G2", ["G1"])):
                members = []
                for j in range(rng.randint(1, 3)):
                    nm = f"{g.lower()}u{j}"
                    r = rng.choice(refs)
                    sc = Fraction(rng.choice([2, 3, 5, 12, 36]), rng.choice([1, 1, 4, 10]))
                    members.append((nm, f"{nm} = {frac_txt(sc, rng)} * {r} = {nm.upper()}"))
                    self.unit_names.append(nm)
                self.groups[g] = (using, members)
            self.systems = {"S1": (["G2"], [])}
            if rng.random() < 0.5:
                # a default group: it receives the units that no @group block defines
                # (both keys are optional: a block may give only one of them)
                self.defaults = rng.choice([{"group": "GD", "system": "S1"}, {"group": "GD", "system": "S1"}, {"group": "GD"}, {"system": "S1"}])
        # a context with a parameter default and a rule between two base dimensions of the file
        self.context = None
        if "metre" in self.base and "second" in self.base and rng.random() < 0.7:
            n = rng.choice(["1.5", "2", "0.25", "2.5", "3"])
            k = rng.choice(["3.5", "2", "0.5", "7"])
            self.context = {"name": "CX1", "alias": "cxa", "n": n, "k": k,
                            "lines": [f"@context(n={n}) CX1 = cxa", f"    [length] -> [time]: value * n * {k} * second / metre",
                                      "@end"]}

    def text(self, order=None, layout=None):
        """render; `order` permutes unit/prefix lines, `layout` varies spacing/comments"""
        rng = self.rng
        items = list(self.lines)
        if order is not None:
            movable = [i for i, (k, _) in enumerate(items) if k in ("unit", "prefix")]
            perm = movable[:]
            order.shuffle(perm)
            new = list(items)
            for src, dst in zip(movable, perm):
                new[dst] = items[src]
            items = new
        out = []
        for k, line in items:
            if layout is not None:
                if layout.random() < 0.3:
                    line = line.replace(" = ", "=")
                elif layout.random() < 0.3:
                    line = line.replace(" = ", "   =  ")
                if layout.random() < 0.2:
                    line = line + "   # a comment"
                if layout.random() < 0.15:
                    out.append("")
                if layout.random() < 0.1:
                    out.append("# standalone comment = not a definition")
            out.append(line)
        for g, (using, members) in self.groups.items():
            head = f"@group {g}" + (f" using {', '.join(using)}" if using else "")
            out.append(head)
            for _, line in members:
                out.append(f"    {line}")
            out.append("@end")
        for s_, (using, rules) in self.systems.items():
            out.append(f"@system {s_} using {', '.join(using)}")
            for r in rules:
                out.append(f"    {r}")
            out.append("@end")
        if self.context:
            out.extend(self.context["lines"])
        if self.defaults:
            out += ["@defaults"] + [f"    {k_} = {v_}" for k_, v_ in self.defaults.items()] + ["@end"]
        return "\n".join(out) + "\n"
