"""C13 — answers do not depend on query history: caches are transparent."""
from __future__ import annotations

import logging
from fractions import Fraction

from . import regs
from .core import Property, capture, frac_s, canon, err_name

SYSTEMS = ["SI", "mks", "cgs", "imperial", "US"]


class Check(Property):
    ID = "C13"
    PROPS_FILE = "PintModel/Props/C13.lean"
    MODULE = "PintModel.Props.C13Policy"
    EXTRA_PROPS_FILES = ["PintModel/Props/C13Policy.lean"]
    EXTRA_LEAN_FILES = ["PintModel/Proofs/CachePolicyLemmas.lean", "PintModel/Model/CachePolicy.lean"]
    RULE = ("histories of 6-25 operations on one registry drawn from: conversions (incl. -1/-2 exponent twins), "
            "parse_units, get_root_units, get_base_units (default and explicit system), dimensionality, compatible "
            "units, formatting, defining a new unit (also under a spelling already parsed as prefix+unit), switching "
            "the default system (incl. None), enabling/disabling a context with a redefinition, in-place arithmetic "
            "on a quantity whose dimensionality was read, and using a second registry; after the history every "
            "read-only probe is compared with the memo-free Lean model and with a fresh registry brought to the same "
            "declarative state; non-trivial = distinct histories containing a state change")
    PARTIAL = ["the model functions are memo-free (the specification); the memo discipline is proved generically (Props/C13) "
               "and for the memo architecture read from the source (Gen/CachePolicy: which tables a definition, a context "
               "switch and a default-system change empty, which are kept per context stack; Props/C13Policy: that policy "
               "covers every dependency, hence any history is answered like the specification); the tables' contents "
               "are compared with the specification after generated histories, not modelled entry by entry",
               "compatible-unit listings after a later define() and define() inside an active context are recorded "
               "findings F8c / F8e"]

    def gen_history(self, rng, P):
        units = P.rational
        steps = []
        n = rng.randint(6, 14) if self.tier == "quick" else rng.randint(10, 25)
        new_units = 0
        for _ in range(n):
            r = rng.random()
            if r < 0.22:
                a = rng.choice(units)
                d = tuple(sorted(P.proj.dimensionality({a: Fraction(1)}).items()))
                b = rng.choice([z for z in P.by_dim.get(d, [a]) if z in P.rational] or [a])
                e = rng.choice([1, -1, -2, 2])
                steps.append({"f": "convert", "src": [[a, f"{e}/1"]], "dst": [[b, f"{e}/1"]], "x": "3/2"})
                if rng.random() < 0.4:
                    steps.append({"f": "convert", "src": [[b, f"{e}/1"]], "dst": [[a, f"{e}/1"]], "x": "1/1"})
            elif r < 0.32:
                steps.append({"f": "parse", "s": rng.choice(["ab", "km", "kilometer/hour", "mV", "fm", "inch", "ms", "Pa", "cd",
                                                             "ab/second", "fm/hour", "meter/ab", "qx/second", "smoot/second", "zork/hour",
                                                             "kilometer", "millivolt", "millisecond", "femtometer", "megahertz"])})
            elif r < 0.44:
                steps.append({"f": "base", "u": [[rng.choice(units), "1/1"]], "system": rng.choice(SYSTEMS + [None, None])})
            elif r < 0.52:
                steps.append({"f": "root", "u": [[rng.choice(units), "1/1"]]})
            elif r < 0.58:
                steps.append({"f": "default_system", "s": rng.choice(SYSTEMS + [None])})
            elif r < 0.66 and new_units < 3:
                new_units += 1
                nm = rng.choice(["zork", "ab", "smoot", "fm", "qx", "mt", "ab", "fm"]) + ("" if new_units == 1 else str(new_units))
                if rng.random() < 0.7:
                    # the spelling (alone and inside compound expressions) is looked up before it is defined
                    for pre in rng.sample([nm, nm + "/second", "meter/" + nm], rng.randint(1, 3)):
                        steps.append({"f": "parse", "s": pre})
                    # ... and asked for its dimensionality / root units / base units under that spelling (memos keyed by spelling)
                    if nm in ("ab", "fm", "mt"):
                        for kind_ in rng.sample(["root", "dim", "base"], rng.randint(1, 3)):
                            st_ = {"f": kind_, "u": [[nm, "1/1"]]}
                            if kind_ == "base":
                                st_["system"] = None
                            steps.append(st_)
                    # ... a unit defined in terms of that spelling and the plural of the spelling are asked too: their memos do
                    # not mention the spelling that is about to change its meaning
                    if nm in ("ab", "fm", "mt") and rng.random() < 0.5:
                        dep = "dep" + nm
                        steps.append({"f": "define", "name": dep, "scale": "3/1", "ref": nm})
                        for kind_ in rng.sample(["root", "dim", "base"], rng.randint(1, 3)):
                            st_ = {"f": kind_, "u": [[dep, "1/1"]]}
                            if kind_ == "base":
                                st_["system"] = None
                            steps.append(st_)
                        if rng.random() < 0.5:
                            steps.append({"f": "parse", "s": nm + "s"})
                ref = rng.choice(["meter", "second", "gram"])
                steps.append({"f": "define", "name": nm, "scale": frac_s(Fraction(rng.choice([2, 5, 17]), rng.choice([1, 10]))), "ref": ref})
            elif r < 0.74:
                steps.append({"f": "context", "on": rng.random() < 0.6})
            elif r < 0.80:
                steps.append({"f": "inplace", "u": rng.choice(["meter", "second", "gram"]), "by": rng.choice(["second", "meter"])})
            elif r < 0.83:
                steps.append({"f": "other_registry"})
            elif r < 0.86:
                # an object converted through a context after its own dimensionality has been read (per-object memo)
                steps.append({"f": "ctxto", "src": rng.choice([["nanometer", "terahertz", "sp"], ["terahertz", "electron_volt", "sp"],
                                                               ["kelvin", "joule", "boltzmann"]])})
            elif r < 0.92:
                steps.append({"f": "dim", "u": [[rng.choice(units), "1/1"]]})
            else:
                steps.append({"f": "format", "u": [[rng.choice(units), "1/1"], ["second", "-1/1"]]})
        # a default-system change made while a context with redefinitions is active (and the answers asked before and after)
        if rng.random() < 0.5:
            un = rng.choice(["foot", "inch", "pound", "mile", rng.choice(units)])
            pat = [{"f": "base", "u": [[un, "1/1"]], "system": None}, {"f": "context", "on": True},
                   {"f": "default_system", "s": rng.choice(SYSTEMS)}]
            if rng.random() < 0.5:
                pat.append({"f": "base", "u": [[un, "1/1"]], "system": None})
            pat.append({"f": "context", "on": False})
            pos = rng.randint(0, len(steps))
            steps[pos:pos] = pat
        return steps

    def probes(self, rng, P, steps):
        units = P.rational
        defined = [s["name"] for s in steps if s["f"] == "define"]
        out = []
        tw = {"-1/1": "-2/1", "-2/1": "-1/1"}
        for s in steps:
            if s["f"] == "convert":
                # the opposite direction is asked first: a memo must not answer it from the direction the history asked
                out.append({"f": "convert", "x": "1/1", "src": s["dst"], "dst": s["src"]})
            if s["f"] in ("convert", "base", "root", "dim", "parse"):
                out.append(dict(s))
            if s["f"] == "ctxto":
                out.append({"f": "objdim", "i": sum(1 for z in steps[:steps.index(s) + 1] if z["f"] == "ctxto") - 1, "dst": s["src"][1]})
            if s["f"] == "base":
                # the same unit under the other systems / the default: a memo keyed without the system shows here
                out.append({"f": "base", "u": s["u"], "system": None})
                out.append({"f": "base", "u": s["u"], "system": rng.choice(SYSTEMS)})
            if s["f"] == "convert":
                # hash(-1) == hash(-2): a memo keyed by hashes confuses these twins
                out.append({"f": "convert", "x": s["x"], "src": [[k, tw.get(e, e)] for k, e in s["src"]],
                            "dst": [[k, tw.get(e, e)] for k, e in s["dst"]]})
        for nm in defined:
            out.append({"f": "parse", "s": nm})
            out.append({"f": "dim", "u": [[nm, "1/1"]]})
            out.append({"f": "base", "u": [[nm, "1/1"]], "system": None})
            out.append({"f": "parse", "s": nm + "/second"})     # compound expressions mentioning the new spelling
            out.append({"f": "parse", "s": "meter/" + nm})
            out.append({"f": "root", "u": [[nm, "1/1"]]})
            if not nm.startswith("dep"):
                out.append({"f": "parse", "s": nm + "s"})
        out.append({"f": "base", "u": [[rng.choice(units), "1/1"]], "system": None})
        out.append({"f": "convert", "src": [["foot", "1/1"]], "dst": [["meter", "1/1"]], "x": "1/1"})
        out.append({"f": "parse", "s": "ab"})
        # case-insensitive questions: names registered on the fly by earlier queries must not become visible to them
        # (asked first: the other probes register names on the fly in the reference registry too)
        ci = [{"f": "name_ci", "s": w} for w in rng.sample(["Kilometer", "KILOMETER", "millikilometer", "Millivolt", "MILLISECOND",
                                                             "Femtometer", "kilokm", "Megahertz", "microkilometer", "KM"], 4)]
        return ci + out

    def cases(self):
        P = regs.pools()
        rng = self.rng
        out = []
        for i in range(50 if self.tier == "quick" else 1500):
            steps = self.gen_history(rng, P)
            probes = self.probes(rng, P, steps)
            # model: replay only the declarative state changes, then answer the probes
            ops = [{"op": "reset"}]
            ctx_on = False
            ops.append({"op": "ctx", "f": "add", "ctx": {"name": "c13ctx", "aliases": [], "defaults": [], "rules": [],
                                                         "redefs": [{"name": "foot", "symbol": None, "aliases": [], "conv": {"kind": "scale", "scale": "1/2"},
                                                                     "ref": [["meter", "1/1"]], "is_base": False}]}})
            for s in steps:
                if s["f"] == "define":
                    if ctx_on:
                        continue        # define() inside an active context with redefinitions: finding F8e, not exercised
                    ops.append({"op": "define", "def": {"name": s["name"], "symbol": None, "aliases": [],
                                                       "conv": {"kind": "scale", "scale": s["scale"]}, "ref": [[s["ref"], "1/1"]], "is_base": False}})
                elif s["f"] == "default_system":
                    o = {"op": "gs", "f": "default_system"}
                    if s["s"]:
                        o["s"] = s["s"]
                    ops.append(o)
                elif s["f"] == "context":
                    if s["on"] and not ctx_on:
                        ops.append({"op": "ctx", "f": "enable", "names": ["c13ctx"], "kw": []})
                        ctx_on = True
                    elif not s["on"] and ctx_on:
                        ops.append({"op": "ctx", "f": "disable"})
                        ctx_on = False
            nstate = len(ops)
            for p in probes:
                if p["f"] == "convert":
                    ops.append({"op": "convert", "x": p["x"], "src": p["src"], "dst": p["dst"], "spelled": True})
                elif p["f"] == "parse":
                    ops.append({"op": "parse_units", "u": self.parse_uc(p["s"]), "as_delta": True})
                elif p["f"] == "base":
                    o = {"op": "gs", "f": "base", "u": p["u"]}
                    if p.get("system"):
                        o["system"] = p["system"]
                    ops.append(o)
                elif p["f"] == "root":
                    ops.append({"op": "root", "u": p["u"]})
                elif p["f"] == "dim":
                    ops.append({"op": "dim", "u": p["u"]})
                elif p["f"] == "name_ci":
                    ops.append({"op": "resolve", "s": p["s"], "cs": False})
                elif p["f"] == "objdim":
                    ops.append({"op": "dim", "u": [[p["dst"], "1/1"]]})      # the converted object has the destination's dimensionality
            ops.append({"op": "ctx", "f": "clear"})
            ops.append({"op": "reset"})
            self.bump("history")
            for s in steps:
                self.bump("step." + s["f"])
            out.append({"steps": steps, "probes": probes, "nstate": nstate, "ops": ops, "ctx_on": ctx_on})
        return out

    @staticmethod
    def parse_uc(s):
        if "/" in s:
            a, b = s.split("/")
            return [[a, "1/1"], [b, "-1/1"]]
        return [[s, "1/1"]]

    # ------------------------------------------------------------------ executing histories on real registries
    def apply_state(self, u, s, st):
        import pint
        if s["f"] == "define":
            if st.get("ctx_on"):
                return "skipped"        # define() while a context with redefinitions is active: finding F8e
            u.define(f"{s['name']} = {s['scale']} * {s['ref']}")
        elif s["f"] == "default_system":
            u.default_system = s["s"]
        elif s["f"] == "context":
            if s["on"] and not st.get("ctx_on"):
                u.enable_contexts("c13ctx")
                st["ctx_on"] = True
            elif not s["on"] and st.get("ctx_on"):
                u.disable_contexts()
                st["ctx_on"] = False
        return None

    def mkreg(self, tname="fraction"):
        import pint
        u = regs.fresh(tname)
        c = pint.Context.from_lines(["@context c13ctx", "    foot = 1/2 * meter"], u.get_dimensionality,
                                    non_int_type=Fraction if tname == "fraction" else float)
        u.add_context(c)
        return u

    def run_query(self, u, s):
        f = s["f"]
        if f == "convert":
            r = u.convert(Fraction(s["x"]), regs.pint_uc(u, s["src"], canonical=True), regs.pint_uc(u, s["dst"], canonical=True))
            return frac_s(Fraction(r)) if not isinstance(r, float) else {"float": r}
        if f == "parse":
            r = u.parse_units_as_container(s["s"])
            return [[k, frac_s(regs.to_frac(v))] for k, v in r.items()]
        if f == "base":
            ff, b = u.get_base_units(regs.pint_uc(u, s["u"], canonical=True), system=s.get("system"))
            return [frac_s(Fraction(ff)) if not isinstance(ff, float) else "float", sorted([k, frac_s(regs.to_frac(v))] for k, v in b._units.items())]
        if f == "root":
            ff, b = u.get_root_units(regs.pint_uc(u, s["u"], canonical=True), check_nonmult=False)
            return [frac_s(Fraction(ff)) if not isinstance(ff, float) else "float", sorted([k, frac_s(regs.to_frac(v))] for k, v in b._units.items())]
        if f == "dim":
            return sorted([k, frac_s(regs.to_frac(v))] for k, v in u.get_dimensionality(regs.pint_uc(u, s["u"])).items())
        if f == "name_ci":
            return u.get_name(s["s"], case_sensitive=False)
        if f == "objdim":
            obj = getattr(u, "_c13_objs", [])[s["i"]]
            return sorted([k, frac_s(regs.to_frac(v))] for k, v in obj.dimensionality.items())
        if f == "format":
            return format(u.Unit(regs.pint_uc(u, s["u"], canonical=True)), "~P")
        return None

    def run_history(self, c, with_queries=True, tname="fraction"):
        """-> (registry, probe answers)"""
        import numpy as np
        u = self.mkreg(tname)
        st = {}
        other = None
        logging.disable(logging.CRITICAL)
        try:
            for s in c["steps"]:
                try:
                    if s["f"] in ("define", "default_system", "context"):
                        self.apply_state(u, s, st)
                    elif s["f"] == "ctxto":
                        q = u.Quantity(Fraction(500), s["src"][0])
                        if with_queries:
                            q.dimensionality
                            q.check("[length]")
                        if not hasattr(u, "_c13_objs"):
                            u._c13_objs = []
                        u._c13_objs.append(q.to(s["src"][1], s["src"][2]))
                    elif not with_queries:
                        continue
                    elif s["f"] == "inplace":
                        q = u.Quantity(np.array([1.0, 2.0]), s["u"])
                        q.dimensionality
                        q *= u.Quantity(2.0, s["by"])
                        q.dimensionality
                    elif s["f"] == "other_registry":
                        other = regs.ureg("float")
                        other.Quantity(1, "mile").to("km")
                        other.parse_units("ab")
                    elif s["f"] == "compat":
                        u.get_compatible_units(s["u"][0][0])
                    else:
                        self.run_query(u, s)
                except Exception:  # noqa: BLE001
                    pass
            answers = [capture(lambda p=p: self.run_query(u, p)) for p in c["probes"]]
        finally:
            logging.disable(logging.NOTSET)
        return u, answers

    def impl(self, c):
        _, ans = self.run_history(c, with_queries=True)
        return [{"ok": None}] * c["nstate"] + ans + [{"ok": None}, {"ok": None}]

    def same(self, c, io, mo):
        if len(io) != len(mo):
            return False
        for i, m in zip(io[c["nstate"]:-2], mo[c["nstate"]:-2]):
            if m.get("err") == "Inexact":
                continue
            if "err" in i and "err" in m:
                continue
            if "ok" in i and "ok" in m:
                a, b = i["ok"], m["ok"]
                if isinstance(a, list) and a and a[0] == "float":
                    continue
                if isinstance(b, list) and len(b) == 2 and isinstance(b[1], list) and isinstance(a, list) and len(a) == 2:
                    if [a[0], sorted(a[1])] != [b[0], sorted(b[1])]:
                        return False
                    continue
                if isinstance(a, list) and isinstance(b, list):
                    if sorted(map(canon, a)) != sorted(map(canon, b)):
                        return False
                    continue
                if canon(a) != canon(b):
                    return False
                continue
            return False
        return True

    def nontrivial(self, c, io):
        if any(s["f"] in ("define", "default_system", "context", "inplace") for s in c["steps"]):
            return canon(c["steps"])
        return None

    # ------------------------------------------------------------------ oracle: fresh registry with the same declarative state
    def oracle(self, c):
        v = []
        u1, a1 = self.run_history(c, with_queries=True)
        u2, a2 = self.run_history(c, with_queries=False)
        for p, x, y in zip(c["probes"], a1, a2):
            if canon(x) != canon(y):
                v.append(f"C13 after the history {[s['f'] for s in c['steps']]} the probe {p} answers {x}, "
                         f"a registry that only saw the state changes answers {y}")
        # the same in a float registry: identical questions are answered by identical computations, so the answers are equal
        # bit for bit (and in type), whatever was asked before
        _, f1 = self.run_history(c, with_queries=True, tname="float")
        _, f2 = self.run_history(c, with_queries=False, tname="float")
        for p, x, y in zip(c["probes"], f1, f2):
            if canon(x) != canon(y):
                v.append(f"C13 [float registry] after the history {[s['f'] for s in c['steps']]} the probe {p} answers {x}, "
                         f"a registry that only saw the state changes answers {y}")
        if not getattr(self, "_fixed_probes_done", False):
            self._fixed_probes_done = True
            v += self.fixed_probes()
        # per-object dimensionality memo after in-place arithmetic
        import numpy as np
        q = u1.Quantity(np.array([1.0, 2.0]), "meter")
        q.dimensionality
        q *= u1.Quantity(2.0, "second")
        if dict(q.dimensionality) != {"[length]": 1, "[time]": 1}:
            v.append(f"C13 q.dimensionality after q *= second is {q.dimensionality} (stale per-object memo)")
        return v

    def fixed_probes(self):
        """declarative-state changes whose effect must equal a fresh registry with the same definitions"""
        import pint
        v = []
        logging.disable(logging.CRITICAL)
        try:
            u = regs.fresh("float")
            u.default_system = None
            u.get_compatible_units("meter")
            u.define("smoot = 1.7018 * meter")
            f = pint.UnitRegistry()
            f.default_system = None
            names = {str(x) for x in u.get_compatible_units("meter")}
            if "smoot" not in names:
                v.append("C13 define('smoot = 1.7018 * meter') after the registry was built: smoot is "
                         "missing from get_compatible_units('meter') although a registry built with that line lists it")
            # asking first for a dimensionality that no unit has does not change what a later definition does
            for asked_first in (False, True):
                u = regs.fresh("float")
                u.default_system = None
                if asked_first:
                    u.get_compatible_units("meter ** 7")
                try:
                    u.define("weird7 = 3 * meter ** 7")
                    got = sorted(str(x) for x in u.get_compatible_units("meter ** 7"))
                    val = u.Quantity(2.0, "weird7").to("meter ** 7").magnitude
                except Exception as exc:  # noqa: BLE001
                    got, val = type(exc).__name__, None
                if got != ["weird7"] or val != 6.0:
                    v.append(f"C13 define('weird7 = 3 * meter ** 7') {'after' if asked_first else 'without'} a query "
                             f"get_compatible_units('meter ** 7'): listing {got}, 2 weird7 = {val} m**7 (expected ['weird7'], 6.0)")
            # a prefix defined after spellings that need it were asked for (and refused): the answers equal those of a registry
            # that got the prefix first
            def prefix_answers(reg_):
                out = []
                for f in (lambda: "myriameter" in reg_, lambda: reg_.get_name("myriameter"), lambda: str(reg_.parse_units("mym")),
                          lambda: str(reg_.Quantity(3, "mym").to("meter")), lambda: str(reg_("2 myriameter / s").to_base_units()),
                          lambda: str(reg_.Quantity(1, "myriagrams").to("kilogram")), lambda: reg_.get_symbol("myriasecond")):
                    try:
                        out.append(f())
                    except Exception as exc:  # noqa: BLE001
                        out.append(type(exc).__name__)
                return out
            asked = regs.fresh("float")
            prefix_answers(asked)
            asked.define("myria- = 10000 = my-")
            first = regs.fresh("float")
            first.define("myria- = 10000 = my-")
            got, want = prefix_answers(asked), prefix_answers(first)
            if got != want:
                v.append(f"C13 prefix myria- defined after its spellings had been asked for: {got}; a registry that got the prefix first: {want}")
            # a refused context activation in between: definitions made afterwards take effect like in a registry that never saw it
            def redef_answers(reg_):
                out = []
                for f in (lambda: str(reg_.Quantity(1.0, "inch").to("centimeter")), lambda: str(reg_.get_root_units("inch")),
                          lambda: str(reg_.parse_units("smoot13s")), lambda: str(reg_.get_dimensionality("smoot13s")),
                          lambda: str(reg_.Quantity(2.0, "smoot13s").to_base_units()), lambda: str(reg_.get_base_units("inch"))):
                    try:
                        out.append(f())
                    except Exception as exc:  # noqa: BLE001
                        out.append(type(exc).__name__)
                return out
            hist = pint.UnitRegistry(on_redefinition="ignore")
            hist.define("smoot13 = 1.7 * meter")
            redef_answers(hist)
            bad = pint.Context("c13refused")
            bad.redefine("inch = 3 * second")
            hist.add_context(bad)
            try:
                with hist.context("c13refused"):
                    pass
            except Exception:  # noqa: BLE001
                pass
            plain = pint.UnitRegistry(on_redefinition="ignore")
            plain.define("smoot13 = 1.7 * meter")
            for r_ in (hist, plain):
                r_.define("inch = 3 * centimeter")
                r_.define("smoot13s = 5 * second")
            got, want = redef_answers(hist), redef_answers(plain)
            if got != want:
                v.append(f"C13 after a refused context activation, define('inch = 3 cm') and define('smoot13s = 5 s'): {got}; a registry that "
                         f"never saw the context: {want}")
            # compatible-unit listings asked inside a context (which adds the units the context makes reachable) leave the
            # listings outside the context as a fresh registry with the same definitions gives them
            for first in ("smoot13b = 1.7018 * meter", "blink13 = 3 * hertz", None):
                hist, plain_ = regs.fresh("float"), regs.fresh("float")
                for r_ in (hist, plain_):
                    r_.default_system = None
                    if first:
                        r_.define(first)
                with hist.context("sp"):
                    inside = {un: len(hist.get_compatible_units(un)) for un in ("meter", "hertz", "joule")}
                    hist.Quantity(1.0, "meter").compatible_units(), hist.meter.compatible_units()
                for un in ("meter", "hertz", "joule"):
                    got = sorted(str(x) for x in hist.get_compatible_units(un))
                    want = sorted(str(x) for x in plain_.get_compatible_units(un))
                    if got != want:
                        v.append(f"C13 after listing compatible units inside the context sp ({first or 'no definition'}): get_compatible_units({un!r}) has "
                                 f"{len(got)} units outside the context, a registry that never entered it {len(want)} (inside: {inside[un]})")
            # an alias given to a spelling that had been read as prefix + unit (or as a plural): every later answer about the spelling
            # is the one a registry gives that saw the alias line before any question
            for alias_line, sp, dst in (("@alias inch = cm", "cm", "mm"), ("@alias second = kgs", "kgs", "ms"), ("@alias gram = meters", "meters", "mg"),
                                        ("@alias mile = kilometre", "kilometre", "yard")):
                for tname in ("float", "fraction"):
                    hist, plain_ = regs.fresh(tname), regs.fresh(tname)

                    def ask(r_):
                        out = []
                        for fn in (lambda: dict(r_.parse_units(sp)._units), lambda: r_.Quantity(1, sp).to(dst).magnitude,
                                   lambda: r_.get_root_units(sp), lambda: dict(r_.get_dimensionality(sp)), lambda: str(r_.Unit(sp)),
                                   lambda: r_.convert(2, sp, dst), lambda: str(r_.get_base_units(sp)[1]), lambda: str(r_.parse_expression("3 " + sp).units)):
                            try:
                                out.append(str(fn()))
                            except Exception as exc:  # noqa: BLE001
                                out.append(type(exc).__name__)
                        return out
                    ask(hist)
                    try:
                        hist.define(alias_line), plain_.define(alias_line)
                    except Exception:  # noqa: BLE001
                        continue
                    got, want = ask(hist), ask(plain_)
                    if got != want:
                        v.append(f"C13 {sp!r} asked, then define({alias_line!r}), then asked again ({tname}): {got}; a registry that saw the alias "
                                 f"first answers {want}")
            # base units asked under an explicitly named OTHER system first: the answers under the default system afterwards are
            # those of a registry that was never asked
            for tname in ("float", "fraction"):
                for default in ("mks", "cgs", None):
                    hist, plain_ = regs.fresh(tname), regs.fresh(tname)
                    hist.default_system = plain_.default_system = default
                    for un in ("inch", "pound", "dyne", "hour", "newton"):
                        for other in SYSTEMS:
                            if other != default:
                                try:
                                    hist.get_base_units(un, system=other)
                                except Exception:  # noqa: BLE001
                                    pass
                        try:
                            got = (str(hist.get_base_units(un)), str(hist.Quantity(1, un).to_base_units()))
                            want = (str(plain_.get_base_units(un)), str(plain_.Quantity(1, un).to_base_units()))
                        except Exception as exc:  # noqa: BLE001
                            v.append(f"C13 base units of {un} (default system {default}) raised {type(exc).__name__}")
                            continue
                        if got != want:
                            v.append(f"C13 get_base_units({un!r}, system=<each other system>) asked first, default system {default} ({tname}): "
                                     f"get_base_units / to_base_units answer {got}; a registry never asked about other systems answers {want}")
            u = self.mkreg()
            with u.context("c13ctx"):
                u.define("zork = 2 * meter")
            try:
                u.Quantity(1, "zork").to("meter")
            except Exception as exc:  # noqa: BLE001
                v.append(f"C13 [known finding F8e] define('zork = 2 * meter') inside 'with ureg.context(c)' (c has a "
                         f"redefinition): after the block zork raises {type(exc).__name__}")
        finally:
            logging.disable(logging.NOTSET)
        return v
