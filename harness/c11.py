"""C11 — context conversions apply the declared rules along a shortest chain.
(also provides the generator and stepping machinery used by C12)"""
from __future__ import annotations

import itertools
import logging
from fractions import Fraction

from . import regs
from .core import Property, capture, frac_s, canon, err_name

BASE = {"[length]": "meter", "[time]": "second", "[mass]": "gram", "[current]": "ampere",
        "[temperature]": "kelvin", "[substance]": "mole", "[luminosity]": "candela"}
ALT = {"[length]": ["meter", "inch", "kilometer", "foot"], "[time]": ["second", "hour", "millisecond"],
       "[mass]": ["gram", "kilogram", "pound"], "[current]": ["ampere", "milliampere"],
       "[temperature]": ["kelvin", "degree_Rankine"], "[substance]": ["mole", "millimole"],
       "[luminosity]": ["candela"]}
_counter = itertools.count()


def gen_context(rng, dims, name, nrules, params):
    """-> dict describing a context with monomial rules between base dimensions"""
    rules = []
    seen = set()
    for _ in range(nrules):
        a, b = rng.sample(dims, 2)
        if (a, b) in seen:
            continue
        seen.add((a, b))
        vexp = rng.choice([1, 1, -1])
        num = Fraction(rng.choice([1, 2, 3, 5, 10]), rng.choice([1, 1, 2, 4]))
        units = {BASE[b]: 1}
        units[BASE[a]] = units.get(BASE[a], 0) + (-1 if vexp == 1 else 1)
        units = {k: v for k, v in units.items() if v != 0}
        ps = []
        if params and rng.random() < 0.5:
            ps.append((rng.choice(params), rng.choice([1, -1])))
        bidir = rng.random() < 0.25 and (b, a) not in seen and vexp == -1
        if bidir:
            seen.add((b, a))
        rules.append({"src": a, "dst": b, "num": frac_s(num), "units": units, "params": [list(x) for x in ps], "vexp": vexp, "bidir": bidir})
    used = sorted({x[0] for r in rules for x in r["params"]})      # pint rejects declared parameters no equation uses
    defaults = {p: frac_s(Fraction(rng.choice([1, 2, 3, 7]), rng.choice([1, 2]))) for p in used}
    redefs = []
    if rng.random() < 0.35:
        redefs.append(["foot", frac_s(Fraction(rng.choice([1, 2, 3]), rng.choice([2, 4, 10]))), "meter"])
    if rng.random() < 0.15:
        redefs.append(["pound", frac_s(Fraction(rng.choice([1, 2]), 2)), "kilogram"])
    return {"name": name, "aliases": [name + "_al"] if rng.random() < 0.5 else [], "defaults": defaults,
            "rules": rules, "redefs": redefs}


def eq_text(r):
    parts = []
    num = Fraction(r["num"])
    parts.append(f"{num.numerator}/{num.denominator}" if num.denominator != 1 else str(num.numerator))
    s = " * ".join(parts)
    for k, e in r["units"].items():
        s += f" * {k}" if e == 1 else (f" / {k}" if e == -1 else f" * {k} ** {e}")
    for p, e in r["params"]:
        s += f" * {p}" if e == 1 else f" / {p}"
    s += " * value" if r["vexp"] == 1 else " / value"
    return s


def ctx_lines(c):
    head = "@context"
    if c["defaults"]:
        head += "(" + ", ".join(f"{k}={v}" for k, v in c["defaults"].items()) + ")"
    head += " " + c["name"] + "".join(f" = {a}" for a in c["aliases"])
    lines = [head]
    for r in c["rules"]:
        arrow = "<->" if r["bidir"] else "->"
        lines.append(f"    {r['src']} {arrow} {r['dst']}: {eq_text(r)}")
    for n, f, ref in c["redefs"]:
        lines.append(f"    {n} = {f} * {ref}")
    return lines


def ctx_json(c):
    rules = []
    fid = 0
    for r in c["rules"]:
        def one(src, dst, r=r):
            nonlocal fid
            fid += 1
            return {"src": [[src, "1/1"]], "dst": [[dst, "1/1"]], "num": r["num"],
                    "units": [[k, frac_s(v)] for k, v in r["units"].items()],
                    "params": [[p, frac_s(e)] for p, e in r["params"]], "vexp": frac_s(r["vexp"]), "fid": frac_s(fid)}
        rules.append(one(r["src"], r["dst"]))
        if r["bidir"]:
            rules.append(one(r["dst"], r["src"]))
    redefs = [{"name": n, "symbol": None, "aliases": [], "conv": {"kind": "scale", "scale": f},
               "ref": [[ref, "1/1"]], "is_base": False} for n, f, ref in c["redefs"]]
    return {"name": c["name"], "aliases": c["aliases"], "defaults": [[k, v] for k, v in c["defaults"].items()],
            "rules": rules, "redefs": redefs}


def gen_case(rng, tier, with_bad=False):
    """a scenario: contexts + a sequence of steps (enable/disable/with/convert)"""
    uid = next(_counter)
    dims = rng.sample(list(BASE)[:5], rng.randint(3, 5))
    params = rng.sample(["n", "w", "k"], rng.randint(0, 2))
    ctxs = [gen_context(rng, dims, f"cx{uid}_{i}", rng.randint(1, 4), params) for i in range(rng.randint(1, 3))]
    names = [c["name"] for c in ctxs]
    steps = []
    depth = 0
    for _ in range(rng.randint(3, 8) if tier == "quick" else rng.randint(4, 14)):
        r = rng.random()
        if r < 0.3:
            k = rng.randint(1, min(2, len(ctxs)))
            chosen = [rng.choice([c["name"]] + c["aliases"]) for c in rng.sample(ctxs, k)]
            kw = {}
            if params and rng.random() < 0.4:
                kw[rng.choice(params)] = Fraction(rng.choice([1, 4, 9]), rng.choice([1, 3]))
            if with_bad and rng.random() < 0.25:
                chosen.append(rng.choice(["nosuchctx", f"bad{uid}"]))
            steps.append({"f": "enable", "names": chosen, "kw": [[k_, frac_s(v)] for k_, v in kw.items()]})
            depth += len(chosen)
        elif r < 0.45 and depth > 0:
            n = rng.choice([1, 1, 2, None, 0])      # (0: nothing is disabled)
            steps.append({"f": "disable", "n": n})
            depth = 0 if n is None else max(0, depth - n)
        else:
            a, b = rng.sample(dims, 2) if rng.random() < 0.8 else (dims[0], dims[0])
            src, dst = rng.choice(ALT[a]), rng.choice(ALT[b])
            st = {"f": "convert", "x": frac_s(Fraction(rng.choice([1, 2, 5, 10]), rng.choice([1, 1, 4]))), "src": src, "dst": dst}
            if rng.random() < 0.25:
                st["via"] = {"names": [rng.choice(names)], "kw": []}      # q.to(dst, ctx) / with-block form
            steps.append(st)
    return {"uid": uid, "contexts": ctxs, "steps": steps, "dims": dims}


def gen_raw(rng):
    """a context written on DERIVED dimensions and not normalised when it is built (Context.from_lines without
    to_base_func, or add_transformation): the registry normalises the rule endpoints at the first activation.  The first
    activation carries a parameter in some entry form; later ones do not (the declared default applies)."""
    a = Fraction(rng.choice([2, 3, 5, 7]), rng.choice([1, 2]))
    b = Fraction(rng.choice([3, 11]), rng.choice([1, 4]))
    dflt = Fraction(rng.choice([1, 3]), rng.choice([1, 2]))
    return {"kind": "raw", "uid": next(_counter), "a": frac_s(a), "b": frac_s(b), "dflt": frac_s(dflt),
            "build": rng.choice(["lines", "code"]),
            "first": rng.choice(["to", "with", "enable", "nested", None]), "first_n": frac_s(Fraction(rng.choice([2, 4]), rng.choice([1, 3]))),
            "x": frac_s(Fraction(rng.choice([1, 5, 10]), rng.choice([1, 4]))),
            "later": [rng.choice(["to", "with", "enable"]) for _ in range(rng.randint(1, 3))], "ops": []}


def run_raw(c):
    """-> list of (what, parameter in force, observed magnitude or error name) for the later, parameter-free activations"""
    import pint
    u = regs.fresh("fraction")
    a, b, dflt, x = Fraction(c["a"]), Fraction(c["b"]), Fraction(c["dflt"]), Fraction(c["x"])
    name = f"raw{c['uid']}"
    if c["build"] == "lines":
        ctx = pint.Context.from_lines([f"@context(n={dflt.numerator}/{dflt.denominator}) {name}",
                                       f"    [length] -> [frequency]: {a.numerator}/{a.denominator} * meter / second / n / value",
                                       f"    [frequency] -> [energy]: {b.numerator}/{b.denominator} * joule * second * value"],
                                      non_int_type=Fraction)
    else:
        ctx = pint.Context(name, defaults={"n": dflt})
        ctx.add_transformation("[length]", "[frequency]", lambda ureg, v, n: a * ureg.meter / ureg.second / n / v)
        ctx.add_transformation("[frequency]", "[energy]", lambda ureg, v, n: b * ureg.joule * ureg.second * v)
    u.add_context(ctx)
    q = u.Quantity(x, "meter")
    outer = pint.Context.from_lines(["@context(n=7) outer" + str(c["uid"]), "    [current] -> [time]: value * n * second / ampere"],
                                    u.get_dimensionality, non_int_type=Fraction)
    u.add_context(outer)

    def ask(form, kw):
        def hz():
            if form == "to":
                return q.to("hertz", name, **kw).magnitude, q.to("joule", name, **kw).magnitude
            if form == "with":
                with u.context(name, **kw):
                    return q.to("hertz").magnitude, q.to("joule").magnitude
            if form == "nested":
                with u.context(outer.name):
                    with u.context(name):
                        return q.to("hertz").magnitude, q.to("joule").magnitude
            u.enable_contexts(name, **kw)
            try:
                return q.to("hertz").magnitude, q.to("joule").magnitude
            finally:
                u.disable_contexts()
        r = capture(hz)
        return [frac_s(Fraction(z)) for z in r["ok"]] if "ok" in r else r
    logging.disable(logging.CRITICAL)
    try:
        out = []
        if c["first"] == "nested":
            out.append(["first", "7/1", ask("nested", {})])
        elif c["first"]:
            out.append(["first", c["first_n"], ask(c["first"], {"n": Fraction(c["first_n"])})])
        for form in c["later"]:
            out.append([form, c["dflt"], ask(form, {})])
        return out
    finally:
        logging.disable(logging.NOTSET)


def oracle_raw(c):
    v = []
    a, b, x = Fraction(c["a"]), Fraction(c["b"]), Fraction(c["x"])
    for what, n, got in run_raw(c):
        n = Fraction(n)
        want = [frac_s(a / n / x), frac_s(b * a / n / x)]
        if got != want:
            v.append(f"C11 context written on derived dimensions ({c['build']}), first activation {c['first']} "
                     f"(n={c['first_n'] if c['first'] not in (None, 'nested') else 'inherited' if c['first'] else '-'}): activation '{what}' with n={n} "
                     f"converts {x} meter to {got} [hertz, joule]; the rules [length]->[frequency]: {a}/n/value and "
                     f"[frequency]->[energy]: {b}*value give {want}")
    return v


def gen_chains(rng):
    """two chains of different length between the same pair of dimensions, with inconsistent factors:
    only the shortest one may be used"""
    uid = next(_counter)
    dims = rng.sample(list(BASE), 5)
    s, b, c_, x, t = dims
    short = [(s, t)] if rng.random() < 0.4 else [(s, b), (b, t)]
    long_ = [(s, c_), (c_, x), (x, t)] if len(short) == 2 or rng.random() < 0.5 else [(s, c_), (c_, t)]
    edges = short + long_
    rng.shuffle(edges)
    rules = []
    for a, d in edges:
        num = Fraction(rng.choice([2, 3, 5, 7, 11, 13]), rng.choice([1, 1, 2]))
        rules.append({"src": a, "dst": d, "num": frac_s(num), "units": {BASE[d]: 1, BASE[a]: -1}, "params": [], "vexp": 1,
                      "bidir": False})
    ctx = {"name": f"ch{uid}", "aliases": [], "defaults": {}, "rules": rules, "redefs": []}
    steps = [{"f": "enable", "names": [ctx["name"]], "kw": []}]
    for _ in range(2):
        steps.append({"f": "convert", "x": frac_s(Fraction(rng.choice([1, 2, 5]))), "src": rng.choice(ALT[s]), "dst": rng.choice(ALT[t])})
    steps.append({"f": "convert", "x": "1/1", "src": BASE[s], "dst": BASE[x]})
    steps.append({"f": "disable", "n": None})
    return {"uid": uid, "contexts": [ctx], "steps": steps, "dims": dims, "chains": [len(short), len(long_)]}


def model_ops(case):
    ops = [{"op": "reset"}]
    for c in case["contexts"]:
        ops.append({"op": "ctx", "f": "add", "ctx": ctx_json(c)})
    for s in case["steps"]:
        if s["f"] == "enable":
            ops.append({"op": "ctx", "f": "enable", "names": s["names"], "kw": s["kw"]})
        elif s["f"] == "disable":
            o = {"op": "ctx", "f": "disable"}
            if s["n"] is not None:
                o["n"] = frac_s(s["n"])
            ops.append(o)
        else:
            cv = {"op": "ctx", "f": "convert", "x": s["x"], "src": [[s["src"], "1/1"]], "dst": [[s["dst"], "1/1"]]}
            if "via" in s:
                ops.append({"op": "ctx", "f": "enable", "names": s["via"]["names"], "kw": s["via"]["kw"]})
                ops.append(cv)
                ops.append({"op": "ctx", "f": "disable", "n": frac_s(len(s["via"]["names"]))})
            else:
                ops.append(cv)
    ops.append({"op": "ctx", "f": "clear"})
    ops.append({"op": "reset"})
    return ops


class Runner:
    """executes a scenario on a real registry"""

    def __init__(self):
        self.u = regs.fresh("fraction")

    def active_j(self):
        return [[c.name, sorted([k, frac_s(Fraction(v))] for k, v in c.defaults.items())] for c in self.u._active_ctx.contexts]

    def run(self, case, probe=None):
        import pint
        u = self.u
        outs = [{"ok": None}]
        added = []
        logging.disable(logging.CRITICAL)
        try:
            for c in case["contexts"]:
                ctx = pint.Context.from_lines(ctx_lines(c), u.get_dimensionality, non_int_type=Fraction)
                u.add_context(ctx)
                added.append(ctx)
                outs.append({"ok": None})
            for s in case["steps"]:
                if s["f"] == "enable":
                    kw = {k: Fraction(v) for k, v in s["kw"]}
                    outs.append(capture(lambda: (u.enable_contexts(*s["names"], **kw), self.active_j())[1]))
                elif s["f"] == "disable":
                    outs.append(capture(lambda: (u.disable_contexts(s["n"]), self.active_j())[1]))
                else:
                    q = u.Quantity(Fraction(s["x"]), s["src"])

                    def conv():
                        if "via" in s:
                            r = q.to(s["dst"], *s["via"]["names"])
                        else:
                            r = q.to(s["dst"])
                        m = r.magnitude
                        return frac_s(Fraction(m)) if not isinstance(m, float) else {"float": m}
                    if "via" in s:
                        outs.append({"ok": "via"})
                    outs.append(capture(conv))
                    if "via" in s:
                        outs.append({"ok": "via"})
                if probe is not None:
                    probe(s)
        finally:
            try:
                u.disable_contexts()
            except Exception:  # noqa: BLE001
                pass
            for ctx in added:
                try:
                    u.remove_context(ctx.name)
                except Exception:  # noqa: BLE001
                    pass
            logging.disable(logging.NOTSET)
        outs.append({"ok": None})
        outs.append({"ok": None})
        return outs


def same_outputs(case, io, mo):
    if len(io) != len(mo):
        return False
    for i, m in zip(io, mo):
        if i == {"ok": "via"} or i == {"ok": None}:
            continue
        if "any" in m:
            if not any(canon(i) == canon(x) for x in m["any"]):
                # errors of different admissible paths
                return False
            continue
        if "ok" in m and isinstance(m["ok"], list) and m["ok"] and isinstance(m["ok"][0], str):
            if canon(i) != canon({"ok": m["ok"][0]}):
                return False
            continue
        if "err" in m and "err" in i:
            continue
        if canon(i) != canon(m):
            return False
    return True


class Check(Property):
    ID = "C11"
    PROPS_FILE = "PintModel/Props/C11.lean"
    EXTRA_LEAN_FILES = ["PintModel/Proofs/BfsLemmas.lean", "PintModel/Proofs/ParamLemmas.lean"]
    EXTRA_PROPS_FILES = ["PintModel/Props/C11Params.lean"]
    MODULE = "PintModel.Props.C11Params"
    RULE = ("scenarios: 1-3 generated contexts (monomial rules between 3-5 base dimensions, overlapping rules, "
            "parameters with defaults, aliases, unit redefinitions) with a random sequence of enable/disable, "
            "per-call `to(dst, ctx)` and conversion probes between units of the dimensions involved; plus the "
            "bundled contexts on their dimension pairs; the model gives the set of results over all shortest chains; "
            "non-trivial = distinct scenarios with at least one cross-dimension conversion")
    PARTIAL = ["rules with fractional powers (Gaussian/ESU contexts) are evaluated in float: oracle only",
               "which of several equally short chains is taken depends on Python's set order: the model returns the "
               "set of admissible results"]

    def cases(self):
        rng = self.rng
        out = []
        for _ in range(250 if self.tier == "quick" else 4000):
            c = gen_case(rng, self.tier)
            c["ops"] = model_ops(c)
            self.bump("scenario")
            self.bump("steps", len(c["steps"]))
            out.append(c)
        for _ in range(60 if self.tier == "quick" else 1000):
            c = gen_chains(rng)
            c["ops"] = model_ops(c)
            self.bump("competing chains")
            out.append(c)
        for _ in range(40 if self.tier == "quick" else 600):
            self.bump("derived-dimension context, first activation with/without a parameter")
            out.append(gen_raw(rng))
        for name, pairs in (("sp", [("nanometer", "terahertz"), ("terahertz", "electron_volt"), ("nanometer", "electron_volt"),
                                    ("reciprocal_centimeter", "nanometer"), ("electron_volt", "reciprocal_centimeter")]),
                            ("boltzmann", [("kelvin", "electron_volt"), ("joule", "kelvin")]),
                            ("energy", [("joule", "gram"), ("kilogram", "joule"), ("joule", "joule / mole")]),
                            ("textile", [("tex", "number_meter"), ("number_english", "tex")])):
            for a, b in pairs:
                self.bump("bundled")
                out.append({"bundled": name, "src": a, "dst": b, "ops": []})
        return out

    _runner = []

    def runner(self):
        if not self._runner:
            self._runner.append(Runner())
        return self._runner[0]

    def impl(self, c):
        if "bundled" in c or c.get("kind") == "raw":
            return []
        return self.runner().run(c)

    def same(self, c, io, mo):
        if "bundled" in c or c.get("kind") == "raw":
            return True
        return same_outputs(c, io, mo)

    def nontrivial(self, c, io):
        if c.get("kind") == "raw":
            return canon({k: v for k, v in c.items() if k != "uid"})
        if "bundled" in c:
            return canon([c["bundled"], c["src"], c["dst"]])
        if any(s["f"] == "convert" for s in c["steps"]):
            return c["uid"]
        return None

    # ------------------------------------------------------------------ oracle
    def entry_forms_probe(self):
        """one context with a parameter, entered in every way the property names (globally, with-block, per to() call, decorator),
        with the parameter given by keyword, inherited from an enclosing context, or left to the declared default: every form
        applies the same rule value"""
        import pint
        v = []
        try:
            u = pint.UnitRegistry(None, non_int_type=Fraction)
            for line in ("a11 = [A11]", "b11 = [B11]", "c11 = [C11]"):
                u.define(line)
            ctx = pint.Context("ctx11", defaults={"n": 5})
            ctx.add_transformation("[A11]", "[B11]", lambda ureg, x, n: x * n * ureg.Quantity(3, "b11 / a11"))
            ctx.add_transformation("[B11]", "[C11]", lambda ureg, x, n: x * n * ureg.Quantity(1, "c11 / b11"))
            u.add_context(ctx)
            outer = pint.Context("outer11", defaults={"n": 2})
            outer.add_transformation("[C11]", "[A11]", lambda ureg, x, n: x * ureg.Quantity(1, "a11 / c11"))
            u.add_context(outer)
            q = u.Quantity(2, "a11")

            def forms(kw):
                out = {}
                out["to(dst, ctx, **kw)"] = lambda dst: q.to(dst, "ctx11", **kw).magnitude

                def with_block(dst):
                    with u.context("ctx11", **kw):
                        return q.to(dst).magnitude
                out["with ureg.context(ctx, **kw)"] = with_block

                def enabled(dst):
                    u.enable_contexts("ctx11", **kw)
                    try:
                        return q.to(dst).magnitude
                    finally:
                        u.disable_contexts(1)
                out["enable_contexts(ctx, **kw)"] = enabled

                def decorated(dst):
                    @u.with_context("ctx11", **kw)
                    def f(x, dst_=None):
                        return x.to(dst_).magnitude
                    return f(q, dst_=dst)
                out["@ureg.with_context(ctx, **kw)"] = decorated

                def decorated_pos(dst):
                    @u.with_context("ctx11", **kw)
                    def f(x, d2):
                        return x.to(d2).magnitude
                    return f(q, dst)
                out["@ureg.with_context(ctx, **kw), positional call"] = decorated_pos
                return out
            for kw, n_alone, n_inside in (({}, 5, 2), ({"n": 7}, 7, 7)):
                for dst, power in (("b11", 1), ("c11", 2)):
                    for label, fn in forms(kw).items():
                        for enclosing, n in ((False, n_alone), (True, n_inside)):
                            want = Fraction(2) * 3 * Fraction(n) ** power
                            try:
                                if enclosing:
                                    with u.context("outer11"):
                                        got = fn(dst)
                                else:
                                    got = fn(dst)
                            except Exception as exc:  # noqa: BLE001
                                got = type(exc).__name__
                            if got != want:
                                v.append(f"C11 {label} with kw={kw}{' inside outer11(n=2)' if enclosing else ''}: 2 a11 -> {dst} = {got}, the rules with "
                                         f"n={n} give {want}")
            if u._active_ctx.contexts:
                v.append("C11 entry-forms probe: contexts left active")
            # the enclosing context need not have a rule of its own: a context that only holds parameters (or only redefines a unit)
            # still passes the value it was entered with on to the contexts enabled inside it
            holder = pint.Context("holder11", defaults={"n": 1})
            u.add_context(holder)
            for enc_name in ("holder11",):
                for dst, power in (("b11", 1), ("c11", 2)):
                    for label, fn in forms({}).items():
                        want = Fraction(2) * 3 * Fraction(4) ** power
                        try:
                            with u.context(enc_name, n=4):
                                got = fn(dst)
                        except Exception as exc:  # noqa: BLE001
                            got = type(exc).__name__
                        if got != want:
                            v.append(f"C11 {label} inside the rule-less context {enc_name}(n=4): 2 a11 -> {dst} = {got}, with the inherited n=4 the "
                                     f"rules give {want}")
            # a rule runs with the parameters of the context that OWNS it: an inner context with a colliding parameter name
            # (given by keyword) does not change what the outer context's rule computes, and vice versa
            pa = pint.Context("own_a", defaults={"n": 1})
            pa.add_transformation("[A11]", "[B11]", lambda ureg, x, n, **_: x * n * ureg.Quantity(1, "b11 / a11"))
            pb = pint.Context("own_b", defaults={"n": 1, "k": 1})
            pb.add_transformation("[B11]", "[C11]", lambda ureg, x, n, k, **_: x * n * k * ureg.Quantity(1, "c11 / b11"))
            u.add_context(pa), u.add_context(pb)
            with u.context("own_a", n=2):
                with u.context("own_b", n=5, k=3):
                    got = (u.Quantity(10, "a11").to("b11").magnitude, u.Quantity(10, "b11").to("c11").magnitude, u.Quantity(10, "a11").to("c11").magnitude)
            if got != (20, 150, 300):
                v.append(f"C11 own_a(n=2) > own_b(n=5, k=3): 10 a11 -> b11, 10 b11 -> c11, 10 a11 -> c11 = {got}; each rule with its own context's "
                         f"parameters gives (20, 150, 300)")
            got = (u.Quantity(10, "a11").to("b11", "own_a", n=4).magnitude,)
            u.enable_contexts("own_b", n=7)
            got += (u.Quantity(10, "a11").to("b11", "own_a", n=4).magnitude, u.Quantity(10, "a11").to("b11", "own_a").magnitude)
            u.disable_contexts()
            if got != (40, 40, 70):
                v.append(f"C11 to(dst, own_a, n=4) alone / inside own_b(n=7) / without keyword inside own_b(n=7) = {got}; expected (40, 40, 70)")
            # contexts given as OBJECTS without a name: each conversion follows the rules of the object it was given, and a rule
            # added to a context between two activations is used by the second one
            c1 = pint.Context()
            c1.add_transformation("[A11]", "[C11]", lambda ureg, x: x * ureg.Quantity(2, "c11 / a11"))
            c2 = pint.Context()
            c2.add_transformation("[A11]", "[C11]", lambda ureg, x: x * ureg.Quantity(5, "c11 / a11"))
            c3 = pint.Context()
            c3.add_transformation("[B11]", "[C11]", lambda ureg, x: x * ureg.Quantity(1, "c11 / b11"))
            q10 = u.Quantity(10, "a11")
            got = [q10.to("c11", c1).magnitude, q10.to("c11", c2).magnitude]
            try:
                q10.to("c11", c3)
                got.append("converted")
            except pint.DimensionalityError:
                got.append("refused")
            c3.add_transformation("[A11]", "[C11]", lambda ureg, x: x * ureg.Quantity(7, "c11 / a11"))
            got.append(q10.to("c11", c3).magnitude)
            with u.context(c1):
                got.append(q10.to("c11").magnitude)
            with u.context(c2):
                got.append(q10.to("c11").magnitude)
            if got != [20, 50, "refused", 70, 20, 50]:
                v.append(f"C11 unnamed context objects c1 (x2), c2 (x5), c3 (no rule, then x7): {got}; expected [20, 50, 'refused', 70, 20, 50]")
        except Exception as exc:  # noqa: BLE001
            v.append(f"C11 entry-forms probe raised {type(exc).__name__}: {exc}")
        return v[:8]

    def oracle(self, c):
        if not getattr(self, "_entry_done", False):
            self._entry_done = True
            ev = self.entry_forms_probe()
            if ev:
                return ev
        if c.get("kind") == "raw":
            return oracle_raw(c)
        if "bundled" in c:
            return self.oracle_bundled(c)
        return oracle_scenario(self, c)

    def oracle_bundled(self, c):
        import math
        v = []
        u = regs.ureg("float")
        try:
            with u.context(c["bundled"]):
                r = u.Quantity(2.0, c["src"]).to(c["dst"])
                back = r.to(c["src"])
            if not math.isclose(back.magnitude, 2.0, rel_tol=1e-9):
                v.append(f"C11 bundled {c['bundled']}: {c['src']} -> {c['dst']} -> back gives {back!r}")
            try:
                u.Quantity(2.0, c["src"]).to(c["dst"])
                if u.Quantity(1, c["src"]).dimensionality != u.Quantity(1, c["dst"]).dimensionality:
                    v.append(f"C11 bundled {c['bundled']}: conversion {c['src']} -> {c['dst']} succeeds outside the context")
            except Exception as exc:  # noqa: BLE001
                if type(exc).__name__ != "DimensionalityError":
                    v.append(f"C11 bundled: outside the context raised {type(exc).__name__}")
        except Exception as exc:  # noqa: BLE001
            v.append(f"C11 bundled {c['bundled']}: {c['src']} -> {c['dst']} raised {type(exc).__name__}: {exc}")
        return v


def oracle_scenario(check, c):
    """independent evaluation: stack of contexts, BFS over the union of rules, monomials in Fractions"""
    P = regs.pools()
    v = []
    ctx_by_name = {}
    for cx in c["contexts"]:
        for n in [cx["name"]] + cx["aliases"]:
            ctx_by_name[n] = cx
    stack = []      # list of (ctx, params) most recent first

    def chain_defaults():
        # "else from the enclosing active context": the most recently enabled one, which already carries what it inherited
        return stack[0][1] if stack else {}

    def plain_root(name):
        pf, uu = P.proj.resolve(name)
        f, _ = P.proj.root({uu["name"]: Fraction(1)})
        return f * (pf["value"] if pf else 1)

    def redef_factors():
        f = {}
        for cx, _ in reversed(stack):
            for n, fac, ref in cx["redefs"]:
                f[n] = Fraction(fac) * plain_root(ref)
        return f

    def root_factor(name):
        rf = redef_factors()
        if name in rf and rf[name] is not None:
            return rf[name]
        pf, uu = P.proj.resolve(name)
        f, _ = P.proj.root({uu["name"]: Fraction(1)})
        return f * (pf["value"] if pf else 1)

    def rule_for(a, b):
        for cx, pr in stack:
            for r in cx["rules"]:
                if (r["src"], r["dst"]) == (a, b):
                    return r, pr, False
                if r["bidir"] and (r["dst"], r["src"]) == (a, b):
                    return r, pr, True
        return None

    def all_shortest(a, b):
        edges = set()
        for cx, _ in stack:
            for r in cx["rules"]:
                edges.add((r["src"], r["dst"]))
                if r["bidir"]:
                    edges.add((r["dst"], r["src"]))
        frontier = [[a]]
        seen = {a}
        while frontier:
            found = [p for p in frontier if p[-1] == b]
            if found:
                return found
            nxt = []
            newseen = set()
            for p in frontier:
                for (x, y) in edges:
                    if x == p[-1] and y not in seen:
                        nxt.append(p + [y])
                        newseen.add(y)
            seen |= newseen
            frontier = nxt
        return []

    def dim_of(unit):
        pf, uu = P.proj.resolve(unit)
        d = P.proj.dimensionality({uu["name"]: Fraction(1)})
        return next(iter(d)) if len(d) == 1 else None

    runner = check.runner()
    u = runner.u
    import pint
    logging.disable(logging.CRITICAL)
    added = []
    try:
        for cx in c["contexts"]:
            ctx = pint.Context.from_lines(ctx_lines(cx), u.get_dimensionality, non_int_type=Fraction)
            u.add_context(ctx)
            added.append(ctx)
        for s in c["steps"]:
            if s["f"] == "enable":
                if any(n not in ctx_by_name for n in s["names"]):
                    before = [x.name for x in u._active_ctx.contexts]
                    try:
                        u.enable_contexts(*s["names"])
                        v.append(f"C11 scenario {c['uid']}: enabling unknown context {s['names']} did not raise")
                    except Exception:  # noqa: BLE001
                        pass
                    if [x.name for x in u._active_ctx.contexts] != before:
                        v.append(f"C11/C12 scenario {c['uid']}: failed activation {s['names']} changed the active stack")
                    continue
                kw = {k: Fraction(x) for k, x in s["kw"]}
                base = dict(chain_defaults())
                base.update(kw)
                new = []
                for n in s["names"]:
                    cx = ctx_by_name[n]
                    pr = {k_: Fraction(x_) for k_, x_ in cx["defaults"].items()}
                    pr.update(base)
                    new.append((cx, pr))
                try:
                    u.enable_contexts(*s["names"], **kw)
                except Exception as exc:  # noqa: BLE001
                    v.append(f"C11 scenario {c['uid']}: enable {s['names']} raised {type(exc).__name__}: {exc}")
                    continue
                stack = list(reversed(new)) + stack
                # the parameters in force for every active context: its own defaults, overridden by the enclosing chain's
                # values, overridden by the keyword arguments of this activation
                got_params = [(x.name, {k_: Fraction(v_) for k_, v_ in x.defaults.items()}) for x in u._active_ctx.contexts]
                want_params = [(cx["name"], {k_: v_ for k_, v_ in pr.items() if k_ in cx["defaults"] or k_ in kw or k_ in base}) for cx, pr in stack]
                for (gn, gp), (wn, wp) in zip(got_params, want_params):
                    if gn != wn or any(gp.get(k_) != v_ for k_, v_ in wp.items() if k_ in gp):
                        v.append(f"C11 scenario {c['uid']}: after enable {s['names']} {s['kw']} the active context {gn} has parameters "
                                 f"{ {k_: str(v_) for k_, v_ in gp.items()} }, expected {wn} with { {k_: str(v_) for k_, v_ in wp.items()} }")
                        break
            elif s["f"] == "disable":
                u.disable_contexts(s["n"])
                stack = [] if s["n"] is None else stack[s["n"]:]
            else:
                x = Fraction(s["x"])
                via = s.get("via")
                saved = list(stack)
                if via:
                    base = dict(chain_defaults())
                    for n in via["names"]:
                        cx = ctx_by_name[n]
                        pr = {k_: Fraction(x_) for k_, x_ in cx["defaults"].items()}
                        pr.update(base)
                        stack = [(cx, pr)] + stack
                da, db = dim_of(s["src"]), dim_of(s["dst"])
                try:
                    q = u.Quantity(x, s["src"])
                    got = (q.to(s["dst"], *via["names"]) if via else q.to(s["dst"])).magnitude
                    err = None
                except Exception as exc:  # noqa: BLE001
                    got, err = None, type(exc).__name__
                tag = f"C11 scenario {c['uid']} active={[cx['name'] for cx, _ in stack]}: {x} {s['src']} -> {s['dst']}"
                if da == db:
                    want = {x * root_factor(s["src"]) / root_factor(s["dst"])}
                    if err or Fraction(got) not in want:
                        v.append(f"{tag}: same-dimension conversion gives {got if err is None else err}, expected {want}")
                else:
                    paths = all_shortest(da, db)
                    if not paths:
                        if err != "DimensionalityError":
                            v.append(f"{tag}: unreachable target but got {got if err is None else err}")
                    else:
                        wants = set()
                        for p in paths:
                            val = x * root_factor(s["src"])      # in root units of dimension da
                            ok = True
                            for a, b in zip(p[:-1], p[1:]):
                                r, pr, rev = rule_for(a, b)
                                coef = Fraction(r["num"])
                                for k_, e in r["units"].items():
                                    coef *= P.root[k_][0] ** e
                                for pn, e in r["params"]:
                                    if pn not in pr or (pr[pn] == 0 and e < 0):
                                        ok = False
                                        break
                                    coef *= pr[pn] ** e
                                if not ok or (r["vexp"] == -1 and val == 0):
                                    ok = False
                                    break
                                val = coef * val if r["vexp"] == 1 else coef / val
                            if ok:
                                wants.add(val / root_factor(s["dst"]))
                        if wants and (err or Fraction(got) not in wants):
                            v.append(f"{tag}: got {got if err is None else err}, the rules along a shortest chain give {sorted(wants)[:3]}")
                stack = saved
    finally:
        try:
            u.disable_contexts()
        except Exception:  # noqa: BLE001
            pass
        for ctx in added:
            try:
                u.remove_context(ctx.name)
            except Exception:  # noqa: BLE001
                pass
        logging.disable(logging.NOTSET)
    return v
